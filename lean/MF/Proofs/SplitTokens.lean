/-
  MF.Proofs.SplitTokens — C12 at token level: `split` cuts the token stream of the lexer at the `;` tokens.

  1. `specPieces`     : the pieces as a function of the token list alone (no loop, no lexer state)
  2. `split_eq_spec`  : `split buf = finish (specPieces buf ts 0)` when `lexAll buf = .ok ts`
  3. partition theorems about `specPieces` on token lists satisfying `TokensOK` (and `TokensTrivia`),
     transported to `split`.
-/
import MF.Proofs.Split
import MF.Proofs.LexTrivia
namespace MF.Split
open MF.Lex

/-! ## 1. the specification on the token list -/

/-- where the piece after the `;` token `t` starts: at `startOf` of the next token of the list (there always is
one in a lexer result, at least `<eof>`; the `[]` case is only there for totality) -/
def nextStart (t : Token) : List Token → Nat
  | [] => t.end
  | n :: _ => startOf n

/-- pieces determined by the token stream: cut at every `;` token; a piece starts at the first leading comment of
its first token (else at the token) — for the very first piece at `firstPos` (0) — and ends at the `;` (or at
`<eof>`'s Pos; that last piece is dropped when empty) -/
def specPieces (buf : Bytes) : List Token → Nat → List Piece
  | [], _ => []
  | t :: ts, firstPos =>
    if t.kind = K ";" then
      { pos := firstPos, «end» := t.pos, statement := slice buf firstPos t.pos } ::
        specPieces buf ts (nextStart t ts)
    else if t.kind = .eof then
      if t.pos ≠ firstPos then [{ pos := firstPos, «end» := t.pos, statement := slice buf firstPos t.pos }] else []
    else specPieces buf ts firstPos

theorem semi_ne_eof : K ";" ≠ TokKind.eof := by simp [K]

theorem specPieces_semi {buf : Bytes} {t : Token} {ts : List Token} {fp : Nat} (h : t.kind = K ";") :
    specPieces buf (t :: ts) fp =
      { pos := fp, «end» := t.pos, statement := slice buf fp t.pos } :: specPieces buf ts (nextStart t ts) := by
  rw [specPieces, if_pos h]

theorem specPieces_eof {buf : Bytes} {t : Token} {ts : List Token} {fp : Nat} (h : t.kind = .eof) :
    specPieces buf (t :: ts) fp =
      if t.pos ≠ fp then [{ pos := fp, «end» := t.pos, statement := slice buf fp t.pos }] else [] := by
  rw [specPieces, if_neg (by rw [h]; exact semi_ne_eof.symm), if_pos h]

theorem specPieces_other {buf : Bytes} {t : Token} {ts : List Token} {fp : Nat} (h1 : t.kind ≠ K ";")
    (h2 : t.kind ≠ .eof) : specPieces buf (t :: ts) fp = specPieces buf ts fp := by
  rw [specPieces, if_neg h1, if_neg h2]

/-! ## 2. the loop computes the specification -/

theorem splitLoop_semi {buf : Bytes} {fuel : Nat} {s s' : State} {firstPos : Nat} {pacc : List Piece}
    (hsemi : s.tok.kind = K ";") (h3 : firstPos ≤ s.tok.pos) (h4 : s.tok.pos ≤ buf.length)
    (hn : nextToken buf false s = .ok s') :
    splitLoop buf (fuel + 1) s firstPos pacc = splitLoop buf fuel s' (startOf s'.tok)
      (pacc ++ [{ pos := firstPos, «end» := s.tok.pos, statement := slice buf firstPos s.tok.pos }]) := by
  have hb : (s.tok.kind == K ";") = true := by simpa using hsemi
  rw [splitLoop]
  simp only [hb, if_true, slice?_of_le h3 h4, hn]

theorem splitLoop_other {buf : Bytes} {fuel : Nat} {s s' : State} {firstPos : Nat} {pacc : List Piece}
    (hsemi : s.tok.kind ≠ K ";") (hn : nextToken buf false s = .ok s') (hk : s'.tok.kind ≠ .eof) :
    splitLoop buf (fuel + 1) s firstPos pacc = splitLoop buf fuel s' firstPos pacc := by
  have hb : (s.tok.kind == K ";") = false := by simpa using hsemi
  have hk' : (s'.tok.kind == TokKind.eof) = false := by simpa using hk
  rw [splitLoop]
  simp only [hb, Bool.false_eq_true, if_false, hn, hk']

theorem splitLoop_last {buf : Bytes} {fuel : Nat} {s s' : State} {firstPos : Nat} {pacc : List Piece}
    (hsemi : s.tok.kind ≠ K ";") (hn : nextToken buf false s = .ok s') (hk : s'.tok.kind = .eof)
    (h3 : firstPos ≤ s'.tok.pos) (h4 : s'.tok.pos ≤ buf.length) :
    splitLoop buf (fuel + 1) s firstPos pacc = finish (pacc ++ (if s'.tok.pos ≠ firstPos then
        [{ pos := firstPos, «end» := s'.tok.pos, statement := slice buf firstPos s'.tok.pos }] else [])) := by
  have hb : (s.tok.kind == K ";") = false := by simpa using hsemi
  rw [splitLoop]
  simp only [hb, Bool.false_eq_true, if_false, hn, hk, beq_self_eq_true, if_true]
  by_cases hc : s'.tok.pos = firstPos
  · simp [hc]
  · have : (s'.tok.pos != firstPos) = true := by simpa using hc
    simp only [this, if_true, ne_eq, hc, not_false_eq_true]
    rw [slice?_of_le h3 h4]

/-- the loop, entered with `<eof>` as current token at the end of the input, fetches `<eof>` once more and stops -/
theorem splitLoop_at_eof {buf : Bytes} {fuel : Nat} {s : State} {firstPos : Nat} {pacc : List Piece}
    (hk : s.tok.kind = .eof) (hp : s.pos = buf.length) (hfp : firstPos ≤ buf.length) :
    splitLoop buf (fuel + 1) s firstPos pacc =
      finish (pacc ++ (if buf.length ≠ firstPos then
        [{ pos := firstPos, «end» := buf.length, statement := slice buf firstPos buf.length }] else [])) := by
  obtain ⟨s'', e1, e2, _, _, e5⟩ := eof_stable (buf := buf) (np := false) (s := s) hp
  rw [splitLoop_last (by rw [hk]; exact semi_ne_eof.symm) e1 e2 (by omega) (by omega), e5]

theorem splitLoop_eq_spec {buf : Bytes} {f1 : Nat} :
    ∀ {s : State} {acc new : List Token} {f2 firstPos : Nat} {pacc : List Piece},
    s.tok.pos ≤ s.pos → s.pos ≤ buf.length → firstPos ≤ s.tok.pos → need buf s ≤ f2 → s.tok.kind ≠ .eof →
    lexAllFrom buf f1 s acc = .ok (acc.reverse ++ new) →
    splitLoop buf f2 s firstPos pacc = finish (pacc ++ specPieces buf (s.tok :: new) firstPos) := by
  induction f1 with
  | zero => intros; simp_all [lexAllFrom]
  | succ f1 ih =>
    intro s acc new f2 firstPos pacc h1 h2 h3 hf hke h
    have hneedS : need buf s = buf.length - s.pos + 2 := by
      unfold need; simp [hke]
    cases f2 with
    | zero => omega
    | succ f2 =>
    simp only [lexAllFrom] at h
    cases hn : nextToken buf false s with
    | crash => simp [hn] at h
    | err e => simp [hn] at h
    | ok s' =>
      simp only [hn] at h
      have fr := nextToken_frame hn
      have pg := nextToken_progress hn h2
      have hs1 : s'.tok.pos ≤ s'.pos := by have := fr.tok_le; have := fr.tok_end; omega
      have hfp : firstPos ≤ s'.tok.pos := by
        have := fr.space_le
        have := (CommentsOK_le fr.comments).1
        omega
      have so := startOf_le fr
      have hle := fr.le_len
      by_cases hk : s'.tok.kind = .eof
      · -- the lexer stops here: `new = [s'.tok]`
        simp only [hk, beq_self_eq_true, if_true, List.reverse_cons, LexAll.ok.injEq] at h
        have hnew : new = [s'.tok] := (List.append_cancel_left h).symm
        subst hnew
        have hpe := pg.1 hk
        by_cases hsemi : s.tok.kind = K ";"
        · have hf2 : ∃ f3, f2 = f3 + 1 := ⟨f2 - 1, by omega⟩
          obtain ⟨f3, rfl⟩ := hf2
          rw [splitLoop_semi hsemi h3 (by omega) hn, splitLoop_at_eof hk hpe.2 (by omega)]
          rw [specPieces_semi hsemi, specPieces_eof hk]
          simp only [nextStart, hpe.1, List.append_assoc, List.singleton_append]
        · rw [splitLoop_last hsemi hn hk hfp (by omega)]
          rw [specPieces_other hsemi hke, specPieces_eof hk]
      · have hk' : (s'.tok.kind == TokKind.eof) = false := by simpa using hk
        simp only [hk', Bool.false_eq_true, if_false] at h
        obtain ⟨new', hn1, _, _⟩ := lexAllFrom_ok h fr.le_len
        have hnew : new = s'.tok :: new' := by
          rw [List.reverse_cons, List.append_assoc] at hn1
          exact List.append_cancel_left hn1
        subst hnew
        have h' : lexAllFrom buf f1 s' (s'.tok :: acc) = .ok ((s'.tok :: acc).reverse ++ new') := by
          rw [h]; simp
        have hneed : need buf s' ≤ f2 := by
          have := pg.2.2.1 hk
          unfold need
          have : ¬(s'.tok.kind = .eof ∧ s'.pos = buf.length) := fun hh => hk hh.1
          simp only [this, if_false]
          omega
        by_cases hsemi : s.tok.kind = K ";"
        · rw [splitLoop_semi hsemi h3 (by omega) hn, ih hs1 fr.le_len so.2 hneed hk h']
          rw [specPieces_semi hsemi]
          simp only [nextStart, List.append_assoc, List.singleton_append]
        · rw [splitLoop_other hsemi hn hk, ih hs1 fr.le_len hfp hneed hk h']
          rw [specPieces_other hsemi hke]

/-- C12: the pieces are exactly those determined by the token stream -/
theorem split_eq_spec {buf : Bytes} {ts : List Token} (h : lexAll buf = .ok ts) :
    split buf = finish (specPieces buf ts 0) := by
  unfold split
  unfold lexAll at h
  have := splitLoop_eq_spec (buf := buf) (f1 := buf.length + 2) (s := init) (acc := []) (new := ts)
    (f2 := buf.length + 3) (firstPos := 0) (pacc := []) (by simp [init]) (by simp [init]) (by simp [init])
    (by unfold need; split <;> simp [init] <;> omega) (by simp [init]) (by simpa using h)
  rw [this, specPieces_other (by simp [init, K]; decide) (by simp [init]), List.nil_append]

/-! ## 3. facts about token lists -/

/-- what `TokensOK` says about one token of the list (`p` is a lower bound for where its trivia starts) -/
structure TokFacts (buf : Bytes) (p : Nat) (t : Token) : Prop where
  start_ge : p ≤ startOf t
  start_le : startOf t ≤ t.pos
  pos_le : t.pos ≤ t.end
  end_le : t.end ≤ buf.length
  nonempty : t.kind ≠ .eof → t.pos < t.end
  eof_pos : t.kind = .eof → t.pos = buf.length
  comments : ∀ c ∈ t.comments, startOf t ≤ c.pos ∧ c.pos < c.end ∧ c.end ≤ t.pos

theorem TokFacts.mono {buf : Bytes} {p q : Nat} {t : Token} (h : TokFacts buf q t) (hpq : p ≤ q) :
    TokFacts buf p t :=
  ⟨Nat.le_trans hpq h.start_ge, h.start_le, h.pos_le, h.end_le, h.nonempty, h.eof_pos, h.comments⟩

theorem CommentsOK_mem {buf : Bytes} {p : Nat} {cs : List Comment} {c : Comment}
    (h : CommentsOK buf p cs) (hc : c ∈ cs) : p ≤ c.pos ∧ c.pos < c.end ∧ c.end ≤ lastEnd p cs := by
  induction cs generalizing p with
  | nil => cases hc
  | cons d ds ih =>
    simp only [CommentsOK, lastEnd] at h ⊢
    obtain ⟨a, b, _, _, _, f⟩ := h
    rcases List.mem_cons.1 hc with rfl | hc
    · exact ⟨a, b, (CommentsOK_le f).1⟩
    · have := ih f hc
      omega

theorem TokensOK_head {buf : Bytes} {p : Nat} {t : Token} {ts : List Token} (h : TokensOK buf p (t :: ts)) :
    TokFacts buf p t ∧ (t.kind = .eof ↔ ts = []) ∧ TokensOK buf t.end ts := by
  simp only [TokensOK] at h
  obtain ⟨c1, c2, _, _, c5, c6, c7, c8, c9, c10⟩ := h
  refine ⟨?_, c7, c10⟩
  have hs : p ≤ startOf t ∧ startOf t ≤ t.pos ∧
      ∀ c ∈ t.comments, startOf t ≤ c.pos ∧ c.pos < c.end ∧ c.end ≤ t.pos := by
    cases hc : t.comments with
    | nil =>
      rw [hc] at c2
      simp only [lastEnd] at c2
      simp only [startOf, hc]
      exact ⟨c2, Nat.le_refl _, fun c hcm => (by cases hcm)⟩
    | cons c0 cs =>
      rw [hc] at c1 c2
      have hm := fun c (hcm : c ∈ c0 :: cs) => CommentsOK_mem c1 hcm
      simp only [CommentsOK, lastEnd] at c1 c2 hm
      have hl := CommentsOK_le c1.2.2.2.2.2
      simp only [startOf, hc]
      refine ⟨c1.1, by omega, ?_⟩
      intro c hcm
      have h0 := hm c hcm
      rcases List.mem_cons.1 hcm with rfl | hcm'
      · omega
      · have := CommentsOK_mem c1.2.2.2.2.2 hcm'
        omega
  exact ⟨hs.1, hs.2.1, c5, c6, c8, fun hh => (c9 hh).1, hs.2.2⟩

theorem TokensOK_mem {buf : Bytes} {p : Nat} {ts : List Token} {t : Token} (h : TokensOK buf p ts) (ht : t ∈ ts) :
    TokFacts buf p t := by
  induction ts generalizing p with
  | nil => cases ht
  | cons t0 ts ih =>
    obtain ⟨f0, _, hts⟩ := TokensOK_head h
    rcases List.mem_cons.1 ht with rfl | ht
    · exact f0
    · exact (ih hts ht).mono (by have := f0.start_ge; have := f0.start_le; have := f0.pos_le; omega)

/-- the tokens of the tail start after the head -/
theorem TokensOK_mem_tail {buf : Bytes} {p : Nat} {t0 t : Token} {ts : List Token} (h : TokensOK buf p (t0 :: ts))
    (ht : t ∈ ts) : TokFacts buf t0.end t :=
  TokensOK_mem (TokensOK_head h).2.2 ht

theorem TokensOK_tail_ne {buf : Bytes} {p : Nat} {t : Token} {ts : List Token} (h : TokensOK buf p (t :: ts))
    (hk : t.kind ≠ .eof) : ts ≠ [] := fun hh => hk ((TokensOK_head h).2.1.2 hh)

/-- spaces in front of every comment and every token are whitespace runes, comments are complete -/
def TokensTrivia (buf : Bytes) : Nat → List Token → Prop
  | _, [] => True
  | p, t :: ts => TriviaOK buf p t.comments ∧ AllSpaceIn buf (lastEnd p t.comments) t.pos ∧
      TokensTrivia buf t.end ts

theorem lexAllFrom_trivia {buf : Bytes} {fuel : Nat} {s : State} {acc new : List Token}
    (h : lexAllFrom buf fuel s acc = .ok (acc.reverse ++ new)) : TokensTrivia buf s.pos new := by
  induction fuel generalizing s acc new with
  | zero => simp [lexAllFrom] at h
  | succ fuel ih =>
    simp only [lexAllFrom] at h
    cases hn : nextToken buf false s with
    | crash => simp [hn] at h
    | err e => simp [hn] at h
    | ok s' =>
      simp only [hn] at h
      have fr := nextToken_frame hn
      have tr := nextToken_trivia hn
      by_cases hk : s'.tok.kind = .eof
      · simp only [hk, beq_self_eq_true, if_true, List.reverse_cons, LexAll.ok.injEq] at h
        have hnew : new = [s'.tok] := (List.append_cancel_left h).symm
        subst hnew
        exact ⟨tr.1, tr.2, trivial⟩
      · have hk' : (s'.tok.kind == TokKind.eof) = false := by simpa using hk
        simp only [hk', Bool.false_eq_true, if_false] at h
        obtain ⟨new', hn1, _, _⟩ := lexAllFrom_ok h fr.le_len
        have hnew : new = s'.tok :: new' := by
          rw [List.reverse_cons, List.append_assoc] at hn1
          exact List.append_cancel_left hn1
        subst hnew
        have h' : lexAllFrom buf fuel s' (s'.tok :: acc) = .ok ((s'.tok :: acc).reverse ++ new') := by
          rw [h]; simp
        refine ⟨tr.1, tr.2, ?_⟩
        rw [fr.tok_end]
        exact ih h'

/-- C13 (8), (9) for the whole token list -/
theorem lexAll_trivia {buf : Bytes} {ts : List Token} (h : lexAll buf = .ok ts) : TokensTrivia buf 0 ts := by
  unfold lexAll at h
  exact lexAllFrom_trivia (s := init) (acc := []) (by simpa using h)

theorem TokensTrivia_head {buf : Bytes} {p : Nat} {t : Token} {ts : List Token} (h : TokensTrivia buf p (t :: ts)) :
    AllSpaceIn buf p (startOf t) ∧ TokensTrivia buf t.end ts := by
  obtain ⟨h1, h2, h3⟩ := h
  refine ⟨?_, h3⟩
  cases hc : t.comments with
  | nil => rw [hc] at h2; simpa only [startOf, hc, lastEnd] using h2
  | cons c0 cs => rw [hc] at h1; simpa only [startOf, hc] using h1.1

/-- `firstPos` is not after the start of the next token's trivia -/
def FpOK (fp : Nat) : List Token → Prop
  | [] => True
  | t :: _ => fp ≤ startOf t

theorem FpOK_of_le {buf : Bytes} {p fp : Nat} {ts : List Token} (h : TokensOK buf p ts) (hfp : fp ≤ p) : FpOK fp ts := by
  cases ts with
  | nil => trivial
  | cons t ts => exact Nat.le_trans hfp (TokensOK_head h).1.start_ge

theorem FpOK_tail {buf : Bytes} {p fp : Nat} {t : Token} {ts : List Token} (h : TokensOK buf p (t :: ts))
    (hfp : FpOK fp (t :: ts)) : FpOK fp ts := by
  obtain ⟨f0, _, hts⟩ := TokensOK_head h
  refine FpOK_of_le hts ?_
  have : fp ≤ startOf t := hfp
  have := f0.start_le; have := f0.pos_le
  omega

theorem FpOK_next {t : Token} {ts : List Token} : FpOK (nextStart t ts) ts := by
  cases ts with
  | nil => trivial
  | cons n ts => exact Nat.le_refl _

theorem nextStart_ge {buf : Bytes} {p : Nat} {t : Token} {ts : List Token} (h : TokensOK buf p (t :: ts)) :
    t.end ≤ nextStart t ts := by
  cases ts with
  | nil => exact Nat.le_refl _
  | cons n ts => exact (TokensOK_head (TokensOK_head h).2.2).1.start_ge

theorem FpOK_mem {buf : Bytes} {p fp : Nat} {ts : List Token} {t : Token} (h : TokensOK buf p ts) (hfp : FpOK fp ts)
    (ht : t ∈ ts) : fp ≤ startOf t := by
  cases ts with
  | nil => cases ht
  | cons t0 ts =>
    rcases List.mem_cons.1 ht with rfl | ht
    · exact hfp
    · have f0 := (TokensOK_head h).1
      have := (TokensOK_mem_tail h ht).start_ge
      have : fp ≤ startOf t0 := hfp
      have := f0.start_le; have := f0.pos_le
      omega

/-! ## 4. the partition, on `specPieces` -/

theorem specPieces_head_pos {buf : Bytes} {ts : List Token} {fp : Nat} {y : Piece} {l : List Piece}
    (h : specPieces buf ts fp = y :: l) : y.pos = fp := by
  induction ts generalizing fp with
  | nil => simp [specPieces] at h
  | cons t ts ih =>
    by_cases hs : t.kind = K ";"
    · rw [specPieces_semi hs] at h
      injection h with h1 _
      rw [← h1]
    · by_cases he : t.kind = .eof
      · rw [specPieces_eof he] at h
        split at h
        · injection h with h1 _
          rw [← h1]
        · cases h
      · rw [specPieces_other hs he] at h
        exact ih h

/-- every piece is in range, starts at or after `firstPos`, before the end of the input, and carries its text -/
theorem specPieces_range {buf : Bytes} {p fp : Nat} {ts : List Token} {x : Piece}
    (h : TokensOK buf p ts) (hfp : FpOK fp ts) (hx : x ∈ specPieces buf ts fp) :
    fp ≤ x.pos ∧ x.pos ≤ x.end ∧ x.end ≤ buf.length ∧ x.pos < buf.length ∧
      x.statement = slice buf x.pos x.end := by
  induction ts generalizing p fp with
  | nil => simp [specPieces] at hx
  | cons t ts ih =>
    obtain ⟨f0, _, hts⟩ := TokensOK_head h
    have hfp0 : fp ≤ startOf t := hfp
    have := f0.start_le
    have := f0.pos_le
    have := f0.end_le
    by_cases hs : t.kind = K ";"
    · rw [specPieces_semi hs] at hx
      have := f0.nonempty (by rw [hs]; exact semi_ne_eof)
      rcases List.mem_cons.1 hx with rfl | hx
      · exact ⟨Nat.le_refl _, by simp only; omega, by simp only; omega, by simp only; omega, rfl⟩
      · obtain ⟨a, b, c, d, e⟩ := ih hts FpOK_next hx
        have := nextStart_ge h
        exact ⟨by omega, b, c, d, e⟩
    · by_cases he : t.kind = .eof
      · rw [specPieces_eof he] at hx
        have := f0.eof_pos he
        split at hx
        · rename_i hne
          rcases List.mem_cons.1 hx with rfl | hx
          · exact ⟨Nat.le_refl _, by simp only; omega, by simp only; omega, by simp only; omega, rfl⟩
          · cases hx
        · cases hx
      · rw [specPieces_other hs he] at hx
        exact ih hts (FpOK_tail h hfp) hx

/-- pieces are in increasing order and at least the separator byte apart -/
theorem specPieces_pairwise {buf : Bytes} {p fp : Nat} {ts : List Token}
    (h : TokensOK buf p ts) (hfp : FpOK fp ts) :
    (specPieces buf ts fp).Pairwise (fun x y => x.end < y.pos) := by
  induction ts generalizing p fp with
  | nil => simp [specPieces]
  | cons t ts ih =>
    obtain ⟨f0, _, hts⟩ := TokensOK_head h
    by_cases hs : t.kind = K ";"
    · rw [specPieces_semi hs]
      refine List.pairwise_cons.2 ⟨?_, ih hts FpOK_next⟩
      intro y hy
      have := (specPieces_range hts FpOK_next hy).1
      have := nextStart_ge h
      have := f0.nonempty (by rw [hs]; exact semi_ne_eof)
      simp only
      omega
    · by_cases he : t.kind = .eof
      · rw [specPieces_eof he]
        split <;> simp
      · rw [specPieces_other hs he]
        exact ih hts (FpOK_tail h hfp)

/-- when `firstPos` is before the tokens, the piece starting at `firstPos` exists and reaches them -/
theorem specPieces_first {buf : Bytes} {p fp : Nat} {ts : List Token}
    (h : TokensOK buf p ts) (hne : ts ≠ []) (hlt : fp < p) :
    ∃ x ∈ specPieces buf ts fp, x.pos = fp ∧ p ≤ x.end := by
  induction ts generalizing p with
  | nil => exact absurd rfl hne
  | cons t ts ih =>
    obtain ⟨f0, _, hts⟩ := TokensOK_head h
    have := f0.start_ge
    have := f0.start_le
    have := f0.pos_le
    by_cases hs : t.kind = K ";"
    · rw [specPieces_semi hs]
      exact ⟨_, List.mem_cons_self, rfl, by simp only; omega⟩
    · by_cases he : t.kind = .eof
      · rw [specPieces_eof he]
        have : t.pos ≠ fp := by omega
        simp only [ne_eq, this, not_false_eq_true, if_true]
        exact ⟨_, List.mem_cons_self, rfl, by simp only; omega⟩
      · rw [specPieces_other hs he]
        obtain ⟨x, hx, h1, h2⟩ := ih hts (TokensOK_tail_ne h he) (by omega)
        exact ⟨x, hx, h1, by omega⟩

/-- no piece at all: only when `firstPos` is the end of the input (and there is no `;`) -/
theorem specPieces_nil {buf : Bytes} {p fp : Nat} {ts : List Token}
    (h : TokensOK buf p ts) (hne : ts ≠ []) (he : specPieces buf ts fp = []) : fp = buf.length := by
  induction ts generalizing p with
  | nil => exact absurd rfl hne
  | cons t ts ih =>
    obtain ⟨f0, _, hts⟩ := TokensOK_head h
    by_cases hs : t.kind = K ";"
    · rw [specPieces_semi hs] at he
      cases he
    · by_cases hk : t.kind = .eof
      · rw [specPieces_eof hk] at he
        have := f0.eof_pos hk
        split at he
        · cases he
        · rename_i hh
          have : t.pos = fp := by simpa using hh
          omega
      · rw [specPieces_other hs hk] at he
        exact ih hts (TokensOK_tail_ne h hk) he

/-- no piece contains a `;` token -/
theorem spec_no_semicolon_inside {buf : Bytes} {p fp : Nat} {ts : List Token}
    (h : TokensOK buf p ts) (hfp : FpOK fp ts) :
    ∀ x ∈ specPieces buf ts fp, ∀ t ∈ ts, t.kind = K ";" → t.end ≤ x.pos ∨ x.end ≤ t.pos := by
  induction ts generalizing p fp with
  | nil => intro x hx; simp [specPieces] at hx
  | cons t0 ts ih =>
    obtain ⟨f0, _, hts⟩ := TokensOK_head h
    intro x hx t ht hk
    by_cases hs : t0.kind = K ";"
    · rw [specPieces_semi hs] at hx
      rcases List.mem_cons.1 hx with rfl | hx
      · right
        rcases List.mem_cons.1 ht with rfl | ht
        · exact Nat.le_refl _
        · have ft := TokensOK_mem_tail h ht
          have := ft.start_ge; have := ft.start_le; have := f0.pos_le
          simp only
          omega
      · rcases List.mem_cons.1 ht with rfl | ht
        · left
          have := (specPieces_range hts FpOK_next hx).1
          have := nextStart_ge h
          omega
        · exact ih hts FpOK_next x hx t ht hk
    · have ht' : t ∈ ts := by
        rcases List.mem_cons.1 ht with rfl | ht
        · exact absurd hk hs
        · exact ht
      by_cases he : t0.kind = .eof
      · rw [(TokensOK_head h).2.1.1 he] at ht'
        cases ht'
      · rw [specPieces_other hs he] at hx
        exact ih hts (FpOK_tail h hfp) x hx t ht' hk

/-- every token other than `;` and `<eof>`, and every comment, lies inside some piece -/
theorem spec_covers {buf : Bytes} {p fp : Nat} {ts : List Token} {t : Token}
    (h : TokensOK buf p ts) (hfp : FpOK fp ts) (ht : t ∈ ts) :
    (t.kind ≠ K ";" → t.kind ≠ .eof → ∃ x ∈ specPieces buf ts fp, x.pos ≤ t.pos ∧ t.end ≤ x.end) ∧
    (∀ c ∈ t.comments, ∃ x ∈ specPieces buf ts fp, x.pos ≤ c.pos ∧ c.end ≤ x.end) := by
  induction ts generalizing p fp with
  | nil => cases ht
  | cons t0 ts ih =>
    obtain ⟨f0, _, hts⟩ := TokensOK_head h
    have hfp0 : fp ≤ startOf t0 := hfp
    have := f0.start_le
    have := f0.pos_le
    rcases List.mem_cons.1 ht with rfl | ht
    · -- the head token
      by_cases hs : t.kind = K ";"
      · refine ⟨fun hh => absurd hs hh, ?_⟩
        intro c hc
        have := f0.comments c hc
        rw [specPieces_semi hs]
        exact ⟨_, List.mem_cons_self, by simp only; omega, by simp only; omega⟩
      · by_cases he : t.kind = .eof
        · refine ⟨fun _ hh => absurd he hh, ?_⟩
          intro c hc
          have := f0.comments c hc
          rw [specPieces_eof he]
          have : t.pos ≠ fp := by omega
          simp only [ne_eq, this, not_false_eq_true, if_true]
          exact ⟨_, List.mem_cons_self, by simp only; omega, by simp only; omega⟩
        · have := f0.nonempty he
          rw [specPieces_other hs he]
          obtain ⟨x, hx, h1, h2⟩ := specPieces_first (fp := fp) hts (TokensOK_tail_ne h he) (by omega)
          refine ⟨fun _ _ => ⟨x, hx, by omega, h2⟩, ?_⟩
          intro c hc
          have := f0.comments c hc
          exact ⟨x, hx, by omega, by omega⟩
    · -- a later token
      by_cases hs : t0.kind = K ";"
      · obtain ⟨i1, i2⟩ := ih hts FpOK_next ht
        rw [specPieces_semi hs]
        constructor
        · intro a b
          obtain ⟨x, hx, hh⟩ := i1 a b
          exact ⟨x, List.mem_cons_of_mem _ hx, hh⟩
        · intro c hc
          obtain ⟨x, hx, hh⟩ := i2 c hc
          exact ⟨x, List.mem_cons_of_mem _ hx, hh⟩
      · by_cases he : t0.kind = .eof
        · rw [(TokensOK_head h).2.1.1 he] at ht
          cases ht
        · rw [specPieces_other hs he]
          exact ih hts (FpOK_tail h hfp) ht

/-- ordered, separated pieces: a non-empty range lies in at most one of them -/
theorem pairwise_unique {ps : List Piece} (hp : ps.Pairwise (fun x y => x.end < y.pos)) {x y : Piece}
    (hx : x ∈ ps) (hy : y ∈ ps) {a b : Nat} (hab : a < b)
    (h1 : x.pos ≤ a) (h2 : b ≤ x.end) (h3 : y.pos ≤ a) (h4 : b ≤ y.end) : x = y := by
  induction ps with
  | nil => cases hx
  | cons z zs ih =>
    obtain ⟨hz, hzs⟩ := List.pairwise_cons.1 hp
    rcases List.mem_cons.1 hx with ex | hx <;> rcases List.mem_cons.1 hy with ey | hy
    · rw [ex, ey]
    · have := hz y hy; rw [← ex] at this; omega
    · have := hz x hx; rw [← ey] at this; omega
    · exact ih hzs hx hy

/-- between two consecutive pieces there is exactly one token, a `;`, directly after the first piece, followed by
whitespace only -/
theorem spec_between {buf : Bytes} {p fp : Nat} {ts : List Token}
    (h : TokensOK buf p ts) (htr : TokensTrivia buf p ts) (hfp : FpOK fp ts) :
    ∀ l1 x y l2, specPieces buf ts fp = l1 ++ x :: y :: l2 →
      ∃ t ∈ ts, t.kind = K ";" ∧ t.pos = x.end ∧ t.end ≤ y.pos ∧ AllSpaceIn buf t.end y.pos ∧
        ∀ t' ∈ ts, x.end ≤ t'.pos → t'.end ≤ y.pos → t' = t := by
  induction ts generalizing p fp with
  | nil =>
    intro l1 x y l2 he
    have := congrArg List.length he
    simp [specPieces] at this
  | cons t0 ts ih =>
    obtain ⟨f0, _, hts⟩ := TokensOK_head h
    intro l1 x y l2 he
    by_cases hs : t0.kind = K ";"
    · rw [specPieces_semi hs] at he
      have hne0 := f0.nonempty (by rw [hs]; exact semi_ne_eof)
      have hns := nextStart_ge h
      cases l1 with
      | nil =>
        simp only [List.nil_append] at he
        injection he with hx hy
        have hyp := specPieces_head_pos hy
        have hym : y ∈ specPieces buf ts (nextStart t0 ts) := by rw [hy]; exact List.mem_cons_self
        have hyr := specPieces_range hts FpOK_next hym
        have hsp : AllSpaceIn buf t0.end (nextStart t0 ts) := by
          cases ts with
          | nil => exact absurd rfl (TokensOK_tail_ne h (by rw [hs]; exact semi_ne_eof))
          | cons n ts' => exact (TokensTrivia_head htr.2.2).1
        refine ⟨t0, List.mem_cons_self, hs, by rw [← hx], by omega, by rw [hyp]; exact hsp, ?_⟩
        intro t' ht' h1 h2
        rcases List.mem_cons.1 ht' with rfl | ht'
        · rfl
        · exfalso
          have := FpOK_mem hts (FpOK_next (t := t0)) ht'
          have ft := TokensOK_mem_tail h ht'
          have := ft.start_le; have := ft.pos_le; have := ft.end_le
          by_cases hk : t'.kind = .eof
          · have := ft.eof_pos hk
            omega
          · have := ft.nonempty hk
            omega
      | cons a l1' =>
        simp only [List.cons_append] at he
        injection he with _ he'
        obtain ⟨t, ht, k1, k2, k3, k4, k5⟩ := ih hts htr.2.2 FpOK_next l1' x y l2 he'
        refine ⟨t, List.mem_cons_of_mem _ ht, k1, k2, k3, k4, ?_⟩
        intro t' ht' h1 h2
        rcases List.mem_cons.1 ht' with rfl | ht'
        · exfalso
          have hxm : x ∈ specPieces buf ts (nextStart t' ts) := by rw [he']; simp
          have := specPieces_range hts FpOK_next hxm
          omega
        · exact k5 t' ht' h1 h2
    · by_cases hk : t0.kind = .eof
      · rw [specPieces_eof hk] at he
        have := congrArg List.length he
        split at this <;> simp at this <;> omega
      · rw [specPieces_other hs hk] at he
        obtain ⟨t, ht, k1, k2, k3, k4, k5⟩ := ih hts htr.2.2 (FpOK_tail h hfp) l1 x y l2 he
        refine ⟨t, List.mem_cons_of_mem _ ht, k1, k2, k3, k4, ?_⟩
        intro t' ht' h1 h2
        rcases List.mem_cons.1 ht' with rfl | ht'
        · exfalso
          have ft := TokensOK_mem_tail h ht
          have := ft.start_ge; have := ft.start_le
          have := f0.nonempty hk
          omega
        · exact k5 t' ht' h1 h2

/-- after the last piece: nothing at all (it ends with the input), or exactly one `;` token, directly after the
piece, followed by whitespace only up to the end of the input -/
theorem spec_after_last {buf : Bytes} {p fp : Nat} {ts : List Token}
    (h : TokensOK buf p ts) (htr : TokensTrivia buf p ts) (hfp : FpOK fp ts) :
    ∀ l z, specPieces buf ts fp = l ++ [z] →
      z.end = buf.length ∨
      ∃ t ∈ ts, t.kind = K ";" ∧ t.pos = z.end ∧ AllSpaceIn buf t.end buf.length ∧
        ∀ t' ∈ ts, z.end ≤ t'.pos → t' = t ∨ t'.kind = .eof := by
  induction ts generalizing p fp with
  | nil =>
    intro l z he
    have := congrArg List.length he
    simp [specPieces] at this
  | cons t0 ts ih =>
    obtain ⟨f0, _, hts⟩ := TokensOK_head h
    intro l z he
    by_cases hs : t0.kind = K ";"
    · rw [specPieces_semi hs] at he
      have hne0 := f0.nonempty (by rw [hs]; exact semi_ne_eof)
      have hns := nextStart_ge h
      have htne := TokensOK_tail_ne h (by rw [hs]; exact semi_ne_eof)
      cases l with
      | nil =>
        simp only [List.nil_append] at he
        injection he with hz hnil
        right
        have hlen := specPieces_nil hts htne hnil
        have hsp : AllSpaceIn buf t0.end (nextStart t0 ts) := by
          cases ts with
          | nil => exact absurd rfl htne
          | cons n ts' => exact (TokensTrivia_head htr.2.2).1
        refine ⟨t0, List.mem_cons_self, hs, by rw [← hz], by rw [← hlen]; exact hsp, ?_⟩
        intro t' ht' _
        rcases List.mem_cons.1 ht' with rfl | ht'
        · exact Or.inl rfl
        · right
          have := FpOK_mem hts (FpOK_next (t := t0)) ht'
          have ft := TokensOK_mem_tail h ht'
          have := ft.start_le; have := ft.pos_le; have := ft.end_le
          apply Classical.byContradiction
          intro hk
          have := ft.nonempty hk
          omega
      | cons a l' =>
        simp only [List.cons_append] at he
        injection he with _ he'
        rcases ih hts htr.2.2 FpOK_next l' z he' with hz | ⟨t, ht, k1, k2, k3, k4⟩
        · exact Or.inl hz
        · right
          refine ⟨t, List.mem_cons_of_mem _ ht, k1, k2, k3, ?_⟩
          intro t' ht' h1
          rcases List.mem_cons.1 ht' with rfl | ht'
          · exfalso
            have hzm : z ∈ specPieces buf ts (nextStart t' ts) := by rw [he']; simp
            have := specPieces_range hts FpOK_next hzm
            omega
          · exact k4 t' ht' h1
    · by_cases hk : t0.kind = .eof
      · rw [specPieces_eof hk] at he
        have hpos := f0.eof_pos hk
        left
        split at he
        · cases l with
          | nil =>
            simp only [List.nil_append] at he
            injection he with hz _
            rw [← hz]; exact hpos
          | cons a l' =>
            have := congrArg List.length he
            simp at this
        · have := congrArg List.length he
          simp at this
      · rw [specPieces_other hs hk] at he
        rcases ih hts htr.2.2 (FpOK_tail h hfp) l z he with hz | ⟨t, ht, k1, k2, k3, k4⟩
        · exact Or.inl hz
        · right
          refine ⟨t, List.mem_cons_of_mem _ ht, k1, k2, k3, ?_⟩
          intro t' ht' h1
          rcases List.mem_cons.1 ht' with rfl | ht'
          · exfalso
            have ft := TokensOK_mem_tail h ht
            have := ft.start_ge; have := ft.start_le
            have := f0.nonempty hk
            omega
          · exact k4 t' ht' h1

/-- every `;` token ends a piece -/
theorem spec_semicolon_ends_piece {buf : Bytes} {p fp : Nat} {ts : List Token} {t : Token}
    (h : TokensOK buf p ts) (ht : t ∈ ts) (hk : t.kind = K ";") :
    ∃ x ∈ specPieces buf ts fp, x.end = t.pos := by
  induction ts generalizing p fp with
  | nil => cases ht
  | cons t0 ts ih =>
    obtain ⟨_, hiff, hts⟩ := TokensOK_head h
    rcases List.mem_cons.1 ht with rfl | ht
    · rw [specPieces_semi hk]
      exact ⟨_, List.mem_cons_self, rfl⟩
    · by_cases hs : t0.kind = K ";"
      · rw [specPieces_semi hs]
        obtain ⟨x, hx, hh⟩ := ih (fp := nextStart t0 ts) hts ht
        exact ⟨x, List.mem_cons_of_mem _ hx, hh⟩
      · by_cases he : t0.kind = .eof
        · rw [hiff.1 he] at ht
          cases ht
        · rw [specPieces_other hs he]
          exact ih hts ht

/-! ## 5. transport to `split` -/

theorem split_ok_lexes {buf : Bytes} {ps : List Piece} (h : split buf = .ok ps) : ∃ ts, lexAll buf = .ok ts := by
  cases hl : lexAll buf with
  | ok ts => exact ⟨ts, rfl⟩
  | err ts e =>
    have := (split_err_iff buf e).2 ⟨ts, hl⟩
    rw [h] at this
    cases this
  | crash ts => exact absurd hl (lexAll_ne_crash buf ts)

/-- either the pieces are those of the specification, or the input is empty (and the result is the single empty
piece) -/
theorem split_cases {buf : Bytes} {ts : List Token} {ps : List Piece} (hl : lexAll buf = .ok ts)
    (hs : split buf = .ok ps) :
    (ps = specPieces buf ts 0 ∧ ps ≠ []) ∨
    (buf = [] ∧ specPieces buf ts 0 = [] ∧ ps = [{ pos := 0, «end» := 0, statement := [] }]) := by
  rw [split_eq_spec hl] at hs
  unfold finish at hs
  split at hs
  · rename_i he
    right
    have he' : specPieces buf ts 0 = [] := by simpa using he
    obtain ⟨hne, hok⟩ := lexAll_ok hl
    have := specPieces_nil hok hne he'
    cases hs
    exact ⟨List.eq_nil_of_length_eq_zero this.symm, he', rfl⟩
  · rename_i he
    left
    cases hs
    exact ⟨rfl, by simpa using he⟩

theorem FpOK_zero {buf : Bytes} {ts : List Token} (h : TokensOK buf 0 ts) : FpOK 0 ts :=
  FpOK_of_le h (Nat.le_refl 0)

/-- C12 (c1): no piece contains a `;` token -/
theorem no_semicolon_inside {buf : Bytes} {ts : List Token} {ps : List Piece} (hl : lexAll buf = .ok ts)
    (hs : split buf = .ok ps) :
    ∀ x ∈ ps, ∀ t ∈ ts, t.kind = K ";" → t.end ≤ x.pos ∨ x.end ≤ t.pos := by
  have hok := (lexAll_ok hl).2
  rcases split_cases hl hs with ⟨rfl, _⟩ | ⟨_, _, rfl⟩
  · exact spec_no_semicolon_inside hok (FpOK_zero hok)
  · intro x hx t _ _
    rcases List.mem_cons.1 hx with rfl | hx
    · exact Or.inr (Nat.zero_le _)
    · cases hx

/-- C12 (c3): every token other than `;` and `<eof>` lies inside exactly one piece -/
theorem tokens_in_one_piece {buf : Bytes} {ts : List Token} {ps : List Piece} (hl : lexAll buf = .ok ts)
    (hs : split buf = .ok ps) :
    ∀ t ∈ ts, t.kind ≠ K ";" → t.kind ≠ .eof →
      ∃ x ∈ ps, (x.pos ≤ t.pos ∧ t.end ≤ x.end) ∧ ∀ y ∈ ps, y.pos ≤ t.pos → t.end ≤ y.end → y = x := by
  have hok := (lexAll_ok hl).2
  intro t ht h1 h2
  have ft := TokensOK_mem hok ht
  have hlt := ft.nonempty h2
  rcases split_cases hl hs with ⟨rfl, _⟩ | ⟨hb, _, _⟩
  · obtain ⟨x, hx, hx1, hx2⟩ := (spec_covers hok (FpOK_zero hok) ht).1 h1 h2
    refine ⟨x, hx, ⟨hx1, hx2⟩, ?_⟩
    intro y hy hy1 hy2
    exact pairwise_unique (specPieces_pairwise hok (FpOK_zero hok)) hy hx hlt hy1 hy2 hx1 hx2
  · have := ft.end_le
    rw [hb] at this
    simp at this
    omega

/-- C12 (c3): every comment (of any token, `;` and `<eof>` included) lies inside exactly one piece -/
theorem comments_in_one_piece {buf : Bytes} {ts : List Token} {ps : List Piece} (hl : lexAll buf = .ok ts)
    (hs : split buf = .ok ps) :
    ∀ t ∈ ts, ∀ c ∈ t.comments,
      ∃ x ∈ ps, (x.pos ≤ c.pos ∧ c.end ≤ x.end) ∧ ∀ y ∈ ps, y.pos ≤ c.pos → c.end ≤ y.end → y = x := by
  have hok := (lexAll_ok hl).2
  intro t ht c hc
  have ft := TokensOK_mem hok ht
  have hcf := ft.comments c hc
  rcases split_cases hl hs with ⟨rfl, _⟩ | ⟨hb, _, _⟩
  · obtain ⟨x, hx, hx1, hx2⟩ := (spec_covers hok (FpOK_zero hok) ht).2 c hc
    refine ⟨x, hx, ⟨hx1, hx2⟩, ?_⟩
    intro y hy hy1 hy2
    exact pairwise_unique (specPieces_pairwise hok (FpOK_zero hok)) hy hx hcf.2.1 hy1 hy2 hx1 hx2
  · have := ft.end_le
    have := ft.pos_le
    rw [hb] at *
    simp at *
    omega

/-- C12 (c2): between two consecutive pieces `x`, `y` there is exactly one token; it is a `;`, it starts where `x`
ends, and between its end and the start of `y` there is whitespace only -/
theorem between_pieces {buf : Bytes} {ts : List Token} {ps : List Piece} (hl : lexAll buf = .ok ts)
    (hs : split buf = .ok ps) :
    ∀ l1 x y l2, ps = l1 ++ x :: y :: l2 →
      ∃ t ∈ ts, t.kind = K ";" ∧ t.pos = x.end ∧ t.end ≤ y.pos ∧ AllSpaceIn buf t.end y.pos ∧
        ∀ t' ∈ ts, x.end ≤ t'.pos → t'.end ≤ y.pos → t' = t := by
  have hok := (lexAll_ok hl).2
  rcases split_cases hl hs with ⟨rfl, _⟩ | ⟨_, _, rfl⟩
  · exact spec_between hok (lexAll_trivia hl) (FpOK_zero hok)
  · intro l1 x y l2 he
    have := congrArg List.length he
    simp at this
    omega

/-- C12 (c2): after the last piece `z` there is nothing (`z` ends with the input), or exactly one `;` token, which
starts where `z` ends and is followed by whitespace only up to the end of the input; no other token but `<eof>`
starts at or after the end of `z` -/
theorem after_last_piece {buf : Bytes} {ts : List Token} {ps : List Piece} (hl : lexAll buf = .ok ts)
    (hs : split buf = .ok ps) :
    ∀ l z, ps = l ++ [z] →
      (z.end = buf.length ∧ ∀ t' ∈ ts, z.end ≤ t'.pos → t'.kind = .eof) ∨
      ∃ t ∈ ts, t.kind = K ";" ∧ t.pos = z.end ∧ AllSpaceIn buf t.end buf.length ∧
        ∀ t' ∈ ts, z.end ≤ t'.pos → t' = t ∨ t'.kind = .eof := by
  have hok := (lexAll_ok hl).2
  have hend : ∀ z : Piece, z.end = buf.length → ∀ t' ∈ ts, z.end ≤ t'.pos → t'.kind = .eof := by
    intro z hz t' ht' hle
    have ft := TokensOK_mem hok ht'
    apply Classical.byContradiction
    intro hk
    have := ft.nonempty hk
    have := ft.end_le
    omega
  rcases split_cases hl hs with ⟨rfl, _⟩ | ⟨hb, _, rfl⟩
  · intro l z he
    rcases spec_after_last hok (lexAll_trivia hl) (FpOK_zero hok) l z he with hz | hh
    · exact Or.inl ⟨hz, hend z hz⟩
    · exact Or.inr hh
  · intro l z he
    cases l with
    | nil =>
      simp only [List.nil_append] at he
      injection he with hz _
      have : z.end = buf.length := by rw [← hz, hb]; rfl
      exact Or.inl ⟨this, hend z this⟩
    | cons a l' =>
      have := congrArg List.length he
      simp at this

/-- every `;` token of the input ends a piece -/
theorem semicolon_ends_piece {buf : Bytes} {ts : List Token} {ps : List Piece} (hl : lexAll buf = .ok ts)
    (hs : split buf = .ok ps) : ∀ t ∈ ts, t.kind = K ";" → ∃ x ∈ ps, x.end = t.pos := by
  have hok := (lexAll_ok hl).2
  intro t ht hk
  rcases split_cases hl hs with ⟨rfl, _⟩ | ⟨_, he, _⟩
  · exact spec_semicolon_ends_piece hok ht hk
  · obtain ⟨x, hx, _⟩ := spec_semicolon_ends_piece (fp := 0) hok ht hk
    rw [he] at hx
    cases hx

/-- the first piece starts at the beginning of the input -/
theorem first_piece_at_zero {buf : Bytes} {ts : List Token} {x : Piece} {l : List Piece}
    (hl : lexAll buf = .ok ts) (hs : split buf = .ok (x :: l)) : x.pos = 0 := by
  rcases split_cases hl hs with ⟨he, _⟩ | ⟨_, _, he⟩
  · exact specPieces_head_pos he.symm
  · injection he with h1 _
    rw [h1]

end MF.Split
