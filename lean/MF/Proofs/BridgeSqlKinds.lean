/-
  MF.Proofs.BridgeSqlKinds — per node kind of the two fragments: the row of the REGENERATED `SQL()` table
  (`row_K`: the DSL body read out of ast/sql.go and the field classes read out of ast/ast.go, kernel-decided against
  `MF/Gen/SqlGo.lean` / `MF/Gen/Catalog.lean`) and what the generic printer `sqlOf` computes from that row on a node of
  that kind with ARBITRARY children (`sql_K`), given the children's own `SQL()` and `exprPrec`.

  `row_K` is the obligation that breaks when the body of `K.SQL()` in ast/sql.go (or the struct `K` in ast/ast.go)
  changes; `prec_K` / `paren_facts` / `enum_facts` break when `exprPrec`, `paren` or the enum constants change.
  A new node kind needs: its builder in MF/Model/Bridge.lean, `row_K`, `prec_K` (if it is an `Expr`), `sql_K` here.
-/
import MF.Proofs.BridgeBasic
namespace MF.Bridge
open MF MF.Ast

/-! ## `paren`, the enum constants the bodies compare with, `exprPrec` -/

/-- `paren(p, e)`: `if exprPrec(e) <= p { e.SQL() } else { "(" + e.SQL() + ")" }` -/
theorem paren_facts : ST.parenCmp = .le ∧ ST.parenOpen = "(" ∧ ST.parenClose = ")" := by decide +kernel

theorem paren_cmp (a b : Nat) : ST.parenCmp.eval a b = decide (a ≤ b) := by rw [paren_facts.1]; rfl
theorem paren_open : ST.parenOpen = "(" := paren_facts.2.1
theorem paren_close : ST.parenClose = ")" := paren_facts.2.2

/-- `OpNot = "NOT"`, `OpMinus = "-"` (the constants `UnaryExpr.SQL()` compares `Op` with) -/
theorem enum_facts : ST.enumVal "OpNot" = some (B "NOT") ∧ ST.enumVal "OpMinus" = some (B "-") := by decide +kernel

theorem prec_NullLiteral (sc : List (String × Scalar)) : ST.exprPrecOf "NullLiteral" sc = some 0 :=
  exprPrecOf_plain (by decide +kernel) sc
theorem prec_BoolLiteral (sc : List (String × Scalar)) : ST.exprPrecOf "BoolLiteral" sc = some 0 :=
  exprPrecOf_plain (by decide +kernel) sc
theorem prec_IntLiteral (sc : List (String × Scalar)) : ST.exprPrecOf "IntLiteral" sc = some 0 :=
  exprPrecOf_plain (by decide +kernel) sc
theorem prec_FloatLiteral (sc : List (String × Scalar)) : ST.exprPrecOf "FloatLiteral" sc = some 0 :=
  exprPrecOf_plain (by decide +kernel) sc
theorem prec_StringLiteral (sc : List (String × Scalar)) : ST.exprPrecOf "StringLiteral" sc = some 0 :=
  exprPrecOf_plain (by decide +kernel) sc
theorem prec_BytesLiteral (sc : List (String × Scalar)) : ST.exprPrecOf "BytesLiteral" sc = some 0 :=
  exprPrecOf_plain (by decide +kernel) sc
theorem prec_Param (sc : List (String × Scalar)) : ST.exprPrecOf "Param" sc = some 0 :=
  exprPrecOf_plain (by decide +kernel) sc
theorem prec_Ident (sc : List (String × Scalar)) : ST.exprPrecOf "Ident" sc = some 0 :=
  exprPrecOf_plain (by decide +kernel) sc
theorem prec_Path (sc : List (String × Scalar)) : ST.exprPrecOf "Path" sc = some 0 :=
  exprPrecOf_plain (by decide +kernel) sc
theorem prec_ParenExpr (sc : List (String × Scalar)) : ST.exprPrecOf "ParenExpr" sc = some 0 :=
  exprPrecOf_plain (by decide +kernel) sc
theorem prec_SelectorExpr (sc : List (String × Scalar)) : ST.exprPrecOf "SelectorExpr" sc = some 1 :=
  exprPrecOf_plain (by decide +kernel) sc
theorem prec_IndexExpr (sc : List (String × Scalar)) : ST.exprPrecOf "IndexExpr" sc = some 1 :=
  exprPrecOf_plain (by decide +kernel) sc
theorem prec_IsNullExpr (sc : List (String × Scalar)) : ST.exprPrecOf "IsNullExpr" sc = some 9 :=
  exprPrecOf_plain (by decide +kernel) sc
theorem prec_IsBoolExpr (sc : List (String × Scalar)) : ST.exprPrecOf "IsBoolExpr" sc = some 9 :=
  exprPrecOf_plain (by decide +kernel) sc
theorem prec_BetweenExpr (sc : List (String × Scalar)) : ST.exprPrecOf "BetweenExpr" sc = some 9 :=
  exprPrecOf_plain (by decide +kernel) sc
theorem prec_InExpr (sc : List (String × Scalar)) : ST.exprPrecOf "InExpr" sc = some 9 :=
  exprPrecOf_plain (by decide +kernel) sc

/-- `exprPrec` of a `BinaryExpr`: the inner `switch e.Op` -/
theorem prec_BinaryExpr (op : Expr.BOp) : ST.exprPrecOf "BinaryExpr" [("Op", .str op.str)] = some op.prec := by
  cases op <;> decide +kernel

/-- `exprPrec` of a `UnaryExpr`: the inner `switch e.Op` -/
theorem prec_UnaryExpr (opPos : Int) (op : Expr.UOp) :
    ST.exprPrecOf "UnaryExpr" [("OpPos", .pos opPos), ("Op", .str op.str)] = some op.prec := by
  cases op <;> rfl

/-! ## the simp set that evaluates a DSL body on a concrete context -/

macro "sql_eval" "[" ts:Lean.Parser.Tactic.simpLemma,* "]" : tactic =>
  `(tactic| simp [SqlBody.eval, SqlE.eval, SqlCond.eval, sqlKids, SqlCtx.single, SqlCtx.cls, SqlCtx.str, SqlCtx.boolF,
      parenSql, paren_cmp, paren_open, paren_close, parenB, List.lookup, $ts,*])

/-! ## literals, parameters, names -/

theorem row_NullLiteral :
    ST.bodies.lookup "NullLiteral" = some (.ret (.lit "NULL")) ∧
    ST.fieldsOf "NullLiteral" = [⟨"Null", .pos, "token.Pos"⟩] := by
  decide +kernel

theorem sql_NullLiteral (ip : Nat → Bool) (p : Nat) : sqlOf ST ip (nNullLiteral p) = some (B "NULL") := by
  rw [nNullLiteral, sqlOf_mk row_NullLiteral.1 row_NullLiteral.2]
  sql_eval []

theorem row_BoolLiteral :
    ST.bodies.lookup "BoolLiteral" = some (.ret (.boolUpper "Value")) ∧
    ST.fieldsOf "BoolLiteral" = [⟨"ValuePos", .pos, "token.Pos"⟩, ⟨"Value", .bool, "bool"⟩] := by
  decide +kernel

theorem sql_BoolLiteral (ip : Nat → Bool) (p : Nat) (b : Bool) :
    sqlOf ST ip (nBoolLiteral p b) = some (fmtBoolUpper b) := by
  rw [nBoolLiteral, sqlOf_mk row_BoolLiteral.1 row_BoolLiteral.2]
  sql_eval []

theorem row_IntLiteral :
    ST.bodies.lookup "IntLiteral" = some (.ret (.strField "Value")) ∧
    ST.fieldsOf "IntLiteral" = [⟨"ValuePos", .pos, "token.Pos"⟩, ⟨"ValueEnd", .pos, "token.Pos"⟩, ⟨"Base", .int, "int"⟩, ⟨"Value", .str, "string"⟩] := by
  decide +kernel

theorem sql_IntLiteral (ip : Nat → Bool) (p e base : Nat) (v : Bytes) :
    sqlOf ST ip (nIntLiteral p e base v) = some v := by
  rw [nIntLiteral, sqlOf_mk row_IntLiteral.1 row_IntLiteral.2]
  sql_eval []

theorem row_FloatLiteral :
    ST.bodies.lookup "FloatLiteral" = some (.ret (.strField "Value")) ∧
    ST.fieldsOf "FloatLiteral" = [⟨"ValuePos", .pos, "token.Pos"⟩, ⟨"ValueEnd", .pos, "token.Pos"⟩, ⟨"Value", .str, "string"⟩] := by
  decide +kernel

theorem sql_FloatLiteral (ip : Nat → Bool) (p e : Nat) (v : Bytes) : sqlOf ST ip (nFloatLiteral p e v) = some v := by
  rw [nFloatLiteral, sqlOf_mk row_FloatLiteral.1 row_FloatLiteral.2]
  sql_eval []

theorem row_StringLiteral :
    ST.bodies.lookup "StringLiteral" = some (.ret (.quoteString "Value")) ∧
    ST.fieldsOf "StringLiteral" = [⟨"ValuePos", .pos, "token.Pos"⟩, ⟨"ValueEnd", .pos, "token.Pos"⟩, ⟨"Value", .str, "string"⟩] := by
  decide +kernel

theorem sql_StringLiteral (ip : Nat → Bool) (p e : Nat) (v : Bytes) :
    sqlOf ST ip (nStringLiteral p e v) = some (Quote.quoteString ip v) := by
  rw [nStringLiteral, sqlOf_mk row_StringLiteral.1 row_StringLiteral.2]
  sql_eval []

theorem row_BytesLiteral :
    ST.bodies.lookup "BytesLiteral" = some (.ret (.quoteBytes "Value")) ∧
    ST.fieldsOf "BytesLiteral" = [⟨"ValuePos", .pos, "token.Pos"⟩, ⟨"ValueEnd", .pos, "token.Pos"⟩, ⟨"Value", .bytes, "[]byte"⟩] := by
  decide +kernel

theorem sql_BytesLiteral (ip : Nat → Bool) (p e : Nat) (v : Bytes) :
    sqlOf ST ip (nBytesLiteral p e v) = some (Quote.quoteBytes v) := by
  rw [nBytesLiteral, sqlOf_mk row_BytesLiteral.1 row_BytesLiteral.2]
  sql_eval []

theorem row_Param :
    ST.bodies.lookup "Param" = some (.ret (.cat (.lit "@") (.strField "Name"))) ∧
    ST.fieldsOf "Param" = [⟨"Atmark", .pos, "token.Pos"⟩, ⟨"Name", .str, "string"⟩] := by
  decide +kernel

theorem sql_Param (ip : Nat → Bool) (a : Nat) (n : Bytes) : sqlOf ST ip (nParam a n) = some (B "@" ++ n) := by
  rw [nParam, sqlOf_mk row_Param.1 row_Param.2]
  sql_eval []

theorem row_Ident :
    ST.bodies.lookup "Ident" = some (.ret (.quoteIdent "Name")) ∧
    ST.fieldsOf "Ident" = [⟨"NamePos", .pos, "token.Pos"⟩, ⟨"NameEnd", .pos, "token.Pos"⟩, ⟨"Name", .str, "string"⟩] := by
  decide +kernel

/-- `none` (the index panic of `QuoteSQLIdent("")`) exactly when the name is empty -/
theorem sql_Ident (ip : Nat → Bool) (p e : Nat) (n : Bytes) : sqlOf ST ip (nIdent p e n) = Quote.quoteIdent ip n := by
  rw [nIdent, sqlOf_mk row_Ident.1 row_Ident.2]
  sql_eval []

theorem row_Path :
    ST.bodies.lookup "Path" = some (.ret (.sqlJoin "Idents" (.lit "."))) ∧
    ST.fieldsOf "Path" = [⟨"Idents", .nodes, "[]*Ident"⟩] := by
  decide +kernel

theorem sql_Path (ip : Nat → Bool) (nodes : List Node) (ss : List Bytes) (hs : nodes.map (sqlOf ST ip) = ss.map some) :
    sqlOf ST ip (nPath (sliceKids "Idents" 0 nodes)) = some (joinSql (B ".") ss) := by
  rw [nPath, sqlOf_mk row_Path.1 row_Path.2, SqlBody.eval]
  exact eval_sqlJoin_slice rfl (by simp [SqlCtx.cls]) rfl hs

/-! ## operators -/

theorem row_ParenExpr :
    ST.bodies.lookup "ParenExpr" = some (.ret (.cat (.cat (.lit "(") (.child "Expr")) (.lit ")"))) ∧
    ST.fieldsOf "ParenExpr" = [⟨"Lparen", .pos, "token.Pos"⟩, ⟨"Rparen", .pos, "token.Pos"⟩, ⟨"Expr", .node, "Expr"⟩] := by
  decide +kernel

theorem sql_ParenExpr (ip : Nat → Bool) (lp rp : Nat) (e : Node) (s : Bytes) (he : sqlOf ST ip e = some s) :
    sqlOf ST ip (nParenExpr lp rp e) = some (B "(" ++ s ++ B ")") := by
  rw [nParenExpr, sqlOf_mk row_ParenExpr.1 row_ParenExpr.2]
  sql_eval [he]

theorem row_UnaryExpr :
    ST.bodies.lookup "UnaryExpr" = some (.letPrec (.letStr "e" (.paren .self "Expr") (.ret (.cat (.cat (.enumStr "Op") (.strOpt (.or (.enumEq "Op" "OpNot") (.and (.enumEq "Op" "OpMinus") (.localHasPrefix "e" "-"))) (.lit " "))) (.local "e"))))) ∧
    ST.fieldsOf "UnaryExpr" = [⟨"OpPos", .pos, "token.Pos"⟩, ⟨"Op", .enum, "UnaryOp"⟩, ⟨"Expr", .node, "Expr"⟩] := by
  decide +kernel

/-- `p` is `exprPrec` of the node itself (`prec_UnaryExpr`), `pe` that of the operand -/
theorem sql_UnaryExpr (ip : Nat → Bool) (opPos : Nat) (op : Bytes) (p pe : Nat) (e : Node) (se : Bytes)
    (hp : ST.exprPrecOf "UnaryExpr" [("OpPos", .pos opPos), ("Op", .str op)] = some p)
    (he : sqlOf ST ip e = some se) (hpe : ST.exprPrecOf e.kind e.scalars = some pe) :
    sqlOf ST ip (nUnaryExpr opPos op e) =
      some (op ++ (if op == B "NOT" || (op == B "-" && (B "-").isPrefixOf (parenB p pe se)) then B " " else []) ++
        parenB p pe se) := by
  rw [nUnaryExpr, sqlOf_mk row_UnaryExpr.1 row_UnaryExpr.2]
  sql_eval [hp, he, hpe, enum_facts.1, enum_facts.2]

theorem row_BinaryExpr :
    ST.bodies.lookup "BinaryExpr" = some (.letPrec (.ret (.cat (.cat (.cat (.cat (.paren .self "Left") (.lit " ")) (.enumStr "Op")) (.lit " ")) (.paren .self "Right")))) ∧
    ST.fieldsOf "BinaryExpr" = [⟨"Op", .enum, "BinaryOp"⟩, ⟨"Left", .node, "Expr"⟩, ⟨"Right", .node, "Expr"⟩] := by
  decide +kernel

/-- `p` is `exprPrec` of the node itself (`prec_BinaryExpr`), `pl` / `pr` those of the operands -/
theorem sql_BinaryExpr (ip : Nat → Bool) (op : Bytes) (p pl pr : Nat) (l r : Node) (sl sr : Bytes)
    (hp : ST.exprPrecOf "BinaryExpr" [("Op", .str op)] = some p)
    (hl : sqlOf ST ip l = some sl) (hr : sqlOf ST ip r = some sr)
    (hpl : ST.exprPrecOf l.kind l.scalars = some pl) (hpr : ST.exprPrecOf r.kind r.scalars = some pr) :
    sqlOf ST ip (nBinaryExpr op l r) = some (parenB p pl sl ++ B " " ++ op ++ B " " ++ parenB p pr sr) := by
  rw [nBinaryExpr, sqlOf_mk row_BinaryExpr.1 row_BinaryExpr.2]
  sql_eval [hp, hl, hr, hpl, hpr]

theorem row_IsNullExpr :
    ST.bodies.lookup "IsNullExpr" = some (.letPrec (.ret (.cat (.cat (.cat (.paren .self "Left") (.lit " IS ")) (.strOpt (.bool "Not") (.lit "NOT "))) (.lit "NULL")))) ∧
    ST.fieldsOf "IsNullExpr" = [⟨"Null", .pos, "token.Pos"⟩, ⟨"Not", .bool, "bool"⟩, ⟨"Left", .node, "Expr"⟩] := by
  decide +kernel

theorem sql_IsNullExpr (ip : Nat → Bool) (np : Nat) (not : Bool) (pl : Nat) (l : Node) (sl : Bytes)
    (hl : sqlOf ST ip l = some sl) (hpl : ST.exprPrecOf l.kind l.scalars = some pl) :
    sqlOf ST ip (nIsNullExpr np not l) =
      some (parenB 9 pl sl ++ B " IS " ++ (if not then B "NOT " else []) ++ B "NULL") := by
  rw [nIsNullExpr, sqlOf_mk row_IsNullExpr.1 row_IsNullExpr.2]
  sql_eval [prec_IsNullExpr, hl, hpl]

theorem row_IsBoolExpr :
    ST.bodies.lookup "IsBoolExpr" = some (.letPrec (.ret (.cat (.cat (.cat (.paren .self "Left") (.lit " IS ")) (.strOpt (.bool "Not") (.lit "NOT "))) (.boolUpper "Right")))) ∧
    ST.fieldsOf "IsBoolExpr" = [⟨"RightPos", .pos, "token.Pos"⟩, ⟨"Not", .bool, "bool"⟩, ⟨"Left", .node, "Expr"⟩, ⟨"Right", .bool, "bool"⟩] := by
  decide +kernel

theorem sql_IsBoolExpr (ip : Nat → Bool) (rpos : Nat) (not right : Bool) (pl : Nat) (l : Node) (sl : Bytes)
    (hl : sqlOf ST ip l = some sl) (hpl : ST.exprPrecOf l.kind l.scalars = some pl) :
    sqlOf ST ip (nIsBoolExpr rpos not l right) =
      some (parenB 9 pl sl ++ B " IS " ++ (if not then B "NOT " else []) ++ fmtBoolUpper right) := by
  rw [nIsBoolExpr, sqlOf_mk row_IsBoolExpr.1 row_IsBoolExpr.2]
  sql_eval [prec_IsBoolExpr, hl, hpl]

theorem row_BetweenExpr :
    ST.bodies.lookup "BetweenExpr" = some (.letPrec (.ret (.cat (.cat (.cat (.cat (.cat (.paren .self "Left") (.strOpt (.bool "Not") (.lit " NOT"))) (.lit " BETWEEN ")) (.paren .self "RightStart")) (.lit " AND ")) (.paren .self "RightEnd")))) ∧
    ST.fieldsOf "BetweenExpr" = [⟨"Not", .bool, "bool"⟩, ⟨"Left", .node, "Expr"⟩, ⟨"RightStart", .node, "Expr"⟩, ⟨"RightEnd", .node, "Expr"⟩] := by
  decide +kernel

theorem sql_BetweenExpr (ip : Nat → Bool) (not : Bool) (pl plo phi : Nat) (l lo hi : Node) (sl slo shi : Bytes)
    (hl : sqlOf ST ip l = some sl) (hlo : sqlOf ST ip lo = some slo) (hhi : sqlOf ST ip hi = some shi)
    (hpl : ST.exprPrecOf l.kind l.scalars = some pl) (hplo : ST.exprPrecOf lo.kind lo.scalars = some plo)
    (hphi : ST.exprPrecOf hi.kind hi.scalars = some phi) :
    sqlOf ST ip (nBetweenExpr not l lo hi) =
      some (parenB 9 pl sl ++ (if not then B " NOT" else []) ++ B " BETWEEN " ++ parenB 9 plo slo ++ B " AND " ++
        parenB 9 phi shi) := by
  rw [nBetweenExpr, sqlOf_mk row_BetweenExpr.1 row_BetweenExpr.2]
  sql_eval [prec_BetweenExpr, hl, hlo, hhi, hpl, hplo, hphi]

theorem row_InExpr :
    ST.bodies.lookup "InExpr" = some (.letPrec (.ret (.cat (.cat (.cat (.paren .self "Left") (.strOpt (.bool "Not") (.lit " NOT"))) (.lit " IN ")) (.child "Right")))) ∧
    ST.fieldsOf "InExpr" = [⟨"Not", .bool, "bool"⟩, ⟨"Left", .node, "Expr"⟩, ⟨"Right", .node, "InCondition"⟩] := by
  decide +kernel

theorem sql_InExpr (ip : Nat → Bool) (not : Bool) (pl : Nat) (l r : Node) (sl sr : Bytes)
    (hl : sqlOf ST ip l = some sl) (hr : sqlOf ST ip r = some sr)
    (hpl : ST.exprPrecOf l.kind l.scalars = some pl) :
    sqlOf ST ip (nInExpr not l r) = some (parenB 9 pl sl ++ (if not then B " NOT" else []) ++ B " IN " ++ sr) := by
  rw [nInExpr, sqlOf_mk row_InExpr.1 row_InExpr.2]
  sql_eval [prec_InExpr, hl, hr, hpl]

theorem row_ValuesInCondition :
    ST.bodies.lookup "ValuesInCondition" = some (.ret (.cat (.cat (.lit "(") (.sqlJoin "Exprs" (.lit ", "))) (.lit ")"))) ∧
    ST.fieldsOf "ValuesInCondition" = [⟨"Lparen", .pos, "token.Pos"⟩, ⟨"Rparen", .pos, "token.Pos"⟩, ⟨"Exprs", .nodes, "[]Expr"⟩] := by
  decide +kernel

theorem sql_ValuesInCondition (ip : Nat → Bool) (lp rp : Nat) (nodes : List Node) (ss : List Bytes)
    (hs : nodes.map (sqlOf ST ip) = ss.map some) :
    sqlOf ST ip (nValuesInCondition lp rp (sliceKids "Exprs" 0 nodes)) =
      some (B "(" ++ joinSql (B ", ") ss ++ B ")") := by
  rw [nValuesInCondition, sqlOf_mk row_ValuesInCondition.1 row_ValuesInCondition.2, SqlBody.eval, eval_cat, eval_cat, eval_lit, eval_lit,
    eval_sqlJoin_slice rfl (by simp [SqlCtx.cls]) rfl hs]

theorem row_UnnestInCondition :
    ST.bodies.lookup "UnnestInCondition" = some (.ret (.cat (.cat (.lit "UNNEST(") (.child "Expr")) (.lit ")"))) ∧
    ST.fieldsOf "UnnestInCondition" = [⟨"Unnest", .pos, "token.Pos"⟩, ⟨"Rparen", .pos, "token.Pos"⟩, ⟨"Expr", .node, "Expr"⟩] := by
  decide +kernel

theorem sql_UnnestInCondition (ip : Nat → Bool) (un rp : Nat) (e : Node) (s : Bytes) (he : sqlOf ST ip e = some s) :
    sqlOf ST ip (nUnnestInCondition un rp e) = some (B "UNNEST(" ++ s ++ B ")") := by
  rw [nUnnestInCondition, sqlOf_mk row_UnnestInCondition.1 row_UnnestInCondition.2]
  sql_eval [he]

/-! ## postfix forms -/

theorem row_SelectorExpr :
    ST.bodies.lookup "SelectorExpr" = some (.letPrec (.letStr "e" (.paren .self "Expr") (.letStr "e" (.cat (.local "e") (.strOpt (.kidKindIs "Expr" "IntLiteral") (.lit " "))) (.ret (.cat (.cat (.local "e") (.lit ".")) (.child "Ident")))))) ∧
    ST.fieldsOf "SelectorExpr" = [⟨"Expr", .node, "Expr"⟩, ⟨"Ident", .node, "*Ident"⟩] := by
  decide +kernel

/-- `"1.f"` would lex as the float `1.` glued to `f`: a blank after an `IntLiteral` operand -/
theorem sql_SelectorExpr (ip : Nat → Bool) (pe : Nat) (e i : Node) (se si : Bytes)
    (he : sqlOf ST ip e = some se) (hi : sqlOf ST ip i = some si)
    (hpe : ST.exprPrecOf e.kind e.scalars = some pe) :
    sqlOf ST ip (nSelectorExpr e i) =
      some (parenB 1 pe se ++ (if e.kind == "IntLiteral" then B " " else []) ++ B "." ++ si) := by
  rw [nSelectorExpr, sqlOf_mk row_SelectorExpr.1 row_SelectorExpr.2]
  sql_eval [prec_SelectorExpr, he, hi, hpe]

theorem row_IndexExpr :
    ST.bodies.lookup "IndexExpr" = some (.letPrec (.ret (.cat (.cat (.cat (.paren .self "Expr") (.lit "[")) (.child "Index")) (.lit "]")))) ∧
    ST.fieldsOf "IndexExpr" = [⟨"Rbrack", .pos, "token.Pos"⟩, ⟨"Expr", .node, "Expr"⟩, ⟨"Index", .node, "SubscriptSpecifier"⟩] := by
  decide +kernel

theorem sql_IndexExpr (ip : Nat → Bool) (rb : Nat) (pe : Nat) (e i : Node) (se si : Bytes)
    (he : sqlOf ST ip e = some se) (hi : sqlOf ST ip i = some si)
    (hpe : ST.exprPrecOf e.kind e.scalars = some pe) :
    sqlOf ST ip (nIndexExpr rb e i) = some (parenB 1 pe se ++ B "[" ++ si ++ B "]") := by
  rw [nIndexExpr, sqlOf_mk row_IndexExpr.1 row_IndexExpr.2]
  sql_eval [prec_IndexExpr, he, hi, hpe]

theorem row_ExprArg :
    ST.bodies.lookup "ExprArg" = some (.ret (.child "Expr")) ∧
    ST.fieldsOf "ExprArg" = [⟨"Expr", .node, "Expr"⟩] := by
  decide +kernel

theorem sql_ExprArg (ip : Nat → Bool) (e : Node) (s : Bytes) (he : sqlOf ST ip e = some s) :
    sqlOf ST ip (nExprArg e) = some s := by
  rw [nExprArg, sqlOf_mk row_ExprArg.1 row_ExprArg.2]
  sql_eval [he]

theorem row_SubscriptSpecifierKeyword :
    ST.bodies.lookup "SubscriptSpecifierKeyword" = some (.ret (.cat (.cat (.cat (.enumStr "Keyword") (.lit "(")) (.child "Expr")) (.lit ")"))) ∧
    ST.fieldsOf "SubscriptSpecifierKeyword" = [⟨"KeywordPos", .pos, "token.Pos"⟩, ⟨"Rparen", .pos, "token.Pos"⟩, ⟨"Keyword", .enum, "PositionKeyword"⟩, ⟨"Expr", .node, "Expr"⟩] := by
  decide +kernel

theorem sql_SubscriptSpecifierKeyword (ip : Nat → Bool) (kp rp : Nat) (kw : Bytes) (e : Node) (s : Bytes)
    (he : sqlOf ST ip e = some s) :
    sqlOf ST ip (nSubscriptSpecifierKeyword kp rp kw e) = some (kw ++ B "(" ++ s ++ B ")") := by
  rw [nSubscriptSpecifierKeyword, sqlOf_mk row_SubscriptSpecifierKeyword.1 row_SubscriptSpecifierKeyword.2]
  sql_eval [he]

/-! ## CASE and IF -/

theorem prec_CaseExpr (sc : List (String × Scalar)) : ST.exprPrecOf "CaseExpr" sc = some 0 :=
  exprPrecOf_plain (by decide +kernel) sc
theorem prec_IfExpr (sc : List (String × Scalar)) : ST.exprPrecOf "IfExpr" sc = some 0 :=
  exprPrecOf_plain (by decide +kernel) sc

theorem row_CaseWhen :
    ST.bodies.lookup "CaseWhen" = some (.ret (.cat (.cat (.cat (.lit "WHEN ") (.child "Cond")) (.lit " THEN ")) (.child "Then"))) ∧
    ST.fieldsOf "CaseWhen" = [⟨"When", .pos, "token.Pos"⟩, ⟨"Cond", .node, "Expr"⟩, ⟨"Then", .node, "Expr"⟩] := by
  decide +kernel

theorem sql_CaseWhen (ip : Nat → Bool) (wp : Nat) (c t : Node) (sc st : Bytes) (hc : sqlOf ST ip c = some sc)
    (ht : sqlOf ST ip t = some st) :
    sqlOf ST ip (nCaseWhen wp c t) = some (B "WHEN " ++ sc ++ B " THEN " ++ st) := by
  rw [nCaseWhen, sqlOf_mk row_CaseWhen.1 row_CaseWhen.2]
  sql_eval [hc, ht]

theorem row_CaseElse :
    ST.bodies.lookup "CaseElse" = some (.ret (.cat (.lit "ELSE ") (.child "Expr"))) ∧
    ST.fieldsOf "CaseElse" = [⟨"Else", .pos, "token.Pos"⟩, ⟨"Expr", .node, "Expr"⟩] := by
  decide +kernel

theorem sql_CaseElse (ip : Nat → Bool) (p : Nat) (e : Node) (s : Bytes) (he : sqlOf ST ip e = some s) :
    sqlOf ST ip (nCaseElse p e) = some (B "ELSE " ++ s) := by
  rw [nCaseElse, sqlOf_mk row_CaseElse.1 row_CaseElse.2]
  sql_eval [he]

theorem row_IfExpr :
    ST.bodies.lookup "IfExpr" = some (.ret (.cat (.cat (.cat (.cat (.cat (.cat (.lit "IF(") (.child "Expr")) (.lit ", ")) (.child "TrueResult")) (.lit ", ")) (.child "ElseResult")) (.lit ")"))) ∧
    ST.fieldsOf "IfExpr" = [⟨"If", .pos, "token.Pos"⟩, ⟨"Rparen", .pos, "token.Pos"⟩, ⟨"Expr", .node, "Expr"⟩, ⟨"TrueResult", .node, "Expr"⟩, ⟨"ElseResult", .node, "Expr"⟩] := by
  decide +kernel

theorem sql_IfExpr (ip : Nat → Bool) (ifp rp : Nat) (c t e : Node) (sc st se : Bytes) (hc : sqlOf ST ip c = some sc)
    (ht : sqlOf ST ip t = some st) (he : sqlOf ST ip e = some se) :
    sqlOf ST ip (nIfExpr ifp rp c t e) = some (B "IF(" ++ sc ++ B ", " ++ st ++ B ", " ++ se ++ B ")") := by
  rw [nIfExpr, sqlOf_mk row_IfExpr.1 row_IfExpr.2]
  sql_eval [hc, ht, he]

theorem row_CaseExpr :
    ST.bodies.lookup "CaseExpr" = some (.ret (.cat (.cat (.cat (.cat (.cat (.lit "CASE ") (.sqlOpt (.lit "") "Expr" (.lit " "))) (.sqlJoin "Whens" (.lit " "))) (.lit " ")) (.sqlOpt (.lit "") "Else" (.lit " "))) (.lit "END"))) ∧
    ST.fieldsOf "CaseExpr" = [⟨"Case", .pos, "token.Pos"⟩, ⟨"EndPos", .pos, "token.Pos"⟩, ⟨"Expr", .node, "Expr"⟩, ⟨"Whens", .nodes, "[]*CaseWhen"⟩, ⟨"Else", .node, "*CaseElse"⟩] := by
  decide +kernel

/-- the text `sqlOpt("", node, " ")` contributes -/
def optS : Option Bytes → Bytes
  | none => []
  | some s => s ++ B " "

theorem sql_CaseExpr (ip : Nat → Bool) (cp ep : Nat) (oE oL : Option Node) (whens : List Node) (sE sL : Option Bytes)
    (ss : List Bytes) (hE : oE.map (sqlOf ST ip) = sE.map some) (hs : whens.map (sqlOf ST ip) = ss.map some)
    (hL : oL.map (sqlOf ST ip) = sL.map some) :
    sqlOf ST ip (nCaseExpr cp ep (appKids (optKid "Expr" oE) (appKids (sliceKids "Whens" 0 whens) (optKid "Else" oL)))) =
      some (B "CASE " ++ optS sE ++ joinSql (B " ") ss ++ B " " ++ optS sL ++ B "END") := by
  rw [nCaseExpr, sqlOf_mk row_CaseExpr.1 row_CaseExpr.2]
  cases oE <;> cases oL <;> cases sE <;> cases sL <;> simp at hE hL <;>
    sql_eval [appKids, optKid, sqlKids_app, SqlCtx.slice, List.filter_append, sqlKids_slice_filter,
      sqlKids_slice_contiguous, sqlKids_slice_sql, hs, allSome_map_some, List.find?_append, sqlKids_slice_single, sqlKids_slice_single',
      hE, hL, optS, show B "" = [] from rfl]
/-! ## array literals -/

theorem prec_ArrayLiteral (sc : List (String × Scalar)) : ST.exprPrecOf "ArrayLiteral" sc = some 0 :=
  exprPrecOf_plain (by decide +kernel) sc

theorem row_ArrayLiteral :
    ST.bodies.lookup "ArrayLiteral" = some (.ret (.cat (.cat (.cat (.cat (.strOpt (.not (.posInvalid "Array")) (.lit "ARRAY")) (.sqlOpt (.lit "<") "Type" (.lit ">"))) (.lit "[")) (.sqlJoin "Values" (.lit ", "))) (.lit "]"))) ∧
    ST.fieldsOf "ArrayLiteral" = [⟨"Array", .pos, "token.Pos"⟩, ⟨"Lbrack", .pos, "token.Pos"⟩, ⟨"Rbrack", .pos, "token.Pos"⟩, ⟨"Type", .node, "Type"⟩, ⟨"Values", .nodes, "[]Expr"⟩] := by
  decide +kernel

/-- `Array` invalid (no `ARRAY`), `Type` nil (no `<…>`) -/
theorem sql_ArrayLiteral (ip : Nat → Bool) (lb rb : Nat) (nodes : List Node) (ss : List Bytes)
    (hs : nodes.map (sqlOf ST ip) = ss.map some) :
    sqlOf ST ip (nArrayLiteral lb rb (sliceKids "Values" 0 nodes)) = some (B "[" ++ joinSql (B ", ") ss ++ B "]") := by
  rw [nArrayLiteral, sqlOf_mk row_ArrayLiteral.1 row_ArrayLiteral.2]
  sql_eval [SqlCtx.slice, SqlCtx.posF, sqlKids_slice_filter, sqlKids_slice_contiguous, sqlKids_slice_sql, hs, allSome_map_some,
    sqlKids_slice_single, sqlKids_slice_single', show B "" = [] from rfl]

/-! ## types -/

theorem row_SimpleType :
    ST.bodies.lookup "SimpleType" = some (.ret (.enumStr "Name")) ∧
    ST.fieldsOf "SimpleType" = [⟨"NamePos", .pos, "token.Pos"⟩, ⟨"Name", .enum, "ScalarTypeName"⟩] := by
  decide +kernel

theorem sql_SimpleType (ip : Nat → Bool) (p : Nat) (n : Bytes) : sqlOf ST ip (nSimpleType p n) = some n := by
  rw [nSimpleType, sqlOf_mk row_SimpleType.1 row_SimpleType.2]
  sql_eval []

theorem row_NamedType :
    ST.bodies.lookup "NamedType" = some (.ret (.sqlJoin "Path" (.lit "."))) ∧
    ST.fieldsOf "NamedType" = [⟨"Path", .nodes, "[]*Ident"⟩] := by
  decide +kernel

theorem sql_NamedType (ip : Nat → Bool) (nodes : List Node) (ss : List Bytes)
    (hs : nodes.map (sqlOf ST ip) = ss.map some) :
    sqlOf ST ip (nNamedType (sliceKids "Path" 0 nodes)) = some (joinSql (B ".") ss) := by
  rw [nNamedType, sqlOf_mk row_NamedType.1 row_NamedType.2, SqlBody.eval]
  exact eval_sqlJoin_slice rfl (by simp [SqlCtx.cls]) rfl hs

theorem row_ArrayType :
    ST.bodies.lookup "ArrayType" = some (.ret (.cat (.cat (.lit "ARRAY<") (.child "Item")) (.lit ">"))) ∧
    ST.fieldsOf "ArrayType" = [⟨"Array", .pos, "token.Pos"⟩, ⟨"Gt", .pos, "token.Pos"⟩, ⟨"Item", .node, "Type"⟩] := by
  decide +kernel

theorem sql_ArrayType (ip : Nat → Bool) (a gt : Nat) (item : Node) (s : Bytes) (hi : sqlOf ST ip item = some s) :
    sqlOf ST ip (nArrayType a gt item) = some (B "ARRAY<" ++ s ++ B ">") := by
  rw [nArrayType, sqlOf_mk row_ArrayType.1 row_ArrayType.2]
  sql_eval [hi]

theorem row_StructType :
    ST.bodies.lookup "StructType" = some (.ret (.cat (.cat (.lit "STRUCT<") (.sqlJoin "Fields" (.lit ", "))) (.lit ">"))) ∧
    ST.fieldsOf "StructType" = [⟨"Struct", .pos, "token.Pos"⟩, ⟨"Gt", .pos, "token.Pos"⟩, ⟨"Fields", .nodes, "[]*StructField"⟩] := by
  decide +kernel

theorem sql_StructType (ip : Nat → Bool) (s gt : Nat) (nodes : List Node) (ss : List Bytes)
    (hs : nodes.map (sqlOf ST ip) = ss.map some) :
    sqlOf ST ip (nStructType s gt (sliceKids "Fields" 0 nodes)) = some (B "STRUCT<" ++ joinSql (B ", ") ss ++ B ">") := by
  rw [nStructType, sqlOf_mk row_StructType.1 row_StructType.2, SqlBody.eval, eval_cat, eval_cat, eval_lit, eval_lit,
    eval_sqlJoin_slice rfl (by simp [SqlCtx.cls]) rfl hs]

theorem row_StructField :
    ST.bodies.lookup "StructField" = some (.ret (.cat (.sqlOpt (.lit "") "Ident" (.lit " ")) (.child "Type"))) ∧
    ST.fieldsOf "StructField" = [⟨"Ident", .node, "*Ident"⟩, ⟨"Type", .node, "Type"⟩] := by
  decide +kernel

/-- `sqlOpt("", f.Ident, " ") + f.Type.SQL()`, `Ident` present -/
theorem sql_StructField_some (ip : Nat → Bool) (i t : Node) (si st : Bytes) (hi : sqlOf ST ip i = some si)
    (ht : sqlOf ST ip t = some st) : sqlOf ST ip (nStructField (some i) t) = some (si ++ B " " ++ st) := by
  rw [nStructField, sqlOf_mk row_StructField.1 row_StructField.2]
  sql_eval [hi, ht, B]

/-- … `Ident` nil -/
theorem sql_StructField_none (ip : Nat → Bool) (t : Node) (st : Bytes) (ht : sqlOf ST ip t = some st) :
    sqlOf ST ip (nStructField none t) = some st := by
  rw [nStructField, sqlOf_mk row_StructField.1 row_StructField.2]
  sql_eval [ht]

/-! ## CAST -/

theorem prec_CastExpr (sc : List (String × Scalar)) : ST.exprPrecOf "CastExpr" sc = some 0 :=
  exprPrecOf_plain (by decide +kernel) sc

theorem row_CastExpr :
    ST.bodies.lookup "CastExpr" = some (.ret (.cat (.cat (.cat (.cat (.cat (.strOpt (.bool "Safe") (.lit "SAFE_")) (.lit "CAST(")) (.child "Expr")) (.lit " AS ")) (.child "Type")) (.lit ")"))) ∧
    ST.fieldsOf "CastExpr" = [⟨"Cast", .pos, "token.Pos"⟩, ⟨"Rparen", .pos, "token.Pos"⟩, ⟨"Safe", .bool, "bool"⟩, ⟨"Expr", .node, "Expr"⟩, ⟨"Type", .node, "Type"⟩] := by
  decide +kernel

theorem sql_CastExpr (ip : Nat → Bool) (cp rp : Nat) (safe : Bool) (e t : Node) (se st : Bytes)
    (he : sqlOf ST ip e = some se) (ht : sqlOf ST ip t = some st) :
    sqlOf ST ip (nCastExpr cp rp safe e t) =
      some ((if safe then B "SAFE_" else []) ++ B "CAST(" ++ se ++ B " AS " ++ st ++ B ")") := by
  rw [nCastExpr, sqlOf_mk row_CastExpr.1 row_CastExpr.2]
  sql_eval [he, ht]

end MF.Bridge
