/-
  MF.Spec.LineCol — what "line" and "column" of a byte offset mean (C20), written without
  reference to `token/file.go`: scan the text from the start, a newline byte starts a new line.
-/
import MF.Model.Basic
namespace MF.Spec

/-- scan `pos` bytes; `line` = newlines seen, `col` = bytes since the last one -/
def lineColAux : Bytes → Nat → Nat → Nat → Nat × Nat
  | _, 0, line, col => (line, col)
  | [], _ + 1, line, col => (line, col)
  | c :: t, pos + 1, line, col =>
    if c == 10 then lineColAux t pos (line + 1) 0 else lineColAux t pos line (col + 1)

/-- 0-based line and column of byte offset `pos` -/
def lineCol (buf : Bytes) (pos : Nat) : Nat × Nat := lineColAux buf pos 0 0

/-- the line is the number of newline bytes before `pos` -/
theorem lineColAux_fst (buf : Bytes) (pos line col : Nat) :
    (lineColAux buf pos line col).1 = line + (buf.take pos).count 10 := by
  induction buf generalizing pos line col with
  | nil => cases pos <;> simp [lineColAux]
  | cons c t ih =>
    cases pos with
    | zero => simp [lineColAux]
    | succ p =>
      simp only [lineColAux, List.take_succ_cons]
      split
      · rename_i h
        have : c = 10 := by simpa using h
        subst this
        rw [ih]; simp; omega
      · rename_i h
        have : c ≠ 10 := by simpa using h
        rw [ih, List.count_cons_of_ne this]

theorem lineCol_line (buf : Bytes) (pos : Nat) : (lineCol buf pos).1 = (buf.take pos).count 10 := by
  unfold lineCol; rw [lineColAux_fst]; simp

end MF.Spec
