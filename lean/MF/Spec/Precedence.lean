/-
  MF.Spec.Precedence — the GoogleSQL operator-precedence table as data, and what it says about the grouping of an
  expression tree.  Written from the property text (C07) and the GoogleSQL "Operator precedence" table,
  independently of `parser.go` / `ast/sql.go`:

    level  1   field access `.f`, subscript `[…]`                                   (postfix)
    level  2   unary `+ - ~`                                                        (prefix)
    level  3   `* / ||`                                                             left-associative
    level  4   `+ -`                                                                left-associative
    level  5   `<< >>`                                                              left-associative
    level  6   `&`                                                                  left-associative
    level  7   `^`                                                                  left-associative
    level  8   `|`                                                                  left-associative
    level  9   `= != <> < <= > >= [NOT] LIKE, [NOT] IN, [NOT] BETWEEN, IS [NOT] …`  NOT associative
    level 10   `NOT`                                                                (prefix)
    level 11   `AND`                                                                left-associative
    level 12   `OR`                                                                 left-associative

  `level e` is the row of the outermost operator of `e` (0 for an atom; a parenthesised expression is an atom
  whatever it contains).  `PrecOK e` says that every operand sits where the table allows it WITHOUT parentheses:
  an operand of a left-associative operator of level `L` has level `≤ L` on the left and `< L` on the right; both
  operands of a non-associative operator have level `< L`; the operand of a prefix operator of level `L` has level
  `≤ L`; the operand of a postfix operator has level `≤ 1`; BETWEEN bounds are below the comparison level (so at most
  the `|` level); the elements of an IN list, the argument of UNNEST and a subscript are arbitrary expressions (they
  are delimited by brackets); so are the operand, conditions and results of `CASE … END` (delimited by the keywords
  CASE WHEN THEN ELSE END), the three arguments of `IF(…)`, the elements of an array literal `[…]` and the operand of
  `CAST(… AS type)`; these are atoms (level 0).

  The file also defines what the theorems of C07 talk about: the projection `proj : Token → Tok'` (kind class +
  value; positions, trivia, keyword case and the `<>` / `!=` spelling are forgotten) and the token sequence
  `yield e` of a tree, in which a `paren` node is a `(` … `)` pair around exactly the yield of its operand.
-/
import MF.Model.Expr
namespace MF.Expr

/-! ## the table -/

inductive Assoc | left | none | prefix_ | postfix
  deriving DecidableEq, Repr

/-- operator families of the table -/
inductive Fam
  | access            -- `.f`  `[…]`
  | sign              -- unary + - ~
  | bin (op : BOp)
  | in_ | between | is_
  | not_
  deriving DecidableEq, Repr

/-- the GoogleSQL operator precedence table (tightest first) -/
def table : List (Nat × List Fam × Assoc) := [
  (1, [.access], .postfix),
  (2, [.sign], .prefix_),
  (3, [.bin .mul, .bin .div, .bin .concat], .left),
  (4, [.bin .add, .bin .sub], .left),
  (5, [.bin .shl, .bin .shr], .left),
  (6, [.bin .bitAnd], .left),
  (7, [.bin .bitXor], .left),
  (8, [.bin .bitOr], .left),
  (9, [.bin .eq, .bin .ne, .bin .lt, .bin .le, .bin .gt, .bin .ge, .bin .like, .bin .notLike, .in_, .between, .is_], .none),
  (10, [.not_], .prefix_),
  (11, [.bin .and], .left),
  (12, [.bin .or], .left)]

def tableRow (f : Fam) : Option (Nat × Assoc) :=
  (table.find? (fun r => r.2.1.contains f)).map (fun r => (r.1, r.2.2))

/-- row of a binary operator -/
def BOp.level : BOp → Nat
  | .mul | .div | .concat => 3
  | .add | .sub => 4
  | .shl | .shr => 5
  | .bitAnd => 6
  | .bitXor => 7
  | .bitOr => 8
  | .eq | .ne | .lt | .le | .gt | .ge | .like | .notLike => 9
  | .and => 11
  | .or => 12

/-- the comparison family does not associate -/
def BOp.nonAssoc (op : BOp) : Bool := op.level == 9

def UOp.level : UOp → Nat
  | .not => 10
  | _ => 2

/-- the pattern-matching definitions are the table -/
theorem level_is_table :
    (∀ op : BOp, tableRow (.bin op) = some (op.level, if op.nonAssoc then .none else .left)) ∧
    tableRow .access = some (1, .postfix) ∧ tableRow .sign = some (2, .prefix_) ∧ tableRow .not_ = some (10, .prefix_) ∧
    tableRow .in_ = some (9, .none) ∧ tableRow .between = some (9, .none) ∧ tableRow .is_ = some (9, .none) := by
  refine ⟨fun op => ?_, ?_, ?_, ?_, ?_, ?_, ?_⟩
  · cases op <;> decide
  all_goals decide

/-- row of the outermost operator; 0 for atoms.  A numeric literal with a folded sign IS a unary sign applied to
the literal (level 2); a path `a.b` IS a field access (level 1). -/
def level : Expr → Nat
  | .int (some _) _ | .float (some _) _ => 2
  | .path _ | .sel .. | .index .. => 1
  | .unary op _ => op.level
  | .bin op _ _ => op.level
  | .isNull .. | .isBool .. | .between .. | .inList .. | .inUnnest .. => 9
  | _ => 0

mutual
/-- every operand is where the table puts it without parentheses -/
def precOK : Expr → Bool
  | .paren e => precOK e
  | .unary op e => precOK e && decide (level e ≤ op.level)
  | .bin op l r =>
    precOK l && precOK r &&
      (if op.nonAssoc then decide (level l < op.level) else decide (level l ≤ op.level)) && decide (level r < op.level)
  | .isNull e _ => precOK e && decide (level e < 9)
  | .isBool e _ _ => precOK e && decide (level e < 9)
  | .between _ e lo hi =>
    precOK e && precOK lo && precOK hi && decide (level e < 9) && decide (level lo < 9) && decide (level hi < 9)
  | .inList _ e first more => precOK e && decide (level e < 9) && precOK first && precOKs more
  | .inUnnest _ e a => precOK e && decide (level e < 9) && precOK a
  | .sel e _ => precOK e && decide (level e ≤ 1)
  | .index e _ i => precOK e && decide (level e ≤ 1) && precOK i
  | .caseE o c t ws el => precOKo o && precOK c && precOK t && precOKw ws && precOKo el
  | .ifE c t e => precOK c && precOK t && precOK e
  | .array es => precOKs es
  | .cast e _ => precOK e
  | _ => true
def precOKs : Exprs → Bool
  | .nil => true
  | .cons e es => precOK e && precOKs es
def precOKw : Whens → Bool
  | .nil => true
  | .cons c t ws => precOK c && precOK t && precOKw ws
def precOKo : OExpr → Bool
  | .none => true
  | .some e => precOK e
end

/-- the grouping of `e` is the one the table defines -/
def PrecOK (e : Expr) : Prop := precOK e = true
instance (e : Expr) : Decidable (PrecOK e) := inferInstanceAs (Decidable (_ = _))

/-! ## tokens up to positions and trivia, and the yield of a tree -/

/-- a token as the grammar sees it: its class and, for literals / names, its value -/
structure Tok' where
  k : TK
  v : Bytes := []
  deriving DecidableEq, Repr

/-- the value the parser reads from a token of that class -/
def tokVal (t : Token) : Bytes :=
  match tk t.kind with
  | .ident | .param | .string | .bytes => t.asString
  | .int | .float => t.raw
  | _ => []

def proj (t : Token) : Tok' := ⟨tk t.kind, tokVal t⟩

/-- a token without value -/
def T (k : TK) : Tok' := ⟨k, []⟩

def Sign.tk : Sign → TK
  | .plus => .plus | .minus => .minus

def signToks : Option Sign → List Tok'
  | none => [] | some s => [T s.tk]

def UOp.tk : UOp → TK
  | .plus => .plus | .minus => .minus | .bitNot => .tilde | .not => .not_

def BOp.toks : BOp → List Tok'
  | .mul => [T .star] | .div => [T .slash] | .concat => [T .concat] | .add => [T .plus] | .sub => [T .minus]
  | .shl => [T .shl] | .shr => [T .shr] | .bitAnd => [T .amp] | .bitXor => [T .caret] | .bitOr => [T .bar]
  | .eq => [T .eq] | .ne => [T .ne] | .lt => [T .lt] | .le => [T .le] | .gt => [T .gt] | .ge => [T .ge]
  | .like => [T .like] | .notLike => [T .not_, T .like] | .and => [T .and_] | .or => [T .or_]

def notToks (not : Bool) : List Tok' := if not then [T .not_] else []

def boolTK (b : Bool) : TK := if b then .true_ else .false_

def pathToks : List Bytes → List Tok'
  | [] => []
  | [a] => [⟨.ident, a⟩]
  | a :: b :: rest => ⟨.ident, a⟩ :: T .dot :: pathToks (b :: rest)

mutual
/-- the token sequence of a tree; a `paren` is `(` yield `)` around exactly its operand -/
def yield : Expr → List Tok'
  | .null => [T .null]
  | .bool b => [T (boolTK b)]
  | .int s raw => signToks s ++ [⟨.int, raw⟩]
  | .float s raw => signToks s ++ [⟨.float, raw⟩]
  | .str v => [⟨.string, v⟩]
  | .bytes v => [⟨.bytes, v⟩]
  | .param n => [⟨.param, n⟩]
  | .ident n => [⟨.ident, n⟩]
  | .path ns => pathToks ns
  | .paren e => T .lparen :: (yield e ++ [T .rparen])
  | .unary op e => T op.tk :: yield e
  | .bin op l r => yield l ++ (op.toks ++ yield r)
  | .isNull e not => yield e ++ (T .is_ :: (notToks not ++ [T .null]))
  | .isBool e not r => yield e ++ (T .is_ :: (notToks not ++ [T (boolTK r)]))
  | .between not e lo hi => yield e ++ (notToks not ++ (T .between :: (yield lo ++ (T .and_ :: yield hi))))
  | .inList not e first more =>
    yield e ++ (notToks not ++ (T .in_ :: T .lparen :: (yield first ++ (yields more ++ [T .rparen]))))
  | .inUnnest not e a => yield e ++ (notToks not ++ (T .in_ :: T .unnest :: T .lparen :: (yield a ++ [T .rparen])))
  | .sel e n => yield e ++ [T .dot, ⟨.ident, n⟩]
  | .index e none i => yield e ++ (T .lbrack :: (yield i ++ [T .rbrack]))
  | .index e (some (_, spelled)) i =>
    yield e ++ (T .lbrack :: ⟨.ident, spelled⟩ :: T .lparen :: (yield i ++ [T .rparen, T .rbrack]))
  | .caseE o c t ws el =>
    T .case_ :: (yieldO [] o ++ (T .when_ :: (yield c ++ (T .then_ :: (yield t ++ (yieldW ws ++ (yieldO [T .else_] el ++ [T .end_])))))))
  | .ifE c t e => T .if_ :: T .lparen :: (yield c ++ (T .comma :: (yield t ++ (T .comma :: (yield e ++ [T .rparen])))))
  | .array .nil => [T .lbrack, T .rbrack]
  | .array (.cons e es) => T .lbrack :: (yield e ++ (yields es ++ [T .rbrack]))
  | .cast e ns => T .cast :: T .lparen :: (yield e ++ (T .as_ :: (pathToks ns ++ [T .rparen])))
def yields : Exprs → List Tok'
  | .nil => []
  | .cons e es => T .comma :: (yield e ++ yields es)
def yieldW : Whens → List Tok'
  | .nil => []
  | .cons c t ws => T .when_ :: (yield c ++ (T .then_ :: (yield t ++ yieldW ws)))
/-- an optional expression behind the tokens `pre` (nothing for the operand of CASE, `ELSE` for a `CaseElse`) -/
def yieldO (pre : List Tok') : OExpr → List Tok'
  | .none => []
  | .some e => pre ++ yield e
end

/-! ## the normal form of parser-built trees, and what may follow an expression -/

/-- the position keyword an identifier name denotes inside `[…]` (`Token.IsIdent` is case-insensitive) -/
def posKwName (n : Bytes) : Option PosKw :=
  if Char.equalFold n (B "OFFSET") then some .offset
  else if Char.equalFold n (B "ORDINAL") then some .ordinal
  else if Char.equalFold n (B "SAFE_OFFSET") then some .safeOffset
  else if Char.equalFold n (B "SAFE_ORDINAL") then some .safeOrdinal
  else none

/-- does the token sequence start with an identifier that reads as a position keyword? -/
def startsPosKw : List Tok' → Bool
  | ⟨.ident, v⟩ :: _ => (posKwName v).isSome
  | _ => false

/-- does the token sequence start like a call: an identifier directly followed by `(`?  Inside `[…]` this is the
configuration in which `parseIndexSpecifier` reads a position keyword.  No yield of the fragment starts like that
(calls are outside it): theorem `yield_not_call` (MF/Proofs/ExprBasic.lean) — which is why `NF` needs no side
condition on the expression of a plain subscript: `a[offset]`, `a[ordinal * 2]`, `a[offset.f]` are plain subscripts
whose expression starts with the column `offset` / `ordinal`. -/
def startsCall : List Tok' → Bool
  | a :: b :: _ => a.k == .ident && b.k == .lparen
  | _ => false

def isIdentOrPath : Expr → Bool
  | .ident _ | .path _ => true
  | _ => false

/-- a numeric literal the parser folds a sign into: spelled without a sign (always so for lexer tokens) -/
def foldable : Expr → Bool
  | .int none raw | .float none raw => unsignedRaw? raw == some true
  | _ => false

/-- a numeric literal spelled with a sign of its own (never a lexer token): `parseUnary` keeps the UnaryExpr -/
def rawSigned : Expr → Bool
  | .int none raw | .float none raw => unsignedRaw? raw == some false
  | _ => true

/-- the path of a `NamedType` as `parseType` builds it: not empty, and not a single scalar type name (that one is a
`SimpleType`) -/
def nfT : List Bytes → Bool
  | [] => false
  | [a] => (simpleNameOf a).isNone
  | _ => true

mutual
/-- the shapes `parseUnary` and `parseSelector` build (sign folding, path merging) and the place where the
spelling of an identifier decides the production (`[OFFSET(…)]`: the word in front of the `(` reads as its keyword).
A plain subscript `[i]` carries no condition: the word OFFSET / ORDINAL / SAFE_OFFSET / SAFE_ORDINAL starts a keyword
subscript only when `(` follows it directly, and the yield of an expression never starts with an identifier followed
by `(` (`yield_not_call`). -/
def nf : Expr → Bool
  | .int (some _) raw | .float (some _) raw => unsignedRaw? raw == some true
  | .path ns => decide (2 ≤ ns.length)
  | .paren e => nf e
  | .unary op e => nf e && (op.sign?.isNone || rawSigned e)
  | .bin _ l r => nf l && nf r
  | .isNull e _ => nf e
  | .isBool e _ _ => nf e
  | .between _ e lo hi => nf e && nf lo && nf hi
  | .inList _ e first more => nf e && nf first && nfs more
  | .inUnnest _ e a => nf e && nf a
  | .sel e _ => nf e && !isIdentOrPath e
  | .index e none i => nf e && nf i
  | .index e (some (k, spelled)) i => nf e && nf i && posKwName spelled == some k
  | .caseE o c t ws el => nfo o && nf c && nf t && nfw ws && nfo el
  | .ifE c t e => nf c && nf t && nf e
  | .array es => nfs es
  | .cast e ns => nf e && nfT ns
  | _ => true
def nfs : Exprs → Bool
  | .nil => true
  | .cons e es => nf e && nfs es
def nfw : Whens → Bool
  | .nil => true
  | .cons c t ws => nf c && nf t && nfw ws
def nfo : OExpr → Bool
  | .none => true
  | .some e => nf e
end

def NF (e : Expr) : Prop := nf e = true
instance (e : Expr) : Decidable (NF e) := inferInstanceAs (Decidable (_ = _))

/-- the lowest level at which a token continues an expression that ends just before it (`(` and a string continue
an identifier: call, typed literal) -/
def contLevel : TK → Option Nat
  | .lparen | .string => some 0
  | .dot | .lbrack => some 1
  | .star | .slash | .concat => some 3
  | .plus | .minus => some 4
  | .shl | .shr => some 5
  | .amp => some 6
  | .caret => some 7
  | .bar => some 8
  | .eq | .ne | .lt | .le | .gt | .ge | .like | .in_ | .between | .is_ | .not_ => some 9
  | .and_ => some 11
  | .or_ => some 12
  | _ => none

/-- `rest` does not continue an expression of level `k` -/
def noCont (k : Nat) (rest : List Token) : Bool :=
  match contLevel (cur rest) with
  | some l => decide (k < l)
  | none => true

/-- `rest` cannot continue any expression (`<eof>`, `)`, `]`, `,`, a literal other than a string, …) -/
def Follow (rest : List Token) : Prop := noCont 12 rest = true

end MF.Expr
