/-
  MF.Spec.PrintToks — the token-level image of the printer model `sqlE` (MF/Model/Expr.lean), used to state the
  printer half of C07 (`print_minimal_partial`, MF/Proofs/ExprPrint.lean), and the run-time check that the model
  lexer maps the printed bytes to exactly these tokens (field `rt` of the EXPR channel).
-/
import MF.Spec.Precedence
namespace MF.Expr

/-- `paren(p, e)` on tokens -/
def parenT (p : Nat) (e : Expr) (ts : List Tok') : List Tok' :=
  if exprPrec e ≤ p then ts else T .lparen :: (ts ++ [T .rparen])

mutual
/-- token-level image of `sqlE` -/
def sqlToks : Expr → List Tok'
  | .null => [T .null]
  | .bool b => [T (boolTK b)]
  | .int s raw => signToks s ++ [⟨.int, raw⟩]
  | .float s raw => signToks s ++ [⟨.float, raw⟩]
  | .str v => [⟨.string, v⟩]
  | .bytes v => [⟨.bytes, v⟩]
  | .param n => [⟨.param, n⟩]
  | .ident n => [⟨.ident, n⟩]
  | .path ns => pathToks ns
  | .paren e => T .lparen :: (sqlToks e ++ [T .rparen])
  | .unary op e => T op.tk :: parenT op.prec e (sqlToks e)
  | .bin op l r => parenT op.prec l (sqlToks l) ++ (op.toks ++ parenT op.prec r (sqlToks r))
  | .isNull e not => parenT 9 e (sqlToks e) ++ (T .is_ :: (notToks not ++ [T .null]))
  | .isBool e not r => parenT 9 e (sqlToks e) ++ (T .is_ :: (notToks not ++ [T (boolTK r)]))
  | .between not e lo hi =>
    parenT 9 e (sqlToks e) ++ (notToks not ++ (T .between :: (parenT 9 lo (sqlToks lo) ++ (T .and_ :: parenT 9 hi (sqlToks hi)))))
  | .inList not e first more =>
    parenT 9 e (sqlToks e) ++ (notToks not ++ (T .in_ :: T .lparen :: (sqlToks first ++ (sqlToksL more ++ [T .rparen]))))
  | .inUnnest not e a =>
    parenT 9 e (sqlToks e) ++ (notToks not ++ (T .in_ :: T .unnest :: T .lparen :: (sqlToks a ++ [T .rparen])))
  | .sel e n => parenT 1 e (sqlToks e) ++ [T .dot, ⟨.ident, n⟩]
  | .index e none i => parenT 1 e (sqlToks e) ++ (T .lbrack :: (sqlToks i ++ [T .rbrack]))
  | .index e (some (k, _)) i =>
    parenT 1 e (sqlToks e) ++ (T .lbrack :: ⟨.ident, k.str⟩ :: T .lparen :: (sqlToks i ++ [T .rparen, T .rbrack]))
  | .caseE o c t ws el =>
    T .case_ :: (sqlToksO [] o ++ (T .when_ :: (sqlToks c ++ (T .then_ :: (sqlToks t ++ (sqlToksW ws ++
      (sqlToksO [T .else_] el ++ [T .end_])))))))
  | .ifE c t e =>
    T .if_ :: T .lparen :: (sqlToks c ++ (T .comma :: (sqlToks t ++ (T .comma :: (sqlToks e ++ [T .rparen])))))
  | .array .nil => [T .lbrack, T .rbrack]
  | .array (.cons e es) => T .lbrack :: (sqlToks e ++ (sqlToksL es ++ [T .rbrack]))
  | .cast e ns => T .cast :: T .lparen :: (sqlToks e ++ (T .as_ :: (pathToks ns ++ [T .rparen])))
def sqlToksL : Exprs → List Tok'
  | .nil => []
  | .cons e es => T .comma :: (sqlToks e ++ sqlToksL es)
def sqlToksW : Whens → List Tok'
  | .nil => []
  | .cons c t ws => T .when_ :: (sqlToks c ++ (T .then_ :: (sqlToks t ++ sqlToksW ws)))
def sqlToksO (pre : List Tok') : OExpr → List Tok'
  | .none => []
  | .some e => pre ++ sqlToks e
end

mutual
/-- the tree with its position keywords spelled canonically (what `SQL()` prints; the Go AST only keeps that) -/
def canonKw : Expr → Expr
  | .paren e => .paren (canonKw e)
  | .unary op e => .unary op (canonKw e)
  | .bin op l r => .bin op (canonKw l) (canonKw r)
  | .isNull e n => .isNull (canonKw e) n
  | .isBool e n b => .isBool (canonKw e) n b
  | .between n e lo hi => .between n (canonKw e) (canonKw lo) (canonKw hi)
  | .inList n e f m => .inList n (canonKw e) (canonKw f) (canonKwL m)
  | .inUnnest n e a => .inUnnest n (canonKw e) (canonKw a)
  | .sel e n => .sel (canonKw e) n
  | .index e none i => .index (canonKw e) none (canonKw i)
  | .index e (some (k, _)) i => .index (canonKw e) (some (k, k.str)) (canonKw i)
  | .caseE o c t ws el => .caseE (canonKwO o) (canonKw c) (canonKw t) (canonKwW ws) (canonKwO el)
  | .ifE c t e => .ifE (canonKw c) (canonKw t) (canonKw e)
  | .array es => .array (canonKwL es)
  | .cast e ns => .cast (canonKw e) ns
  | e => e
def canonKwL : Exprs → Exprs
  | .nil => .nil
  | .cons e es => .cons (canonKw e) (canonKwL es)
def canonKwW : Whens → Whens
  | .nil => .nil
  | .cons c t ws => .cons (canonKw c) (canonKw t) (canonKwW ws)
def canonKwO : OExpr → OExpr
  | .none => .none
  | .some e => .some (canonKw e)
end

/-- does the model lexer read the printed text `sqlE e` as the tokens `sqlToks e`? (not proved in general: this is
the step between the byte-level printer and `print_minimal_partial`; evaluated on every EXPR request) -/
def rtOK (e : Expr) : Bool :=
  match Lex.lexAll (sqlE e) with
  | .ok ts => ts.map proj == sqlToks e ++ [T .eof]
  | _ => false

/-- the EXPR request with the `rt` field -/
def exprRunRT (buf : Bytes) : String :=
  match Lex.lexAll buf with
  | .ok ts =>
    if tokenOutside ts then "OUTSIDE"
    else
      match parseExprTop (topFuel ts) ts with
      | .ok e => "OK " ++ sexp e ++ " " ++ hxs (sqlE e) ++ (if rtOK e then " rt=1" else " rt=0")
      | .raise => "ERR"
      | .outside => "OUTSIDE-MODEL"
      | .crash => "CRASH"
      | .outOfFuel => "FUEL"
  | .err _ _ => "ERR"
  | .crash _ => "CRASH"

end MF.Expr
