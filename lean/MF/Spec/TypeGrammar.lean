/-
  MF.Spec.TypeGrammar — the documented type grammar G_T of Spanner GoogleSQL, as an inductive derivation relation
  over TOKEN-KIND sequences, and the vocabulary in which the theorems about `ParseType` are stated.

  Written from the documentation (data-types page: "ARRAY<T>", "STRUCT<[field_name] field_type, ...>", "STRUCT<>",
  protocol-buffer / enum types are named by a dot-separated path), not from parser.go:

      type   ::=  ident { "." ident }                     simple type name (INT64, STRING, ...) or named type (path)
               |  ARRAY "<" type ">"
               |  STRUCT "<" [ field { "," field } ] ">"
      field  ::=  [ ident ] type

  The documentation writes `STRUCT<>` and `ARRAY<ARRAY<INT64>>`: the two-character lexemes `<>` and `>>` of the byte
  text STAND FOR the two one-character tokens `<` `>` and `>` `>` (`expandKinds`, `expand`).  There is no trailing
  comma in a field list (neither in the documentation nor in memefish).

  The grammar is over kinds, so it cannot say which identifiers are simple type names; that is done by the value
  level below: `yieldT` maps a tree to the (unique) sequence of token descriptions it stands for, `Match` relates such
  a sequence to real tokens, `wf` is the only side condition a parser-built tree satisfies beyond its yield
  (a one-identifier type that spells a scalar type name is that `SimpleType`, not a `NamedType`).
-/
import MF.Model.TypeParse
namespace MF.TypeG
open MF.TypeP

/-! ## the grammar over token kinds -/

/-- `ident { "." ident }` with `n` dots -/
def pathKinds : Nat → List TokKind
  | 0 => [.ident]
  | n + 1 => .ident :: K "." :: pathKinds n

/-- `a₁ sep a₂ sep … aₙ` -/
def sepBy {α : Type} (sep : List α) : List (List α) → List α
  | [] => []
  | [a] => a
  | a :: b :: rest => a ++ sep ++ sepBy sep (b :: rest)

/-- `[ ident ] type`: `named` says whether the field has a name -/
def fieldKinds (f : Bool × List TokKind) : List TokKind := (if f.1 then [.ident] else []) ++ f.2

/-- `TypeD ks`: the kind sequence `ks` is a sentence of G_T (non-terminal `type`) -/
inductive TypeD : List TokKind → Prop
  | path (n : Nat) : TypeD (pathKinds n)
  | array {ks : List TokKind} : TypeD ks → TypeD (K "ARRAY" :: K "<" :: ks ++ [K ">"])
  | struct (fs : List (Bool × List TokKind)) : (∀ f ∈ fs, TypeD f.2) →
      TypeD (K "STRUCT" :: K "<" :: sepBy [K ","] (fs.map fieldKinds) ++ [K ">"])

/-- `<>` stands for `<` `>`, `>>` for `>` `>` -/
def expandKinds : List TokKind → List TokKind
  | [] => []
  | k :: ks =>
    if k = K ">>" then K ">" :: K ">" :: expandKinds ks
    else if k = K "<>" then K "<" :: K ">" :: expandKinds ks
    else k :: expandKinds ks

/-! ## the same expansion on tokens (with positions) -/

/-- first byte of a `<>` token as a token of its own -/
def lt1 (t : Token) : Token := { t with kind := K "<", raw := B "<", «end» := t.pos + 1 }
/-- first byte of a `>>` token as a token of its own -/
def gt1 (t : Token) : Token := { t with kind := K ">", raw := B ">", «end» := t.pos + 1 }
/-- second byte of a `<>` or `>>` token as a token of its own: exactly what the parser's in-place split leaves -/
def gt2 (t : Token) : Token := splitTok t

/-- every `>>` token counts as two one-byte tokens `>`, every `<>` token as `<` and `>` -/
def expand : List Token → List Token
  | [] => []
  | t :: ts =>
    match tk t.kind with
    | .shr => gt1 t :: gt2 t :: expand ts
    | .ltgt => lt1 t :: gt2 t :: expand ts
    | _ => t :: expand ts

/-! ## the yield of a tree -/

/-- description of one token by the tree: its class and what the tree records about it -/
inductive YT
  /-- an identifier at `pos` that reads (case-insensitively, quoted or not) as the simple type `name` -/
  | simple (pos : Nat) (name : Bytes)
  /-- an identifier with this position, end and (unquoted) name -/
  | ident (i : Ident)
  /-- a token of class `k` at `pos` (`ARRAY`, `STRUCT`, the closing `>`) -/
  | at (k : TK) (pos : Nat)
  /-- a token of class `k` whose position the tree does not record (`<`, `,`, `.`) -/
  | sym (k : TK)
  deriving DecidableEq, Repr

def YT.cls : YT → TK
  | .simple _ _ => .ident
  | .ident _ => .ident
  | .at k _ => k
  | .sym k => k

/-- the token `t` is what the description says -/
def YT.ok : YT → Token → Prop
  | .simple p n, t => tk t.kind = .ident ∧ t.pos = p ∧ simpleName? t = some n
  | .ident i, t => tk t.kind = .ident ∧ i = ⟨t.pos, t.end, t.asString⟩
  | .at k p, t => tk t.kind = k ∧ t.pos = p
  | .sym k, t => tk t.kind = k

/-- token by token -/
def Match : List YT → List Token → Prop
  | [], [] => True
  | y :: ys, t :: ts => y.ok t ∧ Match ys ts
  | _, _ => False

def yieldPath : List Ident → List YT
  | [] => []
  | [a] => [.ident a]
  | a :: b :: rest => .ident a :: .sym .dot :: yieldPath (b :: rest)

def yieldName : Option Ident → List YT
  | some i => [.ident i]
  | none => []

mutual
/-- the tokens a tree stands for, in order (`<>` and `>>` expanded) -/
def yieldT : Ty → List YT
  | .simple p n => [.simple p n]
  | .named path => yieldPath path
  | .array a g item => .at .array a :: .sym .lt :: yieldT item ++ [.at .gt g]
  | .struct s g fs => .at .struct_ s :: .sym .lt :: yieldFs fs ++ [.at .gt g]
def yieldFs : Fields → List YT
  | .nil => []
  | .cons i t rest => yieldName i ++ yieldT t ++ yieldMore rest
/-- the fields after the first, each preceded by its comma -/
def yieldMore : Fields → List YT
  | .nil => []
  | .cons i t rest => .sym .comma :: yieldName i ++ yieldT t ++ yieldMore rest
end

/-- the simple type an identifier NAME reads as (`Token.IsIdent` looks at the unquoted name only) -/
def simpleOf (name : Bytes) : Option Bytes := simpleTypes.find? (fun n => Char.equalFold name n)

mutual
/-- the side condition on trees: a `NamedType` has a non-empty path, and a ONE-component path does not read as a simple
type name (an identifier spelled like a scalar type and not followed by `.` IS that `SimpleType`, which is right:
`DATE` is the date type, `date.T` is the named type `T` of package `date`).  Paths of two or more components are
unrestricted: memefish decides `SimpleType` vs `NamedType` on the first identifier AND the token after it. -/
def wf : Ty → Bool
  | .simple _ _ => true
  | .named path => match path with
    | [] => false
    | [a] => (simpleOf a.name).isNone
    | _ :: _ :: _ => true
  | .array _ _ item => wf item
  | .struct _ _ fs => wfs fs
def wfs : Fields → Bool
  | .nil => true
  | .cons _ t rest => wf t && wfs rest
end

end MF.TypeG
