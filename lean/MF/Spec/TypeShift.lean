/-
  MF.Spec.TypeShift — "equal up to position values": `shiftT d t` is `t` with every position decreased by `d`;
  `eraseT t` is `t` with every position set to 0.
-/
import MF.Model.TypeParse
namespace MF.TypeG
open MF.TypeP

def shiftI (d : Nat) (i : Ident) : Ident := ⟨i.namePos - d, i.nameEnd - d, i.name⟩

mutual
/-- all positions of the tree moved down by `d` -/
def shiftT (d : Nat) : Ty → Ty
  | .simple p n => .simple (p - d) n
  | .named path => .named (path.map (shiftI d))
  | .array a g item => .array (a - d) (g - d) (shiftT d item)
  | .struct s g fs => .struct (s - d) (g - d) (shiftFs d fs)
def shiftFs (d : Nat) : Fields → Fields
  | .nil => .nil
  | .cons i t rest => .cons (i.map (shiftI d)) (shiftT d t) (shiftFs d rest)
end

def eraseI (i : Ident) : Ident := ⟨0, 0, i.name⟩

mutual
/-- the tree without its position values -/
def eraseT : Ty → Ty
  | .simple _ n => .simple 0 n
  | .named path => .named (path.map eraseI)
  | .array _ _ item => .array 0 0 (eraseT item)
  | .struct _ _ fs => .struct 0 0 (eraseFs fs)
def eraseFs : Fields → Fields
  | .nil => .nil
  | .cons i t rest => .cons (i.map eraseI) (eraseT t) (eraseFs rest)
end

end MF.TypeG
