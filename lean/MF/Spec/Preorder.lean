/-
  MF.Spec.Preorder — what `ast.Walk` does, declaratively.

  `events V table n v` is the list of visitor calls made when node `n` is visited with visitor `v`, as a recursive
  definition over the tree (no stack): `Visit v n`; if it returns nil nothing more; otherwise, with the returned
  visitor `v'`,
    * first all `v'.Field(label)` calls of the kind's pushes, in push order (the Go code makes them while pushing,
      before any child is visited),
    * then, for each push in REVERSE push order (= declaration order of the struct fields), the events of that item:
      a single child, if present, is visited with `v'.Field(label)`; a slice field `ns` gives `VisitMany w ns` on
      `w = v'.Field(label)`, then with the returned `w'` the calls `w'.Index(len-1) … w'.Index(0)` (they, too, are made
      while pushing), then each element `ns[i]` is visited with `w'.Index(i)`, for `i = 0 … len-1`.

  The recursion is well-founded on `Node.size` (children obtained with `Kids.single` / `Kids.slice` are smaller);
  the definition carries the membership proofs this needs (`attach`, `match h :`); `events_eq` is the same equation
  without them and is what should be read as the specification.

  `nodes table n` is the plain preorder listing of the nodes reachable through the table's fields.
-/
import MF.Model.Walk
namespace MF.Ast

mutual
  theorem Kids.single_size : ∀ (ks : Kids) (f : String) (m : Node), ks.single f = some m → m.size ≤ ks.size
    | .nil, f, m, h => by simp [Kids.single] at h
    | .cons g i n r, f, m, h => by
      rw [Kids.single] at h
      rw [Kids.size]
      split at h
      · cases h; omega
      · have := Kids.single_size r f m h; omega
end

theorem Kids.slice_size : ∀ (ks : Kids) (f : String) (m : Node), m ∈ ks.slice f → m.size ≤ ks.size
  | .nil, f, m, h => by simp [Kids.slice] at h
  | .cons g i n r, f, m, h => by
    rw [Kids.slice] at h
    rw [Kids.size]
    split at h
    · rcases List.mem_cons.mp h with h | h
      · subst h; omega
      · have := Kids.slice_size r f m h; omega
    · have := Kids.slice_size r f m h; omega

theorem Node.size_eq (n : Node) : n.size = 1 + n.kids.size := by
  cases n; rw [Node.size]; rfl

namespace Spec.Preorder

/-- the visitor calls of `Walk(n, v)`, in order (read `events_eq` for the equation without termination plumbing) -/
def events {σ : Type} (V : Vis σ) (table : List (String × List WalkPush)) (n : Node) (v : σ) : List (Event σ) :=
  Event.visit v n ::
    match V.visit v n with
    | none => []
    | some v' =>
      let pushes := (table.lookup n.kind).getD []
      pushes.map (fun p => Event.field v' p.label) ++
      pushes.reverse.flatMap (fun p =>
        let w := V.field v' p.label
        if p.many then
          let ns := n.kids.slice p.field
          let w' := V.visitMany w ns
          Event.visitMany w ns :: (List.range ns.length).reverse.map (fun i => Event.index w' i) ++
            ns.attach.zipIdx.flatMap (fun q =>
              have := Kids.slice_size _ _ _ q.1.2
              events V table q.1.1 (V.index w' q.2))
        else
          match h : n.kids.single p.field with
          | none => []
          | some m =>
            have := Kids.single_size _ _ _ h
            events V table m w)
termination_by n.size
decreasing_by
  all_goals (rw [Node.size_eq n]; omega)

theorem flatMap_attach_zipIdx {α β : Type} (g : α → Nat → List β) :
    ∀ (l : List α) (P : α → Prop) (H : ∀ a ∈ l, P a) (k : Nat),
      ((l.attachWith P H).zipIdx k).flatMap (fun q => g q.1.1 q.2) = (l.zipIdx k).flatMap (fun q => g q.1 q.2)
  | [], _, _, _ => rfl
  | a :: l, P, H, k => by
    simp only [List.attachWith_cons, List.zipIdx_cons, List.flatMap_cons]
    rw [flatMap_attach_zipIdx g l]

theorem events_eq {σ : Type} (V : Vis σ) (table : List (String × List WalkPush)) (n : Node) (v : σ) :
    events V table n v =
      Event.visit v n ::
        match V.visit v n with
        | none => []
        | some v' =>
          let pushes := (table.lookup n.kind).getD []
          pushes.map (fun p => Event.field v' p.label) ++
          pushes.reverse.flatMap (fun p =>
            let w := V.field v' p.label
            if p.many then
              let ns := n.kids.slice p.field
              let w' := V.visitMany w ns
              Event.visitMany w ns :: (List.range ns.length).reverse.map (fun i => Event.index w' i) ++
                ns.zipIdx.flatMap (fun q => events V table q.1 (V.index w' q.2))
            else
              match n.kids.single p.field with
              | none => []
              | some m => events V table m w) := by
  rw [events]
  congr 1
  split
  · rfl
  · rename_i v' _
    dsimp only
    congr 1
    congr 1
    funext p
    split
    · refine congrArg (List.cons _) (congrArg (List.append _) ?_)
      exact flatMap_attach_zipIdx
        (fun m i => events V table m (V.index (V.visitMany (V.field v' p.label) (n.kids.slice p.field)) i)) _ _ _ 0
    · split <;> rename_i h <;> simp only [h]

/-- the nodes of the `Visit` calls of an event list, in order -/
def visited {σ : Type} (evs : List (Event σ)) : List Node :=
  evs.filterMap (fun e => match e with | .visit _ n => some n | _ => none)

/-- preorder listing: the node, then for every node-typed field in declaration order (reverse push order) its
child, or its elements in order, each with its own listing -/
def nodes (table : List (String × List WalkPush)) (n : Node) : List Node :=
  n :: ((table.lookup n.kind).getD []).reverse.flatMap (fun p =>
    if p.many then
      (n.kids.slice p.field).attach.flatMap (fun m =>
        have := Kids.slice_size _ _ _ m.2
        nodes table m.1)
    else
      match h : n.kids.single p.field with
      | none => []
      | some m =>
        have := Kids.single_size _ _ _ h
        nodes table m)
termination_by n.size
decreasing_by
  all_goals (rw [Node.size_eq n]; omega)

theorem flatMap_attach {α β : Type} (g : α → List β) :
    ∀ (l : List α) (P : α → Prop) (H : ∀ a ∈ l, P a),
      (l.attachWith P H).flatMap (fun q => g q.1) = l.flatMap g
  | [], _, _ => rfl
  | a :: l, P, H => by
    simp only [List.attachWith_cons, List.flatMap_cons]
    rw [flatMap_attach g l]

theorem nodes_eq (table : List (String × List WalkPush)) (n : Node) :
    nodes table n =
      n :: ((table.lookup n.kind).getD []).reverse.flatMap (fun p =>
        if p.many then (n.kids.slice p.field).flatMap (nodes table)
        else
          match n.kids.single p.field with
          | none => []
          | some m => nodes table m) := by
  rw [nodes]
  congr 1
  congr 1
  funext p
  split
  · exact flatMap_attach (nodes table) _ _ _
  · split <;> rename_i h <;> simp only [h]

end Spec.Preorder
end MF.Ast
