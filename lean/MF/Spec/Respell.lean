/-
  MF.Spec.Respell — what it means to RE-SPELL an accepted input: keep the token sequence, replace the
  trivia (whitespace and comments) between tokens, and change the letter case of keywords and unquoted
  identifiers.  Used by C16 (lexer side): re-spelling never changes the token stream.

  Given the tokens `ts` of an accepted input (`lexAll x = .ok ts`, the last token is `<eof>`), a re-spelling is
  described by one pair `(τ', r')` per token — the new trivia in front of the token and the new raw text of
  the token — and the new input is `τ'₁ ++ r'₁ ++ τ'₂ ++ r'₂ ++ … ++ τ'ₙ ++ r'ₙ` (`r'ₙ = []` for `<eof>`).
-/
import MF.Model.Lexer
namespace MF.Props.C16
open MF MF.Lex

/-- one whitespace rune: a non-empty byte string that `utf8.DecodeRuneInString` decodes completely as a single
rune accepted by `unicode.IsSpace` -/
def SpaceRune (w : Bytes) : Prop :=
  w ≠ [] ∧ (Utf8.decodeRune w).2 = w.length ∧ Utf8.isSpace (Utf8.decodeRune w).1 = true

/-- the three line-comment openers `#`, `--`, `//` -/
def LineOpener (o : Bytes) : Prop := o = [35] ∨ o = [45, 45] ∨ o = [47, 47]

/-- A trivia string: a concatenation of whitespace runes and complete comments.
 * a line comment is an opener, a body without `\n`, and the `\n`;
 * a block comment is `/*`, a body, and `*/`, where the first `*/` after the opener is the closer (`*/` does not
   occur in `body ++ "*"`; the `*` of the opener is not part of the body, so `/*/` is not a comment);
 * `Trivia true` additionally allows the string to END with a line comment that has no `\n` — only legal when the
   trivia is the very end of the input (S3). -/
inductive Trivia : Bool → Bytes → Prop
  | nil {e : Bool} : Trivia e []
  | space {e : Bool} {w τ : Bytes} : SpaceRune w → Trivia e τ → Trivia e (w ++ τ)
  | line {e : Bool} {o b τ : Bytes} : LineOpener o → 10 ∉ b → Trivia e τ → Trivia e (o ++ b ++ [10] ++ τ)
  | block {e : Bool} {b τ : Bytes} : ¬ ([42, 47] <:+: b ++ [42]) → Trivia e τ →
      Trivia e ([47, 42] ++ b ++ [42, 47] ++ τ)
  | lineEnd {o b : Bytes} : LineOpener o → 10 ∉ b → Trivia true (o ++ b)

/-- (S1) a non-empty trivia string starts with a whitespace rune -/
def StartsSpace (τ : Bytes) : Prop := ∃ w τ₀, SpaceRune w ∧ τ = w ++ τ₀

/-- the tokens whose letters may change case: reserved keywords and unquoted identifiers -/
def caseFree (t : Token) : Bool :=
  match t.kind with
  | .sym k => reserved.contains k
  | .ident => t.raw.head? != some 96
  | _ => false

/-- the new raw text `r'` of token `t`: the same bytes, except that ASCII letters of a keyword or of an unquoted
identifier may change case (`char.ToUpper` of both is the same byte string) -/
def RawOK (t : Token) (r' : Bytes) : Prop :=
  if caseFree t then Char.toUpper r' = Char.toUpper t.raw else r' = t.raw

instance (t : Token) (r' : Bytes) : Decidable (RawOK t r') :=
  inferInstanceAs (Decidable (if caseFree t then Char.toUpper r' = Char.toUpper t.raw else r' = t.raw))

/-- `RespellFrom first ts ps x'`: `x'` is the re-spelling of the token list `ts` described by `ps`
(`ps[i] = (τ'ᵢ, r'ᵢ)`, new trivia and new raw of token `i`); `first` says that the head of `ts` is the first
token of the input:
 * `x' = τ'₁ ++ r'₁ ++ … ++ τ'ₙ ++ r'ₙ`;
 * `τ'ᵢ` is a trivia string; only the last one (in front of `<eof>`) may end in an unterminated line comment (S3);
 * (S1) `τ'ᵢ` is empty or starts with a whitespace rune;
 * (S2) `τ'ᵢ` is empty only if token `i` had no comments and no space in front of it;
 * `r'ᵢ` is `RawOK` for token `i`.
(S1) and (S2) are about the boundary with the PREVIOUS token, so they are not required of the trivia in front of
the first token: the input may start with a comment, and leading trivia may be removed. -/
def RespellFrom : Bool → List Token → List (Bytes × Bytes) → Bytes → Prop
  | _, [], [], x' => x' = []
  | first, t :: ts, (τ', r') :: ps, x' =>
    ∃ rest', x' = τ' ++ r' ++ rest' ∧
      Trivia ts.isEmpty τ' ∧
      (first = false → (τ' = [] ∨ StartsSpace τ') ∧ (τ' = [] → t.comments = [] ∧ t.space = [])) ∧
      RawOK t r' ∧ RespellFrom false ts ps rest'
  | _, _, _, _ => False

/-- a re-spelling of a whole input -/
def Respell (ts : List Token) (ps : List (Bytes × Bytes)) (x' : Bytes) : Prop := RespellFrom true ts ps x'

/-- an unquoted identifier token -/
def unquotedIdent (t : Token) : Prop := t.kind = .ident ∧ t.raw.head? ≠ some 96

/-- what the re-lexed token `t'` has in common with the original token `t` whose raw text became `r'` -/
def TokRel (t : Token) (r' : Bytes) (t' : Token) : Prop :=
  t'.kind = t.kind ∧ t'.raw = r' ∧ t'.base = t.base ∧
  (unquotedIdent t → t.asString = t.raw ∧ t'.asString = r') ∧
  (¬ unquotedIdent t → t'.asString = t.asString)

/-- token-by-token `TokRel` (in particular the three lists have the same length) -/
def TokensRel : List Token → List (Bytes × Bytes) → List Token → Prop
  | [], [], [] => True
  | t :: ts, p :: ps, t' :: ts' => TokRel t p.2 t' ∧ TokensRel ts ps ts'
  | _, _, _ => False

end MF.Props.C16
