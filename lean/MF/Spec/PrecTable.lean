/-
  MF.Spec.PrecTable — the GoogleSQL operator precedence table as DATA.

  Written from the text of the language reference (not from ast/sql.go):

    "field/subscript access binds tightest, then unary + - ~, then * / ||, then binary + -, then << >>, &, ^, |, then
     the non-associative comparison family (= != <> < <= > >= [NOT] LIKE, [NOT] IN, [NOT] BETWEEN,
     IS [NOT] NULL/TRUE/FALSE), then NOT, AND, OR"

  as rows (kind of the AST node, spelling of its `Op` field if the kind has one, level) with levels
    0  atoms: literals, identifiers, paths, parameters, calls, parenthesised expressions, sub-queries,
       CASE / IF / CAST / EXTRACT / WITH / NEW / braced constructors / REPLACE_FIELDS …
    1  field access `e.f`, subscript `e[i]`
    2  unary `+ - ~`
    3  `* / ||`
    4  binary `+ -`
    5  `<< >>`
    6  `&`
    7  `^`
    8  `|`
    9  comparisons: `= != < <= > >= LIKE`, `NOT LIKE`, `[NOT] IN`, `[NOT] BETWEEN`, `IS [NOT] NULL`,
       `IS [NOT] TRUE/FALSE`
    10 `NOT`
    11 `AND`
    12 `OR`
  `Op` spellings are the values of the AST's `BinaryOp` / `UnaryOp` enums.  `<>` of the text is not among them: the
  parser reads `<>` as `OpNotEqual`, whose value (and printed spelling) is `!=`, so it has no row of its own.  The
  negated forms `NOT IN`, `NOT BETWEEN`, `IS NOT …` are the same node kind with `Not = true`: same row.
-/
import MF.Model.Ast
namespace MF.Spec.PrecTable
open MF.Ast

/-- a precedence table: (kind, `Op` value if the kind has an operator field, level) -/
abbrev Table := List (String × Option String × Nat)

/-- the names of the levels 0 … 12, loosest last -/
def levelNames : List String :=
  ["precLit", "precSelector", "precUnary", "precMulDiv", "precAddSub", "precBitShift", "precBitAnd", "precBitXor",
   "precBitOr", "precComparison", "precNot", "precAnd", "precOr"]

/-- the rows of the operators -/
def operators : Table := [
  -- 1: field / subscript access
  ("SelectorExpr", none, 1),
  ("IndexExpr", none, 1),
  -- 2: unary + - ~
  ("UnaryExpr", some "+", 2),
  ("UnaryExpr", some "-", 2),
  ("UnaryExpr", some "~", 2),
  -- 3: * / ||
  ("BinaryExpr", some "*", 3),
  ("BinaryExpr", some "/", 3),
  ("BinaryExpr", some "||", 3),
  -- 4: binary + -
  ("BinaryExpr", some "+", 4),
  ("BinaryExpr", some "-", 4),
  -- 5: << >>
  ("BinaryExpr", some "<<", 5),
  ("BinaryExpr", some ">>", 5),
  -- 6, 7, 8: & ^ |
  ("BinaryExpr", some "&", 6),
  ("BinaryExpr", some "^", 7),
  ("BinaryExpr", some "|", 8),
  -- 9: the comparison family
  ("BinaryExpr", some "=", 9),
  ("BinaryExpr", some "!=", 9),
  ("BinaryExpr", some "<", 9),
  ("BinaryExpr", some "<=", 9),
  ("BinaryExpr", some ">", 9),
  ("BinaryExpr", some ">=", 9),
  ("BinaryExpr", some "LIKE", 9),
  ("BinaryExpr", some "NOT LIKE", 9),
  ("InExpr", none, 9),
  ("BetweenExpr", none, 9),
  ("IsNullExpr", none, 9),
  ("IsBoolExpr", none, 9),
  -- 10, 11, 12: NOT AND OR
  ("UnaryExpr", some "NOT", 10),
  ("BinaryExpr", some "AND", 11),
  ("BinaryExpr", some "OR", 12)]

/-- the node kinds that are operators -/
def operatorKinds : List String :=
  ["SelectorExpr", "IndexExpr", "UnaryExpr", "BinaryExpr", "InExpr", "BetweenExpr", "IsNullExpr", "IsBoolExpr"]

/-- the kinds exempt from the table: `BadExpr` (error recovery) is produced by the top-level `parseExpr` only, never
    as an operand of an operator, and therefore never reaches `paren` / `exprPrec` -/
def exempt : List String := ["BadExpr"]

/-- the expression kinds of a catalogue: the structs that implement interface `Expr` -/
def exprKinds (kinds : List KindDecl) : List String :=
  (kinds.filter (·.ifaces.contains "Expr")).map (·.name)

/-- atoms: every expression kind that is neither an operator nor exempt -/
def atomKinds (kinds : List KindDecl) : List String :=
  (exprKinds kinds).filter (fun k => !operatorKinds.contains k && !exempt.contains k)

/-- the whole table for a catalogue -/
def table (kinds : List KindDecl) : Table := (atomKinds kinds).map (fun k => (k, none, 0)) ++ operators

/-! ### comparing two tables as finite maps (kind, op) ↦ level -/

/-- every row of `a` is a row of `b` -/
def subTable (a b : Table) : Bool := a.all (fun r => b.contains r)

/-- no (kind, op) occurs twice -/
def functional : Table → Bool
  | [] => true
  | r :: t => t.all (fun r' => !(r'.1 == r.1 && r'.2.1 == r.2.1)) && functional t

/-- both are finite maps, with the same graph -/
def sameMap (a b : Table) : Bool := functional a && functional b && subTable a b && subTable b a

/-- lookup on a table -/
def level? (t : Table) (kind : String) (op : Option String) : Option Nat :=
  (t.find? (fun r => r.1 == kind && r.2.1 == op)).map (·.2.2)

end MF.Spec.PrecTable
