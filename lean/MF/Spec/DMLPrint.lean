/-
  MF.Spec.DMLPrint — the token level of `SQL()` for the DML nodes (ast/sql.go: Insert, ValuesInput, ValuesRow,
  DefaultExpr, Delete, Update, UpdateItem, Where, AsAlias, Path, Ident): `PrintStmt rd s p` says that the token list
  `p` READS AS the printed statement `s`:

    INSERT [OR UPDATE|OR IGNORE] INTO path ( ident, … ) VALUES ( default, … ), …        INTO always printed
    DELETE FROM path [[AS] ident] WHERE expr                                              FROM always printed
    UPDATE path [[AS] ident] SET path = default, … WHERE expr                             AS iff `AsAlias.As` is valid

  keywords in any case (pseudo keywords: unquoted identifiers spelled like the word), identifiers by their NAME (quoting
  style invisible), an expression slot `e` by the reading `rd e : List Tok'` — `sqlToks e` (what `SQL()` prints, MF/Spec/
  PrintToks.lean) or `yield e` (what the parser consumed).  Positions, trivia and keyword case do not occur.
  `eraseS` forgets the position fields of a statement (keeping whether AS was written), `canonS` spells the position
  keywords of the slots canonically (`canonKw`, what the Go AST keeps).
-/
import MF.Spec.DMLGrammar
import MF.Spec.PrintToks
namespace MF.DML
open MF MF.Expr

def erI (i : PIdent) : PIdent := ⟨0, 0, i.name⟩
def eraseDefault : DefaultExpr Expr → DefaultExpr Expr
  | .dflt _ => .dflt 0
  | .expr e => .expr e
def eraseRow (r : ValuesRow Expr) : ValuesRow Expr := ⟨0, 0, r.exprs.map eraseDefault⟩
def eraseItem (u : UpdateItem Expr) : UpdateItem Expr := ⟨u.path.map erI, eraseDefault u.dflt⟩
def eraseWhere (w : Where Expr) : Where Expr := ⟨0, w.expr⟩
def eraseAlias : Option AsAlias → Option AsAlias
  | none => none
  | some a => some ⟨a.as.map (fun _ => 0), erI a.alias⟩
/-- all position fields := 0 (an `AsAlias.As` keeps its validity) -/
def eraseS : Stmt Expr → Stmt Expr
  | .insert _ o t cs v => .insert 0 o (t.map erI) (cs.map erI) ⟨0, v.rows.map eraseRow⟩
  | .delete _ t a w => .delete 0 (t.map erI) (eraseAlias a) (eraseWhere w)
  | .update _ t a us w => .update 0 (t.map erI) (eraseAlias a) (us.map eraseItem) (eraseWhere w)

/-- the position keywords of the expression slots in canonical spelling -/
def canonS : Stmt Expr → Stmt Expr := Stmt.map canonKw

section
variable (rd : Expr → List Tok')

def PrintExpr (e : Expr) (x : List Token) : Prop := PrecOK e ∧ NF e ∧ x.map proj = rd e

def IsName (i : PIdent) (t : Token) : Prop := tk t.kind = .ident ∧ t.asString = i.name

inductive PrintPath : List PIdent → List Token → Prop
  | one {i : PIdent} {t : Token} : IsName i t → PrintPath [i] [t]
  | cons {i : PIdent} {t d : Token} {ids : List PIdent} {ts : List Token} :
      IsName i t → tk d.kind = .dot → PrintPath ids ts → PrintPath (i :: ids) (t :: d :: ts)

inductive PrintIds : List PIdent → List Token → Prop
  | one {i : PIdent} {t : Token} : IsName i t → PrintIds [i] [t]
  | cons {i : PIdent} {t c : Token} {ids : List PIdent} {ts : List Token} :
      IsName i t → tk c.kind = .comma → PrintIds ids ts → PrintIds (i :: ids) (t :: c :: ts)

inductive PrintCols : List PIdent → List Token → Prop
  | empty {l r : Token} : tk l.kind = .lparen → tk r.kind = .rparen → PrintCols [] [l, r]
  | list {l r : Token} {ids : List PIdent} {ts : List Token} :
      tk l.kind = .lparen → PrintIds ids ts → tk r.kind = .rparen → PrintCols ids (l :: ts ++ [r])

inductive PrintDefault : DefaultExpr Expr → List Token → Prop
  | dflt {p : Nat} {t : Token} : t.kind = K "DEFAULT" → PrintDefault (.dflt p) [t]
  | expr {e : Expr} {x : List Token} : PrintExpr rd e x → PrintDefault (.expr e) x

inductive PrintEntries : List (DefaultExpr Expr) → List Token → Prop
  | one {d : DefaultExpr Expr} {ts : List Token} : PrintDefault rd d ts → PrintEntries [d] ts
  | cons {d : DefaultExpr Expr} {ts : List Token} {c : Token} {ds : List (DefaultExpr Expr)} {us : List Token} :
      PrintDefault rd d ts → tk c.kind = .comma → PrintEntries ds us → PrintEntries (d :: ds) (ts ++ c :: us)

inductive PrintRow : ValuesRow Expr → List Token → Prop
  | empty {r0 : ValuesRow Expr} {l r : Token} : r0.exprs = [] → tk l.kind = .lparen → tk r.kind = .rparen → PrintRow r0 [l, r]
  | list {r0 : ValuesRow Expr} {l r : Token} {ts : List Token} :
      tk l.kind = .lparen → PrintEntries rd r0.exprs ts → tk r.kind = .rparen → PrintRow r0 (l :: ts ++ [r])

inductive PrintRows : List (ValuesRow Expr) → List Token → Prop
  | one {r : ValuesRow Expr} {ts : List Token} : PrintRow rd r ts → PrintRows [r] ts
  | cons {r : ValuesRow Expr} {ts : List Token} {c : Token} {rs : List (ValuesRow Expr)} {us : List Token} :
      PrintRow rd r ts → tk c.kind = .comma → PrintRows rs us → PrintRows (r :: rs) (ts ++ c :: us)

inductive PrintItem : UpdateItem Expr → List Token → Prop
  | mk {u : UpdateItem Expr} {ps : List Token} {e : Token} {ds : List Token} :
      PrintPath u.path ps → tk e.kind = .eq → PrintDefault rd u.dflt ds → PrintItem u (ps ++ e :: ds)

inductive PrintItems : List (UpdateItem Expr) → List Token → Prop
  | one {u : UpdateItem Expr} {ts : List Token} : PrintItem rd u ts → PrintItems [u] ts
  | cons {u : UpdateItem Expr} {ts : List Token} {c : Token} {us : List (UpdateItem Expr)} {vs : List Token} :
      PrintItem rd u ts → tk c.kind = .comma → PrintItems us vs → PrintItems (u :: us) (ts ++ c :: vs)

inductive PrintWhere : Where Expr → List Token → Prop
  | mk {w : Where Expr} {t : Token} {x : List Token} : t.kind = K "WHERE" → PrintExpr rd w.expr x → PrintWhere w (t :: x)

/-- `sqlOpt("", d.As, " ")` with `AsAlias.SQL() = strOpt(!a.As.Invalid(), "AS ") + a.Alias.SQL()` -/
inductive PrintAlias : Option AsAlias → List Token → Prop
  | none : PrintAlias none []
  | as_ {a : AsAlias} {k t : Token} : a.as.isSome = true → tk k.kind = .as_ → IsName a.alias t → PrintAlias (some a) [k, t]
  | bare {a : AsAlias} {t : Token} : a.as.isSome = false → IsName a.alias t → PrintAlias (some a) [t]

inductive PrintOr : InsertOrType → List Token → Prop
  | none : PrintOr .none []
  | update {o u : Token} : tk o.kind = .or_ → u.isKeywordLike (B "UPDATE") = true → PrintOr .update [o, u]
  | ignore {o u : Token} : tk o.kind = .or_ → u.kind = K "IGNORE" → PrintOr .ignore [o, u]

/-- the token level of `Insert.SQL()`, `Delete.SQL()`, `Update.SQL()` -/
inductive PrintStmt : Stmt Expr → List Token → Prop
  | insert {k i v : Token} {o p c r : List Token} {pos : Nat} {ot : InsertOrType} {tbl cs : List PIdent} {vi : ValuesInput Expr} :
      k.isKeywordLike (B "INSERT") = true → PrintOr ot o → i.kind = K "INTO" → PrintPath tbl p → PrintCols cs c →
      v.isKeywordLike (B "VALUES") = true → PrintRows rd vi.rows r →
      PrintStmt (.insert pos ot tbl cs vi) (k :: (o ++ (i :: (p ++ (c ++ v :: r)))))
  | delete {k f : Token} {p a w : List Token} {pos : Nat} {tbl : List PIdent} {al : Option AsAlias} {wh : Where Expr} :
      k.isKeywordLike (B "DELETE") = true → f.kind = K "FROM" → PrintPath tbl p → PrintAlias al a → PrintWhere rd wh w →
      PrintStmt (.delete pos tbl al wh) (k :: f :: (p ++ (a ++ w)))
  | update {k s : Token} {p a u w : List Token} {pos : Nat} {tbl : List PIdent} {al : Option AsAlias}
      {us : List (UpdateItem Expr)} {wh : Where Expr} :
      k.isKeywordLike (B "UPDATE") = true → PrintPath tbl p → PrintAlias al a → s.kind = K "SET" → PrintItems rd us u →
      PrintWhere rd wh w → PrintStmt (.update pos tbl al us wh) (k :: (p ++ (a ++ s :: (u ++ w))))
end

/-- `b` is `a` with at most one token inserted, an INTO or a FROM -/
def AddNoise (a b : List Token) : Prop :=
  a = b ∨ ∃ l t r, a = l ++ r ∧ b = l ++ t :: r ∧ (t.kind = K "INTO" ∨ t.kind = K "FROM")

end MF.DML
