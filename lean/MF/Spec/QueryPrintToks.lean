/-
  MF.Spec.QueryPrintToks — the tokens of `sqlQ q` (MF/Model/Query.lean, `SQL()` of ast/sql.go) as descriptors: what the
  printed text of a query reads as.  Expression slots print `sqlToks` (MF/Spec/PrintToks.lean, C07/C01); the query layer
  prints every keyword it stores (ALL / DISTINCT, AS iff `AsAlias.As` is valid, ASC / DESC, OFFSET) and joins lists with
  `", "`: the only token of the query layer that `SQL()` does not print is the trailing comma of the select list.
-/
import MF.Spec.QueryGrammar
import MF.Spec.PrintToks
namespace MF.Query
open MF MF.Expr

def tX (e : PExpr) : List QD := (sqlToks (erase e)).map QD.e

def tItem : SelectItem → List QD
  | .star _ => [.kw .star]
  | .dotStar _ e => tX e ++ [.kw .dot, .kw .star]
  | .alias e a => tX e ++ yAs a
  | .expr e => tX e

def tItems : List SelectItem → List QD
  | [] => []
  | i :: is => .kw .comma :: (tItem i ++ tItems is)

def tWhere : Option Where → List QD
  | none => []
  | some w => .kw .where_ :: tX w.e

def tExprs : List PExpr → List QD
  | [] => []
  | e :: es => .kw .comma :: (tX e ++ tExprs es)

def tGroup : Option GroupBy → List QD
  | none => []
  | some g => .kw .group :: .kw .by_ :: (tX g.first ++ tExprs g.more)

def tHaving : Option Having → List QD
  | none => []
  | some h => .kw .having :: tX h.e

def tOrdItem (i : OrderByItem) : List QD := tX i.e ++ yDir i.dir

def tOrdItems : List OrderByItem → List QD
  | [] => []
  | i :: is => .kw .comma :: (tOrdItem i ++ tOrdItems is)

def tOrder : Option OrderBy → List QD
  | none => []
  | some o => .kw .order :: .kw .by_ :: (tOrdItem o.first ++ tOrdItems o.more)

/-- `Select.SQL()`: no trailing comma -/
def tSelect (s : Select) : List QD :=
  .kw .select :: (yAod s.aod ++ ((tItem s.first ++ tItems s.more) ++ (trailD false ++ (yFrom s.from_ ++
    (tWhere s.where_ ++ (tGroup s.groupBy ++ tHaving s.having))))))

def tQE : QueryExpr → List QD
  | .select s => tSelect s
  | .query s o l => tSelect s ++ (tOrder o ++ yLimit l)

/-- the tokens of `sqlQ q` -/
def sqlToksQ (q : QueryStatement) : List QD := tQE q.query

/-- the tree without its ghost field: no trailing comma -/
def untrailQE : QueryExpr → QueryExpr
  | .select s => .select { s with trailing := false }
  | .query s o l => .query { s with trailing := false } o l

def untrail (q : QueryStatement) : QueryStatement := ⟨untrailQE q.query⟩

/-- no `expr.*` item -/
def noDotItem : SelectItem → Bool
  | .dotStar _ _ => false
  | _ => true

def selectOf : QueryExpr → Select
  | .select s => s
  | .query s _ _ => s

def noDotStar (q : QueryStatement) : Bool :=
  noDotItem (selectOf q.query).first && (selectOf q.query).more.all noDotItem

/-- every expression slot prints its own yield (no position keyword is re-spelled, see `canonKw` of C07) -/
def slotCanon (e : PExpr) : Prop := sqlToks (erase e) = yield (erase e)

end MF.Query
