/-
  MF.Spec.TypeNodes — the nodes of a type tree (as `ast.Walk` sees them: types, struct fields, identifiers), their
  `Pos()`/`End()`, their children, and what "children lie inside the parent, in order, without overlap" means.
-/
import MF.Model.TypeParse
namespace MF.TypeG
open MF.TypeP

/-- a node of the AST of a type -/
inductive Node
  | ty (t : Ty)
  | field (i : Option Ident) (t : Ty)
  | ident (i : Ident)

/-- `n.Pos()` -/
def Node.pos : Node → Nat
  | .ty t => posT t
  | .field i t => posF i t
  | .ident i => i.namePos

/-- `n.End()` -/
def Node.end : Node → Nat
  | .ty t => endT t
  | .field i t => endF i t
  | .ident i => i.nameEnd

def optIdent : Option Ident → List Node
  | some i => [.ident i]
  | none => []

/-- the `StructField` nodes of a field list -/
def fieldNodes : Fields → List Node
  | .nil => []
  | .cons i t rest => .field i t :: fieldNodes rest

/-- the direct children of a node, in the order of `ast.Walk` (source order) -/
def children : Node → List Node
  | .ty (.simple _ _) => []
  | .ty (.named path) => path.map .ident
  | .ty (.array _ _ item) => [.ty item]
  | .ty (.struct _ _ fs) => fieldNodes fs
  | .field i t => optIdent i ++ [.ty t]
  | .ident _ => []

mutual
/-- all nodes of a tree, root first (pre-order) -/
def nodesT : Ty → List Node
  | .simple p n => [.ty (.simple p n)]
  | .named path => .ty (.named path) :: path.map .ident
  | .array a g item => .ty (.array a g item) :: nodesT item
  | .struct s g fs => .ty (.struct s g fs) :: nodesFs fs
def nodesFs : Fields → List Node
  | .nil => []
  | .cons i t rest => .field i t :: (optIdent i ++ nodesT t) ++ nodesFs rest
end

/-- the nodes `cs` lie inside `[lo, hi]`, in this order, without overlap, and none is empty -/
def InOrder : Nat → Nat → List Node → Prop
  | lo, hi, [] => lo ≤ hi
  | lo, hi, c :: cs => lo ≤ c.pos ∧ c.pos < c.end ∧ InOrder c.end hi cs

end MF.TypeG
