/-
  MF.Spec.TypeReads — reading a token list as the yield of a tree WITHOUT looking at positions: what C01 / C02
  compare (kinds, identifier names exactly, simple type names up to letter case; quoting style, trivia, `>>` vs `> >`
  and `<>` vs `< >` are invisible: names are compared unquoted and two-character tokens are expanded).
-/
import MF.Spec.TypeGrammar
import MF.Spec.TypeShift
namespace MF.TypeG
open MF.TypeP

/-- the token is what the description says, positions aside -/
def YT.readsB : YT → Token → Bool
  | .simple _ n, t => tk t.kind == .ident && simpleName? t == some n
  | .ident i, t => tk t.kind == .ident && t.asString == i.name
  | .at k _, t => tk t.kind == k
  | .sym k, t => tk t.kind == k

def readsB : List YT → List Token → Bool
  | [], [] => true
  | y :: ys, t :: ts => y.readsB t && readsB ys ts
  | _, _ => false

/-- token by token, positions aside -/
def Reads (ys : List YT) (ts : List Token) : Prop := readsB ys ts = true

/-- the token list is (after expansion) the yield of `t`, positions aside, followed by `<eof>` -/
def printLexB (t : Ty) (ts : List Token) : Bool :=
  readsB (yieldT t) (expand ts).dropLast && ((expand ts).getLast?.map (fun e => tk e.kind)) == some .eof

mutual
/-- the names of the tree can be printed and read back: every identifier name is non-empty (an empty name is an index
panic in `QuoteSQLIdent`) and every `SimpleType.Name` is an entry of the `simpleTypes` table -/
def namesOK : Ty → Bool
  | .simple _ n => simpleTypes.contains n
  | .named path => !path.isEmpty && path.all (fun i => !i.name.isEmpty)
  | .array _ _ item => namesOK item
  | .struct _ _ fs => namesOKFs fs
def namesOKFs : Fields → Bool
  | .nil => true
  | .cons i t rest => (match i with | some i => !i.name.isEmpty | none => true) && namesOK t && namesOKFs rest
end

/-- the TYPE channel's re-lexing flag: the printed text lexes, and reads as the yield of the tree it was printed from -/
def rtOK (t : Ty) : Bool :=
  match Lex.lexAll (sqlT t) with
  | .ok ts => printLexB t ts
  | _ => false

mutual
/-- the type nodes of a tree (root first) -/
def typeNodes : Ty → List Ty
  | .simple p n => [.simple p n]
  | .named path => [.named path]
  | .array a g item => .array a g item :: typeNodes item
  | .struct s g fs => .struct s g fs :: typeNodesFs fs
def typeNodesFs : Fields → List Ty
  | .nil => []
  | .cons _ t rest => typeNodes t ++ typeNodesFs rest
end

/-- C06 evaluated on one node: the slice `buf[pos n : end n]` lexes and parses to `n` moved down by `pos n` -/
def exactAt (buf : Bytes) (n : Ty) : Bool :=
  match Lex.lexAll (slice buf (posT n) (endT n)) with
  | .ok ts =>
    match parseTypeTop (topFuel ts) ts with
    | .ok t2 => sexpT t2 == sexpT (shiftT (posT n) n)
    | _ => false
  | _ => false

/-- the TYPE channel's exactness flag: C06 holds for every type node of the tree -/
def exOK (buf : Bytes) (t : Ty) : Bool := (typeNodes t).all (exactAt buf)

/-- the TYPE request with the re-lexing flag and the exactness flag appended to an `OK` answer -/
def typeRunRT (buf : Bytes) : String :=
  match Lex.lexAll buf with
  | .ok ts =>
    match parseTypeTop (topFuel ts) ts with
    | .ok t =>
      "OK " ++ sexpT t ++ " " ++ hxs (sqlT t) ++ " " ++ toString (posT t) ++ " " ++ toString (endT t) ++
        (if rtOK t then " rt=1" else " rt=0") ++ (if exOK buf t then " ex=1" else " ex=0")
    | .raise => "ERR"
    | .outOfFuel => "FUEL"
  | .err _ _ => "ERR"
  | .crash _ => "CRASH"

end MF.TypeG
