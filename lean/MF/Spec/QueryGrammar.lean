/-
  MF.Spec.QueryGrammar — the documented grammar G_Q of the SELECT core, written from the query-syntax page as quoted in
  the doc comments of `ast/ast.go` (QueryStatement, Query, Select, Star, DotStar, Alias, AsAlias, ExprSelectItem, From,
  TableName, PathTableExpr, Where, GroupBy, Having, OrderBy, OrderByItem, Limit, Offset, Path) — NOT from parser.go:

    query_statement ::= select [ORDER BY order_item {"," order_item}] [LIMIT count [OFFSET skip]]
    select          ::= SELECT [ALL | DISTINCT] item {"," item} [","]
                        [FROM path [[AS] alias]] [WHERE expr] [GROUP BY expr {"," expr}] [HAVING expr]
    item            ::= "*" | expr "." "*" | expr [[AS] alias]
    path            ::= ident {"." ident}
    order_item      ::= expr [ASC | DESC]
    count, skip     ::= <int> | <param>

  over token DESCRIPTORS (`QD`: the kind of a token and, for names and literals, its value; OFFSET is the pseudo keyword:
  an unquoted identifier reading OFFSET).  An expression slot is abstracted: `ExprY ds` = `ds` is the yield of a tree
  grouped by the operator table, in the parser's normal form (`PrecOK`, `NF`, `yield` of MF/Spec/Precedence.lean, C07).
  The trailing comma of the select list is the one GoogleSQL documents ("SELECT a, b, FROM t"); it may stand before FROM
  or at the very end of the query.

  Also here: `matchB` (a token list reads as a descriptor list) and the yield `yieldQ` of a tree of MF/Model/Query.lean.
-/
import MF.Model.Query
import MF.Spec.Precedence
namespace MF.Query
open MF MF.Expr

/-- what the grammar sees of a token -/
inductive QD
  /-- a keyword / punctuation of the query layer, by class -/
  | kw (k : QK)
  /-- an identifier token with this value -/
  | ident (name : Bytes)
  /-- the pseudo keyword OFFSET -/
  | offsetKw
  | int (raw : Bytes)
  | param (name : Bytes)
  /-- a token of an expression slot, as C07 sees it (`proj`) -/
  | e (x : Tok')
  deriving DecidableEq, Repr

def QD.ok : QD → Token → Bool
  | .kw k, t => qk t.kind == k
  | .ident n, t => t.kind == .ident && t.asString == n
  | .offsetKw, t => t.isKeywordLike (B "OFFSET")
  | .int raw, t => t.kind == .int && t.raw == raw
  | .param n, t => t.kind == .param && t.asString == n
  | .e x, t => proj t == x

/-- the token list reads as the descriptor list -/
def matchB : List QD → List Token → Bool
  | [], [] => true
  | d :: ds, t :: ts => d.ok t && matchB ds ts
  | _, _ => false

/-! ## G_Q -/

/-- an expression slot -/
def ExprY (ds : List QD) : Prop := ∃ e : Expr, PrecOK e ∧ NF e ∧ ds = (yield e).map QD.e

inductive AliasD : List QD → Prop
  | bare (n : Bytes) : AliasD [.ident n]
  | as_ (n : Bytes) : AliasD [.kw .as_, .ident n]

inductive ItemD : List QD → Prop
  | star : ItemD [.kw .star]
  | dotStar {ds} : ExprY ds → ItemD (ds ++ [.kw .dot, .kw .star])
  | expr {ds} : ExprY ds → ItemD ds
  | alias {ds a} : ExprY ds → AliasD a → ItemD (ds ++ a)

/-- `P {"," P}` -/
inductive SepBy (P : List QD → Prop) : List QD → Prop
  | one {ds} : P ds → SepBy P ds
  | cons {ds ds'} : P ds → SepBy P ds' → SepBy P (ds ++ .kw .comma :: ds')

inductive PathD : List QD → Prop
  | one (n : Bytes) : PathD [.ident n]
  | cons (n : Bytes) {ds} : PathD ds → PathD (.ident n :: .kw .dot :: ds)

inductive FromD : List QD → Prop
  | plain {p} : PathD p → FromD (.kw .from_ :: p)
  | alias {p a} : PathD p → AliasD a → FromD (.kw .from_ :: (p ++ a))

inductive WhereD : List QD → Prop
  | mk {ds} : ExprY ds → WhereD (.kw .where_ :: ds)

inductive GroupD : List QD → Prop
  | mk {ds} : SepBy ExprY ds → GroupD (.kw .group :: .kw .by_ :: ds)

inductive HavingD : List QD → Prop
  | mk {ds} : ExprY ds → HavingD (.kw .having :: ds)

inductive OrdItemD : List QD → Prop
  | plain {ds} : ExprY ds → OrdItemD ds
  | asc {ds} : ExprY ds → OrdItemD (ds ++ [.kw .asc])
  | desc {ds} : ExprY ds → OrdItemD (ds ++ [.kw .desc])

inductive OrderD : List QD → Prop
  | mk {ds} : SepBy OrdItemD ds → OrderD (.kw .order :: .kw .by_ :: ds)

inductive IntD : QD → Prop
  | int (raw : Bytes) : IntD (.int raw)
  | param (n : Bytes) : IntD (.param n)

inductive LimitD : List QD → Prop
  | plain {c} : IntD c → LimitD [.kw .limit, c]
  | offset {c o} : IntD c → IntD o → LimitD [.kw .limit, c, .offsetKw, o]

/-- `[P]` -/
inductive Opt (P : List QD → Prop) : List QD → Prop
  | none : Opt P []
  | some {ds} : P ds → Opt P ds

inductive AodD : List QD → Prop
  | none : AodD []
  | all : AodD [.kw .all]
  | distinct : AodD [.kw .distinct]

def trailD (tr : Bool) : List QD := if tr then [.kw .comma] else []

/-- a query statement of the fragment, over an item grammar `I` -/
inductive QueryG (I : List QD → Prop) : List QD → Prop
  | mk {a is f w g h o l} (tr : Bool) : AodD a → SepBy I is → Opt FromD f → Opt WhereD w → Opt GroupD g →
      Opt HavingD h → Opt OrderD o → Opt LimitD l →
      (tr = true → f ≠ [] ∨ (w = [] ∧ g = [] ∧ h = [] ∧ o = [] ∧ l = [])) →
      QueryG I (.kw .select :: (a ++ (is ++ (trailD tr ++ (f ++ (w ++ (g ++ (h ++ (o ++ l)))))))))

/-- G_Q -/
abbrev QueryD : List QD → Prop := QueryG ItemD

/-- the items without the `expr.*` production (used by `query_complete_partial`) -/
inductive ItemD0 : List QD → Prop
  | star : ItemD0 [.kw .star]
  | expr {ds} : ExprY ds → ItemD0 ds
  | alias {ds a} : ExprY ds → AliasD a → ItemD0 (ds ++ a)

/-- G_Q without the `expr.*` production -/
abbrev QueryD0 : List QD → Prop := QueryG ItemD0

/-! ## the yield of a tree (positions are not read) -/

def yX (e : PExpr) : List QD := (yield (erase e)).map QD.e

def yAs (a : AsAlias) : List QD := (if a.as.isSome then [.kw .as_] else []) ++ [.ident a.alias.name]

def yOptAs : Option AsAlias → List QD
  | none => []
  | some a => yAs a

def yItem : SelectItem → List QD
  | .star _ => [.kw .star]
  | .dotStar _ e => yX e ++ [.kw .dot, .kw .star]
  | .alias e a => yX e ++ yAs a
  | .expr e => yX e

def yItems : List SelectItem → List QD
  | [] => []
  | i :: is => .kw .comma :: (yItem i ++ yItems is)

def yPathMore : List Ident → List QD
  | [] => []
  | i :: is => .kw .dot :: .ident i.name :: yPathMore is

def yTable : TableExpr → List QD
  | .tableName t a => .ident t.name :: yOptAs a
  | .path f m a => .ident f.name :: (yPathMore m ++ yOptAs a)

def yFrom : Option From → List QD
  | none => []
  | some f => .kw .from_ :: yTable f.source

def yWhere : Option Where → List QD
  | none => []
  | some w => .kw .where_ :: yX w.e

def yExprs : List PExpr → List QD
  | [] => []
  | e :: es => .kw .comma :: (yX e ++ yExprs es)

def yGroup : Option GroupBy → List QD
  | none => []
  | some g => .kw .group :: .kw .by_ :: (yX g.first ++ yExprs g.more)

def yHaving : Option Having → List QD
  | none => []
  | some h => .kw .having :: yX h.e

def yDir : Option (Dir × Nat) → List QD
  | none => []
  | some (.asc, _) => [.kw .asc]
  | some (.desc, _) => [.kw .desc]

def yOrdItem (i : OrderByItem) : List QD := yX i.e ++ yDir i.dir

def yOrdItems : List OrderByItem → List QD
  | [] => []
  | i :: is => .kw .comma :: (yOrdItem i ++ yOrdItems is)

def yOrder : Option OrderBy → List QD
  | none => []
  | some o => .kw .order :: .kw .by_ :: (yOrdItem o.first ++ yOrdItems o.more)

def yInt : IntValue → QD
  | .param _ n => .param n
  | .int _ _ _ raw => .int raw

def yOffset : Option Offset → List QD
  | none => []
  | some o => [.offsetKw, yInt o.value]

def yLimit : Option Limit → List QD
  | none => []
  | some l => .kw .limit :: yInt l.count :: yOffset l.offset

def yAod : Option AllOrDistinct → List QD
  | none => []
  | some .all => [.kw .all]
  | some .distinct => [.kw .distinct]

def ySelect (s : Select) : List QD :=
  .kw .select :: (yAod s.aod ++ ((yItem s.first ++ yItems s.more) ++ (trailD s.trailing ++ (yFrom s.from_ ++
    (yWhere s.where_ ++ (yGroup s.groupBy ++ yHaving s.having))))))

def yQE : QueryExpr → List QD
  | .select s => ySelect s
  | .query s o l => ySelect s ++ (yOrder o ++ yLimit l)

def yieldQ (q : QueryStatement) : List QD := yQE q.query

/-! ## well-formed trees: what the parser guarantees beyond the shape -/

def okX (e : PExpr) : Prop := PrecOK (erase e) ∧ NF (erase e)

def okItem : SelectItem → Prop
  | .star _ => True
  | .dotStar _ e => okX e
  | .alias e _ => okX e
  | .expr e => okX e

def okSelect (s : Select) : Prop :=
  okItem s.first ∧ (∀ i ∈ s.more, okItem i) ∧ (∀ w, s.where_ = some w → okX w.e) ∧
  (∀ g, s.groupBy = some g → okX g.first ∧ ∀ e ∈ g.more, okX e) ∧ (∀ h, s.having = some h → okX h.e)

def okOrder (o : OrderBy) : Prop := okX o.first.e ∧ ∀ i ∈ o.more, okX i.e

/-- the trailing comma stands before FROM or at the very end -/
def trailOK (s : Select) (o : Option OrderBy) (l : Option Limit) : Prop :=
  s.trailing = true → s.from_.isSome ∨ (s.where_ = none ∧ s.groupBy = none ∧ s.having = none ∧ o = none ∧ l = none)

def okQE : QueryExpr → Prop
  | .select s => okSelect s ∧ trailOK s none none
  | .query s o l => okSelect s ∧ (∀ ob, o = some ob → okOrder ob) ∧ trailOK s o l

def WFQ (q : QueryStatement) : Prop := okQE q.query

end MF.Query
