/-
  MF.Spec.DMLGrammar — the documented DML grammar G_DML, written from the Spanner DML syntax as quoted in the doc
  comments of `ast/ast.go` (Insert, ValuesInput, ValuesRow, DefaultExpr, Delete, Update, UpdateItem, Where, AsAlias,
  Path), restricted to the fragment M2 (no hint, no THEN RETURN, VALUES input only):

    insert  ::= INSERT [OR UPDATE | OR IGNORE] [INTO] path "(" [ident {"," ident}] ")" VALUES row {"," row}
    row     ::= "(" [default {"," default}] ")"
    default ::= DEFAULT | expr
    delete  ::= DELETE [FROM] path [[AS] ident] WHERE expr
    update  ::= UPDATE path [[AS] ident] SET item {"," item} WHERE expr
    item    ::= path "=" default
    path    ::= ident {"." ident}

  over TOKENS as the grammar sees them: the kind class (`tk t.kind`, or the kind itself for the reserved words WHERE
  SET INTO FROM DEFAULT IGNORE), and for the pseudo keywords INSERT DELETE UPDATE VALUES "an unquoted identifier spelled
  like the word, in any case" (`Token.isKeywordLike`).  An expression slot is abstract: a token list that reads as the
  yield of a tree grouped as the GoogleSQL table says, in normal form (`ExprD`; `PrecOK`, `NF`, `yield`, `proj` of
  MF/Spec/Precedence.lean — the vocabulary of the C07 theorems).

  Every relation carries the derivation TREE as its first index (the typed AST of MF/Model/Stmt2.lean, with the
  positions read off the tokens), so `G_DML ts := ∃ s, StmtD s ts` is the language and `StmtD` the derivations.
-/
import MF.Model.Stmt2
import MF.Spec.Precedence
namespace MF.DML
open MF MF.Expr

/-- an expression slot -/
def ExprD (e : Expr) (pre : List Token) : Prop := PrecOK e ∧ NF e ∧ pre.map proj = yield e

/-- `{"." ident}` -/
inductive PathTailD : List PIdent → List Token → Prop
  | nil : PathTailD [] []
  | cons {d t : Token} {ids : List PIdent} {ts : List Token} :
      tk d.kind = .dot → tk t.kind = .ident → PathTailD ids ts → PathTailD (identOf t :: ids) (d :: t :: ts)

/-- `path ::= ident {"." ident}` -/
inductive PathD : List PIdent → List Token → Prop
  | mk {t : Token} {ids : List PIdent} {ts : List Token} :
      tk t.kind = .ident → PathTailD ids ts → PathD (identOf t :: ids) (t :: ts)

/-- `ident {"," ident}` -/
inductive IdListD : List PIdent → List Token → Prop
  | one {t : Token} : tk t.kind = .ident → IdListD [identOf t] [t]
  | cons {t c : Token} {ids : List PIdent} {ts : List Token} :
      tk t.kind = .ident → tk c.kind = .comma → IdListD ids ts → IdListD (identOf t :: ids) (t :: c :: ts)

/-- `"(" [ident {"," ident}] ")"` -/
inductive ColsD : List PIdent → List Token → Prop
  | empty {l r : Token} : tk l.kind = .lparen → tk r.kind = .rparen → ColsD [] [l, r]
  | list {l r : Token} {ids : List PIdent} {ts : List Token} :
      tk l.kind = .lparen → IdListD ids ts → tk r.kind = .rparen → ColsD ids (l :: ts ++ [r])

/-- `default ::= DEFAULT | expr` -/
inductive DefaultD : DefaultExpr Expr → List Token → Prop
  | dflt {t : Token} : t.kind = K "DEFAULT" → DefaultD (.dflt t.pos) [t]
  | expr {e : Expr} {pre : List Token} : ExprD e pre → DefaultD (.expr e) pre

/-- `default {"," default}` -/
inductive EntriesD : List (DefaultExpr Expr) → List Token → Prop
  | one {d : DefaultExpr Expr} {ts : List Token} : DefaultD d ts → EntriesD [d] ts
  | cons {d : DefaultExpr Expr} {ts : List Token} {c : Token} {ds : List (DefaultExpr Expr)} {us : List Token} :
      DefaultD d ts → tk c.kind = .comma → EntriesD ds us → EntriesD (d :: ds) (ts ++ c :: us)

/-- `row ::= "(" [default {"," default}] ")"` -/
inductive RowD : ValuesRow Expr → List Token → Prop
  | empty {l r : Token} : tk l.kind = .lparen → tk r.kind = .rparen → RowD ⟨l.pos, r.pos, []⟩ [l, r]
  | list {l r : Token} {ds : List (DefaultExpr Expr)} {ts : List Token} :
      tk l.kind = .lparen → EntriesD ds ts → tk r.kind = .rparen → RowD ⟨l.pos, r.pos, ds⟩ (l :: ts ++ [r])

/-- `row {"," row}` -/
inductive RowsD : List (ValuesRow Expr) → List Token → Prop
  | one {r : ValuesRow Expr} {ts : List Token} : RowD r ts → RowsD [r] ts
  | cons {r : ValuesRow Expr} {ts : List Token} {c : Token} {rs : List (ValuesRow Expr)} {us : List Token} :
      RowD r ts → tk c.kind = .comma → RowsD rs us → RowsD (r :: rs) (ts ++ c :: us)

/-- `item ::= path "=" default` -/
inductive ItemD : UpdateItem Expr → List Token → Prop
  | mk {p : List PIdent} {ps : List Token} {e : Token} {d : DefaultExpr Expr} {ds : List Token} :
      PathD p ps → tk e.kind = .eq → DefaultD d ds → ItemD ⟨p, d⟩ (ps ++ e :: ds)

/-- `item {"," item}` -/
inductive ItemsD : List (UpdateItem Expr) → List Token → Prop
  | one {u : UpdateItem Expr} {ts : List Token} : ItemD u ts → ItemsD [u] ts
  | cons {u : UpdateItem Expr} {ts : List Token} {c : Token} {us : List (UpdateItem Expr)} {vs : List Token} :
      ItemD u ts → tk c.kind = .comma → ItemsD us vs → ItemsD (u :: us) (ts ++ c :: vs)

/-- `WHERE expr` -/
inductive WhereD : Where Expr → List Token → Prop
  | mk {t : Token} {e : Expr} {pre : List Token} : t.kind = K "WHERE" → ExprD e pre → WhereD ⟨t.pos, e⟩ (t :: pre)

/-- `[[AS] ident]` -/
inductive AliasD : Option AsAlias → List Token → Prop
  | none : AliasD none []
  | as_ {a t : Token} : tk a.kind = .as_ → tk t.kind = .ident → AliasD (some ⟨some a.pos, identOf t⟩) [a, t]
  | bare {t : Token} : tk t.kind = .ident → AliasD (some ⟨Option.none, identOf t⟩) [t]

/-- `[OR UPDATE | OR IGNORE]` -/
inductive OrD : InsertOrType → List Token → Prop
  | none : OrD .none []
  | update {o u : Token} : tk o.kind = .or_ → u.isKeywordLike (B "UPDATE") = true → OrD .update [o, u]
  | ignore {o u : Token} : tk o.kind = .or_ → u.kind = K "IGNORE" → OrD .ignore [o, u]

/-- an optional noise word (`[INTO]`, `[FROM]`) -/
inductive OptD (s : String) : List Token → Prop
  | none : OptD s []
  | some {t : Token} : t.kind = K s → OptD s [t]

/-- the three statements -/
inductive StmtD : Stmt Expr → List Token → Prop
  | insert {k v : Token} {o i p c r : List Token} {ot : InsertOrType} {tbl cs : List PIdent} {rs : List (ValuesRow Expr)} :
      k.isKeywordLike (B "INSERT") = true → OrD ot o → OptD "INTO" i → PathD tbl p → ColsD cs c →
      v.isKeywordLike (B "VALUES") = true → RowsD rs r →
      StmtD (.insert k.pos ot tbl cs ⟨v.pos, rs⟩) (k :: (o ++ (i ++ (p ++ (c ++ v :: r)))))
  | delete {k : Token} {f p a w : List Token} {tbl : List PIdent} {al : Option AsAlias} {wh : Where Expr} :
      k.isKeywordLike (B "DELETE") = true → OptD "FROM" f → PathD tbl p → AliasD al a → WhereD wh w →
      StmtD (.delete k.pos tbl al wh) (k :: (f ++ (p ++ (a ++ w))))
  | update {k s : Token} {p a u w : List Token} {tbl : List PIdent} {al : Option AsAlias} {us : List (UpdateItem Expr)}
      {wh : Where Expr} :
      k.isKeywordLike (B "UPDATE") = true → PathD tbl p → AliasD al a → s.kind = K "SET" → ItemsD us u → WhereD wh w →
      StmtD (.update k.pos tbl al us wh) (k :: (p ++ (a ++ s :: (u ++ w))))

/-- the language: token lists derivable from G_DML -/
def G_DML (ts : List Token) : Prop := ∃ s, StmtD s ts

/-- what may follow a statement: nothing that continues its last expression, no `,` (another row), no THEN -/
def StmtFollow (rest : List Token) : Prop := Follow rest ∧ cur rest ≠ .comma ∧ cur rest ≠ .then_

end MF.DML
