/-
  MF.Spec.Lexical — a reference lexer for the Spanner GoogleSQL lexical structure, written from the
  documentation page "Lexical structure and syntax" (and, where that page is silent, from the ZetaSQL flex
  rules it is derived from), NOT from lexer.go.  It is organised by token class: for each class a recogniser
  returns the length of the longest prefix of the input in that class; `next` skips trivia, picks the class by
  the documented rules and applies the dot-identifier rule.

  Decisions taken where the documentation leaves a choice (DESIGN §4 C14, P1–P4):
   P1  `\xHH` and `\ooo` denote the single BYTE with that value, also inside string literals.
   P2  whitespace is the Unicode White_Space set restricted to what Go's unicode.IsSpace accepts
       (TAB LF VT FF CR SP NEL NBSP U+1680 U+2000–200A U+2028 U+2029 U+202F U+205F U+3000); `\b` is not whitespace.
   P3  the ZetaSQL punctuation that Spanner does not use yet (`$ ? \ @@ |> => -> += -= !`) is tokenised.
   P4  a bare CR inside a one-line literal is allowed (only LF ends the line).
  Strict points: a hexadecimal literal needs a digit; a number may not be glued to an identifier character; the
  escape table; `\u`/`\U` only in string (not bytes) literals; surrogates and values above U+10FFFF are rejected;
  the reserved words; comments `#`, `--`, `//` to end of line and `/* … */` (the `*` of the opener is not the `*`
  of the closer); after `.` following an identifier, parameter, `)` or `]`, an identifier-character run is an identifier.
-/
import MF.Model.Token
import MF.Model.Utf8
namespace MF.Spec.Lexical

/-- length of the maximal prefix of `s` whose bytes satisfy `p` -/
def run (p : UInt8 → Bool) : Bytes → Nat
  | [] => 0
  | c :: t => if p c then run p t + 1 else 0

def startsWith (s pre : Bytes) : Bool := s.take pre.length == pre

/-! ### Trivia -/

def isWhite (r : Nat) : Bool :=
  r == 0x09 || r == 0x0A || r == 0x0B || r == 0x0C || r == 0x0D || r == 0x20 || r == 0x85 || r == 0xA0 ||
  r == 0x1680 || (0x2000 ≤ r && r ≤ 0x200A) || r == 0x2028 || r == 0x2029 || r == 0x202F || r == 0x205F || r == 0x3000

/-- length of the leading whitespace (whole runes only) -/
def whiteLen : Nat → Bytes → Nat
  | 0, _ => 0
  | fuel + 1, s =>
    match s with
    | [] => 0
    | _ =>
      let d := Utf8.decodeRune s
      if isWhite d.1 && d.2 > 0 then d.2 + whiteLen fuel (s.drop d.2) else 0

/-- index just after the first occurrence of `pat` in `s` -/
def findAfter (pat : Bytes) : Bytes → Option Nat
  | [] => none
  | c :: t => if startsWith (c :: t) pat then some pat.length else (findAfter pat t).map (· + 1)

inductive Comment where
  | none                -- the input does not start with a comment
  | len (n : Nat)       -- a complete comment of `n` bytes
  | unclosed            -- `/*` without `*/`

def comment (s : Bytes) : Comment :=
  if startsWith s [35] || startsWith s [45, 45] || startsWith s [47, 47] then
    match findAfter [10] s with
    | some n => .len n
    | none => .len s.length
  else if startsWith s [47, 42] then
    match findAfter [42, 47] (s.drop 2) with
    | some n => .len (n + 2)
    | none => .unclosed
  else .none

/-- total length of leading whitespace and comments; `none` = unclosed comment -/
def triviaLen : Nat → Bytes → Option Nat
  | 0, _ => some 0
  | fuel + 1, s =>
    let w := whiteLen (s.length + 1) s
    match comment (s.drop w) with
    | .none => some w
    | .unclosed => none
    | .len n =>
      if n == 0 then some w
      else (triviaLen fuel (s.drop (w + n))).map (· + (w + n))

/-! ### Token classes -/

def isLetter (c : UInt8) : Bool := (65 ≤ c && c ≤ 90) || (97 ≤ c && c ≤ 122) || c == 95
def isDigit (c : UInt8) : Bool := 48 ≤ c && c ≤ 57
def isIdentChar (c : UInt8) : Bool := isLetter c || isDigit c
def isHex (c : UInt8) : Bool := isDigit c || (65 ≤ c && c ≤ 70) || (97 ≤ c && c ≤ 102)
def upper (c : UInt8) : UInt8 := if 97 ≤ c && c ≤ 122 then c - 32 else c

/-- operators and punctuation, longest first within each first character -/
def puncts : List Bytes := [
  [60, 60], [60, 61], [60, 62], [60], [62, 62], [62, 61], [62], [43, 61], [43], [45, 61], [45, 62], [45],
  [61, 62], [61], [124, 62], [124, 124], [124], [33, 61], [33], [64, 64],
  [40], [41], [123], [125], [59], [44], [91], [93], [126], [42], [47], [38], [94], [37], [58], [63], [92], [36]]

def punctLen (s : Bytes) : Option Bytes := puncts.find? (startsWith s)

/-- optional exponent `[eE][+-]?[0-9]+` at the head of `s`: its length, 0 if absent -/
def exponentLen (s : Bytes) : Nat :=
  match s with
  | e :: t =>
    if e == 69 || e == 101 then
      let t' := match t with
        | sg :: u => if sg == 43 || sg == 45 then u else t
        | [] => t
      let signLen := t.length - t'.length
      let d := run isDigit t'
      if d > 0 then 1 + signLen + d else 0
    else 0
  | [] => 0

inductive NumKind | int10 | int16 | float
  deriving DecidableEq, Repr

/-- longest numeric literal at the head of `s` (which starts with a digit, or with `.` followed by a digit) -/
def number (s : Bytes) : NumKind × Nat :=
  let hexDigits := match s with
    | z :: x :: t => if z == 48 && (x == 120 || x == 88) then run isHex t else 0
    | _ => 0
  if hexDigits > 0 then (.int16, 2 + hexDigits)
  else
    let ip := run isDigit s
    let afterInt := s.drop ip
    match afterInt with
    | dot :: t =>
      if dot == 46 then
        let fp := run isDigit t
        if ip + fp > 0 then (.float, ip + 1 + fp + exponentLen (t.drop fp))
        else (.int10, ip)
      else
        let ex := exponentLen afterInt
        if ex > 0 then (.float, ip + ex) else (.int10, ip)
    | [] => (.int10, ip)

/-! ### String and bytes literals -/

structure Prefix where
  len : Nat
  isBytes : Bool
  isRaw : Bool

/-- `r`, `b`, `rb`, `br` in any letter case, followed by a quote -/
def literalPrefix (s : Bytes) : Option Prefix :=
  let isQ (c : UInt8) := c == 34 || c == 39
  let isR (c : UInt8) := c == 82 || c == 114
  let isB (c : UInt8) := c == 66 || c == 98
  match s with
  | a :: t =>
    if isQ a then some ⟨0, false, false⟩
    else match t with
      | b :: u =>
        if isR a && isQ b then some ⟨1, false, true⟩
        else if isB a && isQ b then some ⟨1, true, false⟩
        else match u with
          | c :: _ =>
            if ((isR a && isB b) || (isB a && isR b)) && isQ c then some ⟨2, true, true⟩ else none
          | [] => none
      | [] => none
  | [] => none

def hexVal (c : UInt8) : Nat :=
  if isDigit c then c.toNat - 48 else if 97 ≤ c then c.toNat - 87 else c.toNat - 55

def hexNum : Bytes → Nat → Nat
  | [], acc => acc
  | c :: t, acc => hexNum t (acc * 16 + hexVal c)

def isOct (c : UInt8) : Bool := 48 ≤ c && c ≤ 55

/-- scan the body of a literal whose closing delimiter is `q` (1 or 3 quote characters).
Returns `(decoded value, bytes consumed including the closing delimiter)`; `none` = malformed. -/
def body (q : Bytes) (raw isBytes : Bool) : Nat → Bytes → Bytes → Nat → Option (Bytes × Nat)
  | 0, _, _, _ => none
  | fuel + 1, s, acc, n =>
    match s with
    | [] => none                                             -- unclosed
    | c :: t =>
      if startsWith s q then some (acc, n + q.length)
      else if c == 92 then
        match t with
        | [] => none                                         -- backslash at end of input
        | e :: u =>
          if raw then body q raw isBytes fuel u (acc ++ [92, e]) (n + 2)
          else
            let one (b : UInt8) := body q raw isBytes fuel u (acc ++ [b]) (n + 2)
            if e == 97 then one 7 else if e == 98 then one 8 else if e == 102 then one 12
            else if e == 110 then one 10 else if e == 114 then one 13 else if e == 116 then one 9
            else if e == 118 then one 11
            else if e == 92 || e == 63 || e == 34 || e == 39 || e == 96 then one e
            else if e == 120 || e == 88 then
              let ds := u.take 2
              if ds.length == 2 && ds.all isHex then
                body q raw isBytes fuel (u.drop 2) (acc ++ [(hexNum ds 0).toUInt8]) (n + 4)
              else none
            else if e == 117 || e == 85 then
              let k := if e == 85 then 8 else 4
              let ds := u.take k
              if isBytes then none
              else if ds.length == k && ds.all isHex then
                let v := hexNum ds 0
                if (0xD800 ≤ v && v ≤ 0xDFFF) || v > 0x10FFFF then none
                else body q raw isBytes fuel (u.drop k) (acc ++ Utf8.encodeRune v) (n + 2 + k)
              else none
            else if 48 ≤ e && e ≤ 51 then
              let ds := u.take 2
              if ds.length == 2 && ds.all isOct then
                let v := (e.toNat - 48) * 64 + ((ds.headD 48).toNat - 48) * 8 + ((ds.getD 1 48).toNat - 48)
                body q raw isBytes fuel (u.drop 2) (acc ++ [v.toUInt8]) (n + 4)
              else none
            else none
      else if c == 10 && q.length == 1 then none              -- newline in a one-line literal
      else body q raw isBytes fuel t (acc ++ [c]) (n + 1)

/-- the delimiter at the head of `s` (which starts with a quote character): tripled or single -/
def delimiter (s : Bytes) : Bytes :=
  match s with
  | a :: b :: c :: _ => if a == b && b == c then [a, a, a] else [a]
  | a :: _ => [a]
  | [] => []

/-! ### The lexer -/

structure STok where
  kind : TokKind
  len : Nat
  value : Bytes := []
  base : Nat := 0
  deriving Repr, DecidableEq

def dotEnables (prev : TokKind) : Bool :=
  prev == .ident || prev == .param || prev == .sym [41] || prev == .sym [93]

/-- the token at the head of `s` (no leading trivia); `none` = lexical error.  `prev` is the kind of the
previous token and `dot` says that the previous token was a `.` that switched to dot-identifier mode. -/
def token (s : Bytes) (prev : TokKind) (dot : Bool) : Option STok :=
  match s with
  | [] => some { kind := .eof, len := 0 }
  | c :: t =>
    if dot && isIdentChar c then
      let n := run isIdentChar s
      some { kind := .ident, len := n, value := s.take n }
    else if c == 46 then
      if !dotEnables prev && (match t with | d :: _ => isDigit d | [] => false) then
        let (k, n) := number s
        if (match s.drop n with | x :: _ => isIdentChar x | [] => false) then none
        else some { kind := if k == .float then .float else .int, len := n, base := if k == .int16 then 16 else if k == .int10 then 10 else 0 }
      else some { kind := .sym [46], len := 1 }
    else if isDigit c then
      let (k, n) := number s
      if (match s.drop n with | x :: _ => isIdentChar x | [] => false) then none
      else some { kind := if k == .float then .float else .int, len := n, base := if k == .int16 then 16 else if k == .int10 then 10 else 0 }
    else if c == 96 then
      match body [96] false false (s.length + 1) t [] 1 with
      | some (v, n) => if v.isEmpty then none else some { kind := .ident, len := n, value := v }
      | none => none
    else if c == 64 then
      match t with
      | d :: _ =>
        if d == 64 then some { kind := .sym [64, 64], len := 2 }
        else if isLetter d then
          let n := run isIdentChar t
          some { kind := .param, len := n + 1, value := t.take n }
        else some { kind := .sym [64], len := 1 }
      | [] => some { kind := .sym [64], len := 1 }
    else
      match literalPrefix s with
      | some p =>
        let s' := s.drop p.len
        let q := delimiter s'
        match body q p.isRaw p.isBytes (s.length + 1) (s'.drop q.length) [] (p.len + q.length) with
        | some (v, n) => some { kind := if p.isBytes then .bytes else .string, len := n, value := v }
        | none => none
      | none =>
        if isLetter c then
          let n := run isIdentChar s
          let w := (s.take n).map upper
          if reserved.contains w then some { kind := .sym w, len := n }
          else some { kind := .ident, len := n, value := s.take n }
        else
          match punctLen s with
          | some p => some { kind := .sym p, len := p.length }
          | none => none

inductive Out where
  | tok (trivia : Nat) (t : STok)
  | reject
  deriving Repr, DecidableEq

/-- one step: skip trivia, then one token -/
def next (s : Bytes) (prev : TokKind) (dot : Bool) : Out :=
  match triviaLen (s.length + 1) s with
  | none => .reject
  | some w =>
    match token (s.drop w) prev dot with
    | none => .reject
    | some t => .tok w t

/-- dot-identifier mode after token `t`: a `.` (not part of a number) right after an identifier, parameter, `)` or `]`,
unless we already were in dot mode -/
def dotAfter (prev : TokKind) (dot : Bool) (t : STok) : Bool :=
  !dot && t.kind == .sym [46] && dotEnables prev

structure Rec where
  kind : TokKind
  pos : Nat
  «end» : Nat
  value : Bytes
  base : Nat
  deriving Repr, DecidableEq

/-- the whole input: `none` = rejected; otherwise the token records up to and including `<eof>` -/
def lexAll (buf : Bytes) : Option (List Rec) :=
  let rec go : Nat → Nat → TokKind → Bool → List Rec → Option (List Rec)
    | 0, _, _, _, _ => none
    | fuel + 1, pos, prev, dot, acc =>
      match next (buf.drop pos) prev dot with
      | .reject => none
      | .tok w t =>
        let r : Rec := ⟨t.kind, pos + w, pos + w + t.len, t.value, t.base⟩
        if t.kind == .eof then some (r :: acc).reverse
        else go fuel (pos + w + t.len) t.kind (dotAfter prev dot t) (r :: acc)
  go (buf.length + 2) 0 (.sym []) false []

end MF.Spec.Lexical
