import MF.Model.Basic
import MF.Model.Char
import MF.Model.Utf8
import MF.Model.Token
import MF.Model.Lexer
import MF.Model.File
import MF.Model.Split
import MF.Model.Quote
