/-
  Driver — line protocol.  One request per input line, one response line per request.
  Imports the executable model only (core Lean, no Mathlib) so that it links as a `lean_exe`.
-/
import MF.Model.Lexer
import MF.Model.File
import MF.Model.Split
import MF.Model.Quote
import MF.Spec.Lexical
import MF.Model.Tree
import MF.Model.Walk
import MF.Model.TreeParse
import MF.Model.Expr
import MF.Spec.PrintToks
import MF.Model.ExprPos
import MF.Gen.Catalog
import MF.Gen.PosDoc
import MF.Gen.PosGo
import MF.Gen.WalkGo
import MF.Model.Print
import MF.Gen.SqlGo
import MF.Model.Handlers
import MF.Model.TypeParse
import MF.Spec.TypeReads
import MF.Model.Bridge
import MF.Model.Query
import MF.Model.Stmt2
open MF MF.Lex

def hx (b : Bytes) : String := if b.isEmpty then "-" else toHex b

def errKindName : ErrKind → String
  | .illegalChar => "illegalChar" | .numberFollow => "numberFollow" | .emptyIdent => "emptyIdent"
  | .escapeEof => "escapeEof" | .hexEscape => "hexEscape" | .escapeNotAllowed => "escapeNotAllowed"
  | .unicodeEscape => "unicodeEscape" | .invalidCodePoint => "invalidCodePoint"
  | .octalEscape => "octalEscape" | .invalidEscape => "invalidEscape"
  | .unclosedNewline => "unclosedNewline" | .unclosed => "unclosed"
  | .unclosedComment => "unclosedComment" | .parseUint => "parseUint"

def fmtComment (c : Comment) : String := s!"{hx c.space}:{hx c.raw}:{c.pos}:{c.end}"

def fmtTok (t : Token) : String :=
  let cs := if t.comments.isEmpty then "-" else ";".intercalate (t.comments.map fmtComment)
  s!"{hx t.kind.toBytes}|{hx t.raw}|{hx t.asString}|{t.base}|{t.pos}|{t.end}|{hx t.space}|{cs}"

/-- iterate `nextToken` in the given mode; stop at eof / error / crash -/
def lexRun (buf : Bytes) (noPanic : Bool) : Nat → State → Array String → String
  | 0, _, acc => " ".intercalate (acc.push "FUEL").toList
  | fuel + 1, s, acc =>
    match nextToken buf noPanic s with
    | .crash => " ".intercalate (acc.push "CRASH").toList
    | .err e => " ".intercalate (acc.push s!"ERR:{errKindName e.kind}:{e.pos}:{e.end}").toList
    | .ok s' =>
      let acc := acc.push (fmtTok s'.tok)
      if s'.tok.kind == .eof then " ".intercalate (acc.push "OK").toList
      else lexRun buf noPanic fuel s' acc

def posTables : Ast.PosTables := ⟨Gen.kinds, Gen.posDoc, Gen.posGo⟩

/-- the recording visitor of the harness: a visitor is the path of Field/Index steps that led to it -/
def pathVis (prune : Nat) : Ast.Vis String where
  visit := fun v n => if prune > 0 && n.kind.length % prune == 0 then none else some v
  visitMany := fun v _ => v
  field := fun v name => v ++ "." ++ name
  index := fun v i => v ++ "[" ++ toString i ++ "]"

def fmtEvent : Ast.Event String → String
  | .visit v n => s!"V|{v}|{n.kind}"
  | .visitMany v ns => s!"M|{v}|{ns.length}"
  | .field v name => s!"F|{v}|{name}"
  | .index v i => s!"I|{v}|{i}"

def fmtPE (doc go : Option (Int × Int)) (pick : Int × Int → Int) : String :=
  match doc, go with
  | some d, some g => if pick d == pick g then toString (pick g) else s!"doc={pick d},go={pick g}"
  | _, some g => s!"docX,go={pick g}"
  | some d, none => s!"doc={pick d},goX"
  | none, none => "X"

/-- big-endian 4-byte runes -/
def runes4 : Bytes → List Nat
  | a :: b :: c :: d :: t => (a.toNat * 16777216 + b.toNat * 65536 + c.toNat * 256 + d.toNat) :: runes4 t
  | _ => []

/-- the trailing `NP <hex>` of a TREE request: the runes of the tree's strings that Go's unicode.IsPrint rejects -/
def npOf : List String → Option (List Nat)
  | ["NP", h] => some (runes4 ((ofHex? (if h == "-" then "" else h)).getD []))
  | _ :: t => npOf t
  | [] => none

/-- the canonical rendering of a `SQL()` result: `<len>:<fnv1a64>` or `PANIC` -/
def fmtSql : Option Bytes → String
  | some b => s!"{b.length}:{(Ast.fnv1a64 b).toNat}"
  | none => "PANIC"

def treeRun (prune : Nat) (toks : List String) : String :=
  match Ast.parseNode toks with
  | none => "BADTREE"
  | some (root, gvs, rest) =>
    let nodes := Ast.preorder root
    -- `isPrint`: Go's own judgement when the request carries it; otherwise a fixed approximation
    -- (ASCII 0x20..0x7E and everything from 0x80 on printable)
    let isPrint : Nat → Bool := match npOf rest with
      | some nps => fun r => !nps.contains r
      | none => fun r => (decide (0x20 ≤ r) && decide (r ≤ 0x7E)) || decide (r ≥ 0x80)
    let parts := (nodes.zip gvs).map (fun (n, _) =>
      let d := Ast.docPosEnd posTables n
      let q := Ast.goPosEnd posTables n
      s!"{n.kind}:{fmtPE d q (·.1)}:{fmtPE d q (·.2)}:{fmtSql (Ast.sqlOf Gen.sqlTables isPrint n)}")
    let evs := match Ast.walk (pathVis prune) Gen.walkGo root "" with
      | some es => " ".intercalate (es.map fmtEvent)
      | none => "FUEL"
    " ".intercalate parts ++ " W " ++ evs

/-- HANDLER channel: the restored lexer is reached by `skip` panic-mode steps, then the handler model runs -/
def handlerRun (h : Handlers.HKind) (buf : Bytes) (skip : Nat) : String :=
  match Handlers.advance buf skip Lex.init with
  | none => "CRASH"
  | some l =>
    match Handlers.handler buf h l with
    | .crash => "CRASH"
    | .err e => s!"ERR:{errKindName e.kind}:{e.pos}:{e.end}"
    | .ok o =>
      let toks := o.tokens.map fmtTok
      " ".intercalate ([toString o.nodePos, toString o.nodeEnd, toString o.tokens.length] ++ toks ++
        ["CUR", fmtTok o.final.tok, "SQL", hx (Handlers.badSQL o.tokens)])

def handlerKind? (kind simple : String) : Option Handlers.HKind :=
  match kind with
  | "statement" => some .statement
  | "query" => some (.query (simple == "1"))
  | "expr" => some .expr
  | "type" => some .type
  | _ => none

def handle (line : String) : String :=
  match line.splitOn " " with
  | ["HANDLER", kind, simple, skip, h] =>
    match handlerKind? kind simple, skip.toNat?, ofHex? (if h == "-" then "" else h) with
    | some hk, some k, some buf => handlerRun hk buf k
    | _, _, _ => "BADREQ"
  | ["LEX", mode, h] =>
    match ofHex? (if h == "-" then "" else h) with
    | some buf => lexRun buf (mode == "n") (buf.length + 2) Lex.init #[]
    | none => "BADREQ"
  | ["QUOTE", h, np] =>
    -- np: hex list of the non-printable runes (4 bytes big-endian each) among the runes of the input, as judged by Go
    match ofHex? (if h == "-" then "" else h), ofHex? (if np == "-" then "" else np) with
    | some buf, some npb =>
      let rec runes : Bytes → List Nat
        | a :: b :: c :: d :: t => (a.toNat * 16777216 + b.toNat * 65536 + c.toNat * 256 + d.toNat) :: runes t
        | _ => []
      let nps := runes npb
      let isPrint := fun (r : Nat) => !nps.contains r
      let qi := match Quote.quoteIdent isPrint buf with
        | some x => hx x
        | none => "CRASH"
      s!"{hx (Quote.quoteString isPrint buf)} {hx (Quote.quoteBytes buf)} {qi}"
    | _, _ => "BADREQ"
  | "TREE" :: prune :: toks => treeRun (prune.toNat?.getD 0) toks
  | ["BRIDGE", kind, h, np] =>
    -- np: the runes of the tree's string fields that Go's unicode.IsPrint rejects (as on the TREE channel)
    match ofHex? (if h == "-" then "" else h), ofHex? (if np == "-" then "" else np) with
    | some buf, some npb =>
      let nps := runes4 npb
      let isPrint := fun (r : Nat) => !nps.contains r
      if kind == "E" then Bridge.bridgeRunE posTables Gen.sqlTables isPrint buf
      else if kind == "T" then Bridge.bridgeRunT posTables Gen.sqlTables isPrint buf
      else "BADREQ"
    | _, _ => "BADREQ"
  | ["SPEC", h] =>
    match ofHex? (if h == "-" then "" else h) with
    | some buf =>
      match Spec.Lexical.lexAll buf with
      | none => "REJECT"
      | some rs => " ".intercalate (rs.map (fun r => s!"{hx r.kind.toBytes}|{r.pos}|{r.end}|{hx r.value}|{r.base}")) ++ " OK"
    | none => "BADREQ"
  | ["SPLIT", h] =>
    match ofHex? (if h == "-" then "" else h) with
    | some buf =>
      match Split.split buf with
      | .crash => "CRASH"
      | .err e => s!"ERR:{errKindName e.kind}:{e.pos}:{e.end}"
      | .ok ps => "OK " ++ " ".intercalate (ps.map (fun p => s!"{p.pos}:{p.end}:{hx p.statement}"))
    | none => "BADREQ"
  | ["EXPR", h] =>
    match ofHex? (if h == "-" then "" else h) with
    | some buf => Expr.exprRunRT buf
    | none => "BADREQ"
  | ["EXPRPOS", h] =>
    match ofHex? (if h == "-" then "" else h) with
    | some buf => Expr.exprPosRunC buf
    | none => "BADREQ"
  | ["QUERY", ep, h] =>
    -- Task X: ep = Q (ParseQuery) | S (ParseStatement); the handler is MF.Query.queryRun (MF/Model/Query.lean)
    match ofHex? (if h == "-" then "" else h) with
    | some buf => Query.queryRun (ep == "S") buf
    | none => "BADREQ"
  | ["DML", ep, h] =>
    -- Task S: ep = D | Ds | S | Ss; the handler is MF.DML.dmlRun (MF/Model/Stmt2.lean)
    match ofHex? (if h == "-" then "" else h) with
    | some buf => DML.dmlRun ep buf
    | none => "BADREQ"
  | ["TYPE", h] =>
    match ofHex? (if h == "-" then "" else h) with
    | some buf => TypeG.typeRunRT buf
    | none => "BADREQ"
  | ["POS", h, a, b] =>
    match ofHex? (if h == "-" then "" else h), a.toInt?, b.toInt? with
    | some buf, some pos, some e =>
      match File.position buf pos e with
      | none => "CRASH"
      | some p =>
        let msg := B "m"
        s!"{p.line} {p.column} {p.endLine} {p.endColumn} {hx p.source} {hx (File.errorString (B "f.sql") p msg)}"
    | _, _, _ => "BADREQ"
  | _ => "BADREQ"

partial def loop (hin : IO.FS.Stream) (hout : IO.FS.Stream) : IO Unit := do
  let line ← hin.getLine
  if line.isEmpty then return ()
  let l := (line.dropEndWhile (fun c => c == '\n' || c == '\r')).toString
  hout.putStrLn (handle l)
  loop hin hout

def main : IO Unit := do
  let hin ← IO.getStdin
  let hout ← IO.getStdout
  loop hin hout
  hout.flush
