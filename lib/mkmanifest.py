#!/usr/bin/env python3
"""Regenerates MANIFEST.json from lib/props.py + lib/manifest_text.py (kept valid at all times)."""
import json, os, sys
VERIF = os.path.dirname(os.path.dirname(os.path.abspath(__file__)))
sys.path.insert(0, os.path.join(VERIF, "lib"))
import props, manifest_text as T

ALL = ["C%02d" % i for i in range(1, 21)]
checks = []
for pid in ALL:
    if pid not in props.PROPS:
        continue
    t = T.TEXT[pid]
    checks.append({
        "property_id": pid,
        "quick_cmd": "./check %s quick" % pid,
        "thorough_cmd": "./check %s thorough" % pid,
        "evidence_file": "/verif/evidence/%s.json" % pid,
        "replay_cmd_template": "./check %s --replay {path}" % pid,
        "engine": "lean4-proof+correspondence",
        "level_claimed": {"category": props.PROPS[pid].get("level", "proof"), "text": t["level"], "design_ref": t["design_ref"]},
        "level_note": t["note"],
        "technique": t["technique"],
    })
na = [{"property_id": pid, "reason": T.NOT_CLAIMED.get(pid, "check not built yet; see DESIGN.md §4 for the planned decision procedure")}
      for pid in ALL if pid not in props.PROPS]
m = {
    "version": 1,
    "setup_cmd": "./check setup",
    "hooks": {
        "guard": "verif",
        "enable": "go build -tags verif (the harness module in /verif/harness replaces the memefish module by /repo)",
        "baseline_off_cmd": "cd /repo && go test -mod=mod -json -vet=off -count=1 -timeout 25m ./...",
        "source_commits": T.HOOK_COMMITS,
        "add_only": True,
    },
    "engines": [{
        "name": "lean4-proof+correspondence",
        "path": "/verif/lean, /verif/harness, /verif/tools/extract, /verif/lib",
        "serves_properties": [c["property_id"] for c in checks],
        "kind_free_text": "Lean 4 theorems about a hand-written executable model of memefish (and about tables regenerated from the source on every run), tied to the Go code by differential correspondence channels; the property's own predicate is additionally evaluated on the implementation to search for replays",
    }],
    "checks": checks,
    "not_applicable": na,
    "notes": T.NOTES,
}
json.dump(m, open(os.path.join(VERIF, "MANIFEST.json"), "w"), indent=1)
print("MANIFEST.json: %d checks, %d not claimed" % (len(checks), len(na)))
