import json, jsonschema, sys, glob
m=json.load(open('/verif/MANIFEST.json')); jsonschema.validate(m, json.load(open('/root/.vp/MANIFEST.schema.json')))
for f in glob.glob('/verif/evidence/*.json'):
    e=json.load(open(f)); jsonschema.validate(e, json.load(open('/root/.vp/EVIDENCE.schema.json')))
    print(f, "ok", e['coverage'].get('obligations'), e['coverage'].get('discharged'))
print("valid")
