HOOK_COMMITS = ["72a0815", "c376b82"]
NOTES = ("Every check rebuilds the harness from /repo's working tree, regenerates the tables, rebuilds the Lean project, "
         "audits the axioms of the property theorems, runs the correspondence channels and evaluates the property predicate on the "
         "implementation. See DESIGN.md.")
NOT_CLAIMED = {}
TEXT = {
    "C13": {
        "level": "Machine-checked Lean 4 theorems, for every byte string and both lexer modes, about a complete hand-written model of lexer.go: "
                 "each NextToken step returns exactly the bytes between old and new cursor (comments, space, raw), accepted inputs are tiled by "
                 "their tokens, ranges are consecutive, only <eof> is empty and it is last, spaces are whitespace runs, comments are complete, "
                 "<eof> is stable. The model is tied to the Go lexer by the LEX channel (token records, error kinds and ranges, both modes) on "
                 "exhaustive short strings + corpus + random inputs; the property predicate is also evaluated on the Go lexer directly.",
        "design_ref": "DESIGN.md §4 C13",
        "note": "Trusted: Lean kernel + propext/Classical.choice/Quot.sound; the hand-written model MF/Model/Lexer.lean (validated by the LEX "
                "channel on the explored inputs only); Go harness and compiled Lean driver.",
        "technique": "Lean 4 proof (cursor invariant, induction on fuel) + model/implementation correspondence",
    },
    "C20": {
        "level": "Lean 4 theorems for every text and every 0<=pos<=end<=len about a line-for-line model of token/file.go: ResolvePos equals the "
                 "specification (newlines before pos / distance from line start), File.Position never panics in range (and the bound is sharp), "
                 "Error.Error() starts with file:line+1:col+1 of Pos, and the excerpt quotes exactly the lines from pos's line to end's line, each verbatim, with the caret line under the range (position_source_single/multi). Model tied to the Go code by the POS channel (Position fields, excerpt text, "
                 "error text, and panics for out-of-range arguments) over all short texts x all ranges; the implementation predicate re-checks "
                 "line/column/excerpt against newline counting and the prefix of every error the lexer and parser report.",
        "design_ref": "DESIGN.md §4 C20",
        "note": "Trusted: Lean kernel + standard axioms; model of file.go/error.go (validated by POS channel on explored inputs); fmt's %3d/%d are modelled (pad3, decimal) "
                "and correspondence-checked.",
        "technique": "Lean 4 proof (induction over the text relating the line table to a scan) + correspondence",
    },
    "C12": {
        "level": "Lean 4 theorems for every byte string about a statement-for-statement model of split.go running on the lexer model, full strength: the "
                 "splitter fails iff the lexer does, with the same error; the pieces are exactly those determined by the token stream (cut at every ';' token; "
                 "`pieces_from_tokens`); each piece carries input[Pos:End], is in range, pieces are ordered; no piece contains a ';' token; every other token and "
                 "every comment lies in exactly one piece; between consecutive pieces there is exactly one token, a ';', followed by whitespace runes only; after "
                 "the last piece nothing or one ';' plus whitespace; no runtime panic; termination. Semicolons inside literals and comments never split because such "
                 "a ';' is inside a token or comment (C13 tiling). The model is tied to the Go code by the SPLIT and LEX channels; the predicate re-checks all "
                 "clauses on the Go splitter against the Go token stream.",
        "design_ref": "DESIGN.md §4 C12",
        "note": "Trusted: Lean kernel + standard axioms; models of split.go and lexer.go validated by SPLIT/LEX on explored inputs.",
        "technique": "Lean 4 proof (loop invariant; refinement of the loop to a fold over the token list; list reasoning) + correspondence",
    },
    "C03": {
        "level": "Proof (partial). Proved in Lean for every byte string: the lexer (both modes) and the statement splitter terminate, never hit a Go run-time panic, and report errors with in-range positions. "
                 "Proved over facts regenerated from parser.go/parse_helpers.go/lexer.go/split.go on every run (call graph, defer/recover shapes): no *Error panic escapes any Parse* entry point — every raise site reachable from an entry point "
                 "lies under a deferred recover whose handler cannot raise (MF.Props.C03.no_escape, entry_no_escape; the static premise is re-decided by the kernel on the regenerated tables). "
                 "Proved for the ParseType entry point (model MF/Model/TypeParse.lean, tied to memefish.ParseType by the TYPE channel): on EVERY token list, accepted or rejected, the model terminates - it answers ok or raise, never runs out of fuel, with any fuel >= 3 * (number of tokens, '>>' and '<>' counted twice) + 2, and the answer is the same for every such fuel (MF.Props.C03.parseType_terminates, parseType_fuel_stable, parseType_decides); with lexer totality, ParseType's model returns on every byte string (typeRun_total). "
                 "Proved for the ParseExpr entry point (model MF/Model/Expr.lean of the expression ladder parseExpr ... parseLit for the fragment M1, tied to memefish.ParseExpr by the EXPR channel): on EVERY token list, accepted, rejected or garbage, the model terminates - it answers ok, raise or outside-the-fragment, never runs out of fuel, with any fuel >= 15 * (number of tokens) + 15, which is below the fuel the driver passes, and the answer is the same for every such fuel (MF.Props.C03.parseExpr_terminates, parseExpr_fuel_stable, parseExpr_decides); with lexer totality and C07.no_crash the EXPR request never answers FUEL or CRASH on any byte string (exprRun_total, exprRunRT_total). "
                 "Not proved: termination of the other productions and absence of run-time panics (nil, index) in them — every Parse* call of the predicate runs under recover with a deadline over corpus, probes, mutations, single-token edits, grafts and soups.",
        "design_ref": "DESIGN.md §4 C03",
        "note": "Trusted: lexer/splitter models (LEX, SPLIT, POS channels), the facts translator tools/extract/parserfacts.go and the abstraction MF/Model/Recovery.lean (only *Error panics modelled).",
        "technique": "Lean 4 proof (byte-level totality of lexer and splitter; termination of the ParseType and ParseExpr models on every token list with concrete linear fuel bounds; big-step recovery calculus with a kernel-decided reachability analysis over facts regenerated from parser.go) + LEX/SPLIT/POS/TYPE/EXPR correspondence channels + predicate on the implementation",
    },
    "C15": {
        "level": "Lean 4 theorems for EVERY byte string and EVERY printable-predicate: QuoteSQLString(s) lexes as exactly one string token with value s "
                 "(including invalid UTF-8, both quote characters, controls, every escape form), QuoteSQLBytes(b) as one bytes token with value b, "
                 "QuoteSQLIdent(s) (s non-empty) as one identifier named s, returned unquoted iff s is not a reserved word and identifier-shaped. Supporting "
                 "theorems: UTF-8 decode/encode round trip of the model's decoder, hex round trips, locality of the quoted-content scanner. Models tied to "
                 "quote.go and lexer.go by the QUOTE and LEX channels; the predicate evaluates the property on the Go functions (all 1-byte, 2-byte strings, "
                 "code points, keywords, random).",
        "design_ref": "DESIGN.md §4 C15",
        "note": "Trusted: Lean kernel + standard axioms; models of quote.go / lexer.go validated by channels on explored inputs; unicode.IsPrint not trusted (quantified over).",
        "technique": "Lean 4 proof (induction over runes/bytes with the decoder's loop invariant) + correspondence",
    },
    "C14": {
        "level": "A reference lexer (MF/Spec/Lexical.lean) written from the GoogleSQL lexical-structure page, organised by token class and independent of "
                 "lexer.go; kernel-decided instantiations on tables regenerated from the source on every run (token.Keywords = the 96 reserved words; each "
                 "char.IsX body = the specified class on all 256 bytes); the Go lexer's token stream (kinds, extents, decoded values, base, accept/reject) is "
                 "compared with the reference on exhaustive short strings, a literal generator (prefix x quote form x escape x position), number forms, corpus "
                 "and random inputs; any disagreement is reported with the input as replay. Lean theorems step_refines / lexAll_refines: for EVERY byte string and every "
                 "lexer state the model of lexer.go and the reference agree on accept/reject, kinds, extents, decoded values, base and dot-identifier mode.",
        "design_ref": "DESIGN.md §4 C14",
        "note": "Trusted: the reference lexer is the meaning of 'GoogleSQL lexical structure' here (decisions P1-P4 documented in its header); Lean kernel; "
                "translator for keywords.go / char/is.go.",
        "technique": "Lean 4 proof of refinement (model of lexer.go refines an independent reference lexer) + kernel-decided table instantiations + differential comparison (LEX, SPEC channels)",
    },
    "C19": {
        "level": "Tables regenerated from the source on every run; kernel-decided: for all 264 node types the body of Pos()/End() in ast/pos.go is exactly the "
                 "emission of the documented expression, walk_internal.go pushes exactly the node-typed fields in reverse declaration order with the right "
                 "single/many tag and label, every struct has its rows. Lean theorem emit_correct: the emitted Go (strict helpers of pos_util.go) and the "
                 "documented expression (poslang interpreter semantics) denote the same value, for every expression and context. Finite clauses run by the "
                 "harness: the repository's generators reproduce the committed files byte for byte; poslang.EvalPos agrees with the compiled methods on every "
                 "node of every explored input; the TREE channel checks the Lean interpreters on the tables against Go's Pos()/End()/Walk per node. "
                 "Bridge (MF/Props/C19Bridge.lean; hand model = generated tables): the hand-written printers and position formulas of the typed fragment models "
                 "(expressions: sqlE, exprPrec, posP, endP; types: sqlT, sqlF, posT, endT, posF, endF) are PROVED equal to the generic interpreters (SQL() DSL of ast/sql.go, compiled and "
                 "documented Pos()/End() of ast/pos.go / ast/ast.go) applied to the tables regenerated on this run, for every tree with non-empty identifiers, hence for every accepted input "
                 "(sql_bridge_*, pos_bridge_*, pos_doc_bridge_*, *_parsed); one kernel-decided row obligation per node kind breaks when that kind's SQL() body or Pos()/End() method changes. "
                 "The translation toNodeP / toNodeT into the generic tree is validated by the BRIDGE channel (Go's reflective dump of ParseExpr / ParseType, node for node).",
        "design_ref": "DESIGN.md §4 C19",
        "note": "Trusted: tools/extract (syntactic reader; unrecognised shapes become explicit failing rows), Lean kernel, transcription of poslang/pos_util.",
        "technique": "translator-regenerated tables + kernel evaluation (decide +kernel) + Lean proof of emitter correctness + translation validation",
    },
    "C17": {
        "level": "Lean 4 theorems for every tree, every visitor (as a pure state machine) and the walk table regenerated from walk_internal.go: the explicit-stack "
                 "traversal of ast/walk.go produces exactly the recursively specified event sequence (Visit, then the Field calls of all node-typed fields, then "
                 "the children in declaration order; slices via VisitMany and Index) with the fuel of the model proved sufficient for the real table; every node "
                 "is visited once in pre-order; a pruned node contributes exactly one event; Preorder makes no yield call after the first false. Kernel-decided: "
                 "the table equals the node-typed fields of ast.go in reverse declaration order. TREE channel: Go's event list vs the model's on every explored tree; "
                 "predicate: Go's Walk/Inspect/Preorder vs reflection.",
        "design_ref": "DESIGN.md §4 C17",
        "note": "Trusted: Lean kernel + standard axioms; Walk model and regenerated table validated by the TREE channel on explored trees.",
        "technique": "Lean 4 proof (stack machine refines recursive specification) + kernel-decided table instantiation + correspondence",
    },
    "C04": {
        "level": "Partial. Lean theorems over tables regenerated from ast.go, pos.go, walk_internal.go and sql.go on every run: Pos(), End() and SQL() never panic on any tree "
                 "that is shaped like the catalogue and carries the children its kind's SQL() body dereferences unconditionally (a decidable predicate derived from the tables; "
                 "table well-formedness re-decided by the kernel on every run); every expression kind that can reach paren() has a precedence row (BadExpr exempt, deliberately); "
                 "Walk terminates with the specified events. The link 'the parser returns only such trees' is not proved: SQL(), Pos(), End(), Walk, Inspect, Preorder are "
                 "executed under recover on every node of every tree returned for the corpus, probes, mutations, grafts and expression soups. "
                 "Whole grammar, static (regenerated on every run, kernel-decided): MF.Props.C04.sites_fill_required - at every node literal ast.K{...} of parser.go every single-node field that "
                 "K's SQL()/Pos()/End() dereference unconditionally (requiredFields, derived from the regenerated tables by the clauses of SqlShaped; sqlShaped_of_required) is filled from a "
                 "never-nil source on every path, Ident.Name comes from an identifier token, the Bad* wrappers fill BadNode, no later assignment x.F = v empties a required field "
                 "(facts read out of parser.go by tools/extract/nodelits.go; 5 sites accepted in an explicit, justified table that fails when stale); that the literal sites execute as the syntactic "
                 "flow analysis says is the extracted fact, not a theorem.",
        "design_ref": "DESIGN.md §4 C04",
        "note": "Trusted: translator + interpreters (TREE channel); SQL()/parser link by exploration only.",
        "technique": "Lean 4 proof over tables regenerated from ast/*.go and over the node-literal sites regenerated from parser.go (decide +kernel instantiation: every literal provably fills the fields SQL() dereferences) + TREE correspondence channel + execution of all four operations on every node of explored trees",
    },
    "C10": {
        "level": "Proof (partial). Lean theorems for every byte string and every lexer state satisfying the lexer invariant: the two lexer modes agree on clean text (noPanic_agrees); "
                 "each of the four recovery handlers terminates and returns exactly the recovery-mode token stream from the restored token up to the first stop token, every token an exact slice of the input, "
                 "NodePos = start of the first, NodeEnd = end of the last (NodePos when empty), incl. the '>>' split (bad_tokens_exact, split_gt); BadNode.SQL() keeps exactly the input's gaps between tokens (bad_sql_shape). "
                 "Regenerated tie (MF/Props/C10Handlers.lean): tools/extract/handlers.go translates the switch of each handler out of parser.go on every run into a small statement language with a Lean semantics; the kernel re-decides that the translation is the expected table, and `action_is_go` / `handler_is_go` prove that the modelled handlers ARE the skip loop over the translated switches (for every nesting value and token kind; the translated code never decrements the nesting counter below zero), so an edited stop set or nesting rule breaks a proof obligation deterministically. "
                 "The handler model is tied to parser.go on every run by the HANDLER channel through the hook VerifRecover. Not proved: that input[NodePos:NodeEnd] and SQL() lexed on their own give the same tokens "
                 "(false at a context-dependent cut: known finding site:BadNode.sliceContext) and that parse functions only pass lexer-produced states; both are evaluated on the implementation for every BadNode of every explored tree.",
        "design_ref": "DESIGN.md §4 C10",
        "note": "Trusted: lexer model (LEX channel, both modes), handler model (HANDLER channel, 0.28 M requests quick / several million thorough), the hook export_verif.go.",
        "technique": "Lean 4 proof (lexer-mode agreement, handler loop invariant with fuel sufficiency, SQL() gap lemma) + regenerated TRANSLATION of the four handlers' switches into a statement language with Lean semantics, proved equal to the modelled handlers + LEX/HANDLER correspondence channels + predicate on the implementation",
    },
    "C07": {
        "level": "Lean 4 theorems about a function-for-function model of the expression ladder of parser.go (parseExpr .. parseLit, the loops, sign folding, "
                 "path merging, the look-aheads) on token lists, for the operator language M1 (atoms, parentheses, 4 prefix, 20 binary operators, IS / BETWEEN / IN "
                 "/ LIKE forms, field access and subscripts): soundness (a successful parse consumed exactly the yield of the returned tree, every ParenExpr being a "
                 "'(' ')' pair around exactly its operand, and the tree is grouped as the GoogleSQL table, given as data, prescribes: left-associative levels, "
                 "non-associative comparison family, prefix and postfix levels), completeness (every tree grouped by the table, in the parser's normal form, is "
                 "what the parser builds from its yield, for all sufficiently large fuel), uniqueness of the grouping, non-associativity of comparisons "
                 "('a = b = c' is rejected), fuel-independence, and at the token level that SQL() of a parser-built tree adds no parenthesis and needs none. "
                 "The model is tied to memefish.ParseExpr by the EXPR channel (AST shape and SQL() text on all trees with up to 3 / 4 operator occurrences printed "
                 "minimally and fully parenthesised, token soups, mutations, sign/path cases); the predicate re-checks grouping, ParenExpr extents and the SQL() "
                 "re-lexing on the Go code with its own table-driven printer. "
                 "Regenerated tie (MF/Props/C07Ladder.lean): tools/extract/ladder.go reads the ten ladder functions parseOr .. parseUnary out of parser.go on every run and the kernel re-decides that the "
                 "ladder they form IS the GoogleSQL table for levels 2..12 (same finite map (node kind, Op) -> level; loops with the right operand one level down = left-associative, a single application for the "
                 "comparison family = non-associative, self-recursive prefix levels; every case dispatches on the spelling of the operator it assigns), so an operator moved to another level or a changed "
                 "associativity in parser.go breaks a kernel-decided obligation whether or not a generator produces a distinguishing input.",
        "design_ref": "DESIGN.md §4 C07",
        "note": "Trusted: Lean kernel + standard axioms; the model MF/Model/Expr.lean (validated by the EXPR channel on explored inputs only) and the table in "
                "MF/Spec/Precedence.lean. Partial: print_minimal is proved on tokens; the bytes-to-tokens step of the printer is checked at run time (rt flag, predicate).",
        "technique": "Lean 4 proof (soundness by induction on fuel over all 28 mutually recursive functions; completeness in eventual form by structural induction "
                     "on the tree with continuation-passing statements for the loop levels) + regenerated translation of the ladder functions of parser.go, kernel-decided equal to the GoogleSQL table (levels, associativity, token spellings) + EXPR model/implementation correspondence + table-driven predicate",
    },
    "C01": {
        "level": "Proof (partial: a fragment). Explored on the real entry points: for every error-free parse of the corpus, probes, mutations and expression soups, SQL() re-parses with the same entry point to a tree equal up to position values and is a fixed point. Two recorded known findings (join method, empty PRIMARY KEY) are recognised by call site. PROVED for the expression fragment M1 of C07 (MF/Props/C01Expr.lean, on the models of lexer.go, parseExpr..parseLit and the SQL() methods): the byte-level round trip `roundtrip_expr_partial` (accepted input => the SQL() text lexes and parses to the same tree, under the necessary hypothesis that no identifier token reads SAFE_CAST / REPLACE_FIELDS), `printed_lexes` (the lexer reads the printed text of ANY tree with lexer-producible leaves as exactly the printer's tokens), `fixed_point_expr`, and a kernel-checked counterexample showing the hypothesis necessary for the model (the corresponding defect of the Go code — `SAFE_CAST` written with back quotes did not re-parse — was found by this proof and is repaired). Proved for the ParseType entry point (lexer and parser model, MF/Model/TypeParse.lean tied to memefish.ParseType by the TYPE channel: every field, position, Pos()/End(), SQL()): for every accepted input, SQL() lexes and parses back to the same tree up to positions and prints the same text (MF.Props.C01.type_roundtrip), and so does every hand-built well-formed tree with non-empty names (type_roundtrip_tree); the lexer side is a piece-by-piece lexing theorem for the printed text (print_lexes). The flag rt of the TYPE channel evaluates the same statement with Go's lexer on Go's SQL() for every OK request. The fragment models' printers and position formulas are proved equal to the interpretation of the regenerated tables (MF/Props/C19Bridge.lean: sql_bridge_expr, sql_bridge_type, prec_bridge, registered under C19): sqlE / sqlT / exprPrec of these theorems are the SQL() bodies, exprPrec and paren that tools/extract reads out of ast/sql.go on every run. Proved for the SELECT core of ParseQuery at TOKEN level (Task X, MF.Props.C01.query_roundtrip_tokens_partial): any token list reading the printed tokens of a parsed query without expr.* items and without unquoted SAFE_CAST / REPLACE_FIELDS identifiers is accepted again, with a well-formed tree whose yield reads those tokens; that the two trees are equal up to positions is evaluated on concrete inputs and, for the text, by the QUERY channel (SQL() bytes compared with Go on every OK request), not proved.",
        "design_ref": "DESIGN.md §4 C01",
        "note": "Theorems cover the expression fragment only and are about the models (tied to the code by the LEX and EXPR channels); everything else is exploration plus kernel-decided table obligations. Known findings are listed in known-findings.txt.",
        "technique": "Lean 4 proof for the expression fragment (lexer concatenation theorem + printer/lexer agreement + parser completeness) + table obligations + property predicate evaluated on the implementation",
    },
    "C02": {
        "level": "Proof (partial: a fragment). Explored on the real entry points: significant-token sequence of the input (from the lexer, which C13/C14 cover by proof) vs that of SQL() modulo the documented canonicalisations, for every error-free parse of the explored inputs. PROVED for the expression fragment M1 of C07 (MF/Props/C01Expr.lean `lossless_expr`, on the models): the projected tokens (kind class + value; keyword case, `<>`/`!=`, quoting style, positions and trivia erased) of the SQL() text are those of the input, token by token, except that an identifier spelling a position keyword in x[kw(...)] comes back in canonical spelling (relation CanonRel; equality after canonTok). Proved for the ParseType entry point (lexer and parser model): for every accepted input the tokens consumed by the parse and the tokens of SQL() read as the same description list - kinds, identifier names unquoted, simple type names up to case, '>>'/'<>' expanded (MF.Props.C01.type_lossless); evaluated on the implementation by flag rt of the TYPE channel. Proved for the SELECT core at TOKEN level (Task X, MF.Props.C01.query_print_lossless, select_trailing_only): at the query layer SQL() loses exactly the trailing comma of the select list and adds nothing (ALL / DISTINCT, an optional AS, ASC / DESC, OFFSET are printed iff written); inside expression slots the losses are those proved for expressions.",
        "design_ref": "DESIGN.md §4 C02",
        "note": "Theorems cover the expression fragment only and are about the models (tied to the code by the LEX and EXPR channels); everything else is exploration plus kernel-decided table obligations. Known findings are listed in known-findings.txt.",
        "technique": "Lean 4 proof for the expression fragment (lexer concatenation theorem + printer/lexer agreement + parser completeness) + table obligations + property predicate evaluated on the implementation",
    },
    "C05": {
        "level": "Proof (partial: a fragment). Explored on the real entry points: range, token alignment (with the >> split), nesting and sibling order of every node of every returned tree; Lean theorems about Pos()/End() as functions of the tree exist (C04/C19) but the parser-side alignment is not proved. Proved for the ParseType entry point: for every accepted input of the model (lexer + parser), every node - types, struct fields, identifiers - starts at a token start and ends at a token end ('>>' and '<>' counted as two one-byte tokens), satisfies 0 <= pos < end <= len, and contains its children in order without overlap (MF.Props.C05.type_positions); the known defect of a back-quoted simple type name (End() two bytes short) is excluded by hypothesis and reproduced by MF.Props.C05.type_positions_fails_backquoted. Proved for the expression fragment: for lexer output and a successful ParseExpr of the model with positions (MF/Model/ExprPos.lean, tied to the Go parser by the EXPRPOS channel), every Go node of the tree starts at the pos of a token and ends at the end of a token it consumed, so Pos < End <= len, children lie inside their parent, in source order without overlap (MF.Props.C05.expr_positions); a folded sign '- 1' is one literal over two tokens. The fragment models' printers and position formulas are proved equal to the interpretation of the regenerated tables (MF/Props/C19Bridge.lean: pos_bridge_expr, pos_bridge_type, pos_bridge_field and the pos_doc_* variants, registered under C19): posP / endP / posT / endT / posF / endF of these theorems are the Pos() / End() methods that tools/extract reads out of ast/pos.go (and the // pos =, // end = lines of ast/ast.go) on every run. Whole grammar, static (regenerated on every run, kernel-decided): O2 MF.Props.C05.offsets_match - every documented summand F + n of every pos/end expression is fed, at every ast.K{...} literal of parser.go, by the start of a token whose raw text is n bytes long (provenance read out of parser.go by tools/extract/posprov.go), MF.Props.C05.reads_guarded - every position field is read from a token the dominating guards determine; O3 MF.Props.C05.chains_complete - the documented pos/end chains name the leading/trailing optional items of the SQL() template in order (252 of 264 kinds, 12 exempt with reasons); exceptions are explicit tables that fail when stale; the link site-executes-with-that-token is the extracted fact, not a theorem. For the SELECT core of ParseQuery (Task X) only a first step is proved: Pos() of the QueryStatement, its QueryExpr and the Select node is the position of the first token (MF.Props.C05.query_pos_first_token); End() and the inner nodes are compared with Go on every OK request of the QUERY channel (Pos()/End() of every node), not proved.",
        "design_ref": "DESIGN.md §4 C05",
        "note": "Theorems cover the ParseType entry point and the expression fragment of ParseExpr only and are about the models (tied to the code by the LEX, TYPE and EXPRPOS channels); every other entry point and node kind is exploration. Known findings are listed in known-findings.txt.",
        "technique": "Lean 4 proof for ParseType and for the expression fragment with positions (erasure to the proved expression model; function-for-function parser model with positions, grammar as an inductive relation, lexer window/concatenation theorems) + TYPE correspondence channel + property predicate evaluated on the implementation (corpus, reference grammar G, grafts, edits, mutations)",
    },
    "C06": {
        "level": "Proof (partial: a fragment). Explored on the real entry points: slice-and-reparse and splice-and-reparse for every node of accepted corpus/probe/mutated inputs. Proved for the ParseType entry point (lexer and parser model): for every accepted input and every type node n whose subtree has no SimpleType on a back-quoted token (known defect, End() two bytes short), the slice input[Pos:End] lexes and parses on its own to n with all positions decreased by Pos() (MF.Props.C06.type_exact; parser side type_exact_tokens, lexer side slice_lex = a window-locality theorem for the lexer model: no sentinel at the cut, positions shifted, a '>>' cut in the middle becomes '>'); StructField and Ident nodes are excluded (not types); the same statement is evaluated on the implementation for every type node of every OK request of the TYPE channel (flag ex). Proved for the expression fragment: the text input[Pos:End] of every sub-expression of a parsed expression lexes on its own (a token-aligned slice needs no ';' behind it) and ParseExpr of it is the node with all positions moved Pos bytes to the left (MF.Props.C06.expr_exact_partial, side condition: no unquoted SAFE_CAST / REPLACE_FIELDS field name inside the node); not covered, and false in the Go code, for the Idents used as path components or field names ('a.1', 'a.select'). Whole grammar, static: the O2/O3 table obligations registered under C05 (MF.Props.C05.offsets_match, reads_guarded, chains_complete, over tables regenerated from parser.go, ast/ast.go, ast/sql.go on every run) are the deterministic detectors for a range that is one token short or long: they are audited by this check too.",
        "design_ref": "DESIGN.md §4 C06",
        "note": "Theorems cover the ParseType entry point and the expression fragment of ParseExpr only and are about the models (tied to the code by the LEX, TYPE and EXPRPOS channels); every other entry point and node kind is exploration. Known findings are listed in known-findings.txt.",
        "technique": "Lean 4 proof for ParseType and for the expression fragment with positions (erasure to the proved expression model; function-for-function parser model with positions, grammar as an inductive relation, lexer window/concatenation theorems) + TYPE correspondence channel + property predicate evaluated on the implementation (corpus, reference grammar G, grafts, edits, mutations)",
    },
    "C08": {
        "level": "Proof (partial: a fragment). Explored on the real entry points: every golden input not marked !bad_ (the maintainers' rendering of each documented production) and its keyword/pseudo-keyword re-casings through the specific entry point and ParseStatement (equal trees), and ';'-joined lists through the list entry points. Plus the reference grammar G written from the documentation (harness/grammar*.go: 202 non-terminals, 504 alternatives; systematic enumeration of every alternative, every optional on/off, list lengths min..min+2, keyword-like identifiers in both cases, and seeded random derivations: 12 k sentences quick / 146 k thorough), each sentence through its entry point and ParseStatement with equal trees and with the lexer's tokens compared to the generator's own terminal list. Ten documented forms that memefish rejects are recorded findings (G-known:*), ten others were repaired. Proved for the ParseType entry point: the documented type grammar G_T (MF/Spec/TypeGrammar.lean, over token kinds, '>>' and '<>' standing for two one-byte tokens) is exactly what the model of ParseType accepts and the tree returned is the derivation tree: soundness (type_sound), completeness for ALL derivations with a concrete fuel (type_complete, type_complete_tree), unambiguity (type_unique), the two as one equivalence (type_accepts_iff); no side condition: since the repair of lookaheadSimpleType a named type whose first path component reads as a simple type name (date.T, string.x) is accepted as G_T says. The model is tied to memefish.ParseType by the TYPE channel (all type texts up to a size bound in six spellings, all token sequences up to length 4 / 6 over the type vocabulary, mutations, soups). Proved for the DML entry points, fragment M2 = INSERT [OR UPDATE|OR IGNORE] [INTO] path (columns) VALUES rows, DELETE [FROM] path [[AS] alias] WHERE expr, UPDATE path [[AS] alias] SET path = expr|DEFAULT, ... WHERE expr, expressions inside M1, no hint / THEN RETURN / sub-query input (model MF/Model/Stmt2.lean, one Lean function per Go function, tied to ParseDML, ParseDMLs, ParseStatement and ParseStatements by the DML channel: every field, position, Pos()/End(), SQL()): what the model accepts is a sentence of the documented grammar G_DML (MF/Spec/DMLGrammar.lean) and the tree is its derivation tree (MF.Props.C08.dml_sound), every derivation is accepted with its tree (dml_complete, eventual fuel; side condition inherited from C07: no unquoted SAFE_CAST / REPLACE_FIELDS identifier), G_DML is unambiguous (dml_unique), and the statement entry points build exactly the DML entry points' trees on DML texts (dml_entry_points_agree). Proved for the SELECT core of ParseQuery / ParseStatement (Task X, model MF/Model/Query.lean tied to the code by the QUERY channel on every run): an accepted token list is the yield of the returned tree and a derivation of the documented grammar G_Q (MF.Props.C08.query_sound, query_sound_top), and on inputs starting with SELECT the statement entry point returns exactly the query entry point's answer (query_entry_points_agree). Completeness for the SELECT core (Task X): every sentence of G_Q without the expr.* production, read by a token list without unquoted SAFE_CAST / REPLACE_FIELDS identifiers and followed by <eof>, is accepted by ParseQuery and by ParseStatement with the same tree (MF.Props.C08.query_complete_partial, query_complete_statement_partial; side conditions shown necessary by complete_needs_castfree, trailing_comma_placement).",
        "design_ref": "DESIGN.md §4 C08",
        "note": "Theorems cover the ParseType entry point, the expression fragment (C07) and the SELECT core of ParseQuery / ParseStatement, and are about the models (tied to the code by the LEX, TYPE, EXPR and QUERY channels); every other entry point and node kind is exploration. Known findings are listed in known-findings.txt.",
        "technique": "Lean 4 proof for ParseType (function-for-function parser model with positions, grammar as an inductive relation, soundness + completeness + uniqueness) and for the SELECT core of ParseQuery/ParseStatement (function-for-function model, soundness against the documented grammar, entry-point agreement) + TYPE/QUERY/EXPR correspondence channels + regenerated parser.go data (simpleTypes, parseType dispatch) + property predicate evaluated on the implementation (corpus, reference grammar G, grafts, edits, mutations)",
    },
    "C09": {
        "level": "Proof (partial). Over facts regenerated from the source on every run and a big-step model of panic/recover: the error list is append-only (every assignment to .errors is `x.errors = append(x.errors, e)`), every Bad* literal "
                 "is built in a recover handler after an error was appended (at most one wrapper, one BadNode and one handler run per error), and every entry point has the shape `parse; if Token != <eof> {error}; if len(errors) > 0 {return MultiError}; return nil` — "
                 "so it returns nil iff no error was recorded and the input was consumed, and then no Bad* node was created (MF.Props.C09.bad_implies_error, entry_contract). "
                 "Not proved: message/position content of the errors and that returned trees hold only the counted Bad nodes; the predicate evaluates the whole contract on the implementation.",
        "design_ref": "DESIGN.md §4 C09",
        "note": "Trusted: the facts translator and the abstraction MF/Model/Recovery.lean; TREE channel for the tree model. The static premises are re-decided by the kernel on every run.",
        "technique": "Lean 4 proof (credit analysis proved sound for the recovery calculus, instantiated by decide +kernel on regenerated facts) + predicate on the implementation",
    },
    "C11": {
        "level": "Proof (partial). Proved in Lean for every input: with the parseStatements loop, the lexer and the splitter modelled, for ANY statement parser that is Local (reads nothing behind its terminator, ';' and <eof> interchangeable) "
                 "the list entry point succeeds iff the single-statement parser succeeds on every token-containing piece of SplitRawStatements, with the same results in order (lists_compose, segments_pieces, compose); lexing a piece on its own, shifted to its offset, "
                 "gives exactly the tokens (kinds, values, positions, comments) the whole input has there (pieces_lex). Over regenerated facts: productions never test '== <eof>' except next to ';' (eof_sites). "
                 "Not proved: that memefish's statement parser is Local — explored: lists of 1..4 and of 260/1200 statements against split + single-statement parses. "
                 "Proved for the DML fragment M2 (INSERT … VALUES, DELETE, UPDATE with expressions inside M1; model MF/Model/Stmt2.lean tied to ParseDML / ParseDMLs / ParseStatement / ParseStatements by the DML channel): the modelled DML statement parser is Local (MF.Props.C11.dml_local), so ParseDMLs succeeds iff ParseDML succeeds on every token-containing ';'-free segment, with equal trees (dml_lists_compose; dml_compose_model states the same directly for the model's own list loop, dml_lists_agree ties the two loops), a segment is accepted iff it is a sentence of the documented grammar G_DML (dml_segment), and with CoreInv (dml_coreInv) the end-to-end statement including lexer and splitter holds (dml_compose). Side condition throughout: no token reads as the unquoted identifiers SAFE_CAST / REPLACE_FIELDS (fragment boundary of M1).",
        "design_ref": "DESIGN.md §4 C11",
        "note": "Trusted: lexer and splitter models (LEX/SPLIT channels), the loop model in MF/Proofs/StmtList.lean (13 lines of Go), the facts translator.",
        "technique": "Lean 4 proof (abstract locality theorem + lexer truncation/shift invariance + splitter characterisation) + regenerated facts + predicate on the implementation",
    },
    "C16": {
        "level": "Proof (partial). Lexer half proved in Lean for every input: if x lexes to ts and x' re-spells ts (arbitrary new whitespace/comments subject to the two separation side conditions, any case for keywords and unquoted identifiers) then x' lexes to tokens with the same kinds, bases and decoded values (MF.Props.C16.trivia_lemma). Parser half: regenerated facts show parser.go never reads Token.Space or Token.Comments and reads Token.Raw only for error messages, keyword tests, literal spellings and the >> split (token_uses); that the tree depends on the tokens only through kind/AsString/Base is explored on the real entry points: each accepted input is re-spelled and must parse to the same tree. PROVED end to end for the expression fragment M1 (MF/Props/C16Expr.lean, respell_expr_partial): an accepted ParseExpr input, re-spelled in its trivia and keyword case, is accepted and parses to the same tree (lexer theorem composed with soundness/completeness of the expression model; identifier tokens keep their bytes; no identifier reads SAFE_CAST / REPLACE_FIELDS), and for the ParseType entry point (MF/Props/C16Types.lean, respell_type: the re-spelled type parses to a tree equal up to position values, same SQL() text).",
        "design_ref": "DESIGN.md §4 C16",
        "note": "The theorem is about the Lean lexer model, tied to lexer.go by the LEX channel on every run. The parser half is exploration. Known findings are listed in known-findings.txt.",
        "technique": "Lean 4 theorem over the lexer model (simulation of nextToken under re-spelling) + LEX/TREE correspondence channels + property predicate evaluated on the implementation",
    },
    "C18": {
        "level": "Proof (partial). Over facts regenerated on every run: no package-level variable of memefish/token/ast/char is written after init, there is no go statement and no import of sync, atomic, unsafe, time or rand (ownership); "
                 "abstractly: calls whose steps read immutable globals and write only their own component give the same results under every interleaving and every order (schedule_independent, schedules_agree). "
                 "Not proved: that a call writes only memory it allocated — explored: repeated, reordered and 16-way concurrent calls (race-detector build) give identical trees, SQL and error texts; earlier trees are not mutated.",
        "design_ref": "DESIGN.md §4 C18",
        "note": "Trusted: the facts translator; the Go race detector for the exploration half.",
        "technique": "Lean 4 proof (schedule independence of component-local steps) + regenerated ownership facts + race-detector exploration",
    },
}
