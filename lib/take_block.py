#!/usr/bin/env python3
"""take_block.py <src.py> <dst.py> <key> — replace the top-level dict entry `"<key>": {...},` of dst by the one of src
(integration helper for builder sub-agents' registry edits)."""
import sys
def block(s, key):
    i = s.index('    "%s": {' % key)
    j = s.index('{', i); d = 0; k = j; instr = None; esc = False
    while True:
        c = s[k]
        if instr:
            if esc: esc = False
            elif c == '\\': esc = True
            elif c == instr: instr = None
        elif c in '"\'': instr = c
        elif c == '{': d += 1
        elif c == '}':
            d -= 1
            if d == 0: break
        k += 1
    return i, k + 1
src, dst, key = sys.argv[1:4]
a = open(src).read(); b = open(dst).read()
i, j = block(a, key); m, n = block(b, key)
open(dst, 'w').write(b[:m] + a[i:j] + b[n:])
print("replaced", key, "in", dst)
