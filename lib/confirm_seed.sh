#!/bin/bash
# usage: lib/confirm_seed.sh <seedid> — confirms a sub-agent's seeded change in its scratch worktree:
# suite passes with the change; demonstration fails with it and passes without it. Then files it under seeded/.
set -u
id=$1; wt=/tmp/seed/wt_$id; [ -d $wt ] || wt=/tmp/seed/$id; out=/tmp/seed/out/$id
export GOFLAGS=-mod=mod GOPROXY=off GOSUMDB=off GOTOOLCHAIN=local
cd $wt || exit 2
git checkout -q -- . ; git clean -fdq -e nothing >/dev/null 2>&1
git apply $out/patch.diff || { echo "PATCH-DOES-NOT-APPLY"; exit 1; }
go build ./... || { echo "BUILD-FAILS"; exit 1; }
suite=$(go test -vet=off -count=1 ./... 2>&1 | grep -v "no test files")
echo "$suite" | grep -q FAIL && { echo "SUITE-FAILS-WITH-CHANGE"; echo "$suite" | tail -5; exit 1; }
demo=$(ls $out/*_test.go 2>/dev/null | head -1)
if [ -n "$demo" ]; then
  cp $demo $wt/zz_seed_demo_test.go
  with=$(go test -vet=off -count=1 -run 'Test' . 2>&1 | tail -3)
  git stash -q -- $(git diff --name-only)
  without=$(go test -vet=off -count=1 -run 'Test' . 2>&1 | tail -3)
  git stash pop -q
  rm -f $wt/zz_seed_demo_test.go
else
  echo "NO-TEST-DEMO (standalone program?)"; ls $out; exit 3
fi
echo "with change   : $(echo $with | tr '\n' ' ' | cut -c1-160)"
echo "without change: $(echo $without | tr '\n' ' ' | cut -c1-160)"
echo "$with" | grep -q "FAIL" || { echo "DEMO-DOES-NOT-FAIL-WITH-CHANGE"; exit 1; }
echo "$without" | grep -q "^ok" || { echo "DEMO-DOES-NOT-PASS-WITHOUT-CHANGE"; exit 1; }
mkdir -p /verif/seeded/$id && cp $out/patch.diff $out/meta.json $demo /verif/seeded/$id/
echo CONFIRMED $id
