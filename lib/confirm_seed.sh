#!/bin/bash
# usage: lib/confirm_seed.sh <seedid> — confirms a sub-agent's seeded change in its scratch worktree:
# suite passes with the change; demonstration fails with it and passes without it. Then files it under seeded/.
# (no `git stash`: the stash is shared between worktrees)
set -u
id=$1; wt=/tmp/seed/wt_$id; [ -d $wt ] || wt=/tmp/seed/$id; out=/tmp/seed/out/$id
export GOFLAGS=-mod=mod GOPROXY=off GOSUMDB=off GOTOOLCHAIN=local
cd $wt || exit 2
git checkout -q -- . ; git clean -fdq >/dev/null 2>&1
git apply $out/patch.diff || { echo "PATCH-DOES-NOT-APPLY"; exit 1; }
go build ./... || { echo "BUILD-FAILS"; exit 1; }
suite=$(go test -vet=off -count=1 ./... 2>&1 | grep -v "no test files")
echo "$suite" | grep -q FAIL && { echo "SUITE-FAILS-WITH-CHANGE"; echo "$suite" | tail -5; exit 1; }
demo=$(ls $out/*_test.go 2>/dev/null | head -1)
ddir=$(python3 -c "import json,sys; print(json.load(open('$out/meta.json')).get('demo_dir','.') or '.')" 2>/dev/null || echo .)
[ -d "$wt/$ddir" ] || ddir=.
if [ -n "$demo" ]; then
  cp $demo $wt/$ddir/zz_seed_demo_test.go
  with=$(cd $wt/$ddir && go test -vet=off -count=1 -run 'Test' . 2>&1 | tail -3)
  git apply -R $out/patch.diff
  without=$(cd $wt/$ddir && go test -vet=off -count=1 -run 'Test' . 2>&1 | tail -3)
  rm -f $wt/$ddir/zz_seed_demo_test.go
  git checkout -q -- . ; git clean -fdq >/dev/null 2>&1
else
  echo "NO-TEST-DEMO (standalone program?)"; ls $out; exit 3
fi
echo "with change   : $(echo $with | tr '\n' ' ' | cut -c1-200)"
echo "without change: $(echo $without | tr '\n' ' ' | cut -c1-200)"
echo "$with" | grep -q "FAIL" || { echo "DEMO-DOES-NOT-FAIL-WITH-CHANGE"; exit 1; }
echo "$without" | grep -q "^ok" || { echo "DEMO-DOES-NOT-PASS-WITHOUT-CHANGE"; exit 1; }
mkdir -p /verif/seeded/$id && cp $out/patch.diff $out/meta.json $demo /verif/seeded/$id/
echo CONFIRMED $id
