#!/bin/bash
# usage: lib/seedtest.sh <patch.diff> <Cxx> [<Cyy> ...]   — applies a seeded change to /repo, runs the checks, reverts
set -u
patch=$1; shift
cd /repo && git diff --quiet || { echo "/repo is dirty"; exit 2; }
git -C /repo apply "$patch" || { echo "patch does not apply"; exit 2; }
for p in "$@"; do
  (cd /verif && timeout 1800 ./check $p ${TIER:-quick} 2>&1 | tail -4; echo "rc=${PIPESTATUS[0]}")
done
git -C /repo checkout -- . && git -C /repo status --short | head -3
# evidence written while the change was applied describes the mutated tree: restore the committed evidence
git -C /verif checkout -- evidence/ 2>/dev/null
