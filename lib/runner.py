"""Orchestration of one property check (see ../check and DESIGN.md §3.4)."""
import fcntl
import hashlib
import json
import os
import re
import shutil
import subprocess
import sys
import time

VERIF = os.path.dirname(os.path.dirname(os.path.abspath(__file__)))
REPO = os.environ.get("MF_REPO", "/repo")
BUILD = os.path.join(VERIF, ".build")
LEAN = os.path.join(VERIF, "lean")
HARNESS = os.path.join(VERIF, "harness")
DRIVER = os.path.join(LEAN, ".lake", "build", "bin", "driver")
MFH = os.path.join(BUILD, "mfh")
ALLOWED_AXIOMS = {"propext", "Classical.choice", "Quot.sound"}
FORBIDDEN_RE = re.compile(r"\bsorry\b|\badmit\b|^axiom |native_decide|bv_decide|implemented_by|\bunsafe |maxHeartbeats 0")

GOENV = dict(os.environ, GOFLAGS="-mod=mod", GOPROXY="off", GOSUMDB="off", GOTOOLCHAIN="local",
             MF_REPO=REPO, GOMEMLIMIT="8GiB")

sys.path.insert(0, os.path.join(VERIF, "lib"))
import props as PROPS  # noqa: E402


def log(*a):
    print(*a, file=sys.stderr, flush=True)


def sh(cmd, cwd=None, env=None, timeout=3600, stdin=None, stdout=subprocess.PIPE):
    return subprocess.run(cmd, cwd=cwd, env=env, timeout=timeout, stdin=stdin, stdout=stdout,
                          stderr=subprocess.STDOUT, text=True)


class Lock:
    def __enter__(self):
        os.makedirs(BUILD, exist_ok=True)
        self.f = open(os.path.join(BUILD, "lock"), "w")
        fcntl.flock(self.f, fcntl.LOCK_EX)
        return self

    def __exit__(self, *a):
        fcntl.flock(self.f, fcntl.LOCK_UN)
        self.f.close()


# ---------------------------------------------------------------------------------------
# build steps


def build_go():
    """harness and extractor, always from /repo's current working tree, hooks on"""
    shutil.copyfile(os.path.join(REPO, "go.sum"), os.path.join(HARNESS, "go.sum"))
    if REPO != "/repo":  # a snapshot of the repository (vp run --with-repo): point the harness module at it
        sh(["go", "mod", "edit", "-replace", "github.com/cloudspannerecosystem/memefish=" + REPO], cwd=HARNESS, env=GOENV)
    r = sh(["go", "build", "-tags", "verif", "-o", MFH, "."], cwd=HARNESS, env=GOENV)
    if r.returncode != 0:
        return "go build of the harness against /repo failed:\n" + r.stdout
    return None


def run_extract():
    """regenerate lean/MF/Gen/*.lean from /repo; files are rewritten only when their content changes"""
    ext = os.path.join(VERIF, "tools", "extract")
    if not os.path.isdir(ext):
        return None, {}
    out = os.path.join(BUILD, "gen")
    shutil.rmtree(out, ignore_errors=True)
    os.makedirs(out)
    r = sh(["go", "run", ".", REPO, out], cwd=ext, env=GOENV)
    if r.returncode != 0:
        return "extractor failed:\n" + r.stdout, {}
    gen = os.path.join(LEAN, "MF", "Gen")
    os.makedirs(gen, exist_ok=True)
    info = {}
    for fn in sorted(os.listdir(out)):
        src = os.path.join(out, fn)
        if fn.endswith(".json"):
            info[fn] = json.load(open(src))
            continue
        dst = os.path.join(gen, fn)
        new = open(src).read()
        old = open(dst).read() if os.path.exists(dst) else None
        if new != old:
            open(dst, "w").write(new)
    for fn in os.listdir(gen):
        if fn.endswith(".lean") and not os.path.exists(os.path.join(out, fn)):
            os.remove(os.path.join(gen, fn))
    return None, info


def lake_build(targets):
    r = sh(["lake", "build"] + targets, cwd=LEAN, timeout=3600)
    return r.returncode == 0, r.stdout


def failing_modules(out):
    mods = []
    for m in re.finditer(r"^- (\S+)$", out, re.M):
        mods.append(m.group(1))
    return mods


def first_errors(out, n=12):
    lines = [l for l in out.splitlines() if l.startswith("error:") or ": error" in l]
    return lines[:n]


def grep_forbidden(modules):
    """sorry/admit/axiom/native_decide/... outside comments in the given modules' source closure"""
    hits = []
    root = os.path.join(LEAN, "MF")
    for dp, _, fns in os.walk(root):
        for fn in fns:
            if not fn.endswith(".lean"):
                continue
            path = os.path.join(dp, fn)
            src = open(path).read()
            src = re.sub(r"/-.*?-/", lambda m: "\n" * m.group(0).count("\n"), src, flags=re.S)
            for i, line in enumerate(src.splitlines(), 1):
                code = line.split("--")[0]
                if FORBIDDEN_RE.search(code):
                    hits.append("%s:%d: %s" % (os.path.relpath(path, VERIF), i, line.strip()))
    return hits


def audit_axioms(prop, module, theorems, extra_modules=()):
    """#print axioms for every property theorem; returns {theorem: [axioms] or None if missing}"""
    path = os.path.join(BUILD, "audit_%s.lean" % prop)
    with open(path, "w") as f:
        f.write("import %s\n" % module)
        for m in extra_modules:
            f.write("import %s\n" % m)
        for t in theorems:
            f.write("#print axioms %s\n" % t)
    r = sh(["lake", "env", "lean", path], cwd=LEAN, timeout=1200)
    res = {t: None for t in theorems}
    text = r.stdout.replace("\n  ", " ")
    for t in theorems:
        m = re.search(r"'%s' depends on axioms: \[([^\]]*)\]" % re.escape(t), text)
        if m:
            res[t] = [a.strip() for a in m.group(1).split(",") if a.strip()]
        elif re.search(r"'%s' does not depend on any axioms" % re.escape(t), text):
            res[t] = []
    return res, r.stdout


# ---------------------------------------------------------------------------------------
# change-triggered widening: when /repo's sources differ from the hashes recorded at the last `./check pin`, the hand-written
# models may have drifted, so the quick tier explores with several seeds instead of one (the seed-sampled systematic generators
# then cover their whole enumeration). It changes how much is explored, never what counts as a violation.

PINNED = os.path.join(VERIF, "lib", "pinned_sources.json")


def source_hashes():
    import hashlib
    out = {}
    names = []
    for root, dirs, files in os.walk(REPO):
        dirs[:] = sorted(d for d in dirs if not d.startswith(".") and d != "testdata")
        for fn in sorted(files):
            if fn.endswith(".go") and not fn.endswith("_test.go"):
                names.append(os.path.relpath(os.path.join(root, fn), REPO))
    for n in names:
        try:
            out[n] = hashlib.sha256(open(os.path.join(REPO, n), "rb").read()).hexdigest()
        except OSError:
            out[n] = "missing"
    return out


def changed_sources():
    try:
        pinned = json.load(open(PINNED))
    except Exception:
        return ["(no pinned_sources.json)"]
    cur = source_hashes()
    return sorted(n for n in set(pinned) | set(cur) if pinned.get(n) != cur.get(n))


# ---------------------------------------------------------------------------------------
# correspondence channels


def run_channel(prop, ch, tier, seed):
    """same request stream through the Go harness and the Lean driver; returns stats + disagreements"""
    d = os.path.join(BUILD, "run", prop)
    os.makedirs(d, exist_ok=True)
    req = os.path.join(d, ch + ".req")
    with open(req, "w") as f:
        r = subprocess.run([MFH, "gen", ch, tier, str(seed)], stdout=f, stderr=subprocess.PIPE, env=GOENV, text=True)
    if r.returncode != 0:
        return {"channel": ch, "error": "generator failed: " + r.stderr}
    go_out, lean_out = os.path.join(d, ch + ".go"), os.path.join(d, ch + ".lean")
    with open(req) as fi, open(go_out, "w") as fo:
        pg = subprocess.Popen([MFH, "serve"], stdin=fi, stdout=fo, stderr=subprocess.PIPE, env=GOENV)
    with open(req) as fi, open(lean_out, "w") as fo:
        pl = subprocess.Popen([DRIVER], stdin=fi, stdout=fo, stderr=subprocess.PIPE)
    eg = pg.communicate()[1]
    el = pl.communicate()[1]
    if pg.returncode != 0 or pl.returncode != 0:
        return {"channel": ch, "error": "serve failed: go=%s lean=%s %s %s" % (pg.returncode, pl.returncode, eg[-500:], el[-500:])}
    n = 0
    diffs = []
    hint_reqs = []
    ndiff = 0
    abn = []
    with open(req) as fr, open(go_out) as fg, open(lean_out) as fl:
        for rq in fr:
            g = fg.readline()
            l = fl.readline()
            n += 1
            if g != l:
                ndiff += 1
                if (g.startswith("ABNORMAL did not return") or g.startswith("ABNORMAL not run")) and len(abn) < 5000:
                    abn.append((n, rq, l))
                if len(diffs) < 25:
                    diffs.append({"index": n, "request": rq.strip()[:4000], "go": g.strip()[:2000], "lean": l.strip()[:2000]})
                if len(hint_reqs) < 3000 and len(rq) < 2000:
                    hint_reqs.append(rq.strip())
        extra = fg.readline() or fl.readline()
        if extra:
            ndiff += 1
            diffs.append({"index": n + 1, "request": "(length mismatch)", "go": "", "lean": ""})
    # A Go answer "ABNORMAL did not return within …" / "ABNORMAL not run: …" is the server's wall-clock guard.  On a machine that
    # stalls (memory pressure, a paused VM) the guard can fire on a request that takes microseconds, and after three overruns the
    # server stops answering.  Before such an answer counts as a disagreement the request is re-run ALONE in a fresh server: a real
    # hang hangs again (and is reported with that answer); a stall does not.  (Found by a thorough-tier run of C05 on the unchanged
    # tree while another job exhausted the machine's memory.)
    if abn:
        try:
            r2 = subprocess.run([MFH, "serve"], input="".join(rq for _, rq, _ in abn), stdout=subprocess.PIPE, stderr=subprocess.PIPE,
                                env=GOENV, text=True, timeout=1800)
            again = r2.stdout.split("\n") if r2.returncode == 0 else []
        except subprocess.TimeoutExpired:
            again = []
        for k, (idx, rq, l) in enumerate(abn):
            if k < len(again) and again[k] + "\n" == l:
                ndiff -= 1
                diffs = [d for d in diffs if d["index"] != idx]
                if rq.strip() in hint_reqs:
                    hint_reqs.remove(rq.strip())
            elif k < len(again):
                for d in diffs:
                    if d["index"] == idx:
                        d["go"] = again[k].strip()[:2000]
    return {"channel": ch, "requests": n, "disagreements": ndiff, "diffs": diffs, "hint_requests": hint_reqs}


def build_race():
    """the same harness built with the Go race detector (used by C18)"""
    r = sh(["go", "build", "-race", "-tags", "verif", "-o", MFH + "-race", "."], cwd=HARNESS, env=GOENV)
    if r.returncode != 0:
        return "go build -race of the harness failed:\n" + r.stdout
    return None


def run_pred(prop, tier, seed, extra=None, race=False):
    """the property's own predicate evaluated on the implementation (mfh prop ...): JSON on stdout"""
    cmd = [MFH + "-race" if race else MFH, "prop", prop, tier, str(seed)] + (extra or [])
    env = dict(GOENV, GORACE="halt_on_error=0 exitcode=0") if race else GOENV
    r = subprocess.run(cmd, stdout=subprocess.PIPE, stderr=subprocess.PIPE, env=env, text=True, timeout=7200)
    if r.returncode != 0:
        return {"error": "mfh prop %s failed (%d): %s" % (prop, r.returncode, (r.stderr or r.stdout)[-2000:])}
    try:
        res = json.loads(r.stdout.strip("\n").split("\n")[-1])
    except Exception as e:  # noqa
        return {"error": "unparsable predicate output: %s: %s" % (e, r.stdout[-500:])}
    if race:
        res.setdefault("hist", {})["race_detector"] = 1
        if "WARNING: DATA RACE" in r.stderr:
            i = r.stderr.index("WARNING: DATA RACE")
            res.setdefault("failures", []).append({"key": "race:" + hashlib.sha1(r.stderr[i:i + 400].encode()).hexdigest()[:10], "input": "", "text": "",
                                                   "entry": "concurrent Parse*/SQL()/Walk", "detail": "the Go race detector reports: " + r.stderr[i:i + 1800]})
    return res


# ---------------------------------------------------------------------------------------
# known findings


def load_known():
    known, fixed = [], []
    p = os.path.join(VERIF, "known-findings.txt")
    if os.path.exists(p):
        for line in open(p):
            line = line.strip()
            if not line or line.startswith("#"):
                continue
            m = re.match(r"known: property=(C\d+) key=(\S+) (.*)", line)
            if m:
                known.append({"property": m.group(1), "key": m.group(2), "what": m.group(3)})
            elif line.startswith("fixed:"):
                fixed.append(line)
    return known, fixed


# ---------------------------------------------------------------------------------------


def write_replay(prop, name, obj):
    d = os.path.join(VERIF, "replays", prop)
    os.makedirs(d, exist_ok=True)
    p = os.path.join(d, name + ".json")
    with open(p, "w") as f:
        json.dump(obj, f, indent=1, sort_keys=True)
    return os.path.relpath(p, VERIF)


def write_evidence(prop, ev):
    d = os.path.join(VERIF, "evidence")
    os.makedirs(d, exist_ok=True)
    with open(os.path.join(d, prop + ".json"), "w") as f:
        json.dump(ev, f, indent=1, sort_keys=True)


def setup():
    t0 = time.time()
    with Lock():
        err = build_go()
        if err:
            log(err)
            return 2
        err, _ = run_extract()
        if err:
            log(err)
            return 2
        mods = ["MF", "driver"]
        for cfg in PROPS.PROPS.values():
            for m in [cfg["module"]] + cfg.get("module_extra", []):
                if m not in mods:
                    mods.append(m)
        ok, out = lake_build(mods)
        log(out[-3000:])
        if not ok:
            return 2
    log("setup done in %.1fs" % (time.time() - t0))
    return 0


def check(prop, tier, seed):
    t0 = time.time()
    cfg = PROPS.PROPS[prop]
    known, _fixed = load_known()
    known = [k for k in known if k["property"] == prop]
    broken = []       # obligations that no longer check: dicts {kind, name, detail}
    violations = []   # concrete failing inputs: dicts {key, ...}
    obligations = 0
    discharged = 0
    notes = {}

    with Lock():
        err = build_go()
        if err:
            log(err)
            print("BUILD-FAILED property=%s (the tree under test does not compile with -tags verif)" % prop)
            return 2
        if cfg.get("race"):
            err = build_race()
            if err:
                log(err)
                print("BUILD-FAILED property=%s (race build)" % prop)
                return 2
        err, geninfo = run_extract()
        if err:
            broken.append({"kind": "translator", "name": "tools/extract", "detail": err[-1500:]})
        module = cfg["module"]
        mods_all = [module] + cfg.get("module_extra", [])
        ok, out = lake_build(mods_all + ["driver"])
        lean_ok = ok
        built = list(mods_all)
        if not ok:
            # which property modules still build? (a failed instantiation in one module must not hide the theorems of the others)
            built = []
            for m in mods_all:
                ok_m, out_m = lake_build([m])
                if ok_m:
                    built.append(m)
                else:
                    broken.append({"kind": "lean-build", "name": ",".join(failing_modules(out_m)) or m,
                                   "detail": "\n".join(first_errors(out_m))})
            # the driver may still be buildable (model unchanged, only instantiations failed)
            ok2, out2 = lake_build(["driver"])
            if not ok2:
                broken.append({"kind": "lean-build", "name": "driver", "detail": "\n".join(first_errors(out2))})
        theorems = cfg.get("theorems", [])
        obligations += len(theorems)
        ax = {}
        if built:
            ax, _raw = audit_axioms(prop, built[0], theorems, built[1:])
        for t in theorems:
            a = ax.get(t)
            if a is None:
                broken.append({"kind": "theorem", "name": t, "detail": "not checked: not found by #print axioms" + ("" if lean_ok else " (its module no longer builds)")})
            elif not set(a) <= ALLOWED_AXIOMS:
                broken.append({"kind": "axioms", "name": t, "detail": "depends on %s" % a})
            else:
                discharged += 1
        bad = grep_forbidden(None)
        obligations += 1
        if bad:
            broken.append({"kind": "forbidden-construct", "name": "grep", "detail": "\n".join(bad[:10])})
        else:
            discharged += 1
        if tier == "thorough" and lean_ok:
            obligations += 1
            r = sh(["lake", "env", "leanchecker", module], cwd=LEAN, timeout=3600)
            notes["leanchecker"] = r.stdout[-300:]
            if r.returncode != 0:
                broken.append({"kind": "leanchecker", "name": module, "detail": r.stdout[-1000:]})
            else:
                discharged += 1

    changed = changed_sources()
    seeds = [seed]
    if changed and tier == "quick":
        seeds = [seed, seed + 1, seed + 2, seed + 3]
        notes["widened"] = "sources differ from lib/pinned_sources.json (%s): quick tier explored with seeds %s" % (", ".join(changed[:8]), seeds)

    # correspondence channels (outside the build lock)
    channels = []
    if os.path.exists(DRIVER):
        for ch in cfg.get("channels", []):
            obligations += 1
            st = run_channel(prop, ch, tier, seed)
            for sd in seeds[1:]:
                if st.get("error") or st["disagreements"]:
                    break
                st2 = run_channel(prop, ch, tier, sd)
                if st2.get("error"):
                    st = st2
                else:
                    st2["requests"] += st["requests"]
                    st = st2
            channels.append(st)
            if st.get("error"):
                broken.append({"kind": "channel", "name": ch, "detail": st["error"]})
            elif st["disagreements"] and ch in cfg.get("channel_is_property", []):
                # the property IS agreement with the reference on this channel: a disagreeing request is a failing input
                for d in st["diffs"][:5]:
                    violations.append({"key": "request:" + d["request"][:200], "input": d["request"].split(" ")[-1], "entry": ch,
                                       "detail": "implementation: %s ; reference: %s" % (d["go"][-600:], d["lean"][-600:])})
                broken.append({"kind": "channel", "name": ch, "detail": "%d of %d requests differ" % (st["disagreements"], st["requests"])})
            elif st["disagreements"] and ch in cfg.get("channel_accepts", {}) and any(
                    d["lean"].startswith("OK") and d["go"].startswith("ERR") for d in st["diffs"]):
                # the model side of this channel is PROVED to accept only sentences of the documented grammar (theorem named in
                # the registry): an input the model accepts and the implementation rejects is a documented form that is rejected
                for d in [d for d in st["diffs"] if d["lean"].startswith("OK") and d["go"].startswith("ERR")][:5]:
                    hx = d["request"].split(" ")[-1]
                    try:
                        txt = bytes.fromhex(hx).decode("utf-8", "replace")
                    except ValueError:
                        txt = hx
                    violations.append({"key": "accepts:%s:%s" % (ch, hx[:200]), "input": hx, "text": txt, "entry": ch,
                                       "detail": "the verified model accepts this input, hence (%s) it is a sentence of the documented grammar; the implementation rejects it: %s" % (
                                           cfg["channel_accepts"][ch], d["go"][:300])})
                broken.append({"kind": "channel", "name": ch, "detail": "%d of %d requests differ" % (st["disagreements"], st["requests"]),
                               "diffs": st["diffs"], "hint_requests": st.get("hint_requests", [])})
            elif st["disagreements"]:
                broken.append({"kind": "channel", "name": ch,
                               "detail": "%d of %d requests differ; first: %s" % (st["disagreements"], st["requests"], json.dumps(st["diffs"][0])[:1500]),
                               "diffs": st["diffs"], "hint_requests": st.get("hint_requests", [])})
            else:
                discharged += 1

    # the property's own predicate on the implementation (always run: it is the search of §3.4 step 4)
    pred = None
    if cfg.get("pred"):
        obligations += 1
        extra = []
        # inputs on which a channel disagreed are searched first
        hints = [d["request"] for b in broken if b.get("diffs") for d in b["diffs"]]
        hints += [h for b in broken for h in b.get("hint_requests", []) if h not in set(hints)]
        if hints:
            hp = os.path.join(BUILD, "run", prop, "hints.req")
            open(hp, "w").write("\n".join(hints) + "\n")
            extra = ["--hints", hp]
        pred = run_pred(prop, tier, seed, extra, race=bool(cfg.get("race")))
        def unlisted_failures(pr):
            return [fl for fl in pr.get("failures", []) if not any(k["key"] == fl.get("key") for k in known)]
        for sd in seeds[1:]:
            if pred.get("error") or unlisted_failures(pred):
                break
            p2 = run_pred(prop, tier, sd, extra, race=bool(cfg.get("race")))
            if not p2.get("error"):
                for k in ("evaluations", "distinct_nontrivial"):
                    if isinstance(p2.get(k), int) and isinstance(pred.get(k), int):
                        p2[k] += pred[k]
                # keep the listed findings seen so far (they are printed, not counted)
                seen = {fl.get("key") for fl in p2.get("failures", [])}
                p2["failures"] = p2.get("failures", []) + [fl for fl in pred.get("failures", []) if fl.get("key") not in seen]
            pred = p2
        if pred.get("error"):
            broken.append({"kind": "predicate", "name": "mfh prop " + prop, "detail": pred["error"]})
        else:
            for fl in pred.get("failures", []):
                violations.append(fl)
            # listed known findings do not count against the obligation
            if all(any(k["key"] == fl.get("key") for k in known) for fl in pred.get("failures", [])):
                discharged += 1

    # table-level facts reported by the translator for this property (each a separate obligation)
    for hook in cfg.get("extra", []):
        res = hook(geninfo if 'geninfo' in dir() else {}, tier, seed)
        obligations += res.get("obligations", 0)
        discharged += res.get("discharged", 0)
        broken.extend(res.get("broken", []))
        violations.extend(res.get("violations", []))
        notes.update(res.get("notes", {}))

    # verdict
    rc = 0
    lines = []
    unlisted = []
    for v in violations:
        k = next((k for k in known if k["key"] == v.get("key")), None)
        if k:
            lines.append("KNOWN-FINDING: property=%s %s" % (prop, k["what"]))
        else:
            unlisted.append(v)
    # known findings are printed even when the generator did not hit them this run
    for k in known:
        l = "KNOWN-FINDING: property=%s %s" % (prop, k["what"])
        if l not in lines:
            lines.append(l)
    seen = set()
    for i, v in enumerate(unlisted[:5]):
        key = v.get("key", str(i))
        if key in seen:
            continue
        seen.add(key)
        name = "viol_" + hashlib.sha1(json.dumps(v, sort_keys=True).encode()).hexdigest()[:10]
        rp = write_replay(prop, name, {"property": prop, "kind": "failing-input", "violation": v,
                                       "broken_obligations": [{k2: b[k2] for k2 in ("kind", "name", "detail")} for b in broken]})
        lines.append("VIOLATION property=%s replay=%s" % (prop, rp))
        rc = 1
    if broken and not unlisted:
        # listed (known) broken obligations do not alarm
        kb = [b for b in broken if not any(k["key"] == "obligation:" + b["name"] for k in known)]
        if kb:
            name = "broken_" + hashlib.sha1(json.dumps([b["name"] for b in kb]).encode()).hexdigest()[:10]
            rp = write_replay(prop, name, {"property": prop, "kind": "broken-obligation",
                                           "broken_obligations": [{k2: b.get(k2) for k2 in ("kind", "name", "detail")} for b in kb],
                                           "searched": (pred or {}).get("evaluations", 0)})
            lines.append("VIOLATION property=%s replay=%s no-failing-input-found" % (prop, rp))
            rc = 1
    for l in lines:
        print(l)

    cov = {
        "obligations": obligations,
        "discharged": discharged,
        "checker_cmd": "cd lean && lake build %s && lake env lean <#print axioms of each property theorem>%s" % (
            cfg["module"], " && lake env leanchecker " + cfg["module"] if tier == "thorough" else ""),
        "trusted_base": cfg.get("trusted_base", []) + [
            "Lean 4.33.0 kernel; axioms allowed: propext, Classical.choice, Quot.sound (audited per theorem on this run)",
            "hand-written Lean model tied to /repo by the correspondence channels listed under 'channels' (differential testing, not proof)",
            "Go harness /verif/harness and Lean driver /verif/lean/Driver.lean (compiled by the Lean compiler)",
        ],
        "theorems": {t: ax.get(t) for t in cfg.get("theorems", [])},
        "channels": [{k: v for k, v in c.items() if k != "diffs"} for c in channels],
        "broken_obligations": [{k2: b.get(k2) for k2 in ("kind", "name", "detail")} for b in broken],
        "notes": notes,
    }
    if pred and not pred.get("error"):
        cov["evaluations"] = pred.get("evaluations", 0)
        cov["distinct_nontrivial"] = pred.get("distinct_nontrivial", 0)
        cov["rule"] = pred.get("rule", "")
        cov["samples"] = pred.get("samples", [])[:8]
        cov["input_distribution"] = pred.get("hist", {})
    else:
        cov["samples"] = [c["diffs"][0] for c in channels if c.get("diffs")][:3] or [{"theorem": t} for t in cfg.get("theorems", [])[:3]]
    ev = {
        "property_id": prop,
        "tier": tier,
        "seed": seed,
        "level": cfg.get("level", "proof"),
        "coverage": cov,
        "assumptions": cfg.get("assumptions", []),
        "wall_s": round(time.time() - t0, 2),
        "violations": len(unlisted) + (1 if (broken and not unlisted and rc) else 0),
    }
    write_evidence(prop, ev)
    log("%s %s: obligations %d/%d, channels %s, predicate evals %s, rc=%d, %.1fs" % (
        prop, tier, discharged, obligations,
        [(c.get("channel"), c.get("requests"), c.get("disagreements")) for c in channels],
        (pred or {}).get("evaluations"), rc, time.time() - t0))
    return rc


def replay(prop, path):
    obj = json.load(open(path))
    v = obj.get("violation")
    if not v:
        print(json.dumps(obj, indent=1))
        print("(no concrete input in this replay: the broken obligations are listed above)")
        return 1
    with Lock():
        err = build_go()
        if err:
            log(err)
            return 2
    r = subprocess.run([MFH, "prop", prop, "replay", "0", "--input", json.dumps(v)], stdout=subprocess.PIPE,
                       stderr=subprocess.STDOUT, env=GOENV, text=True)
    print(r.stdout)
    try:
        res = json.loads(r.stdout.strip("\n").split("\n")[-1])
        return 1 if res.get("failures") else 0
    except Exception:
        return 2


def main(argv):
    if not argv:
        print(__doc__)
        return 2
    if argv[0] == "setup":
        return setup()
    if argv[0] == "pin":
        json.dump(source_hashes(), open(PINNED, "w"), indent=1, sort_keys=True)
        print("pinned %d source files of %s" % (len(source_hashes()), REPO))
        return 0
    prop = argv[0]
    if prop not in PROPS.PROPS:
        print("unknown property", prop)
        return 2
    if len(argv) >= 3 and argv[1] == "--replay":
        return replay(prop, argv[2])
    tier = argv[1] if len(argv) > 1 else os.environ.get("VERIF_TIER", "quick")
    if tier not in ("quick", "thorough"):
        tier = "quick"
    seed = int(os.environ.get("VERIF_SEED", "1") or "1")
    return check(prop, tier, seed)
