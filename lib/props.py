"""Per-property configuration: which Lean module carries the property theorems, which theorems
are the obligations (audited by `#print axioms`), which correspondence channels tie the model to
the code, and whether the harness has an implementation-level predicate (`mfh prop Cxx`)."""

M0_TRUST = [
    "hand-written model MF/Model/{Basic,Char,Utf8,Token,Lexer,File}.lean of lexer.go, char/*.go, token/{token,keywords,file}.go",
]

PROPS = {
    "C13": {
        "module": "MF.Props.C13",
        "theorems": ["MF.Props.C13.tiles", "MF.Props.C13.tokens_ok", "MF.Props.C13.step_frame",
                     "MF.Props.C13.eof_stable", "MF.Props.C13.trivia_ok"],
        "channels": ["LEX"],
        "pred": True,
        "level": "proof",
        "trusted_base": M0_TRUST,
        "assumptions": ["the LEX channel explores finitely many inputs; outside them the theorems are about the model only"],
    },
    "C20": {
        "module": "MF.Props.C20",
        "theorems": ["MF.Props.C20.resolvePos_spec", "MF.Props.C20.line_is_newline_count",
                     "MF.Props.C20.position_total", "MF.Props.C20.position_panics_beyond",
                     "MF.Props.C20.error_prefix"],
        "channels": ["POS"],
        "pred": True,
        "level": "proof",
        "trusted_base": ["hand-written model MF/Model/File.lean of token/file.go and error.go (Error.Error); "
                         "specification MF/Spec/LineCol.lean (scan from the start, a newline byte starts a new line)"],
        "assumptions": ["the text of the multi-line excerpt is validated by the POS channel and the implementation predicate, not proved",
                        "fmt's %3d / %d formatting is modelled (pad3, decimal) and validated by the POS channel"],
    },
    "C12": {
        "module": "MF.Props.C12",
        "theorems": ["MF.Props.C12.fails_iff_lexical_error", "MF.Props.C12.pieces_ok_partial", "MF.Props.C12.never_crashes"],
        "channels": ["SPLIT", "LEX"],
        "pred": True,
        "level": "proof",
        "trusted_base": M0_TRUST + ["hand-written model MF/Model/Split.lean of split.go"],
        "assumptions": ["the token-level clauses (no ';' inside a piece, exactly one ';' plus whitespace between pieces, every token and comment in exactly one piece) are evaluated on the implementation and tied by the SPLIT channel; not proved in Lean (partial)"],
    },
    "C03": {
        "module": "MF.Props.C03",
        "theorems": ["MF.Props.C03.lexer_never_panics", "MF.Props.C03.lexer_error_in_range", "MF.Props.C03.recovery_lexer_total",
                     "MF.Props.C03.cursor_invariant", "MF.Props.C03.lexer_terminates", "MF.Props.C03.splitter_total"],
        "channels": ["LEX", "SPLIT", "POS"],
        "pred": True,
        "level": "proof",
        "trusted_base": M0_TRUST + ["hand-written model MF/Model/Split.lean of split.go"],
        "assumptions": ["termination and absence of runtime panics in parser.go outside the modelled core are not proved: every Parse* call of the predicate runs under recover and a 5 s deadline (partial)"],
    },
}
