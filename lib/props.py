"""Per-property configuration: which Lean module carries the property theorems, which theorems
are the obligations (audited by `#print axioms`), which correspondence channels tie the model to
the code, and whether the harness has an implementation-level predicate (`mfh prop Cxx`)."""

M0_TRUST = [
    "hand-written model MF/Model/{Basic,Char,Utf8,Token,Lexer,File}.lean of lexer.go, char/*.go, token/{token,keywords,file}.go",
]

PROPS = {
    "C13": {
        "module": "MF.Props.C13",
        "theorems": ["MF.Props.C13.tiles", "MF.Props.C13.tokens_ok", "MF.Props.C13.step_frame",
                     "MF.Props.C13.eof_stable", "MF.Props.C13.trivia_ok"],
        "channels": ["LEX"],
        "pred": True,
        "level": "proof",
        "trusted_base": M0_TRUST,
        "assumptions": ["the LEX channel explores finitely many inputs; outside them the theorems are about the model only"],
    },
}
