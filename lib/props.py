"""Per-property configuration: which Lean module carries the property theorems, which theorems
are the obligations (audited by `#print axioms`), which correspondence channels tie the model to
the code, and whether the harness has an implementation-level predicate (`mfh prop Cxx`)."""

M0_TRUST = [
    "hand-written model MF/Model/{Basic,Char,Utf8,Token,Lexer,File}.lean of lexer.go, char/*.go, token/{token,keywords,file}.go",
]

PROPS = {
    "C13": {
        "module": "MF.Props.C13",
        "theorems": ["MF.Props.C13.tiles", "MF.Props.C13.tokens_ok", "MF.Props.C13.step_frame",
                     "MF.Props.C13.eof_stable", "MF.Props.C13.trivia_ok"],
        "channels": ["LEX"],
        "pred": True,
        "level": "proof",
        "trusted_base": M0_TRUST,
        "assumptions": ["the LEX channel explores finitely many inputs; outside them the theorems are about the model only"],
    },
    "C20": {
        "module": "MF.Props.C20",
        "theorems": ["MF.Props.C20.resolvePos_spec", "MF.Props.C20.line_is_newline_count",
                     "MF.Props.C20.position_total", "MF.Props.C20.position_panics_beyond",
                     "MF.Props.C20.error_prefix"],
        "channels": ["POS"],
        "pred": True,
        "level": "proof",
        "trusted_base": ["hand-written model MF/Model/File.lean of token/file.go and error.go (Error.Error); "
                         "specification MF/Spec/LineCol.lean (scan from the start, a newline byte starts a new line)"],
        "assumptions": ["the text of the multi-line excerpt is validated by the POS channel and the implementation predicate, not proved",
                        "fmt's %3d / %d formatting is modelled (pad3, decimal) and validated by the POS channel"],
    },
    "C12": {
        "module": "MF.Props.C12Tokens",
        "theorems": ["MF.Props.C12.fails_iff_lexical_error", "MF.Props.C12.pieces_ok_partial", "MF.Props.C12.never_crashes",
                     "MF.Props.C12.succeeds_only_if_lexes", "MF.Props.C12.pieces_from_tokens", "MF.Props.C12.no_semicolon_inside",
                     "MF.Props.C12.tokens_in_one_piece", "MF.Props.C12.comments_in_one_piece", "MF.Props.C12.between_pieces",
                     "MF.Props.C12.after_last_piece", "MF.Props.C12.semicolon_ends_piece", "MF.Props.C12.first_piece_at_zero"],
        "channels": ["SPLIT", "LEX"],
        "pred": True,
        "level": "proof",
        "trusted_base": M0_TRUST + ["hand-written model MF/Model/Split.lean of split.go"],
        "assumptions": ["all clauses of C12 are proved for the model; the model is tied to split.go and lexer.go by the SPLIT and LEX channels on the explored inputs"],
    },
    "C03": {
        "module": "MF.Props.C03",
        "theorems": ["MF.Props.C03.lexer_never_panics", "MF.Props.C03.lexer_error_in_range", "MF.Props.C03.recovery_lexer_total",
                     "MF.Props.C03.cursor_invariant", "MF.Props.C03.lexer_terminates", "MF.Props.C03.splitter_total"],
        "channels": ["LEX", "SPLIT", "POS"],
        "pred": True,
        "level": "proof",
        "trusted_base": M0_TRUST + ["hand-written model MF/Model/Split.lean of split.go"],
        "assumptions": ["termination and absence of runtime panics in parser.go outside the modelled core are not proved: every Parse* call of the predicate runs under recover and a 5 s deadline (partial)"],
    },
    "C15": {
        "module": "MF.Props.C15",
        "theorems": ["MF.Props.C15.quoteBytes_lex", "MF.Props.C15.quoteString_lex", "MF.Props.C15.quoteIdent_lex",
                     "MF.Props.C15.quoteIdent_unquoted_iff"],
        "channels": ["QUOTE", "LEX"],
        "pred": True,
        "level": "proof",
        "trusted_base": M0_TRUST + ["hand-written model MF/Model/Quote.lean of token/quote.go; unicode.IsPrint is a universally quantified parameter of every theorem"],
        "assumptions": ["the QUOTE channel ships Go's unicode.IsPrint verdict for the runes of each request; fmt's %02x/%04x/%08x are modelled (hex2/hex4/hex8) and validated by the channel"],
    },
    "C14": {
        "module": "MF.Props.C14",
        "theorems": ["MF.Props.C14.keywords_eq", "MF.Props.C14.charclass_eq"],
        "channels": ["SPEC", "LEX"],
        "channel_is_property": ["SPEC"],
        "pred": False,
        "level": "proof",
        "trusted_base": M0_TRUST + ["reference lexer MF/Spec/Lexical.lean, written from the GoogleSQL lexical-structure documentation (decisions P1-P4 in its header)",
                                    "tools/extract (keywords.go, char/is.go) regenerated on every run"],
        "assumptions": ["the refinement theorem model ⊑ Spec.Lexical is being proved separately; until it is listed under 'theorems' the tie between the lexer and the reference is the SPEC channel (Go token stream vs reference, every explored input)"],
    },
    "C19": {
        "module": "MF.Props.C19",
        "theorems": ["MF.Props.C19.doc_readable", "MF.Props.C19.pos_go_eq_doc", "MF.Props.C19.walk_go_eq_fields",
                     "MF.Props.C19.all_kinds_covered"],
        "channels": ["TREE"],
        "pred": True,
        "level": "proof",
        "trusted_base": ["tools/extract: ast/ast.go (structs, `// pos =`/`// end =` lines via its own POS parser), ast/pos.go, ast/walk_internal.go read into Lean tables on every run; validated by the TREE channel (tables + interpreters reproduce Go's Pos()/End()/Walk on every explored node)",
                         "MF/Model/PosLang.lean: transcription of tools/util/poslang (interpreter, emitter) and of ast/pos_util.go"],
        "assumptions": ["the byte-for-byte clause and the EvalPos-vs-compiled clause are finite computations done by the harness on this run (generators executed from the working tree; every node of every explored input)"],
    },
}
