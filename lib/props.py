"""Per-property configuration: which Lean module carries the property theorems, which theorems
are the obligations (audited by `#print axioms`), which correspondence channels tie the model to
the code, and whether the harness has an implementation-level predicate (`mfh prop Cxx`)."""

M0_TRUST = [
    "hand-written model MF/Model/{Basic,Char,Utf8,Token,Lexer,File}.lean of lexer.go, char/*.go, token/{token,keywords,file}.go",
]

PROPS = {
    "C13": {
        "module": "MF.Props.C13",
        "theorems": ["MF.Props.C13.tiles", "MF.Props.C13.tokens_ok", "MF.Props.C13.step_frame",
                     "MF.Props.C13.eof_stable", "MF.Props.C13.trivia_ok"],
        "channels": ["LEX"],
        "pred": True,
        "level": "proof",
        "trusted_base": M0_TRUST,
        "assumptions": ["the LEX channel explores finitely many inputs; outside them the theorems are about the model only"],
    },
    "C20": {
        "module": "MF.Props.C20",
        "theorems": ["MF.Props.C20.resolvePos_spec", "MF.Props.C20.line_is_newline_count",
                     "MF.Props.C20.position_total", "MF.Props.C20.position_panics_beyond",
                     "MF.Props.C20.error_prefix"],
        "channels": ["POS"],
        "pred": True,
        "level": "proof",
        "trusted_base": ["hand-written model MF/Model/File.lean of token/file.go and error.go (Error.Error); "
                         "specification MF/Spec/LineCol.lean (scan from the start, a newline byte starts a new line)"],
        "assumptions": ["the text of the multi-line excerpt is validated by the POS channel and the implementation predicate, not proved",
                        "fmt's %3d / %d formatting is modelled (pad3, decimal) and validated by the POS channel"],
    },
    "C12": {
        "module": "MF.Props.C12Tokens",
        "theorems": ["MF.Props.C12.fails_iff_lexical_error", "MF.Props.C12.pieces_ok_partial", "MF.Props.C12.never_crashes",
                     "MF.Props.C12.succeeds_only_if_lexes", "MF.Props.C12.pieces_from_tokens", "MF.Props.C12.no_semicolon_inside",
                     "MF.Props.C12.tokens_in_one_piece", "MF.Props.C12.comments_in_one_piece", "MF.Props.C12.between_pieces",
                     "MF.Props.C12.after_last_piece", "MF.Props.C12.semicolon_ends_piece", "MF.Props.C12.first_piece_at_zero"],
        "channels": ["SPLIT", "LEX"],
        "pred": True,
        "level": "proof",
        "trusted_base": M0_TRUST + ["hand-written model MF/Model/Split.lean of split.go"],
        "assumptions": ["all clauses of C12 are proved for the model; the model is tied to split.go and lexer.go by the SPLIT and LEX channels on the explored inputs"],
    },
    "C03": {
        "module": "MF.Props.C03",
        "theorems": ["MF.Props.C03.lexer_never_panics", "MF.Props.C03.lexer_error_in_range", "MF.Props.C03.recovery_lexer_total",
                     "MF.Props.C03.cursor_invariant", "MF.Props.C03.lexer_terminates", "MF.Props.C03.splitter_total"],
        "channels": ["LEX", "SPLIT", "POS"],
        "pred": True,
        "level": "proof",
        "trusted_base": M0_TRUST + ["hand-written model MF/Model/Split.lean of split.go"],
        "assumptions": ["termination and absence of runtime panics in parser.go outside the modelled core are not proved: every Parse* call of the predicate runs under recover and a 5 s deadline (partial)"],
    },
}
