"""Per-property configuration: which Lean module carries the property theorems, which theorems
are the obligations (audited by `#print axioms`), which correspondence channels tie the model to
the code, and whether the harness has an implementation-level predicate (`mfh prop Cxx`)."""

M0_TRUST = [
    "hand-written model MF/Model/{Basic,Char,Utf8,Token,Lexer,File}.lean of lexer.go, char/*.go, token/{token,keywords,file}.go",
]

PROPS = {
    "C13": {
        "module": "MF.Props.C13",
        "theorems": ["MF.Props.C13.tiles", "MF.Props.C13.tokens_ok", "MF.Props.C13.step_frame",
                     "MF.Props.C13.eof_stable", "MF.Props.C13.trivia_ok"],
        "channels": ["LEX"],
        "pred": True,
        "level": "proof",
        "trusted_base": M0_TRUST,
        "assumptions": ["the LEX channel explores finitely many inputs; outside them the theorems are about the model only"],
    },
    "C20": {
        "module": "MF.Props.C20",
        "module_extra": ["MF.Props.C20Excerpt"],
        "theorems": ["MF.Props.C20.resolvePos_spec", "MF.Props.C20.line_is_newline_count",
                     "MF.Props.C20.position_total", "MF.Props.C20.position_panics_beyond",
                     "MF.Props.C20.error_prefix",
                     "MF.Props.C20.lines_join", "MF.Props.C20.lines_no_newline", "MF.Props.C20.lineBuffer_eq", "MF.Props.C20.position_source_single",
                     "MF.Props.C20.position_source_multi", "MF.Props.C20.line_mono", "MF.Props.C20.line_in_range"],
        "channels": ["POS"],
        "pred": True,
        "level": "proof",
        "trusted_base": ["hand-written model MF/Model/File.lean of token/file.go and error.go (Error.Error); "
                         "specification MF/Spec/LineCol.lean (scan from the start, a newline byte starts a new line)"],
        "assumptions": ["the excerpt text is proved too: it quotes exactly the lines from pos's line to end's line, each verbatim (position_source_single / position_source_multi)",
                        "fmt's %3d / %d formatting is modelled (pad3, decimal) and validated by the POS channel"],
    },
    "C12": {
        "module": "MF.Props.C12Tokens",
        "theorems": ["MF.Props.C12.fails_iff_lexical_error", "MF.Props.C12.pieces_ok_partial", "MF.Props.C12.never_crashes",
                     "MF.Props.C12.succeeds_only_if_lexes", "MF.Props.C12.pieces_from_tokens", "MF.Props.C12.no_semicolon_inside",
                     "MF.Props.C12.tokens_in_one_piece", "MF.Props.C12.comments_in_one_piece", "MF.Props.C12.between_pieces",
                     "MF.Props.C12.after_last_piece", "MF.Props.C12.semicolon_ends_piece", "MF.Props.C12.first_piece_at_zero"],
        "channels": ["SPLIT", "LEX"],
        "pred": True,
        "level": "proof",
        "trusted_base": M0_TRUST + ["hand-written model MF/Model/Split.lean of split.go"],
        "assumptions": ["all clauses of C12 are proved for the model; the model is tied to split.go and lexer.go by the SPLIT and LEX channels on the explored inputs"],
    },
    "C03": {
        "module": "MF.Props.C03",
        "module_extra": ["MF.Props.C03Parser", "MF.Props.C03Types", "MF.Props.C03Expr", "MF.Props.C03Stmt"],
        "theorems": ["MF.Props.C03.lexer_never_panics", "MF.Props.C03.lexer_error_in_range", "MF.Props.C03.recovery_lexer_total",
                     "MF.Props.C03.cursor_invariant", "MF.Props.C03.lexer_terminates", "MF.Props.C03.splitter_total",
                     "MF.Props.C03.facts_clean", "MF.Props.C03.entry_points", "MF.Props.C03.protected_functions", "MF.Props.C03.handlers_quiet",
                     "MF.Props.C03.no_escape_static", "MF.Props.C03.no_escape", "MF.Props.C03.entry_shapes_static", "MF.Props.C03.entry_no_escape",
                     "MF.Props.C03.parseType_terminates", "MF.Props.C03.parseType_terminates_bound", "MF.Props.C03.fuel_bound_linear",
                     "MF.Props.C03.production_terminates", "MF.Props.C03.parseType_fuel_stable", "MF.Props.C03.parseType_decides",
                     "MF.Props.C03.reject_fuel_irrelevant", "MF.Props.C03.typeRun_total", "MF.Props.C03.typeRun_answers",
                     "MF.Props.C03.rejA_facts", "MF.Props.C03.rejS_facts", "MF.Props.C03.rejG_facts",
                     "MF.Props.C03.parseExpr_terminates", "MF.Props.C03.parseExpr_terminates_bound", "MF.Props.C03.parseExprTop_terminates",
                     "MF.Props.C03.parseExprTop_terminates_bound", "MF.Props.C03.exprFuel_linear", "MF.Props.C03.parseExpr_terminates_driver",
                     "MF.Props.C03.parseExpr_fuel_stable", "MF.Props.C03.parseExprTop_fuel_stable", "MF.Props.C03.parseExprTop_fuel_stable_driver",
                     "MF.Props.C03.expr_answer_fuel_irrelevant", "MF.Props.C03.expr_reject_fuel_irrelevant",
                     "MF.Props.C03.parseExpr_decides_any", "MF.Props.C03.parseExpr_decides", "MF.Props.C03.parseExpr_decides_lexed",
                     "MF.Props.C03.parseExprTop_decides", "MF.Props.C03.ok_rest_suffix",
                     "MF.Props.C03.exprRun_total", "MF.Props.C03.exprRunRT_total", "MF.Props.C03.exprRun_answers",
                     "MF.Props.C03.rejP_facts", "MF.Props.C03.paren4_tight", "MF.Props.C03.rej_facts", "MF.Props.C03.crash_possible",
                     "MF.Props.C03.parsePExpr_terminates", "MF.Props.C03.parsePTop_terminates", "MF.Props.C03.parsePTop_terminates_bound",
                     "MF.Props.C03.parsePTop_terminates_driver", "MF.Props.C03.parsePExpr_fuel_stable", "MF.Props.C03.parsePTop_fuel_stable",
                     "MF.Props.C03.parsePTop_fuel_stable_driver", "MF.Props.C03.parsePTop_decides",
                     "MF.Props.C03.exprPosRun_total", "MF.Props.C03.exprPosRunC_total", "MF.Props.C03.rejP_pos_facts",
                     "MF.Props.C03.parseQuery_terminates", "MF.Props.C03.parseQuery_terminates_bound", "MF.Props.C03.parseQueryStatement_terminates",
                     "MF.Props.C03.parseQueryStatement_terminates_bound", "MF.Props.C03.query_fuel_linear", "MF.Props.C03.parseQuery_terminates_driver",
                     "MF.Props.C03.parseQuery_fuel_stable", "MF.Props.C03.parseQueryStatement_fuel_stable", "MF.Props.C03.parseQuery_fuel_stable_driver",
                     "MF.Props.C03.parseQuery_decides", "MF.Props.C03.queryRun_total",
                     "MF.Props.C03.dml_fuel_linear", "MF.Props.C03.dml_terminates", "MF.Props.C03.dmlP_terminates", "MF.Props.C03.dmlP_terminates_driver",
                     "MF.Props.C03.dml_fuel_stable", "MF.Props.C03.dmlP_fuel_stable", "MF.Props.C03.dmlP_fuel_stable_driver", "MF.Props.C03.dmlRun_total",
                     "MF.Props.C03.rejQ_facts", "MF.Props.C03.rejD_facts", "MF.Props.C03.rejV_facts"],
        "channels": ["LEX", "SPLIT", "POS", "TYPE", "EXPR", "QUERY", "DML"],
        "pred": True,
        "level": "proof",
        "trusted_base": M0_TRUST + ["hand-written model MF/Model/Split.lean of split.go", "translator tools/extract/parserfacts.go (go/ast, purely syntactic): the call graph, defer/recover shapes, Bad* literal sites, p.errors assignments, <eof> tests, token-field uses, package variables of parser.go, parse_helpers.go, lexer.go, split.go are REGENERATED from /repo on every run (lean/MF/Gen/ParserFacts.lean) and the static conditions re-decided by the kernel", "abstraction MF/Model/Recovery.lean: only *Error panics are modelled (run-time panics are explored by the predicate under recover), calls leaving the four files neither raise *Error nor call back, a Part without recognised statement structure is read flow-insensitively (any order of its events)"],
        "assumptions": ["proved: lexer and splitter never panic and terminate (byte-level model); no *Error panic escapes any Parse* entry point (no_escape over the regenerated call graph: every raise site reachable from an entry point lies under a deferred recover whose handler cannot raise)",
                        "proved for the ParseType entry point (model MF/Model/TypeParse.lean, tied to memefish.ParseType by the TYPE channel; every token list, accepted or rejected): the fuel-driven model answers ok or raise, never outOfFuel, with every fuel >= 3*|expand ts|+2 (<= 6*|ts|+2 <= the driver's topFuel), and from there on the answer does not depend on the fuel (parseType_terminates, parseType_terminates_bound, parseType_fuel_stable, parseType_decides); with lexer totality the TYPE request never answers FUEL or CRASH on any byte string (typeRun_total)",
                        "proved for the ParseExpr entry point (model MF/Model/Expr.lean of parseExpr ... parseLit for the fragment M1, tied to memefish.ParseExpr by the EXPR channel; every token list, accepted, rejected or garbage): the fuel-driven model answers ok, raise or outside, never outOfFuel, with every fuel >= exprFuel ts = 15*|ts|+15 (<= the driver's topFuel = 32*(|ts|+2)), and from there on the answer does not depend on the fuel (parseExpr_terminates, parseExprTop_terminates, parseExpr_terminates_driver, parseExpr_fuel_stable, parseExpr_decides, expr_answer_fuel_irrelevant); with lexer totality and C07.no_crash the EXPR request never answers FUEL or CRASH on any byte string (exprRun_total, exprRunRT_total); the same for the positioned twin MF/Model/ExprPos.lean of the EXPRPOS request, through the erasure theorem and a fuel-monotonicity record for the twin (parsePTop_terminates, parsePTop_fuel_stable, exprPosRunC_total); where the Go parser leaves the fragment the model answers outside and nothing further is claimed",
                        "proved for the statement-level models on top of M1 (every token list, accepted, rejected or garbage): the SELECT core MF/Model/Query.lean (ParseQuery / ParseStatement, QUERY channel) never answers outOfFuel with every fuel >= 15*|ts|+15 (the expression bound; <= the driver's Query.topFuel = 32*(|ts|+2)), and the DML fragment MF/Model/Stmt2.lean (ParseDML / ParseDMLs / ParseStatement / ParseStatements, DML channel; instantiated with parseExpr and with parsePExpr) never with every fuel >= 15*|ts|+18 (<= the request's dmlFuel = 34*(|ts|+2)); from there on the answers do not depend on the fuel (parseQuery_terminates, parseQuery_fuel_stable, dml_terminates, dmlP_terminates, dmlP_fuel_stable); with lexer totality and no_crash the QUERY and DML requests never answer FUEL or CRASH on any byte string (queryRun_total, dmlRun_total); where the Go parser leaves the fragments the models answer outside and nothing further is claimed",
                        "NOT proved: termination of the other productions of parser.go and absence of Go run-time panics (nil dereference, index) in them: every Parse* call of the predicate runs under recover and a 5 s deadline (partial)"],
    },
    "C15": {
        "module": "MF.Props.C15",
        "theorems": ["MF.Props.C15.quoteBytes_lex", "MF.Props.C15.quoteString_lex", "MF.Props.C15.quoteIdent_lex",
                     "MF.Props.C15.quoteIdent_unquoted_iff"],
        "channels": ["QUOTE", "LEX"],
        "pred": True,
        "level": "proof",
        "trusted_base": M0_TRUST + ["hand-written model MF/Model/Quote.lean of token/quote.go; unicode.IsPrint is a universally quantified parameter of every theorem"],
        "assumptions": ["the QUOTE channel ships Go's unicode.IsPrint verdict for the runes of each request; fmt's %02x/%04x/%08x are modelled (hex2/hex4/hex8) and validated by the channel"],
    },
    "C14": {
        "module": "MF.Props.C14Refine",
        "module_extra": ["MF.Props.C14"],
        "theorems": ["MF.Props.C14.keywords_eq", "MF.Props.C14.charclass_eq", "MF.Props.C14.step_refines",
                     "MF.Props.C14.lexAll_refines", "MF.Props.C14.accepts_iff", "MF.Props.C14.records_eq"],
        "channels": ["SPEC", "LEX"],
        "channel_is_property": ["SPEC"],
        "pred": False,
        "level": "proof",
        "trusted_base": M0_TRUST + ["reference lexer MF/Spec/Lexical.lean, written from the GoogleSQL lexical-structure documentation (decisions P1-P4 in its header)",
                                    "tools/extract (keywords.go, char/is.go) regenerated on every run"],
        "assumptions": ["model ⊑ reference is a theorem (every byte string); code ~ model is the LEX channel and code ~ reference the SPEC channel, on the explored inputs"],
    },
    "C19": {
        "module": 'MF.Props.C19',
        "theorems": ['MF.Props.C19.doc_readable',
            'MF.Props.C19.pos_go_eq_doc',
            'MF.Props.C19.walk_go_eq_fields',
            'MF.Props.C19.all_kinds_covered',
            'MF.Props.C19.emit_correct',
            'MF.Props.C19.emit_complete',
            'MF.Props.C19.sql_bridge_expr',
            'MF.Props.C19.pos_bridge_expr',
            'MF.Props.C19.pos_doc_bridge_expr',
            'MF.Props.C19.prec_bridge',
            'MF.Props.C19.sql_bridge_type',
            'MF.Props.C19.pos_bridge_type',
            'MF.Props.C19.pos_doc_bridge_type',
            'MF.Props.C19.sql_bridge_field',
            'MF.Props.C19.pos_bridge_field',
            'MF.Props.C19.sql_bridge_needs_wf',
            'MF.Props.C19.pos_bridge_needs_wf',
            'MF.Props.C19.parsed_wfBridge',
            'MF.Props.C19.parsed_wfBridgeT',
            'MF.Props.C19.sql_bridge_parsed',
            'MF.Props.C19.pos_bridge_parsed',
            'MF.Props.C19.sql_bridge_parsed_type',
            'MF.Props.C19.pos_bridge_parsed_type'],
        "channels": ['TREE', 'BRIDGE'],
        "pred": True,
        "level": 'proof',
        "trusted_base": ['tools/extract: ast/ast.go (structs, `// pos =`/`// end =` lines via its own POS parser), ast/pos.go, ast/walk_internal.go read into Lean tables on every run; validated by the '
            "TREE channel (tables + interpreters reproduce Go's Pos()/End()/Walk on every explored node)",
            'MF/Model/PosLang.lean: transcription of tools/util/poslang (interpreter, emitter) and of ast/pos_util.go',
            'bridge: MF/Model/Bridge.lean toNodeP / toNodeT (typed fragment tree -> generic tree), validated by the BRIDGE channel: for every accepted input of the EXPRPOS and TYPE '
            "generators the rendering of toNode*(model parse) equals Go's reflective dump of memefish.ParseExpr / ParseType node for node (kind, every scalar field, every child with field "
            "name and index, and Go's own Pos() End() SQL() against the generic interpreters on the regenerated tables); MF/Model/Print.lean (generic printer DSL), validated by TREE"],
        "assumptions": ['bridge theorems (sql_bridge_*, pos_bridge_*): the hand-written printers sqlE / sqlT / sqlF and position formulas posP / endP / posT / endT / posF / endF of the fragment models '
            'ARE the generic interpreters applied to the tables regenerated from ast/sql.go, ast/pos.go, ast/ast.go on this run, for every tree with non-empty identifiers and non-empty paths '
            '(necessary: *_needs_wf; true of every parsed tree: parsed_wfBridge*). They go through one kernel-decided row lemma per node kind (row_K / prow_K / prec_K in '
            'MF/Proofs/BridgeSqlKinds.lean, BridgePosKinds.lean): a change of one of these SQL() bodies, Pos()/End() methods, of exprPrec or paren breaks the build of MF.Props.C19Bridge',
            'the byte-for-byte clause and the EvalPos-vs-compiled clause are finite computations done by the harness on this run (generators executed from the working tree; every node of '
            'every explored input)'],
        "module_extra": ['MF.Props.C19Bridge', 'MF.Props.C19BridgeParsed'],
    },
    "C17": {
        "module": "MF.Props.C17",
        "theorems": ["MF.Props.C17.walk_table_is_fields", "MF.Props.C17.gen_walk_table_ok", "MF.Props.C17.walk_eq_spec", "MF.Props.C17.walk_gen_eq_spec",
                     "MF.Props.C17.walk_sound", "MF.Props.C17.walkMain_eq_spec", "MF.Props.C17.visit_order", "MF.Props.C17.pruned_node",
                     "MF.Props.C17.preorder_calls", "MF.Props.C17.preorder_stops", "MF.Props.C17.preorder_calls_prefix"],
        "channels": ["TREE"],
        "pred": True,
        "level": "proof",
        "trusted_base": ["hand-written model MF/Model/Walk.lean of ast/walk.go (walkMain's explicit stack) and the walk_internal.go table regenerated by tools/extract; tied to the Go code by the TREE channel (event lists of a recording visitor under three pruning rules)",
                         "specification MF/Spec/Preorder.lean (recursive definition of the event sequence)"],
        "assumptions": ["Preorder's shared `ok` flag is modelled by a stateful extension of the stack machine (walkMainG) proved conservative over walkMain; that extension itself is not differential-tested, Preorder's observable behaviour is checked on the implementation by the predicate"],
    },
    "C04": {
        "module": "MF.Props.C04Pos",
        "theorems": ["MF.Props.C04.gen_pos_table_ok", "MF.Props.C04.pos_end_total", "MF.Props.C04.pos_end_doc", "MF.Props.C04.pos_end_total_doc",
                     "MF.Props.C17.walk_gen_eq_spec", "MF.Props.C04.gen_sql_table_ok", "MF.Props.C04.sql_total", "MF.Props.C04.exprPrec_covers",
                     "MF.Props.C04.sites_fill_required", "MF.Props.C04.sites_spec", "MF.Props.C04.required_sql_total", "MF.Props.C04.pos_requires_nothing",
                     "MF.Props.C04.bad_sites_filled"],
        "module_extra": ["MF.Props.C17", "MF.Props.C04Sql", "MF.Props.C04Sites"],
        "channels": ["TREE"],
        "pred": True,
        "level": "proof",
        "trusted_base": ["tables regenerated from ast/ast.go, ast/pos.go, ast/walk_internal.go by tools/extract; interpreters MF/Model/{PosLang,Tree,Walk}.lean validated by the TREE channel",
                         "translator tools/extract/nodelits.go (go/ast, purely syntactic, no type checker): every composite literal ast.K{...} of parser.go with the nil-ability class of each node-typed field (structured flow analysis: branches, loops, panics end a path; anything unfamiliar is `unknown`), the origin of string fields, the return / call-site-argument classes of every function, the assignments x.F = v after construction, and the CLAIMED set of never-nil results and parameters (greatest fixed point computed in Go; Lean re-checks that the claim is consistent) are REGENERATED from /repo on every run (lean/MF/Gen/NodeLits.lean) and the static condition re-decided by the kernel; that these literals are the only way nodes are built is an extracted fact, not a theorem"],
        "assumptions": ["proved: Pos()/End()/SQL() never panic on any tree that is shaped like the catalogue and carries the children its kind's SQL() body dereferences (SqlShaped: decidable, derived from the regenerated tables), Walk terminates with the specified events; NOT proved: that the parser only returns such trees — checked on the implementation for every node of every explored tree (partial)",
                        "static, whole grammar (MF.Props.C04.sites_fill_required, kernel-decided on the regenerated facts): at every node literal of parser.go every field that the kind's SQL()/Pos()/End() dereference unconditionally (requiredFields, computed from the tables by the clauses of SqlShaped; sqlShaped_of_required ties it to sql_total) is filled from a literal, a function all of whose returns are never nil, a never-nil parameter, a nil-tested pointer variable, or a variable assigned such a value on every path; Ident.Name comes from an identifier token; the Bad* wrappers fill BadNode; 5 sites are accepted in the explicit table assumedSites (each with a justification, stale entries fail); nil elements of node slices and the exprPrec clause are outside this check"],
    },
    "C10": {
        "module": "MF.Props.C10",
        "module_extra": ["MF.Props.C10Handlers"],
        "theorems": ["MF.Props.C10.handlers_translated", "MF.Props.C10.handler_frames", "MF.Props.C10.action_is_go", "MF.Props.C10.skipLoop_is_go", "MF.Props.C10.handler_is_go",
                     "MF.Props.C10.recovery_step_total", "MF.Props.C10.recovery_step_frame", "MF.Props.C10.recovery_progress",
                     "MF.Props.C10.noPanic_agrees", "MF.Props.C10.recovery_enumerates", "MF.Props.C10.bad_tokens_exact",
                     "MF.Props.C10.bad_tokens_clean", "MF.Props.C10.split_gt", "MF.Props.C10.restored_inv", "MF.Props.C10.bad_sql_shape", "MF.Props.C10.bad_sql_slice_partial"],
        "channels": ["LEX", "HANDLER"],
        "pred": True,
        "level": "proof",
        "trusted_base": M0_TRUST + ["translator tools/extract/handlers.go (go/ast, purely syntactic): the `switch p.Token.Kind` of each of the four handlers is TRANSLATED on every run into the statement language of lean/MF/Model/HandlerLang.lean (lean/MF/Gen/HandlersGo.lean), the frame of each skip loop is matched against the one known shape; `action_is_go` proves the hand-written Handlers.action equal to the interpretation of the translated switches for every nesting value and token kind", "the four recovery handlers are modelled by hand (lean/MF/Model/Handlers.lean) and tied to parser.go by the HANDLER channel through the hook memefish.VerifRecover (export_verif.go)"],
        "assumptions": ["proved: the two lexer modes agree on clean text; every handler, from every lexer state satisfying the lexer invariant, terminates and returns exactly the recovery-mode token stream up to the first stop token with NodePos/NodeEnd as claimed, incl. the '>>' split; BadNode.SQL() keeps exactly the gaps of the input (bad_sql_shape). NOT proved: that the slice input[NodePos:NodeEnd] and SQL() lexed ON THEIR OWN give the same tokens — false at a context-dependent cut (known finding site:BadNode.sliceContext); the predicate evaluates that clause on the implementation for every BadNode of every explored tree (partial)",
                        "that the parse functions call the handlers only with lexer states produced by the lexer is a fact about parser.go checked by the predicate (every BadNode of real parses), not proved"],
    },
    "C07": {
        "module": "MF.Props.C07",
        "module_extra": ["MF.Props.C07Ladder"],
        "theorems": ["MF.Props.C07.ladder_recognised", "MF.Props.C07.ladder_chain", "MF.Props.C07.ladder_eq_spec", "MF.Props.C07.ladder_assoc",
                     "MF.Props.C07.ladder_tokens", "MF.Props.C07.ladder_disjoint", "MF.Props.C07.ladder_static",
                     "MF.Props.C07.ladder_level_of_bop", "MF.Props.C07.ladder_level_of_uop", "MF.Props.C07.ladder_level_of_special",
                     "MF.Props.C07.parse_sound", "MF.Props.C07.parse_complete", "MF.Props.C07.grouping_unique",
                     "MF.Props.C07.comparison_once", "MF.Props.C07.comparison_nonassoc", "MF.Props.C07.print_minimal_partial",
                     "MF.Props.C07.parse_mono", "MF.Props.C07.level_is_table", "MF.Props.C07.top_sound", "MF.Props.C07.top_complete",
                     "MF.Props.C07.no_crash", "MF.Props.C07.subscript_word_not_call", "MF.Props.C07.subscript_word_plain"],
        "channels": ["EXPR"],
        "pred": True,
        "level": "proof",
        "trusted_base": ["hand-written model MF/Model/Expr.lean of parser.go parseExpr..parseLit (one Lean function per Go function and loop) and of "
                         "ast/sql.go exprPrec/paren/SQL() of the expression nodes, for the fragment M1 (atoms, parentheses, prefix, binary, "
                         "comparison-family, postfix operators); tied to memefish.ParseExpr by the EXPR channel (AST shape, SQL() text, re-lexing flag)",
                         "specification MF/Spec/Precedence.lean: the GoogleSQL precedence table as data, level/PrecOK, the projection of tokens and the "
                         "yield of a tree, written from the property text; lexer model MF/Model/Lexer.lean (LEX channel)",
                         "translator tools/extract/ladder.go (go/ast, purely syntactic): the ten ladder functions parseOr..parseUnary of parser.go are read into data on every run "
                         "(lean/MF/Gen/Ladder.lean: shape, operand callee, token cases with the ast.Op constant each assigns, special cases) and the kernel re-decides that this ladder implements "
                         "the GoogleSQL table (levels, associativity, token spellings): MF/Props/C07Ladder.lean; a function that does not fit a known shape is emitted as unrecognised and the obligation fails"],
        "assumptions": ["regenerated tie: `ladder_eq_spec`, `ladder_assoc`, `ladder_tokens` hold of the ladder read out of parser.go on this run; they do not cover sign folding, parseSelector and parseLit (model + EXPR channel)",
                        "the theorems are over token lists (as produced by the model lexer); productions outside the fragment (calls, CASE, CAST, "
                        "sub-queries, ARRAY/STRUCT, typed literals, tuples, ...) are answered `outside` by the model and not compared",
                        "print_minimal is proved at the token level (`_partial`): that the model lexer reads the printed bytes as those tokens is "
                        "evaluated on every EXPR request (field rt) and by the predicate on the Go code, not proved"],
    },
    "C01": {
        "module": 'MF.Props.C01Tables',
        "module_extra": ['MF.Props.C01Expr', 'MF.Props.C01Types', 'MF.Props.C01Query', 'MF.Props.C01DML'],  # C01Query = Task X, C01DML = Task S
        "theorems": ['MF.Props.C01.dml_roundtrip_tokens', 'MF.Props.C01.dml_print_derivable', 'MF.Props.C01.dml_fixed_point',
            'MF.Props.C01.dmlPrinted_reads', 'MF.Props.C01.dml_example_roundtrip',
            'MF.Props.C01.gen_unread',
            'MF.Props.C01.gen_unread_matches_extractor',
            'MF.Props.C01.gen_prec_eq_spec',
            'MF.Props.C01.gen_parenCmp',
            'MF.Props.C01.gen_precConsts',
            'MF.Props.C01.exprPrec_covers_ops',
            'MF.Props.C01.printed_lexes',
            'MF.Props.C01.printed_lexes_tokens',
            'MF.Props.C01.parse_lexwf',
            'MF.Props.C01.roundtrip_expr_partial',
            'MF.Props.C01.fixed_point_expr',
            'MF.Props.C01.roundtrip_fails_quoted_cast_word',
            'MF.Props.C01.numOK_lexes',
            'MF.Props.C01.concat_lexes',
            'MF.Props.C01.concat_steps',
            'MF.Props.C01.steps_prefix',
            'MF.Props.C01.next_append',
            'MF.Props.C01.type_roundtrip',
            'MF.Props.C01.type_roundtrip_tree',
            'MF.Props.C01.type_roundtrip_tokens',
            'MF.Props.C01.print_lexes',
            'MF.Props.C01.parsed_namesOK',
            'MF.Props.C01.type_roundtrip_partial',
            'MF.Props.C01.ex2_parse',
            'MF.Props.C01.ex2_rt',
            'MF.Props.C01.query_print_derivable',
            'MF.Props.C01.query_roundtrip_tokens_partial',
            'MF.Props.C01.query_print_fixed_point'],
        "channels": ['TREE', 'EXPR', 'TYPE', 'QUERY', 'DML'],
        "pred": True,
        "level": 'proof',
        "trusted_base": ['hand-written model MF/Model/{Basic,Char,Utf8,Token,Lexer,File}.lean of lexer.go, char/*.go, token/{token,keywords,file}.go',
            'hand-written model MF/Model/Expr.lean of parseExpr..parseLit and of the SQL() methods of the expression nodes (EXPR channel); specification MF/Spec/Precedence.lean, '
            'MF/Spec/PrintToks.lean',
            'hand-written model MF/Model/TypeParse.lean of parser.go '
            'ParseType/parseType/parseSimpleType/parseNamedType/parseArrayType/parseStructType/parseStructTypeFields/parseFieldType/parseCommaSeparatedList (one Lean function per Go function '
            "and loop; the in-place '>>' split rewrites the head of the token list), of the type nodes of ast/ast.go, ast/pos.go and ast/sql.go; tied to memefish.ParseType by the TYPE "
            'channel (every field and position, Pos()/End() of every node, SQL(), re-lexing flag rt, slice-and-reparse flag ex)',
            "specification MF/Spec/TypeGrammar.lean (G_T over token kinds written from the documentation, expansion of '>>' / '<>', yield of a tree, Match, wf), MF/Spec/TypeNodes.lean, "
            'MF/Spec/TypeShift.lean, MF/Spec/TypeReads.lean; lexer model MF/Model/Lexer.lean (LEX channel)',
            'no Lean model of the other productions of parser.go: the predicate runs the real entry points; table obligations over the regenerated sql.go/ast.go tables (unread fields, '
            'precedence table)'],
        "assumptions": ['proved for the DML fragment M2 at TOKEN level (MF/Props/C01DML.lean; model MF/Model/Stmt2.lean, whose SQL() text the DML channel compares with Go byte for byte on every accepted request): any token list that reads as SQL() of a statement (PrintStmt sqlToks: INTO and FROM always printed, AS iff written, names by value, slots by sqlToks) is a sentence of G_DML, the model parses it to the one tree it can have, equal to the statement up to position fields and the canonical spelling of position keywords, and that tree prints the same text (dml_roundtrip_tokens, dml_fixed_point); hypothesis NoCast (no unquoted SAFE_CAST / REPLACE_FIELDS token); the lexer step from the bytes of SQL() to such a token list is NOT proved for DML (explored by the predicate)',
            'proved for the expression fragment M1 (atoms, parentheses, prefix, binary, comparison-family, postfix operators) at BYTE level, on the models of lexer.go, the expression ladder '
            "and the SQL() methods: roundtrip_expr_partial: for every input accepted by the expression model, the SQL() text lexes (printed_lexes: to exactly the printer's tokens) and parses "
            'to the same tree; fixed_point_expr: unparse output is a fixed point; hypothesis NoCastIdent (no identifier spelled SAFE_CAST / REPLACE_FIELDS), shown necessary for the model by '
            'a kernel-checked counterexample',
            'proved for the ParseType entry point, lexer and parser model (type_roundtrip): for every accepted input, SQL() lexes and parses back to the same tree up to positions and prints '
            'the same text; also for every hand-built well-formed tree with printable names (type_roundtrip_tree); parser side type_roundtrip_tokens, lexer side print_lexes (piece-by-piece '
            'lexing of the printed text, MF/Proofs/TypePrint.lean) + parsed_namesOK; the same statement is evaluated on the implementation for every OK request of the TYPE channel (flag rt); '
            'every other entry point is explored only',
            'outside the fragment (queries, DDL, DML, calls, CASE, CAST, typed literals, ...): exploration of the real entry points over corpus, probes, the reference grammar G, grafts, '
            'edits, mutations and soups (partial)'],
    },
    "C02": {
        "module": 'MF.Props.C01Tables',
        "module_extra": ['MF.Props.C01Expr', 'MF.Props.C01Types', 'MF.Props.C01Query', 'MF.Props.C01DML'],  # C01Query = Task X, C01DML = Task S
        "theorems": ['MF.Props.C01.dml_lossless', 'MF.Props.C01.dml_lossless_parsed', 'MF.Props.C01.dml_lossless_tree', 'MF.Props.C01.dml_print_derivable',
            'MF.Props.C01.gen_unread',
            'MF.Props.C01.gen_unread_matches_extractor',
            'MF.Props.C01.gen_prec_eq_spec',
            'MF.Props.C01.gen_parenCmp',
            'MF.Props.C01.gen_precConsts',
            'MF.Props.C01.exprPrec_covers_ops',
            'MF.Props.C01.lossless_expr',
            'MF.Props.C01.printed_lexes',
            'MF.Props.C01.parse_lexwf',
            'MF.Props.C01.fixed_point_expr',
            'MF.Props.C01.type_lossless',
            'MF.Props.C01.type_lossless_tokens',
            'MF.Props.C01.print_lexes',
            'MF.Props.C01.type_lossless_partial',
            'MF.Props.C01.query_print_lossless',
            'MF.Props.C01.select_trailing_only',
            'MF.Props.C01.query_print_derivable'],
        "channels": ['TREE', 'EXPR', 'TYPE', 'QUERY', 'DML'],
        "pred": True,
        "level": 'proof',
        "trusted_base": ['hand-written model MF/Model/{Basic,Char,Utf8,Token,Lexer,File}.lean of lexer.go, char/*.go, token/{token,keywords,file}.go',
            'hand-written model MF/Model/Expr.lean of parseExpr..parseLit and of the SQL() methods of the expression nodes (EXPR channel); specification MF/Spec/Precedence.lean, '
            'MF/Spec/PrintToks.lean',
            'hand-written model MF/Model/TypeParse.lean of parser.go '
            'ParseType/parseType/parseSimpleType/parseNamedType/parseArrayType/parseStructType/parseStructTypeFields/parseFieldType/parseCommaSeparatedList (one Lean function per Go function '
            "and loop; the in-place '>>' split rewrites the head of the token list), of the type nodes of ast/ast.go, ast/pos.go and ast/sql.go; tied to memefish.ParseType by the TYPE "
            'channel (every field and position, Pos()/End() of every node, SQL(), re-lexing flag rt, slice-and-reparse flag ex)',
            "specification MF/Spec/TypeGrammar.lean (G_T over token kinds written from the documentation, expansion of '>>' / '<>', yield of a tree, Match, wf), MF/Spec/TypeNodes.lean, "
            'MF/Spec/TypeShift.lean, MF/Spec/TypeReads.lean; lexer model MF/Model/Lexer.lean (LEX channel)',
            'no Lean model of the other productions of parser.go: the predicate runs the real entry points; table obligations over the regenerated sql.go/ast.go tables (unread fields, '
            'precedence table)'],
        "assumptions": ['proved for the DML fragment M2 at TOKEN level (MF/Props/C01DML.lean): the tokens a statement was parsed from read as its print (PrintStmt yield) after inserting the INTO of an INSERT / the FROM of a DELETE when it was left out — nothing else is added, nothing is lost, AS stays where it was written (dml_lossless, dml_lossless_parsed, dml_lossless_tree); slot tokens and printed slot tokens differ only in the spelling of position keywords (sqlToks e = yield (canonKw e), C07)',
            'proved for the expression fragment M1 (atoms, parentheses, prefix, binary, comparison-family, postfix operators) at BYTE level, on the models of lexer.go, the expression ladder '
            'and the SQL() methods: lossless_expr: the significant tokens of the SQL() text are those of the input token by token (keyword case, <>/!=, quoting, trivia erased; a position '
            'keyword comes back in canonical spelling); hypothesis NoCastIdent (no identifier spelled SAFE_CAST / REPLACE_FIELDS), shown necessary for the model by a kernel-checked '
            'counterexample',
            'proved for the ParseType entry point, lexer and parser model (type_lossless): for every accepted input, the tokens of the input and the tokens of SQL() read as the same '
            "description list (kinds, identifier names unquoted, simple type names up to case, '>>'/'<>' expanded); evaluated on the implementation by flag rt of the TYPE channel; every "
            'other entry point is explored only',
            'outside the fragment (queries, DDL, DML, calls, CASE, CAST, typed literals, ...): exploration of the real entry points over corpus, probes, the reference grammar G, grafts, '
            'edits, mutations and soups (partial)'],
    },
    "C05": {
        "module": 'MF.Props.C05Types',
        "theorems": ['MF.Props.C05.dml_fields_aligned_partial', 'MF.Props.C05.dml_fields_aligned_parsed_partial', 'MF.Props.C05.dml_ident_span',
            'MF.Props.C05.dml_default_span', 'MF.Props.C05.dml_row_span', 'MF.Props.C05.dml_input_span', 'MF.Props.C05.dml_item_span', 'MF.Props.C05.dml_where_span',
            'MF.Props.C05.dml_alias_span', 'MF.Props.C05.dml_statement_span', 'MF.Props.C05.dml_statement_positions', 'MF.Props.C05.dml_example_span',
            'MF.Props.C05.dml_delete_positions', 'MF.Props.C05.dml_update_positions', 'MF.Props.C05.dml_insert_positions',
            'MF.Props.C05.type_positions',
            'MF.Props.C05.type_positions_fails_backquoted',
            'MF.Props.C05.ex_positions',
            'MF.Props.C05.erase_parse',
            'MF.Props.C05.erase_parse_top',
            'MF.Props.C05.positions_placed',
            'MF.Props.C05.expr_positions',
            'MF.Props.C05.folded_sign_span',
            'MF.Props.C05.reader_understood',
            'MF.Props.C05.offsets_match_static',
            'MF.Props.C05.offsets_match',
            'MF.Props.C05.offsets_tables_live',
            'MF.Props.C05.offsets_every_kind_has_site',
            'MF.Props.C05.offsets_out_of_scope',
            'MF.Props.C05.reads_guarded',
            'MF.Props.C05.offset_meaning',
            'MF.Props.C05.chains_static',
            'MF.Props.C05.chains_complete',
            'MF.Props.C05.query_pos_first_token',
            'MF.Props.C05.item_span',
            'MF.Props.C05.alias_span',
            'MF.Props.C05.table_span',
            'MF.Props.C05.from_span',
            'MF.Props.C05.where_span',
            'MF.Props.C05.having_span',
            'MF.Props.C05.limit_span',
            'MF.Props.C05.expr_slot_span',
            'MF.Props.C05.lexed_tokensOK',
            'MF.Props.C05.span_facts',
            'MF.Props.C05.span_nested',
            'MF.Props.C05.span_ordered',
            'MF.Props.C05.group_span',
            'MF.Props.C05.order_item_span',
            'MF.Props.C05.order_span',
            'MF.Props.C05.items_loop_span',
            'MF.Props.C05.select_span',
            'MF.Props.C05.statement_span',
            'MF.Props.C05.query_positions_partial',
            'MF.Props.C05.eof_not_consumed',
            'MF.Props.C05.query_positions',
            'MF.Props.C05.query_clause_positions'],
        "channels": ['TREE', 'TYPE', 'EXPRPOS', 'QUERY', 'DML'],
        "pred": True,
        "level": 'proof',
        "trusted_base": ['expression fragment: hand-written model MF/Model/ExprPos.lean of parser.go parseExpr..parseLit WITH the position fields of the Go nodes and of the generated Pos()/End() of '
            'ast/pos.go for these node kinds; tied to memefish.ParseExpr by the EXPRPOS channel (every node of the tree in preorder: depth, kind, Pos(), End(), every stored token.Pos field)',
            'hand-written model MF/Model/TypeParse.lean of parser.go '
            'ParseType/parseType/parseSimpleType/parseNamedType/parseArrayType/parseStructType/parseStructTypeFields/parseFieldType/parseCommaSeparatedList (one Lean function per Go function '
            "and loop; the in-place '>>' split rewrites the head of the token list), of the type nodes of ast/ast.go, ast/pos.go and ast/sql.go; tied to memefish.ParseType by the TYPE "
            'channel (every field and position, Pos()/End() of every node, SQL(), re-lexing flag rt, slice-and-reparse flag ex)',
            "specification MF/Spec/TypeGrammar.lean (G_T over token kinds written from the documentation, expansion of '>>' / '<>', yield of a tree, Match, wf), MF/Spec/TypeNodes.lean, "
            'MF/Spec/TypeShift.lean, MF/Spec/TypeReads.lean; lexer model MF/Model/Lexer.lean (LEX channel)',
            'translator tools/extract/posprov.go (go/ast, purely syntactic): for every ast.K{...} literal of parser.go and every token.Pos field, the PROVENANCE of the value (which token it is the '
            'start/end of and what the dominating guards / expect calls say that token is; a flow-sensitive abstract interpretation of one function at a time, parameters and results resolved at the '
            'call sites of the package) is REGENERATED from /repo on every run (lean/MF/Gen/PosProv.lean); the whole-grammar table obligations O2 offsets_match / reads_guarded (every documented summand '
            'F + n is fed by the start of an n-byte token; every position is read from a token the guards determine) and O3 chains_complete (SQL() template vs documented pos/end chains, over '
            'Gen.SqlGo and Gen.PosDoc) are re-decided by the kernel; that a site really executes with the token its provenance names is the extracted fact, not a theorem '
            '(MF.Props.C05.offset_meaning says what follows once it holds)',
            'hand-written model MF/Model/Stmt2.lean of the DML part of parser.go (ParseDML/ParseDMLs/ParseStatement/ParseStatements on DML, parseStatements, parseDML, parseDMLInternal, parseInsert, '
            'parseValuesInput, parseValuesRow, parseDefaultExpr, parseDelete, parseUpdate, parseUpdateItem, parseIdentOrPath, tryParseAsAlias, parseWhere, parseCommaSeparatedList; fragment: no hint, no THEN RETURN, '
            'VALUES input only, expression slots inside M1), generic in the expression parser; tied to the four entry points by the DML channel (every field and position, Pos()/End() of every node, SQL()); '
            'specification MF/Spec/DMLGrammar.lean (G_DML written from the doc comments of ast/ast.go, expression slots abstract: yields of table-grouped normal forms, the vocabulary of C07)',
            'no Lean model of the other productions of parser.go: the predicate runs the real entry points'],
        "assumptions": ['proved for the DML fragment M2, statement level, PARTIAL (MF/Props/C05DML.lean): every position field stored in the statement-level nodes of a parsed INSERT / DELETE / UPDATE (keyword positions, Lparen / Rparen, DefaultPos, As, Where, NamePos of every Ident of the statement level) is the Pos of a token of the statement and the fields in source order are the positions of a sublist of the consumed tokens (dml_fields_aligned_partial), NameEnd is the End of the same token (dml_ident_span); Pos() / End() of the statement-level nodes, per node-building call of the positioned DML model on any suffix of lexer output: DefaultExpr, ValuesRow, ValuesInput, UpdateItem, Where, AsAlias, Insert, Delete, Update lie exactly over the run of tokens the call consumed — Pos() the pos of the first, End() the end of the last token (dml_default_span … dml_statement_span; Rparen + 1 and DefaultPos + 7 through MF.Lex.TokLen, slot ends through C05 for expressions), hence token-aligned with Pos() < End() <= len(input) (dml_statement_positions); nesting and order inside ONE DELETE / UPDATE / INSERT statement on lexer output (dml_delete_positions, dml_update_positions, dml_insert_positions: keyword, table path, alias, every UpdateItem in order, Where node, resp. the VALUES keyword and every ValuesRow in order, lie inside [Pos(), End()) in source order without overlap, each non-empty, End() <= len(input)); NOT proved for DML: the column Idents of an INSERT and the nodes inside rows / items / slots in the same single theorem (covered per call), and C06; the DML channel compares every field and Pos()/End() of every node with Go',
            'proved for the expression fragment only (expr_positions); the other productions of parser.go are not modelled',
            "proved for the ParseType entry point (model lexer + model parser, every accepted input): every node starts and ends on a token boundary ('>>'/'<>' counted as two one-byte "
            'tokens), is non-empty, in range, and contains its children in order without overlap (type_positions), except for the KNOWN DEFECT of a back-quoted simple type name (End two '
            'bytes short; type_positions_fails_backquoted proves the exclusion necessary); every other entry point is explored only',
            'whole grammar, static (Task V): offsets_match, reads_guarded, chains_complete are necessary conditions decided on tables regenerated from parser.go, ast/ast.go, ast/sql.go on this run; '
            'they make one-site slips (a wrong addend, a position read after nextToken(), an end chain that forgets or misorders a clause) deterministic failures that name the row; exceptions are '
            'explicit tables in MF/Props/C05Offsets.lean and C05Chains.lean (assumed sites, known findings, exempt kinds) that fail the check when they go stale',
            'every other entry point and node kind: exploration of the real entry points over corpus, probes, the reference grammar G, grafts, edits, mutations and soups (partial)'],
        "module_extra": ['MF.Props.C05Expr', 'MF.Props.C05Offsets', 'MF.Props.C05Chains', 'MF.Props.C05Query', 'MF.Props.C05DML'],
    },
    "C06": {
        "module": 'MF.Props.C06Types',
        "theorems": ['MF.Props.C06.type_exact',
            'MF.Props.C06.slice_lex',
            'MF.Props.C06.type_exact_tokens',
            'MF.Props.C06.type_exact_partial',
            'MF.Props.C06.ex_exact',
            'MF.Props.C06.slice_lex_expr',
            'MF.Props.C06.exact_parse',
            'MF.Props.C06.expr_exact_partial',
            'MF.Props.C06.expr_exact_inside',
            'MF.Props.C05.reader_understood',
            'MF.Props.C05.offsets_match_static',
            'MF.Props.C05.offsets_match',
            'MF.Props.C05.offsets_tables_live',
            'MF.Props.C05.offsets_every_kind_has_site',
            'MF.Props.C05.offsets_out_of_scope',
            'MF.Props.C05.reads_guarded',
            'MF.Props.C05.offset_meaning',
            'MF.Props.C05.chains_static',
            'MF.Props.C05.chains_complete'],
        "channels": ['TREE', 'TYPE', 'EXPRPOS'],
        "pred": True,
        "level": 'proof',
        "trusted_base": ['expression fragment: model MF/Model/ExprPos.lean (EXPRPOS channel; its field c06 is clause (a) evaluated on both sides for every sub-expression of every compared tree) and the '
            'lexer model MF/Model/Lexer.lean (LEX channel)',
            'hand-written model MF/Model/TypeParse.lean of parser.go '
            'ParseType/parseType/parseSimpleType/parseNamedType/parseArrayType/parseStructType/parseStructTypeFields/parseFieldType/parseCommaSeparatedList (one Lean function per Go function '
            "and loop; the in-place '>>' split rewrites the head of the token list), of the type nodes of ast/ast.go, ast/pos.go and ast/sql.go; tied to memefish.ParseType by the TYPE "
            'channel (every field and position, Pos()/End() of every node, SQL(), re-lexing flag rt, slice-and-reparse flag ex)',
            "specification MF/Spec/TypeGrammar.lean (G_T over token kinds written from the documentation, expansion of '>>' / '<>', yield of a tree, Match, wf), MF/Spec/TypeNodes.lean, "
            'MF/Spec/TypeShift.lean, MF/Spec/TypeReads.lean; lexer model MF/Model/Lexer.lean (LEX channel)',
            'translator tools/extract/posprov.go (go/ast, purely syntactic): for every ast.K{...} literal of parser.go and every token.Pos field, the PROVENANCE of the value (which token it is the '
            'start/end of and what the dominating guards / expect calls say that token is; a flow-sensitive abstract interpretation of one function at a time, parameters and results resolved at the '
            'call sites of the package) is REGENERATED from /repo on every run (lean/MF/Gen/PosProv.lean); the whole-grammar table obligations O2 offsets_match / reads_guarded (every documented summand '
            'F + n is fed by the start of an n-byte token; every position is read from a token the guards determine) and O3 chains_complete (SQL() template vs documented pos/end chains, over '
            'Gen.SqlGo and Gen.PosDoc) are re-decided by the kernel; that a site really executes with the token its provenance names is the extracted fact, not a theorem '
            '(MF.Props.C05.offset_meaning says what follows once it holds)',
            'no Lean model of the other productions of parser.go: the predicate runs the real entry points'],
        "assumptions": ["clause (a) is proved for the expression fragment only (expr_exact_partial: side condition 'no unquoted SAFE_CAST / REPLACE_FIELDS field name inside the node', always true on the "
            'compared inputs: expr_exact_inside); the Idents that are path components or selector field names are not covered (C06 is false for them: a.1, a.select)',
            'proved for the ParseType entry point, lexer and parser (type_exact): for every accepted input of the model and every type node n whose subtree has no SimpleType on a back-quoted '
            'token (the known defect), input[Pos:End] lexes and parses on its own to n with all positions decreased by Pos(); parser side type_exact_tokens, lexer side slice_lex (window '
            'locality of the lexer model, MF/Proofs/LexWindow.lean); StructField and Ident nodes are excluded (not types); the same statement is evaluated on the implementation for every '
            'type node of every OK request of the TYPE channel (flag ex); every other entry point is explored only',
            'whole grammar, static (Task V): offsets_match, reads_guarded, chains_complete are necessary conditions decided on tables regenerated from parser.go, ast/ast.go, ast/sql.go on this run; '
            'they make one-site slips (a wrong addend, a position read after nextToken(), an end chain that forgets or misorders a clause) deterministic failures that name the row; exceptions are '
            'explicit tables in MF/Props/C05Offsets.lean and C05Chains.lean (assumed sites, known findings, exempt kinds) that fail the check when they go stale',
            'every other entry point and node kind: exploration of the real entry points over corpus, probes, the reference grammar G, grafts, edits, mutations and soups (partial)'],
        "module_extra": ['MF.Props.C06Expr', 'MF.Props.C05Offsets', 'MF.Props.C05Chains'],
    },
    "C08": {
        "module": 'MF.Props.C08Types',
        "module_extra": ['MF.Props.C08TypeGo', 'MF.Props.C08Query', 'MF.Props.C08DML'],  # C08Query = Task X: the SELECT core (ParseQuery / ParseStatement)
        "theorems": ['MF.Props.C08.simpleTypes_translated', 'MF.Props.C08.parseType_dispatch_translated', 'MF.Props.C08.parseType_model_dispatch',
            'MF.Props.C08.type_sound',
            'MF.Props.C08.type_sound_top',
            'MF.Props.C08.type_complete',
            'MF.Props.C08.type_complete_tree',
            'MF.Props.C08.type_accepts_iff',
            'MF.Props.C08.type_unique',
            'MF.Props.C08.fuel_irrelevant',
            'MF.Props.C08.ex_parse',
            'MF.Props.C08.ex_typeD',
            # Task S (DML fragment)
            'MF.Props.C08.dml_sound',
            'MF.Props.C08.dml_sound_top',
            'MF.Props.C08.dml_complete',
            'MF.Props.C08.dml_complete_top',
            'MF.Props.C08.dml_unique',
            'MF.Props.C08.dml_entry_points_agree',
            'MF.Props.C08.dml_complete_top_fuel', 'MF.Props.C08.dml_complete_top_driver',
            'MF.Props.C08.dml_ex_derivable',
            'MF.Props.C08.dml_ex_agree',
            # Task X
            'MF.Props.C08.query_sound',
            'MF.Props.C08.query_sound_top',
            'MF.Props.C08.query_entry_points_agree',
            'MF.Props.C08.query_entry_points_agree_ok',
            'MF.Props.C08.accepted_starts_select',
            'MF.Props.C08.expr_slot_complete',
            'MF.Props.C08.where_complete',
            'MF.Props.C08.having_complete',
            'MF.Props.C08.query_complete_partial',
            'MF.Props.C08.query_complete_statement_partial',
            'MF.Props.C08.queryD0_sub',
            'MF.Props.C08.complete_needs_castfree',
            'MF.Props.C08.trailing_comma_placement'],
        "channels": ['TREE', 'TYPE', 'EXPR', 'QUERY', 'DML'],
        "channel_accepts": {"DML": "MF.Props.C08.dml_sound_top: a token list accepted by the DML model is a sentence of the documented DML grammar G_DML",
                            "TYPE": "MF.Props.C08.type_sound_top: an accepted token list is a derivation of the documented type grammar G_T",
                            "QUERY": "MF.Props.C08.query_sound_top: an accepted token list is a derivation of the documented grammar G_Q of the SELECT core",
                            "EXPR": "MF.Props.C07.top_sound: an accepted token list is the yield of a tree grouped by the GoogleSQL operator table"},
        "pred": True,
        "level": 'proof',
        "trusted_base": ['hand-written model MF/Model/TypeParse.lean of parser.go '
            'ParseType/parseType/parseSimpleType/parseNamedType/parseArrayType/parseStructType/parseStructTypeFields/parseFieldType/parseCommaSeparatedList (one Lean function per Go function '
            "and loop; the in-place '>>' split rewrites the head of the token list), of the type nodes of ast/ast.go, ast/pos.go and ast/sql.go; tied to memefish.ParseType by the TYPE "
            'channel (every field and position, Pos()/End() of every node, SQL(), re-lexing flag rt, slice-and-reparse flag ex)',
            "specification MF/Spec/TypeGrammar.lean (G_T over token kinds written from the documentation, expansion of '>>' / '<>', yield of a tree, Match, wf), MF/Spec/TypeNodes.lean, "
            'MF/Spec/TypeShift.lean, MF/Spec/TypeReads.lean; lexer model MF/Model/Lexer.lean (LEX channel)',
            'hand-written model MF/Model/Query.lean of parser.go ParseQuery/ParseStatement/parseQueryStatement/parseQueryExpr/parseSimpleQueryExpr/parseSelect/parseSelectResults/'
            'parseSelectItem/tryParseAsAlias/tryParseFrom/parseTableExpr (table name or path)/tryParseWhere/tryParseGroupBy/tryParseHaving/parseQueryExprSuffix/tryParseOrderBy/'
            'tryParseLimit/tryParseOffset (one Lean function per Go function and loop, expressions through the positioned expression model) and of the matching nodes of ast/ast.go, ast/pos.go, '
            'ast/sql.go; tied to memefish.ParseQuery and memefish.ParseStatement by the QUERY channel (every field and position, Pos()/End() of every node, SQL(); token-level OUTSIDE rule shared with '
            'the harness); specification MF/Spec/QueryGrammar.lean (G_Q written from the doc comments of ast/ast.go, token descriptors, yield of a tree)',
            'no Lean model of the other productions of parser.go: the predicate runs the real entry points'],
        "assumptions": ['proved for the DML fragment M2 (model): soundness w.r.t. G_DML with the derivation tree (dml_sound, dml_sound_top), completeness for ALL derivations in eventual-fuel form '
            '(dml_complete, dml_complete_top; side condition NoCast inherited from C07: no token reads as the unquoted identifiers SAFE_CAST / REPLACE_FIELDS; the statement must be followed by a '
            'token that ends it), unambiguity (dml_unique), and agreement of the statement entry points with the DML entry points (dml_entry_points_agree); the expression slots go through '
            'MF.Props.C07.parse_sound / parse_complete as black boxes; hints, THEN RETURN and sub-query input are outside the fragment (the model answers outside, the channel does not compare)',
            'proved for the SELECT core (model of ParseQuery / ParseStatement, fragment M3: SELECT [ALL|DISTINCT] items [,] [FROM path [[AS] alias]] [WHERE] [GROUP BY] [HAVING] [ORDER BY … [ASC|DESC]] '
            '[LIMIT n [OFFSET m]], expressions in M1): an accepted token list is the yield of the returned tree and that yield is derivable in the documented grammar G_Q (query_sound, query_sound_top); '
            'on a token list starting with SELECT, ParseStatement answers exactly what ParseQuery answers, for every fuel and every kind of answer (query_entry_points_agree); every other query form is outside the model '
            '(explored only)',
            'proved for the ParseType entry point (model, every token list): the model accepts exactly the sentences of the documented type grammar G_T and returns the derivation tree '
            '(type_sound, type_complete with a concrete fuel and NO side condition, type_accepts_iff, type_unique); the former side condition HeadsOK is gone with the repair of '
            'lookaheadSimpleType (date.T, string.x are named types); every other entry point is explored only',
            'every other entry point and node kind: exploration of the real entry points over corpus, probes, the reference grammar G, grafts, edits, mutations and soups (partial)'],
    },
    "C09": {
        "module": "MF.Props.C09",
        "theorems": ["MF.Props.C09.errors_monotone_static", "MF.Props.C09.bad_sites", "MF.Props.C09.credit_static", "MF.Props.C09.bad_implies_error",
                     "MF.Props.C09.errors_only_grow", "MF.Props.C09.entry_shapes_ok", "MF.Props.C09.entry_contract"],
        "channels": ["TREE"],
        "pred": True,
        "level": "proof",
        "trusted_base": ["translator tools/extract/parserfacts.go (go/ast, purely syntactic): the call graph, defer/recover shapes, Bad* literal sites, p.errors assignments, <eof> tests, token-field uses, package variables of parser.go, parse_helpers.go, lexer.go, split.go are REGENERATED from /repo on every run (lean/MF/Gen/ParserFacts.lean) and the static conditions re-decided by the kernel", "abstraction MF/Model/Recovery.lean: only *Error panics are modelled (run-time panics are explored by the predicate under recover), calls leaving the four files neither raise *Error nor call back, a Part without recognised statement structure is read flow-insensitively (any order of its events)"],
        "assumptions": ["proved over the regenerated facts, for every execution of the abstract machine: the error list only grows; every Bad* literal is created in a recover handler after an error was appended (one wrapper, one BadNode, one handler run per error at most); every entry point returns nil iff errors = [] and the current token is <eof>, and then no Bad* node was created by the call",
                        "NOT proved: that MultiError elements carry in-range positions and messages, and that the tree returned contains only the Bad* nodes the machine counts (a production could copy one): evaluated on the implementation by the predicate (partial)"],
    },
    "C11": {
        "module": "MF.Props.C11",
        "module_extra": ["MF.Props.C11Lists", "MF.Props.C11State", "MF.Props.C11DML"],
        "theorems": ["MF.Props.C11.eof_sites", "MF.Props.C11.eof_sites_elsewhere", "MF.Props.C11.parser_state",
                     "MF.Props.C11.lists_compose", "MF.Props.C11.parseStatements_eq", "MF.Props.C11.segments_pieces", "MF.Props.C11.pieces_lex",
                     "MF.Props.C11.split_pieces_lex", "MF.Props.C11.lex_prefix", "MF.Props.C11.compose", "MF.Props.C11.lexAll_WF",
                     "MF.Props.C11.dml_local", "MF.Props.C11.dml_lists_compose", "MF.Props.C11.dml_parseStatements_eq", "MF.Props.C11.dml_segment",
                     "MF.Props.C11.parseDMLStmt_accepts", "MF.Props.C11.dml_compose_model", "MF.Props.C11.dml_lists_agree",
                     "MF.Props.C11.dml_coreInv", "MF.Props.C11.dml_compose",
                     "MF.Props.C11.dml_example_lists", "MF.Props.C11.dmlSeg_accepted", "MF.Props.C11.dml_example_model", "MF.Props.C11.dml_example_compose"],
        "channels": ["TREE", "SPLIT", "DML"],
        "pred": True,
        "level": "proof",
        "trusted_base": ["translator tools/extract/parserfacts.go (go/ast, purely syntactic): the call graph, defer/recover shapes, Bad* literal sites, p.errors assignments, <eof> tests, token-field uses, package variables of parser.go, parse_helpers.go, lexer.go, split.go are REGENERATED from /repo on every run (lean/MF/Gen/ParserFacts.lean) and the static conditions re-decided by the kernel", "abstraction MF/Model/Recovery.lean: only *Error panics are modelled (run-time panics are explored by the predicate under recover), calls leaving the four files neither raise *Error nor call back, a Part without recognised statement structure is read flow-insensitively (any order of its events)", "hand-written model MF/Model/Split.lean of split.go (SPLIT channel)"],
        "assumptions": ["proved over the regenerated facts: no production treats <eof> differently from ';' (the only '== <eof>' test in a production is the trailing-comma test of parseSelectResults, which lists ';' beside it; every other test is a '!= <eof>' loop guard) — the structural reason a statement parses alike before ';' and before end of input",
                        "proved for every input (model of the parseStatements loop, of the lexer and of the splitter): for ANY statement parser P that is Local (reads nothing behind the terminator; ';' and <eof> interchangeable) the list entry point succeeds iff P succeeds on every token-containing raw statement, with the same results in order (lists_compose), the segments are exactly the splitter's pieces (segments_pieces), and lexing a piece on its own, shifted to its offset, gives exactly the tokens the whole input has in that range with the same positions (pieces_lex); compose puts the three together",
                        "proved for the DML fragment M2 (model MF/Model/Stmt2.lean, tied to ParseDML / ParseDMLs / ParseStatement / ParseStatements by the DML channel): the model of ParseDMLs returns the trees l iff the model of ParseDML returns l[i] on the i-th token-containing ';'-free segment followed by <eof> (dml_compose_model: proved directly for the model's own transcription stmtsLoop of the parseStatements loop; hypothesis: no token reads as unquoted SAFE_CAST / REPLACE_FIELDS, the fragment boundary of M1); the modelled DML statement parser, read as a total statement parser with an error flag (accept = the model answers ok with some fuel, the statement is followed by ';' or <eof>, no consumed token reads as unquoted SAFE_CAST / REPLACE_FIELDS; otherwise error and skip to the terminator), IS Local (dml_local), so the abstract theory applies to it (dml_lists_compose, dml_parseStatements_eq), acceptance of a segment is derivability from the documented grammar G_DML (dml_segment), and the abstract loop stmtLoop and the model's loop accept the same lists with the same trees (dml_lists_agree); it looks at tokens only through tokCore (dml_coreInv), hence the end-to-end statement with the lexer and the splitter holds for it (dml_compose: ParseDMLs on the tokens of buf = all-or-nothing of ParseDML, lexer included, on every token-containing raw statement of SplitRawStatements)",
                        "NOT proved: that memefish's parseStatement IS Local (it reads nothing after the terminator and keeps no state between statements): explored by the predicate on lists of 1..4 and of 260/1200 statements (partial)"],
    },
    "C16": {
        "module": "MF.Props.C16Lexer",
        "module_extra": ["MF.Props.C16Facts", "MF.Props.C16Expr", "MF.Props.C16Types"],
        "theorems": ["MF.Props.C16.trivia_lemma", "MF.Props.C16.trivia_lemma_indexed", "MF.Props.C16.trivia_lemma_kinds", "MF.Props.C16.token_uses",
                     "MF.Props.C16.respell_tokens_proj", "MF.Props.C16.respell_expr_partial", "MF.Props.C16.same_reads", "MF.Props.C16.respell_type"],
        "channels": ["LEX", "TREE", "EXPR", "TYPE"],
        "pred": True,
        "level": "proof",
        "trusted_base": M0_TRUST + ["specification MF/Spec/Respell.lean (what a re-spelling of a token stream is: new trivia, new case of keywords and unquoted identifiers)",
                         "translator tools/extract/parserfacts.go: every use of Token.Raw/AsString/Space/Comments in parser.go is regenerated and classified on every run (token_uses: Space and Comments are never read; Raw only in error messages, keyword tests, number/literal spellings and the '>>' split)", "no Lean model of the productions: that the tree is otherwise a function of the token kinds, AsString and Base is validated by the predicate on the real entry points"],
        "assumptions": ["lexer half proved for every input (trivia_lemma: a re-spelled input lexes to the same kinds, bases and decoded values)",
                        "parser half proved for the expression fragment M1 (respell_expr_partial: an accepted ParseExpr input re-spelled in trivia and keyword case parses to the SAME tree; hypotheses: identifier tokens keep their bytes, no identifier reads SAFE_CAST/REPLACE_FIELDS — inherited from C07.parse_complete); the model of parseExpr..parseLit is tied to the code by the EXPR channel",
                        "parser half proved for the ParseType entry point (respell_type: an accepted type re-spelled in trivia and keyword case, identifier tokens keeping their bytes, parses to a tree equal up to position values with the same SQL() text); model tied to the code by the TYPE channel; every other production explored (partial)"],
    },
    "C18": {
        "module": "MF.Props.C18",
        "module_extra": ["MF.Props.C11State"],
        "theorems": ["MF.Props.C18.ownership", "MF.Props.C18.schedule_prefix", "MF.Props.C18.schedule_independent", "MF.Props.C18.schedules_agree", "MF.Props.C18.sequential_complete", "MF.Props.C11.parser_state"],
        "channels": ["TREE"],
        "pred": True,
        "race": True,
        "level": "proof",
        "trusted_base": ["translator tools/extract/parserfacts.go (go/ast, purely syntactic): the call graph, defer/recover shapes, Bad* literal sites, p.errors assignments, <eof> tests, token-field uses, package variables of parser.go, parse_helpers.go, lexer.go, split.go are REGENERATED from /repo on every run (lean/MF/Gen/ParserFacts.lean) and the static conditions re-decided by the kernel", "abstraction MF/Model/Recovery.lean: only *Error panics are modelled (run-time panics are explored by the predicate under recover), calls leaving the four files neither raise *Error nor call back, a Part without recognised statement structure is read flow-insensitively (any order of its events)", "the Go race detector (harness built with -race) for the exploration half"],
        "assumptions": ["proved: (ownership, regenerated) no package-level variable of memefish, token, ast, char is written outside its declaration/init, there is no go statement and no import of sync/atomic/unsafe/time/rand; (abstract) calls whose steps read immutable globals and write only their own component give the same results under every interleaving and in every order",
                        "NOT proved: that each Parse* call writes only memory it allocated (no aliasing of caller-visible buffers between calls): explored with 16-way concurrent calls under the race detector and by comparing results across repeated and reordered calls (partial)"],
    },
}
