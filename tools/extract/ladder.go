// ladder.go — reads the operator-precedence ladder of parser.go (parseOr … parseUnary) into data.
//
// The ten ladder functions have one of four rigid shapes (see DESIGN.md §3.2 T, `Ladder.lean`):
//
//	loop    expr := p.X(); for { var op; switch p.Token.Kind { case "T": op = ast.OpY … default: return expr }; p.nextToken();
//	        expr = &ast.BinaryExpr{Left: expr, Op: op, Right: p.R()} }
//	        or  expr := p.X(); for p.Token.Kind == "T" { p.nextToken(); expr = &ast.BinaryExpr{Left: expr, Op: ast.OpY, Right: p.R()} }; return expr
//	once    expr := p.X(); var op; switch p.Token.Kind { simple and special cases; default: return expr }; p.nextToken();
//	        return &ast.BinaryExpr{Left: expr, Op: op, Right: p.R()}
//	prefix  if p.Token.Kind == "T" { …; p.nextToken(); return &ast.UnaryExpr{…, Op: ast.OpY, Expr: p.F()} }; return p.X()
//	        or  var op; switch p.Token.Kind { case "T": op = ast.OpY … default: return p.X() }; …; e := p.F(); …; return &ast.UnaryExpr{…, Op: op, Expr: e}
//
// Purely syntactic.  Whatever does not fit is emitted with a shape that starts with "unrecognised", and the Lean
// obligation `ladder_recognised` then fails to check (the check protocol takes over: EXPR channel + search).
package main

import (
	"fmt"
	"go/ast"
	"go/token"
	"path/filepath"
	"strings"
)

func init() { extraGenerators["Ladder.lean"] = genLadder }

type lcase struct {
	toks   []string
	op     string
	builds []string
	calls  []string
	sub    []lcase
}

type lfn struct {
	name, shape, operand, node string
	right                      []string
	cases                      []lcase
}

// the function names that make up the ladder are found by following the chain from parseExpr: the first callee
// whose name starts with "parse" in parseExpr's body, then each function's operand, until parseSelector.
const ladderStop = "parseSelector"

func isTokenKind(e ast.Expr) bool { // p.Token.Kind
	s, ok := e.(*ast.SelectorExpr)
	if !ok || s.Sel.Name != "Kind" {
		return false
	}
	s2, ok := s.X.(*ast.SelectorExpr)
	return ok && s2.Sel.Name == "Token" && isIdent(s2.X, "p")
}

func tokLit(e ast.Expr) string {
	switch x := e.(type) {
	case *ast.BasicLit:
		if x.Kind == token.STRING {
			return strings.Trim(x.Value, "\"`")
		}
	case *ast.SelectorExpr: // token.TokenXxx
		if isIdent(x.X, "token") {
			return "token." + x.Sel.Name
		}
	}
	return "<unrecognised>"
}

// p.parseX()  →  "parseX"
func pCall(e ast.Expr) string {
	c, ok := e.(*ast.CallExpr)
	if !ok {
		return ""
	}
	s, ok := c.Fun.(*ast.SelectorExpr)
	if !ok || !isIdent(s.X, "p") {
		return ""
	}
	return s.Sel.Name
}

// ast.OpX → "OpX"
func astConst(e ast.Expr) string {
	s, ok := e.(*ast.SelectorExpr)
	if ok && isIdent(s.X, "ast") {
		return s.Sel.Name
	}
	return ""
}

// &ast.K{…} → K, fields
func nodeLit(e ast.Expr) (string, map[string]ast.Expr) {
	u, ok := e.(*ast.UnaryExpr)
	if !ok || u.Op != token.AND {
		return "", nil
	}
	cl, ok := u.X.(*ast.CompositeLit)
	if !ok {
		return "", nil
	}
	k := astConst(cl.Type)
	fs := map[string]ast.Expr{}
	for _, el := range cl.Elts {
		if kv, ok := el.(*ast.KeyValueExpr); ok {
			if id, ok := kv.Key.(*ast.Ident); ok {
				fs[id.Name] = kv.Value
			}
		}
	}
	return k, fs
}

// everything a special case body does, in source order: node kinds built, parse functions called
func scanBody(stmts []ast.Stmt, skip ast.Node) (builds, calls []string) {
	for _, s := range stmts {
		ast.Inspect(s, func(n ast.Node) bool {
			if n == skip {
				return false
			}
			switch x := n.(type) {
			case *ast.CompositeLit:
				if k := astConst(x.Type); k != "" {
					builds = append(builds, k)
				}
			case *ast.CallExpr:
				if f := pCall(x); strings.HasPrefix(f, "parse") || strings.HasPrefix(f, "lookahead") || strings.HasPrefix(f, "tryParse") {
					calls = append(calls, f)
				}
			}
			return true
		})
	}
	return
}

func findKindSwitch(stmts []ast.Stmt) (*ast.SwitchStmt, int) {
	for i, s := range stmts {
		if sw, ok := s.(*ast.SwitchStmt); ok && sw.Init == nil && sw.Tag != nil && isTokenKind(sw.Tag) {
			return sw, i
		}
	}
	return nil, -1
}

// cases of a `switch p.Token.Kind`; def is the default clause's body
func readCases(sw *ast.SwitchStmt, depth int) (cases []lcase, def []ast.Stmt, hasDef bool) {
	for _, c := range sw.Body.List {
		cc := c.(*ast.CaseClause)
		if cc.List == nil {
			def, hasDef = cc.Body, true
			continue
		}
		lc := lcase{}
		for _, e := range cc.List {
			lc.toks = append(lc.toks, tokLit(e))
		}
		// simple: exactly `op = ast.OpX`
		if len(cc.Body) == 1 {
			if as, ok := cc.Body[0].(*ast.AssignStmt); ok && as.Tok == token.ASSIGN && len(as.Lhs) == 1 && len(as.Rhs) == 1 && isIdent(as.Lhs[0], "op") {
				if k := astConst(as.Rhs[0]); k != "" {
					lc.op = k
					cases = append(cases, lc)
					continue
				}
			}
		}
		// special: what it builds / calls, and one nested level of token dispatch
		var nested *ast.SwitchStmt
		if depth == 0 {
			nested, _ = findKindSwitch(cc.Body)
		}
		if nested != nil {
			lc.sub, _, _ = readCases(nested, depth+1)
			lc.builds, lc.calls = scanBody(cc.Body, nested)
		} else {
			lc.builds, lc.calls = scanBody(cc.Body, nil)
		}
		cases = append(cases, lc)
	}
	return
}

// accVar is the name of the accumulator variable of the function being read (`expr` in parser.go today; a renaming is harmless)
var accVar = "expr"

// `expr := p.X()`
func operandDecl(s ast.Stmt) string {
	as, ok := s.(*ast.AssignStmt)
	if !ok || as.Tok != token.DEFINE || len(as.Lhs) != 1 || len(as.Rhs) != 1 {
		return ""
	}
	id, ok := as.Lhs[0].(*ast.Ident)
	if !ok || pCall(as.Rhs[0]) == "" {
		return ""
	}
	accVar = id.Name
	return pCall(as.Rhs[0])
}

func isNextToken(s ast.Stmt) bool {
	es, ok := s.(*ast.ExprStmt)
	if !ok {
		return false
	}
	c, ok := es.X.(*ast.CallExpr)
	return ok && pCall(c) == "nextToken" && len(c.Args) == 0
}

func isVarOp(s ast.Stmt) bool {
	ds, ok := s.(*ast.DeclStmt)
	if !ok {
		return false
	}
	gd, ok := ds.Decl.(*ast.GenDecl)
	if !ok || gd.Tok != token.VAR || len(gd.Specs) != 1 {
		return false
	}
	vs := gd.Specs[0].(*ast.ValueSpec)
	return len(vs.Names) == 1 && vs.Names[0].Name == "op" && len(vs.Values) == 0
}

func returnsIdent(stmts []ast.Stmt, name string) bool {
	if len(stmts) != 1 {
		return false
	}
	r, ok := stmts[0].(*ast.ReturnStmt)
	return ok && len(r.Results) == 1 && isIdent(r.Results[0], name)
}

// the generic tail `&ast.BinaryExpr{Left: expr, Op: <op>, Right: p.R()}`; returns node kind, op expression, right callee
func binaryTail(e ast.Expr) (string, ast.Expr, string, bool) {
	k, fs := nodeLit(e)
	if k == "" || len(fs) != 3 || !isIdent(fs["Left"], accVar) || fs["Op"] == nil || fs["Right"] == nil {
		return "", nil, "", false
	}
	r := pCall(fs["Right"])
	return k, fs["Op"], r, r != ""
}

func readLadderFn(fd *ast.FuncDecl) lfn {
	f := lfn{name: fd.Name.Name}
	bad := func(why string) lfn { f.shape = "unrecognised: " + why; return f }
	b := fd.Body.List
	if len(b) == 0 {
		return bad("empty body")
	}
	if x := operandDecl(b[0]); x != "" {
		f.operand = x
		rest := b[1:]
		// loop, conditional form
		if len(rest) == 2 {
			if fs, ok := rest[0].(*ast.ForStmt); ok && fs.Init == nil && fs.Post == nil && fs.Cond != nil && returnsIdent(rest[1:], accVar) {
				be, ok := fs.Cond.(*ast.BinaryExpr)
				if !ok || be.Op != token.EQL || !isTokenKind(be.X) {
					return bad("loop condition")
				}
				body := fs.Body.List
				if len(body) != 2 || !isNextToken(body[0]) {
					return bad("loop body")
				}
				as, ok := body[1].(*ast.AssignStmt)
				if !ok || as.Tok != token.ASSIGN || len(as.Lhs) != 1 || !isIdent(as.Lhs[0], accVar) || len(as.Rhs) != 1 {
					return bad("loop assignment")
				}
				k, op, r, ok := binaryTail(as.Rhs[0])
				if !ok || astConst(op) == "" {
					return bad("loop literal")
				}
				f.shape, f.node, f.right = "loop", k, []string{r}
				f.cases = []lcase{{toks: []string{tokLit(be.Y)}, op: astConst(op)}}
				return f
			}
		}
		// loop, switch form
		if len(rest) == 1 {
			if fs, ok := rest[0].(*ast.ForStmt); ok && fs.Init == nil && fs.Post == nil && fs.Cond == nil {
				body := fs.Body.List
				if len(body) != 4 || !isVarOp(body[0]) || !isNextToken(body[2]) {
					return bad("switch-loop body")
				}
				sw, i := findKindSwitch(body)
				if sw == nil || i != 1 {
					return bad("switch-loop switch")
				}
				cases, def, hasDef := readCases(sw, 1)
				if !hasDef || !returnsIdent(def, accVar) {
					return bad("switch-loop default")
				}
				as, ok := body[3].(*ast.AssignStmt)
				if !ok || as.Tok != token.ASSIGN || len(as.Lhs) != 1 || !isIdent(as.Lhs[0], accVar) || len(as.Rhs) != 1 {
					return bad("switch-loop assignment")
				}
				k, op, r, ok := binaryTail(as.Rhs[0])
				if !ok || !isIdent(op, "op") {
					return bad("switch-loop literal")
				}
				f.shape, f.node, f.right, f.cases = "loop", k, []string{r}, cases
				return f
			}
		}
		// once
		if len(rest) == 4 && isVarOp(rest[0]) && isNextToken(rest[2]) {
			sw, i := findKindSwitch(rest)
			if sw == nil || i != 1 {
				return bad("once switch")
			}
			cases, def, hasDef := readCases(sw, 0)
			if !hasDef || !returnsIdent(def, accVar) {
				return bad("once default")
			}
			r, ok := rest[3].(*ast.ReturnStmt)
			if !ok || len(r.Results) != 1 {
				return bad("once return")
			}
			k, op, rc, ok := binaryTail(r.Results[0])
			if !ok || !isIdent(op, "op") {
				return bad("once literal")
			}
			f.shape, f.node, f.right, f.cases = "once", k, []string{rc}, cases
			return f
		}
		return bad("statements after the operand")
	}
	// prefix, if form
	if is, ok := b[0].(*ast.IfStmt); ok && len(b) == 2 && is.Init == nil && is.Else == nil {
		be, ok := is.Cond.(*ast.BinaryExpr)
		if !ok || be.Op != token.EQL || !isTokenKind(be.X) {
			return bad("prefix condition")
		}
		r, ok := b[1].(*ast.ReturnStmt)
		if !ok || len(r.Results) != 1 || pCall(r.Results[0]) == "" {
			return bad("prefix fall-through")
		}
		f.operand = pCall(r.Results[0])
		body := is.Body.List
		if len(body) < 2 {
			return bad("prefix body")
		}
		nexts := 0
		for _, s := range body[:len(body)-1] {
			if isNextToken(s) {
				nexts++
			}
		}
		ret, ok := body[len(body)-1].(*ast.ReturnStmt)
		if !ok || len(ret.Results) != 1 || nexts != 1 {
			return bad("prefix body shape")
		}
		k, fs := nodeLit(ret.Results[0])
		if k == "" || astConst(fs["Op"]) == "" || pCall(fs["Expr"]) == "" {
			return bad("prefix literal")
		}
		f.shape, f.node, f.right = "prefix", k, []string{pCall(fs["Expr"])}
		f.cases = []lcase{{toks: []string{tokLit(be.Y)}, op: astConst(fs["Op"])}}
		return f
	}
	// prefix, switch form
	if isVarOp(b[0]) && len(b) >= 4 {
		sw, i := findKindSwitch(b)
		if sw == nil || i != 1 {
			return bad("prefix switch")
		}
		cases, def, hasDef := readCases(sw, 1)
		if !hasDef || len(def) != 1 {
			return bad("prefix default")
		}
		r, ok := def[0].(*ast.ReturnStmt)
		if !ok || len(r.Results) != 1 || pCall(r.Results[0]) == "" {
			return bad("prefix default return")
		}
		f.operand = pCall(r.Results[0])
		// after the switch: exactly one nextToken at top level, `e := p.F()`, final `return &ast.UnaryExpr{…, Op: op, Expr: e}`
		nexts, inner := 0, ""
		for _, s := range b[2 : len(b)-1] {
			if isNextToken(s) {
				nexts++
			}
			if as, ok := s.(*ast.AssignStmt); ok && as.Tok == token.DEFINE && len(as.Lhs) == 1 && len(as.Rhs) == 1 && isIdent(as.Lhs[0], "e") {
				inner = pCall(as.Rhs[0])
			}
		}
		ret, ok := b[len(b)-1].(*ast.ReturnStmt)
		if !ok || len(ret.Results) != 1 || nexts != 1 || inner == "" {
			return bad("prefix tail")
		}
		k, fs := nodeLit(ret.Results[0])
		if k == "" || !isIdent(fs["Op"], "op") || !isIdent(fs["Expr"], "e") {
			return bad("prefix literal")
		}
		f.shape, f.node, f.right, f.cases = "prefix", k, []string{inner}, cases
		return f
	}
	return bad("no known shape")
}

func (c lcase) lean(withSub bool) string {
	q := func(xs []string) string {
		var ys []string
		for _, x := range xs {
			ys = append(ys, leanStr(x))
		}
		return leanList(ys)
	}
	s := fmt.Sprintf("⟨%s, %s, %s, %s", q(c.toks), leanStr(c.op), q(c.builds), q(c.calls))
	if withSub {
		var subs []string
		for _, d := range c.sub {
			subs = append(subs, d.lean(false)+"⟩")
		}
		s += ", " + leanList(subs) + "⟩"
	}
	return s
}

func genLadder(repo string, cat *catalog) string {
	f := parseFile(filepath.Join(repo, "parser.go"))
	fns := map[string]*ast.FuncDecl{}
	for _, d := range f.Decls {
		if fd, ok := d.(*ast.FuncDecl); ok && fd.Recv != nil && fd.Body != nil {
			fns[fd.Name.Name] = fd
		}
	}
	var sb strings.Builder
	sb.WriteString(header)
	sb.WriteString("import MF.Model.Ladder\nnamespace MF.Gen\nopen MF.Ladder\n\n")
	// entry: the parse function parseExpr calls
	entry := ""
	if pe := fns["parseExpr"]; pe != nil {
		_, calls := scanBody(pe.Body.List, nil)
		for _, c := range calls {
			if strings.HasPrefix(c, "parse") {
				entry = c
				break
			}
		}
	}
	fmt.Fprintf(&sb, "/-- the function `parseExpr` descends into -/\ndef ladderEntry : String := %s\n\n", leanStr(entry))
	var rows []string
	seen := map[string]bool{}
	for cur := entry; cur != "" && cur != ladderStop && !seen[cur] && len(rows) < 40; {
		seen[cur] = true
		fd := fns[cur]
		if fd == nil {
			rows = append(rows, fmt.Sprintf("⟨%s, \"unrecognised: no such function\", \"\", \"\", [], []⟩", leanStr(cur)))
			break
		}
		l := readLadderFn(fd)
		var cs []string
		for _, c := range l.cases {
			cs = append(cs, c.lean(true))
		}
		var rs []string
		for _, r := range l.right {
			rs = append(rs, leanStr(r))
		}
		rows = append(rows, fmt.Sprintf("⟨%s, %s, %s, %s, %s,\n    %s⟩", leanStr(l.name), leanStr(l.shape), leanStr(l.operand), leanStr(l.node), leanList(rs), leanList(cs)))
		cur = l.operand
	}
	fmt.Fprintf(&sb, "/-- the ladder functions in descent order (loosest first), read from parser.go -/\ndef ladder : List LFn := [\n  %s]\n\nend MF.Gen\n", strings.Join(rows, ",\n  "))
	return sb.String()
}
