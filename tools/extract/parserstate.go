package main

// parserstate.go — the mutable state a Parser carries from one statement to the next.
//
// Output lean/MF/Gen/ParserState.lean:
//   parserFields      the fields declared in `type Parser struct` (name, type text, embedded?)
//   parserFieldUses   every place in the non-test files of package memefish where a field DECLARED IN Parser (not a
//                     promoted Lexer field) of a value named like a Parser receiver is assigned, op-assigned, inc/dec-ed,
//                     has its address taken, or is the receiver of a method call / argument of append-like mutation:
//                     (function, field, kind, position, source)
// The Lean side (MF/Props/C11State.lean) requires that the only own field ever written is `errors` (whose writes the
// C09 facts pin to `x.errors = append(x.errors, e)`), i.e. apart from the lexer position and the error list a Parser
// has no state that a statement could leave behind for the next one.

import (
	"fmt"
	"go/ast"
	"go/parser"
	"go/token"
	"os"
	"path/filepath"
	"sort"
	"strings"
)

func init() { extraGenerators["ParserState.lean"] = genParserState }

func genParserState(repo string, _ *catalog) string {
	fset := token.NewFileSet()
	ents, err := os.ReadDir(repo)
	if err != nil {
		panic(err)
	}
	var files []*ast.File
	var names []string
	for _, e := range ents {
		n := e.Name()
		if e.IsDir() || !strings.HasSuffix(n, ".go") || strings.HasSuffix(n, "_test.go") || n == "export_verif.go" {
			continue
		}
		names = append(names, n)
	}
	sort.Strings(names)
	for _, n := range names {
		f, err := parser.ParseFile(fset, filepath.Join(repo, n), nil, 0)
		if err != nil {
			panic(err)
		}
		if f.Name.Name == "memefish" {
			files = append(files, f)
		}
	}
	// the struct
	own := map[string]bool{}
	var fields []string
	for _, f := range files {
		for _, d := range f.Decls {
			gd, ok := d.(*ast.GenDecl)
			if !ok {
				continue
			}
			for _, sp := range gd.Specs {
				ts, ok := sp.(*ast.TypeSpec)
				if !ok || ts.Name.Name != "Parser" {
					continue
				}
				st, ok := ts.Type.(*ast.StructType)
				if !ok {
					continue
				}
				for _, fl := range st.Fields.List {
					typ := srcOf(fset, fl.Type)
					if len(fl.Names) == 0 {
						name := strings.TrimPrefix(typ, "*")
						if i := strings.LastIndex(name, "."); i >= 0 {
							name = name[i+1:]
						}
						own[name] = true
						fields = append(fields, fmt.Sprintf("⟨%s, %s, true⟩", leanStr(name), leanStr(typ)))
					}
					for _, nm := range fl.Names {
						own[nm.Name] = true
						fields = append(fields, fmt.Sprintf("⟨%s, %s, false⟩", leanStr(nm.Name), leanStr(typ)))
					}
				}
			}
		}
	}
	// names of values of type Parser / *Parser: receivers, parameters, results, and locals initialised from &Parser{…} / newParser(…)
	var uses []string
	for _, f := range files {
		for _, d := range f.Decls {
			fd, ok := d.(*ast.FuncDecl)
			if !ok || fd.Body == nil {
				continue
			}
			fname := fd.Name.Name
			pv := map[string]bool{}
			addList := func(fl *ast.FieldList) {
				if fl == nil {
					return
				}
				for _, x := range fl.List {
					if isParserType(x.Type) {
						for _, n := range x.Names {
							pv[n.Name] = true
						}
					}
				}
			}
			addList(fd.Recv)
			addList(fd.Type.Params)
			addList(fd.Type.Results)
			if fd.Recv != nil && len(fd.Recv.List) == 1 {
				fname = strings.TrimPrefix(srcOf(fset, fd.Recv.List[0].Type), "*") + "." + fname
			}
			ast.Inspect(fd.Body, func(n ast.Node) bool {
				if as, ok := n.(*ast.AssignStmt); ok && as.Tok == token.DEFINE {
					for i, r := range as.Rhs {
						if i < len(as.Lhs) && makesParser(r) {
							if id, ok := as.Lhs[i].(*ast.Ident); ok {
								pv[id.Name] = true
							}
						}
					}
				}
				return true
			})
			ownField := func(e ast.Expr) (string, bool) {
				for {
					switch t := e.(type) {
					case *ast.ParenExpr:
						e = t.X
						continue
					case *ast.IndexExpr:
						e = t.X
						continue
					case *ast.SliceExpr:
						e = t.X
						continue
					case *ast.StarExpr:
						e = t.X
						continue
					case *ast.SelectorExpr:
						if id, ok := t.X.(*ast.Ident); ok && pv[id.Name] && own[t.Sel.Name] {
							return t.Sel.Name, true
						}
						e = t.X
						continue
					}
					return "", false
				}
			}
			rec := func(field, kind string, n ast.Node) {
				p := fset.Position(n.Pos())
				uses = append(uses, fmt.Sprintf("⟨%s, %s, .%s, %s, %s⟩", leanStr(fname), leanStr(field), kind,
					leanStr(fmt.Sprintf("%s:%d", filepath.Base(p.Filename), p.Line)), leanStr(oneLine(srcOf(fset, n)))))
			}
			ast.Inspect(fd.Body, func(n ast.Node) bool {
				switch t := n.(type) {
				case *ast.AssignStmt:
					for _, l := range t.Lhs {
						if f, ok := ownField(l); ok {
							rec(f, "assign", t)
						}
					}
				case *ast.IncDecStmt:
					if f, ok := ownField(t.X); ok {
						rec(f, "incdec", t)
					}
				case *ast.UnaryExpr:
					if t.Op == token.AND {
						if f, ok := ownField(t.X); ok {
							rec(f, "addr", t)
						}
					}
				case *ast.CallExpr:
					// p.field.Method(...): a method call on an own field may mutate it
					if se, ok := t.Fun.(*ast.SelectorExpr); ok {
						if inner, ok := se.X.(*ast.SelectorExpr); ok {
							if id, ok := inner.X.(*ast.Ident); ok && pv[id.Name] && own[inner.Sel.Name] && !isEmbeddedLexer(inner.Sel.Name) {
								rec(inner.Sel.Name, "method", t)
							}
						}
					}
				}
				return true
			})
		}
	}
	var sb strings.Builder
	sb.WriteString("-- GENERATED by tools/extract/parserstate.go on every run; do not edit\nnamespace MF.Gen.ParserState\n\n")
	sb.WriteString("inductive UseKind | assign | incdec | addr | method\n  deriving Repr, DecidableEq\n\n")
	sb.WriteString("structure Field where\n  name : String\n  type : String\n  embedded : Bool\n  deriving Repr, DecidableEq\n\n")
	sb.WriteString("structure FieldUse where\n  func : String\n  field : String\n  kind : UseKind\n  pos : String\n  src : String\n  deriving Repr, DecidableEq\n\n")
	sb.WriteString("def parserFields : List Field := [\n  " + strings.Join(fields, ",\n  ") + "]\n\n")
	sb.WriteString("def parserFieldUses : List FieldUse := [\n  " + strings.Join(uses, ",\n  ") + "]\n\n")
	sb.WriteString("end MF.Gen.ParserState\n")
	return sb.String()
}

func isEmbeddedLexer(name string) bool { return name == "Lexer" }

func isParserType(e ast.Expr) bool {
	if s, ok := e.(*ast.StarExpr); ok {
		e = s.X
	}
	id, ok := e.(*ast.Ident)
	return ok && id.Name == "Parser"
}

func makesParser(e ast.Expr) bool {
	switch t := e.(type) {
	case *ast.UnaryExpr:
		if t.Op == token.AND {
			return makesParser(t.X)
		}
	case *ast.CompositeLit:
		return isParserType(t.Type)
	case *ast.CallExpr:
		if id, ok := t.Fun.(*ast.Ident); ok && id.Name == "newParser" {
			return true
		}
	}
	return false
}

func srcOf(fset *token.FileSet, n ast.Node) string {
	b, err := os.ReadFile(fset.Position(n.Pos()).Filename)
	if err != nil {
		return ""
	}
	return string(b[fset.Position(n.Pos()).Offset:fset.Position(n.End()).Offset])
}

func oneLine(s string) string {
	s = strings.Join(strings.Fields(s), " ")
	if len(s) > 160 {
		s = s[:160] + "…"
	}
	return s
}
