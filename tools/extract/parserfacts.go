package main

// parserfacts.go — the only part of the extractor that reads parser.go.  Purely syntactic (go/ast; identifier
// resolution is go/parser's own file-local one, types are guessed by the small inference below and every guess that
// fails is reported in a table that the Lean side requires to be empty).  Output: lean/MF/Gen/ParserFacts.lean, types in
// lean/MF/Model/Facts.lean.
//
//   (a) call graph of parser.go, parse_helpers.go, lexer.go, split.go                → funcs
//   (b) every `ast.Bad…{…}` literal                                                 → badLits
//   (c) body shape of the exported Parser.Parse… methods (+ helpers' delegation)  → entryShapes, helperShapes
//   (d) comparisons with token.TokenEOF in parser.go                               → eofSites
//   (e) .Raw/.AsString/.Space/.Comments selectors in parser.go (+ token.go's helpers) → tokenUses
//   (f) package-level variables, writes to them, go statements, listed imports   → pkgVars, varWrites, goStmts, imports
//   (g) every assignment to `<x>.errors`                                          → errWrites

import (
	"fmt"
	"go/ast"
	"go/token"
	"os"
	"path/filepath"
	"sort"
	"strconv"
	"strings"
)

func init() { extraGenerators["ParserFacts.lean"] = genParserFacts }

var pfFiles = []string{"parser.go", "parse_helpers.go", "lexer.go", "split.go"}

// ---------------------------------------------------------------------------------------------
// data

type pfPart struct {
	callees    []string
	ext        []string
	raises     bool
	rethrows   bool
	lexPanic   bool
	lexRecover bool
	errAppends int
	errOther   int
	bads       []string
	code       string // Lean term of type Code, "" if none
}

type pfFunc struct {
	key, recv, name, file string
	decl                  *ast.FuncDecl
	id                    int
	role                  string
	pre, body             pfPart
	handler               *pfPart
	handlerFn, wrapper    string
	plainDefers           []pfPart
	oddRecover            bool
	dynCalls              []string
	dynOnlyParams         bool
	// recognised shape
	deferIdx   int            // index of the recover-defer in the body list, -1 if none
	handlerBlk *ast.BlockStmt // statements of `if r := recover(); r != nil { … }`
	recVar     *ast.Object    // the `r`
	rethrowAt  map[*ast.CallExpr]bool
}

type pfStruct struct {
	fields   map[string]string // field name -> guessed type
	embedded []string          // guessed types of embedded fields
}

type pf struct {
	funcs    map[string]*pfFunc
	order    []*pfFunc
	structs  map[string]*pfStruct
	types    map[string]bool // all package-level type names of package memefish
	methodsN map[string][]string
	files    map[string]*ast.File

	badLits      []string
	errWrites    []string
	funcValUses  []string
	unresolved   []string
	ambiguous    []string
	codeFailures []string
}

// ---------------------------------------------------------------------------------------------
// tiny type inference: "Parser", "Lexer" (in-package structs), "Token" (token.Token), "ext" (anything known to be
// foreign), "" (unknown)

func (x *pf) typeOfTypeExpr(e ast.Expr) string {
	switch t := e.(type) {
	case *ast.StarExpr:
		return x.typeOfTypeExpr(t.X)
	case *ast.ParenExpr:
		return x.typeOfTypeExpr(t.X)
	case *ast.Ident:
		if _, ok := x.structs[t.Name]; ok {
			return t.Name
		}
		return "ext"
	case *ast.SelectorExpr:
		if id, ok := t.X.(*ast.Ident); ok && id.Name == "token" && t.Sel.Name == "Token" {
			return "Token"
		}
		return "ext"
	case nil:
		return ""
	}
	return "ext"
}

func (x *pf) fieldType(t, name string) string {
	st, ok := x.structs[t]
	if !ok {
		if t == "Token" || t == "ext" {
			return "ext"
		}
		return ""
	}
	if ft, ok := st.fields[name]; ok {
		return ft
	}
	for _, e := range st.embedded {
		if _, ok := x.structs[e]; ok {
			if ft := x.fieldType(e, name); ft != "" {
				return ft
			}
		}
	}
	for _, e := range st.embedded {
		if e == "ext" {
			return "ext"
		}
	}
	return ""
}

// resolveMethod: the key of the in-package method `t.name`, "ext" if it must belong to a foreign embedded type, "" if unknown
func (x *pf) resolveMethod(t, name string) string {
	st, ok := x.structs[t]
	if !ok {
		return ""
	}
	if _, ok := x.funcs[t+"."+name]; ok {
		return t + "." + name
	}
	for _, e := range st.embedded {
		if _, ok := x.structs[e]; ok {
			if r := x.resolveMethod(e, name); r != "" {
				return r
			}
		}
	}
	for _, e := range st.embedded {
		if e == "ext" {
			return "ext"
		}
	}
	return ""
}

type pfEnv struct {
	x     *pf
	types map[*ast.Object]string
	file  *ast.File
}

func (x *pf) newEnv(f *pfFunc) *pfEnv {
	env := &pfEnv{x: x, types: map[*ast.Object]string{}, file: x.files[f.file]}
	bind := func(fl *ast.FieldList) {
		if fl == nil {
			return
		}
		for _, fd := range fl.List {
			for _, n := range fd.Names {
				if n.Obj != nil {
					env.types[n.Obj] = x.typeOfTypeExpr(fd.Type)
					if _, isFn := fd.Type.(*ast.FuncType); isFn {
						env.types[n.Obj] = "func"
					}
				}
			}
		}
	}
	bind(f.decl.Recv)
	bind(f.decl.Type.Params)
	bind(f.decl.Type.Results)
	// locals, in source order (a second pass is not needed: uses follow definitions)
	ast.Inspect(f.decl.Body, func(n ast.Node) bool {
		switch s := n.(type) {
		case *ast.AssignStmt:
			if s.Tok == token.DEFINE {
				for i, l := range s.Lhs {
					id, ok := l.(*ast.Ident)
					if !ok || id.Obj == nil {
						continue
					}
					if _, done := env.types[id.Obj]; done {
						continue
					}
					t := ""
					if len(s.Rhs) == len(s.Lhs) {
						t = env.typeOf(s.Rhs[i])
					} else if len(s.Rhs) == 1 && i == 0 {
						if ta, ok := s.Rhs[0].(*ast.TypeAssertExpr); ok && ta.Type != nil {
							t = x.typeOfTypeExpr(ta.Type)
						}
					}
					env.types[id.Obj] = t
				}
			}
		case *ast.ValueSpec:
			for i, n := range s.Names {
				if n.Obj == nil {
					continue
				}
				if s.Type != nil {
					env.types[n.Obj] = x.typeOfTypeExpr(s.Type)
					if _, isFn := s.Type.(*ast.FuncType); isFn {
						env.types[n.Obj] = "func"
					}
				} else if i < len(s.Values) {
					env.types[n.Obj] = env.typeOf(s.Values[i])
				}
			}
		case *ast.FuncLit:
			if s.Type.Params != nil {
				for _, fd := range s.Type.Params.List {
					for _, n := range fd.Names {
						if n.Obj != nil {
							env.types[n.Obj] = x.typeOfTypeExpr(fd.Type)
						}
					}
				}
			}
		}
		return true
	})
	return env
}

func (env *pfEnv) isPkgIdent(e ast.Expr) (string, bool) {
	id, ok := e.(*ast.Ident)
	if !ok || id.Obj != nil {
		return "", false
	}
	for _, im := range env.file.Imports {
		p, _ := strconv.Unquote(im.Path.Value)
		name := p[strings.LastIndex(p, "/")+1:]
		if im.Name != nil {
			name = im.Name.Name
		}
		if name == id.Name {
			return name, true
		}
	}
	return "", false
}

func (env *pfEnv) typeOf(e ast.Expr) string {
	x := env.x
	switch t := e.(type) {
	case *ast.Ident:
		if t.Obj != nil {
			return env.types[t.Obj]
		}
		return ""
	case *ast.ParenExpr:
		return env.typeOf(t.X)
	case *ast.StarExpr:
		return env.typeOf(t.X)
	case *ast.UnaryExpr:
		if t.Op == token.AND {
			return env.typeOf(t.X)
		}
		return "ext"
	case *ast.BasicLit, *ast.BinaryExpr:
		return "ext"
	case *ast.CompositeLit:
		if t.Type == nil {
			return ""
		}
		return x.typeOfTypeExpr(t.Type)
	case *ast.SelectorExpr:
		if _, ok := env.isPkgIdent(t.X); ok {
			return "ext"
		}
		return x.fieldType(env.typeOf(t.X), t.Sel.Name)
	case *ast.CallExpr:
		k, _ := env.calleeOf(t)
		if f, ok := x.funcs[k]; ok {
			if r := f.decl.Type.Results; r != nil && len(r.List) == 1 && len(r.List[0].Names) <= 1 {
				return x.typeOfTypeExpr(r.List[0].Type)
			}
			return "ext"
		}
		if se, ok := t.Fun.(*ast.SelectorExpr); ok && env.typeOf(se.X) == "Token" && se.Sel.Name == "Clone" {
			return "Token"
		}
		return ""
	}
	return ""
}

// calleeOf classifies the function position of a call:
//
//	kind "pkg"  : key = in-package function or method
//	kind "ext"  : key = source text (foreign package / foreign method)
//	kind "builtin": conversion or builtin other than panic, recover
//	kind "dyn"  : call through a variable / parameter / expression
//	kind "amb"  : receiver type unknown, the method name exists in the package (key = name)
//	kind "unres": in-package receiver without such a method
//	kind "panic", "recover"
func (env *pfEnv) calleeOf(c *ast.CallExpr) (key, kind string) {
	x := env.x
	fun := c.Fun
	for {
		switch f := fun.(type) {
		case *ast.ParenExpr:
			fun = f.X
			continue
		case *ast.IndexExpr: // explicit instantiation f[T](…)
			if id, ok := f.X.(*ast.Ident); ok && id.Obj == nil {
				if _, ok := x.funcs[id.Name]; ok {
					fun = f.X
					continue
				}
			}
		case *ast.IndexListExpr:
			if id, ok := f.X.(*ast.Ident); ok && id.Obj == nil {
				if _, ok := x.funcs[id.Name]; ok {
					fun = f.X
					continue
				}
			}
		}
		break
	}
	switch f := fun.(type) {
	case *ast.Ident:
		if f.Obj != nil {
			switch f.Obj.Kind {
			case ast.Fun:
				if _, ok := x.funcs[f.Name]; ok {
					return f.Name, "pkg"
				}
			case ast.Typ:
				return f.Name, "builtin"
			}
			return f.Name, "dyn"
		}
		if _, ok := x.funcs[f.Name]; ok {
			return f.Name, "pkg"
		}
		if x.types[f.Name] {
			return f.Name, "builtin" // conversion to an in-package type (MultiError(…))
		}
		switch f.Name {
		case "panic":
			return "panic", "panic"
		case "recover":
			return "recover", "recover"
		case "append", "len", "cap", "make", "new", "copy", "delete", "min", "max", "clear", "close", "print", "println",
			"string", "byte", "rune", "int", "int8", "int16", "int32", "int64", "uint", "uint8", "uint16", "uint32",
			"uint64", "float32", "float64", "bool", "any", "error", "complex", "real", "imag", "uintptr":
			return f.Name, "builtin"
		}
		return f.Name, "unres"
	case *ast.SelectorExpr:
		if p, ok := env.isPkgIdent(f.X); ok {
			return p + "." + f.Sel.Name, "ext"
		}
		tx := env.typeOf(f.X)
		switch tx {
		case "Parser", "Lexer":
			switch m := x.resolveMethod(tx, f.Sel.Name); m {
			case "ext":
				return src(fun), "ext"
			case "":
				if ft := x.fieldType(tx, f.Sel.Name); ft != "" {
					return src(fun), "dyn"
				}
				return src(fun), "unres"
			default:
				return m, "pkg"
			}
		case "Token", "ext":
			return src(fun), "ext"
		case "func":
			return src(fun), "dyn"
		}
		if len(x.methodsN[f.Sel.Name]) > 0 {
			return f.Sel.Name, "amb"
		}
		return src(fun), "ext"
	case *ast.ArrayType, *ast.MapType, *ast.StarExpr, *ast.InterfaceType, *ast.ChanType, *ast.FuncType:
		return src(fun), "builtin" // conversion
	case *ast.FuncLit:
		return "<func literal>", "lit"
	}
	return src(fun), "dyn"
}

// funcValue: the expression denotes an in-package function or method WITHOUT calling it
func (env *pfEnv) funcValue(e ast.Expr) (string, bool) {
	x := env.x
	switch f := e.(type) {
	case *ast.ParenExpr:
		return env.funcValue(f.X)
	case *ast.Ident:
		if f.Obj == nil || f.Obj.Kind == ast.Fun {
			if fn, ok := x.funcs[f.Name]; ok && fn.recv == "" {
				return f.Name, true
			}
		}
	case *ast.SelectorExpr:
		if _, ok := env.isPkgIdent(f.X); ok {
			return "", false
		}
		tx := env.typeOf(f.X)
		if tx == "Parser" || tx == "Lexer" {
			if m := x.resolveMethod(tx, f.Sel.Name); m != "" && m != "ext" {
				return m, true
			}
		}
		if tx == "" && len(x.methodsN[f.Sel.Name]) > 0 && x.fieldTypeAnywhere(f.Sel.Name) == "" {
			return f.Sel.Name, true // unknown receiver: reported through the ambiguous table by the caller
		}
	}
	return "", false
}

func (x *pf) fieldTypeAnywhere(name string) string {
	for _, st := range x.structs {
		if t, ok := st.fields[name]; ok {
			if t == "" {
				return "?"
			}
			return t
		}
	}
	return ""
}

// ---------------------------------------------------------------------------------------------
// events of one syntactic region, flow-insensitively

type pfScan struct {
	x     *pf
	env   *pfEnv
	f     *pfFunc
	part  *pfPart
	kind  string // pre | body | handler | defer
	coder bool   // used by the structured translation (second visit of the nodes)
}

func addUniq(l []string, s string) []string {
	for _, t := range l {
		if t == s {
			return l
		}
	}
	return append(l, s)
}

func pos(n ast.Node) string {
	p := fset.Position(n.Pos())
	return fmt.Sprintf("%s:%d:%d", filepath.Base(p.Filename), p.Line, p.Column)
}
func line(n ast.Node) int { return fset.Position(n.Pos()).Line }

// isRethrow: panic(v) where v is the recovered value: the `r` of the recognised recover shape, or a parameter of type
// any/interface{} in the branch in which the type assertion `_, ok := v.(*Error)` failed
func (sc *pfScan) isRethrow(c *ast.CallExpr, stack []ast.Node) bool {
	if sc.coder {
		// the structured translation re-visits a node the flow-insensitive scan has classified already
		return sc.f.rethrowAt[c]
	}
	r := sc.isRethrow1(c, stack)
	if r {
		if sc.f.rethrowAt == nil {
			sc.f.rethrowAt = map[*ast.CallExpr]bool{}
		}
		sc.f.rethrowAt[c] = true
	}
	return r
}

func (sc *pfScan) isRethrow1(c *ast.CallExpr, stack []ast.Node) bool {
	if len(c.Args) != 1 {
		return false
	}
	id, ok := c.Args[0].(*ast.Ident)
	if !ok || id.Obj == nil {
		return false
	}
	if sc.f.recVar != nil && id.Obj == sc.f.recVar && sc.kind == "handler" {
		return sc.guardedNotError(id, stack)
	}
	// parameter of type any
	if fld, ok := id.Obj.Decl.(*ast.Field); ok {
		isAny := false
		switch t := fld.Type.(type) {
		case *ast.Ident:
			isAny = t.Name == "any"
		case *ast.InterfaceType:
			isAny = t.Methods == nil || len(t.Methods.List) == 0
		}
		return isAny && sc.guardedNotError(id, stack)
	}
	return false
}

// guardedNotError: the panic sits in `if !ok {…}` (or the else of `if ok {…}`) with `_, ok := v.(*Error)` before it
func (sc *pfScan) guardedNotError(v *ast.Ident, stack []ast.Node) bool {
	var okObj *ast.Object
	ast.Inspect(sc.f.decl.Body, func(n ast.Node) bool {
		as, ok := n.(*ast.AssignStmt)
		if !ok || len(as.Lhs) != 2 || len(as.Rhs) != 1 {
			return true
		}
		ta, ok := as.Rhs[0].(*ast.TypeAssertExpr)
		if !ok || ta.Type == nil || src(ta.Type) != "*Error" {
			return true
		}
		if tid, ok := ta.X.(*ast.Ident); !ok || tid.Obj != v.Obj {
			return true
		}
		if oid, ok := as.Lhs[1].(*ast.Ident); ok {
			okObj = oid.Obj
		}
		return true
	})
	if okObj == nil {
		return false
	}
	for i := len(stack) - 1; i > 0; i-- {
		ifs, ok := stack[i-1].(*ast.IfStmt)
		if !ok {
			continue
		}
		blk := stack[i]
		if u, ok := ifs.Cond.(*ast.UnaryExpr); ok && u.Op == token.NOT && blk == ast.Node(ifs.Body) {
			if id, ok := u.X.(*ast.Ident); ok && id.Obj == okObj {
				return true
			}
		}
		if id, ok := ifs.Cond.(*ast.Ident); ok && id.Obj == okObj && ifs.Else != nil && blk == ast.Node(ifs.Else) {
			return true
		}
	}
	return false
}

func isLexNextToken(key string) bool { return key == "Lexer.nextToken" }

// errorsTarget: the expression is (a part of) `<x>.errors`
func errorsTarget(e ast.Expr) bool {
	for {
		switch t := e.(type) {
		case *ast.ParenExpr:
			e = t.X
		case *ast.IndexExpr:
			e = t.X
		case *ast.SliceExpr:
			e = t.X
		case *ast.StarExpr:
			e = t.X
		case *ast.SelectorExpr:
			return t.Sel.Name == "errors"
		default:
			return false
		}
	}
}

func isAppendOne(as *ast.AssignStmt) bool {
	if as.Tok != token.ASSIGN || len(as.Lhs) != 1 || len(as.Rhs) != 1 {
		return false
	}
	l, ok := as.Lhs[0].(*ast.SelectorExpr)
	if !ok || l.Sel.Name != "errors" {
		return false
	}
	if _, ok := l.X.(*ast.Ident); !ok {
		return false
	}
	c, ok := as.Rhs[0].(*ast.CallExpr)
	if !ok || len(c.Args) != 2 || c.Ellipsis.IsValid() {
		return false
	}
	if id, ok := c.Fun.(*ast.Ident); !ok || id.Name != "append" || id.Obj != nil {
		return false
	}
	return src(c.Args[0]) == src(l)
}

func badKind(cl *ast.CompositeLit) (string, bool) {
	se, ok := cl.Type.(*ast.SelectorExpr)
	if !ok {
		return "", false
	}
	if id, ok := se.X.(*ast.Ident); !ok || id.Name != "ast" {
		return "", false
	}
	if strings.HasPrefix(se.Sel.Name, "Bad") {
		return se.Sel.Name, true
	}
	return "", false
}

// atom: the event (Lean term) of a single node, "" if none; also accumulates the flow-insensitive facts
func (sc *pfScan) atom(n ast.Node, stack []ast.Node) (atoms []string) {
	x, p := sc.x, sc.part
	switch t := n.(type) {
	case *ast.CallExpr:
		key, kind := sc.env.calleeOf(t)
		switch kind {
		case "pkg":
			if isLexNextToken(key) {
				if len(t.Args) == 1 {
					if id, ok := t.Args[0].(*ast.Ident); ok && id.Name == "true" && id.Obj == nil {
						p.lexRecover = true
						atoms = append(atoms, "(.lex false)")
						break
					}
				}
				p.lexPanic = true
				atoms = append(atoms, "(.lex true)")
				break
			}
			p.callees = addUniq(p.callees, key)
			if strings.HasPrefix(x.funcs[key].name, "panicf") {
				p.raises = true
			}
			if key == "Parser.nextToken" {
				p.lexPanic = true // `p.nextToken()` is the panic-mode lexer step
			}
			atoms = append(atoms, "(.call "+strconv.Itoa(x.funcs[key].id)+")")
		case "ext":
			p.ext = addUniq(p.ext, key)
		case "dyn":
			sc.f.dynCalls = addUniq(sc.f.dynCalls, key)
			ok := false
			if id, isId := t.Fun.(*ast.Ident); isId && id.Obj != nil {
				if fld, isField := id.Obj.Decl.(*ast.Field); isField {
					if _, isFn := fld.Type.(*ast.FuncType); isFn {
						ok = true
					}
				}
			}
			if !ok {
				sc.f.dynOnlyParams = false
			}
			atoms = append(atoms, "<dyn>")
		case "amb":
			x.ambiguous = append(x.ambiguous, fmt.Sprintf("%s: %s", pos(t), src(t.Fun)))
			for _, m := range x.methodsN[key] {
				p.callees = addUniq(p.callees, m)
				atoms = append(atoms, "(.call "+strconv.Itoa(x.funcs[m].id)+")")
			}
		case "unres":
			x.unresolved = append(x.unresolved, fmt.Sprintf("%s: %s", pos(t), src(t.Fun)))
		case "panic":
			if sc.isRethrow(t, stack) {
				p.rethrows = true
			} else {
				p.raises = true
				atoms = append(atoms, ".raise")
			}
		case "recover":
			// the recognised one is the Init of the handler's `if`, which is never scanned
			sc.f.oddRecover = true
		}
		// function values among the arguments count as calls of the caller
		for i, a := range t.Args {
			if fv, ok := sc.env.funcValue(a); ok {
				targets := []string{fv}
				if _, isKey := x.funcs[fv]; !isKey {
					targets = x.methodsN[fv]
					x.ambiguous = append(x.ambiguous, fmt.Sprintf("%s: %s", pos(a), src(a)))
				}
				for _, m := range targets {
					p.callees = addUniq(p.callees, m)
					atoms = append(atoms, "(.call "+strconv.Itoa(x.funcs[m].id)+")")
				}
				argOf, paramOnly := "", false
				if kind == "pkg" {
					argOf = key
					paramOnly = x.paramOnlyCalled(x.funcs[key], i)
				}
				x.funcValUses = append(x.funcValUses, fmt.Sprintf("⟨%s, %s, %s, %v⟩", leanStr(sc.f.key), leanStr(fv), leanStr(argOf), paramOnly))
			}
		}
	case *ast.SelectorExpr, *ast.Ident:
		if sc.coder || len(stack) == 0 {
			break
		}
		e := n.(ast.Expr)
		fv, ok := sc.env.funcValue(e)
		if !ok {
			break
		}
		switch par := stack[len(stack)-1].(type) {
		case *ast.SelectorExpr:
			if par.Sel == n {
				return nil
			}
		case *ast.KeyValueExpr:
			if par.Key == n {
				return nil
			}
		case *ast.CallExpr:
			if par.Fun == e {
				return nil
			}
			for _, a := range par.Args {
				if a == e {
					return nil // recorded with the call
				}
			}
		case *ast.ParenExpr, *ast.IndexExpr, *ast.IndexListExpr:
			if len(stack) > 1 {
				if c, ok := stack[len(stack)-2].(*ast.CallExpr); ok && c.Fun == ast.Expr(par.(ast.Expr)) {
					return nil
				}
			}
		}
		targets := []string{fv}
		if _, isKey := x.funcs[fv]; !isKey {
			targets = x.methodsN[fv]
		}
		for _, m := range targets {
			p.callees = addUniq(p.callees, m)
		}
		x.funcValUses = append(x.funcValUses, fmt.Sprintf("⟨%s, %s, %s, false⟩", leanStr(sc.f.key), leanStr(fv), leanStr("")))
	case *ast.CompositeLit:
		if k, ok := badKind(t); ok {
			p.bads = append(p.bads, k)
			inLoop := false
			for _, a := range stack {
				switch a.(type) {
				case *ast.ForStmt, *ast.RangeStmt:
					inLoop = true
				}
			}
			x.badLits = append(x.badLits, fmt.Sprintf("⟨%s, %d, %s, .%s, %v, %d⟩", leanStr(k), sc.f.id, leanStr(sc.f.key), sc.kind, inLoop, line(t)))
			atoms = append(atoms, "(.mkBad "+leanStr(k)+")")
		}
	case *ast.AssignStmt:
		touched := false
		for _, l := range t.Lhs {
			if errorsTarget(l) {
				touched = true
			}
		}
		if touched {
			if isAppendOne(t) {
				p.errAppends++
				atoms = append(atoms, ".appendErr")
				x.errWrites = append(x.errWrites, fmt.Sprintf("⟨%s, .appendOne, %s, %s⟩", leanStr(sc.f.key), leanStr(pos(t)), leanStr(normSrc(t))))
			} else {
				p.errOther++
				atoms = append(atoms, ".clobberErrs")
				x.errWrites = append(x.errWrites, fmt.Sprintf("⟨%s, .other, %s, %s⟩", leanStr(sc.f.key), leanStr(pos(t)), leanStr(normSrc(t))))
			}
		}
		for _, l := range t.Lhs {
			if sc.lexerTarget(l) {
				atoms = append(atoms, ".havoc")
				break
			}
		}
	case *ast.IncDecStmt:
		if errorsTarget(t.X) {
			p.errOther++
			atoms = append(atoms, ".clobberErrs")
			x.errWrites = append(x.errWrites, fmt.Sprintf("⟨%s, .other, %s, %s⟩", leanStr(sc.f.key), leanStr(pos(t)), leanStr(normSrc(t))))
		}
		if sc.lexerTarget(t.X) {
			atoms = append(atoms, ".havoc")
		}
	case *ast.UnaryExpr:
		if t.Op == token.AND && errorsTarget(t.X) {
			p.errOther++
			atoms = append(atoms, ".clobberErrs")
			x.errWrites = append(x.errWrites, fmt.Sprintf("⟨%s, .other, %s, %s⟩", leanStr(sc.f.key), leanStr(pos(t)), leanStr(normSrc(t))))
		}
	}
	return atoms
}

// lexerTarget: an assignment target inside the lexer state (`p.Lexer`, `*p.Lexer`, `p.Token.Kind`, `l.pos`, …)
func (sc *pfScan) lexerTarget(e ast.Expr) bool {
	for {
		switch t := e.(type) {
		case *ast.ParenExpr:
			e = t.X
		case *ast.IndexExpr:
			e = t.X
		case *ast.StarExpr:
			e = t.X
		case *ast.SelectorExpr:
			tx := sc.env.typeOf(t.X)
			if tx == "Lexer" || tx == "Token" || (tx == "Parser" && t.Sel.Name != "errors") {
				return true
			}
			e = t.X
		default:
			return false
		}
	}
}

// paramOnlyCalled: the i-th parameter of f is used only in function position
func (x *pf) paramOnlyCalled(f *pfFunc, i int) bool {
	var objs []*ast.Object
	for _, fld := range f.decl.Type.Params.List {
		for _, n := range fld.Names {
			objs = append(objs, n.Obj)
		}
	}
	if i >= len(objs) || objs[i] == nil {
		return false
	}
	ok := true
	called := map[*ast.Ident]bool{}
	ast.Inspect(f.decl.Body, func(n ast.Node) bool {
		if c, isCall := n.(*ast.CallExpr); isCall {
			if id, isId := c.Fun.(*ast.Ident); isId {
				called[id] = true
			}
		}
		return true
	})
	ast.Inspect(f.decl.Body, func(n ast.Node) bool {
		if id, isId := n.(*ast.Ident); isId && id.Obj == objs[i] && !called[id] {
			ok = false
		}
		return true
	})
	return ok
}

// ---------------------------------------------------------------------------------------------
// structured code (handlers and what they call)

type codeFail struct{ why string }

func seqTerm(items []string) string {
	var l []string
	for _, i := range items {
		if i != ".skip" && i != "" {
			l = append(l, i)
		}
	}
	switch len(l) {
	case 0:
		return ".skip"
	case 1:
		return l[0]
	}
	return "(.seq " + l[0] + " " + seqTerm(l[1:]) + ")"
}

func choiceTerm(in []string) string {
	var items []string
	for _, i := range in {
		items = addUniq(items, i)
	}
	switch len(items) {
	case 0:
		return ".skip"
	case 1:
		return items[0]
	}
	return "(.choice " + items[0] + " " + choiceTerm(items[1:]) + ")"
}

type pfCoder struct {
	sc *pfScan
}

func (c *pfCoder) fail(n ast.Node, why string) {
	panic(codeFail{fmt.Sprintf("%s: %s", pos(n), why)})
}

// events of an expression in evaluation order (operands before the operation)
func (c *pfCoder) expr(e ast.Node) []string {
	var out []string
	var post func(n ast.Node)
	children := func(n ast.Node) {
		ast.Inspect(n, func(m ast.Node) bool {
			if m == nil || m == n {
				return true
			}
			post(m)
			return false
		})
	}
	post = func(n ast.Node) {
		if n == nil {
			return
		}
		switch t := n.(type) {
		case *ast.FuncLit:
			c.fail(t, "function literal")
		case *ast.CallExpr:
			switch f := t.Fun.(type) {
			case *ast.SelectorExpr:
				post(f.X)
			case *ast.Ident:
			default:
				post(t.Fun)
			}
			for _, a := range t.Args {
				if _, isFV := c.sc.env.funcValue(a); isFV {
					c.fail(a, "function value")
				}
				post(a)
			}
		case *ast.BinaryExpr:
			post(t.X)
			if t.Op == token.LAND || t.Op == token.LOR {
				// the right operand may be skipped
				save := out
				out = nil
				post(t.Y)
				r := out
				out = save
				if len(r) > 0 {
					out = append(out, choiceTerm([]string{seqTerm(r), ".skip"}))
				}
			} else {
				post(t.Y)
			}
		default:
			children(n)
		}
		for _, a := range c.sc.atom(n, nil) {
			if a == "<dyn>" {
				c.fail(n, "dynamic call")
			}
			out = append(out, a)
		}
	}
	post(e)
	return out
}

func (c *pfCoder) exprs(es []ast.Expr) []string {
	var out []string
	for _, e := range es {
		out = append(out, c.expr(e)...)
	}
	return out
}

// all events below a node, any order, any number of times (bodies of loops)
func (c *pfCoder) flat(n ast.Node) []string {
	var out []string
	ast.Inspect(n, func(m ast.Node) bool {
		switch t := m.(type) {
		case nil:
			return true
		case *ast.FuncLit:
			c.fail(t, "function literal")
		case *ast.ReturnStmt:
			c.fail(t, "return inside a loop")
		case *ast.DeferStmt, *ast.GoStmt, *ast.SelectStmt:
			c.fail(t, "defer/go/select")
		case *ast.BranchStmt:
			if t.Tok == token.GOTO {
				c.fail(t, "goto")
			}
		case *ast.CallExpr:
			for _, a := range t.Args {
				if _, isFV := c.sc.env.funcValue(a); isFV {
					c.fail(a, "function value")
				}
			}
		}
		for _, a := range c.sc.atom(m, nil) {
			if a == "<dyn>" {
				c.fail(m, "dynamic call")
			}
			out = addUniq(out, a)
		}
		return true
	})
	return out
}

func (c *pfCoder) block(list []ast.Stmt, tail bool) string {
	var items []string
	for i, s := range list {
		items = append(items, c.stmt(s, tail && i == len(list)-1))
	}
	return seqTerm(items)
}

func (c *pfCoder) stmt(s ast.Stmt, tail bool) string {
	switch t := s.(type) {
	case nil:
		return ".skip"
	case *ast.EmptyStmt:
		return ".skip"
	case *ast.ExprStmt:
		return seqTerm(c.expr(t.X))
	case *ast.AssignStmt:
		ev := c.exprs(t.Rhs)
		for _, l := range t.Lhs {
			if ix, ok := l.(*ast.IndexExpr); ok {
				ev = append(ev, c.expr(ix.Index)...)
			}
		}
		for _, a := range c.sc.atom(t, nil) {
			ev = append(ev, a)
		}
		return seqTerm(ev)
	case *ast.IncDecStmt:
		ev := c.expr(t.X)
		ev = append(ev, c.sc.atom(t, nil)...)
		return seqTerm(ev)
	case *ast.DeclStmt:
		var ev []string
		if gd, ok := t.Decl.(*ast.GenDecl); ok {
			for _, sp := range gd.Specs {
				if vs, ok := sp.(*ast.ValueSpec); ok {
					ev = append(ev, c.exprs(vs.Values)...)
				}
			}
		}
		return seqTerm(ev)
	case *ast.ReturnStmt:
		if !tail {
			c.fail(t, "return that is not in tail position")
		}
		return seqTerm(c.exprs(t.Results))
	case *ast.BlockStmt:
		return c.block(t.List, tail)
	case *ast.LabeledStmt:
		return c.stmt(t.Stmt, tail)
	case *ast.IfStmt:
		els := ".skip"
		if t.Else != nil {
			els = c.stmt(t.Else, tail)
		}
		return seqTerm([]string{c.stmt(t.Init, false), seqTerm(c.expr(t.Cond)), choiceTerm([]string{c.block(t.Body.List, tail), els})})
	case *ast.SwitchStmt:
		items := []string{c.stmt(t.Init, false)}
		if t.Tag != nil {
			items = append(items, seqTerm(c.expr(t.Tag)))
		}
		var alts []string
		hasDefault := false
		for _, cl := range t.Body.List {
			cc := cl.(*ast.CaseClause)
			if cc.List == nil {
				hasDefault = true
			}
			if len(c.exprs(cc.List)) > 0 {
				c.fail(cc, "case expression with events")
			}
			for _, b := range cc.Body {
				ast.Inspect(b, func(m ast.Node) bool {
					switch u := m.(type) {
					case *ast.ForStmt, *ast.RangeStmt, *ast.FuncLit:
						return false
					case *ast.BranchStmt:
						c.fail(u, "break/fallthrough/goto in a switch outside a loop")
					}
					return true
				})
			}
			alts = append(alts, c.block(cc.Body, tail))
		}
		if !hasDefault {
			alts = append(alts, ".skip")
		}
		items = append(items, choiceTerm(alts))
		return seqTerm(items)
	case *ast.ForStmt:
		return seqTerm([]string{c.stmt(t.Init, false), "(.loop " + choiceTerm(c.flatLoop(t)) + ")"})
	case *ast.RangeStmt:
		return seqTerm([]string{seqTerm(c.expr(t.X)), "(.loop " + choiceTerm(c.flat(t.Body)) + ")"})
	}
	c.fail(s, fmt.Sprintf("statement %T", s))
	return ""
}

func (c *pfCoder) flatLoop(t *ast.ForStmt) []string {
	var out []string
	if t.Cond != nil {
		for _, a := range c.flat(t.Cond) {
			out = addUniq(out, a)
		}
	}
	if t.Post != nil {
		for _, a := range c.flat(t.Post) {
			out = addUniq(out, a)
		}
	}
	for _, a := range c.flat(t.Body) {
		out = addUniq(out, a)
	}
	return out
}

// code of a statement list; "" (and a note) if some construct is outside the translated subset
func (x *pf) codeOf(f *pfFunc, env *pfEnv, kind string, list []ast.Stmt) (term string) {
	scratch := pfPart{}
	saveDyn, saveOnly, saveOdd := f.dynCalls, f.dynOnlyParams, f.oddRecover
	nb, ne, nf, na, nu := len(x.badLits), len(x.errWrites), len(x.funcValUses), len(x.ambiguous), len(x.unresolved)
	defer func() {
		// the coder re-visits nodes the flow-insensitive scan has already recorded: drop its table rows
		x.badLits, x.errWrites, x.funcValUses, x.ambiguous, x.unresolved = x.badLits[:nb], x.errWrites[:ne], x.funcValUses[:nf], x.ambiguous[:na], x.unresolved[:nu]
		f.dynCalls, f.dynOnlyParams, f.oddRecover = saveDyn, saveOnly, saveOdd
		if r := recover(); r != nil {
			cf, ok := r.(codeFail)
			if !ok {
				panic(r)
			}
			x.codeFailures = append(x.codeFailures, fmt.Sprintf("%s (%s): %s", f.key, kind, cf.why))
			term = ""
		}
	}()
	c := &pfCoder{sc: &pfScan{x: x, env: env, f: f, part: &scratch, kind: kind, coder: true}}
	return c.block(list, true)
}

// ---------------------------------------------------------------------------------------------
// loading and the per-function analysis

func recvTypeName(fd *ast.FuncDecl) string {
	if fd.Recv == nil || len(fd.Recv.List) == 0 {
		return ""
	}
	t := fd.Recv.List[0].Type
	for {
		switch u := t.(type) {
		case *ast.StarExpr:
			t = u.X
			continue
		case *ast.IndexExpr:
			t = u.X
			continue
		case *ast.Ident:
			return u.Name
		}
		return "?"
	}
}

// hasVerifTag: the file carries a build constraint mentioning `verif`
func hasVerifTag(f *ast.File) bool {
	for _, cg := range f.Comments {
		if cg.Pos() > f.Package {
			break
		}
		for _, c := range cg.List {
			if strings.HasPrefix(c.Text, "//go:build") && strings.Contains(c.Text, "verif") {
				return true
			}
		}
	}
	return false
}

func loadPF(repo string) *pf {
	x := &pf{funcs: map[string]*pfFunc{}, structs: map[string]*pfStruct{}, types: map[string]bool{}, methodsN: map[string][]string{}, files: map[string]*ast.File{}}
	// type names of the whole package (conversions like MultiError(…) must not look like calls)
	ents, _ := os.ReadDir(repo)
	var pkgFiles []string
	for _, e := range ents {
		n := e.Name()
		if !e.IsDir() && strings.HasSuffix(n, ".go") && !strings.HasSuffix(n, "_test.go") {
			pkgFiles = append(pkgFiles, n)
		}
	}
	sort.Strings(pkgFiles)
	parsed := map[string]*ast.File{}
	for _, n := range pkgFiles {
		f := parseFile(filepath.Join(repo, n))
		if hasVerifTag(f) {
			continue
		}
		parsed[n] = f
		for _, d := range f.Decls {
			if gd, ok := d.(*ast.GenDecl); ok && gd.Tok == token.TYPE {
				for _, sp := range gd.Specs {
					ts := sp.(*ast.TypeSpec)
					x.types[ts.Name.Name] = true
				}
			}
		}
	}
	for _, n := range pfFiles {
		f, ok := parsed[n]
		if !ok {
			fmt.Fprintln(os.Stderr, "extract: missing", n)
			os.Exit(1)
		}
		x.files[n] = f
		for _, d := range f.Decls {
			if gd, ok := d.(*ast.GenDecl); ok && gd.Tok == token.TYPE {
				for _, sp := range gd.Specs {
					ts := sp.(*ast.TypeSpec)
					if st, ok := ts.Type.(*ast.StructType); ok {
						x.structs[ts.Name.Name] = &pfStruct{fields: map[string]string{}}
						_ = st
					}
				}
			}
		}
	}
	for _, n := range pfFiles {
		for _, d := range x.files[n].Decls {
			switch t := d.(type) {
			case *ast.GenDecl:
				if t.Tok != token.TYPE {
					continue
				}
				for _, sp := range t.Specs {
					ts := sp.(*ast.TypeSpec)
					st, ok := ts.Type.(*ast.StructType)
					if !ok {
						continue
					}
					ps := x.structs[ts.Name.Name]
					for _, fld := range st.Fields.List {
						ft := x.typeOfTypeExpr(fld.Type)
						if _, isFn := fld.Type.(*ast.FuncType); isFn {
							ft = "func"
						}
						if len(fld.Names) == 0 {
							ps.embedded = append(ps.embedded, ft)
							// an embedded field is also a field named after its type
							nm := src(fld.Type)
							nm = strings.TrimPrefix(nm, "*")
							if i := strings.LastIndex(nm, "."); i >= 0 {
								nm = nm[i+1:]
							}
							ps.fields[nm] = ft
						}
						for _, nm := range fld.Names {
							ps.fields[nm.Name] = ft
						}
					}
				}
			case *ast.FuncDecl:
				if t.Body == nil {
					continue
				}
				f := &pfFunc{name: t.Name.Name, recv: recvTypeName(t), file: n, decl: t, deferIdx: -1, dynOnlyParams: true}
				f.key = f.name
				if f.recv != "" {
					f.key = f.recv + "." + f.name
				}
				if _, dup := x.funcs[f.key]; dup {
					fmt.Fprintln(os.Stderr, "extract: duplicate function", f.key)
					os.Exit(1)
				}
				f.id = len(x.order)
				x.funcs[f.key] = f
				x.order = append(x.order, f)
				if f.recv != "" {
					x.methodsN[f.name] = append(x.methodsN[f.name], f.key)
				}
			}
		}
	}
	for _, f := range x.order {
		f.role = x.roleOf(f)
	}
	return x
}

func (x *pf) roleOf(f *pfFunc) string {
	switch {
	case f.file == "lexer.go" || f.file == "split.go":
		return "lexer"
	case f.recv == "Parser" && ast.IsExported(f.name) && strings.HasPrefix(f.name, "Parse"):
		return "entry"
	case f.recv == "" && ast.IsExported(f.name) && strings.HasPrefix(f.name, "Parse"):
		return "helperEntry"
	case f.key == "parseStatements":
		return "stmtList"
	case f.recv == "Parser" && (f.name == "handleError" || (strings.HasPrefix(f.name, "handleParse") && strings.HasSuffix(f.name, "Error"))):
		return "handler"
	case strings.HasPrefix(f.name, "lookahead"):
		return "lookahead"
	}
	return "production"
}

// recoverShape: `defer func() { if r := recover(); r != nil { … } }()` as a top-level statement of the body
func recoverShape(s ast.Stmt) (*ast.BlockStmt, *ast.Object, bool) {
	d, ok := s.(*ast.DeferStmt)
	if !ok || len(d.Call.Args) != 0 {
		return nil, nil, false
	}
	fl, ok := d.Call.Fun.(*ast.FuncLit)
	if !ok || (fl.Type.Params != nil && len(fl.Type.Params.List) > 0) || len(fl.Body.List) != 1 {
		return nil, nil, false
	}
	ifs, ok := fl.Body.List[0].(*ast.IfStmt)
	if !ok || ifs.Else != nil || ifs.Init == nil {
		return nil, nil, false
	}
	as, ok := ifs.Init.(*ast.AssignStmt)
	if !ok || as.Tok != token.DEFINE || len(as.Lhs) != 1 || len(as.Rhs) != 1 {
		return nil, nil, false
	}
	r, ok := as.Lhs[0].(*ast.Ident)
	if !ok {
		return nil, nil, false
	}
	c, ok := as.Rhs[0].(*ast.CallExpr)
	if !ok || len(c.Args) != 0 {
		return nil, nil, false
	}
	if id, ok := c.Fun.(*ast.Ident); !ok || id.Name != "recover" || id.Obj != nil {
		return nil, nil, false
	}
	be, ok := ifs.Cond.(*ast.BinaryExpr)
	if !ok || be.Op != token.NEQ {
		return nil, nil, false
	}
	l, ok1 := be.X.(*ast.Ident)
	n, ok2 := be.Y.(*ast.Ident)
	if !ok1 || !ok2 || l.Obj != r.Obj || n.Name != "nil" {
		return nil, nil, false
	}
	return ifs.Body, r.Obj, true
}

func toNodes(l []ast.Stmt) []ast.Node {
	var out []ast.Node
	for _, s := range l {
		out = append(out, s)
	}
	return out
}

func (x *pf) analyse(f *pfFunc) {
	env := x.newEnv(f)
	list := f.decl.Body.List
	var plain []*ast.DeferStmt
	for i, s := range list {
		if blk, r, ok := recoverShape(s); ok {
			if f.deferIdx >= 0 {
				f.oddRecover = true // two recover-defers: not the shape
				continue
			}
			f.deferIdx, f.handlerBlk, f.recVar = i, blk, r
		}
	}
	// other defers, anywhere
	ast.Inspect(f.decl.Body, func(n ast.Node) bool {
		if d, ok := n.(*ast.DeferStmt); ok {
			if f.deferIdx >= 0 && ast.Node(d) == ast.Node(list[f.deferIdx]) {
				return false
			}
			plain = append(plain, d)
			return false
		}
		return true
	})
	scanPart := func(p *pfPart, kind string, nodes []ast.Node) {
		sc := &pfScan{x: x, env: env, f: f, part: p, kind: kind}
		// plain defers are scanned separately
		var filtered []ast.Node
		for _, n := range nodes {
			filtered = append(filtered, n)
		}
		var stack []ast.Node
		var visit func(n ast.Node) bool
		visit = func(n ast.Node) bool {
			if n == nil {
				stack = stack[:len(stack)-1]
				return true
			}
			if d, ok := n.(*ast.DeferStmt); ok && kind != "defer" {
				_ = d
				return false
			}
			sc.atom(n, stack)
			stack = append(stack, n)
			return true
		}
		for _, n := range filtered {
			ast.Inspect(n, visit)
		}
	}
	if f.deferIdx >= 0 {
		scanPart(&f.pre, "pre", toNodes(list[:f.deferIdx]))
		scanPart(&f.body, "body", toNodes(list[f.deferIdx+1:]))
		h := &pfPart{}
		scanPart(h, "handler", toNodes(f.handlerBlk.List))
		f.handler = h
		// handler function and wrapper
		var hfs []string
		for _, c := range h.callees {
			if x.funcs[c].role == "handler" {
				hfs = append(hfs, c)
			}
		}
		if len(hfs) == 1 {
			f.handlerFn = hfs[0]
		}
		if len(h.bads) == 1 {
			f.wrapper = h.bads[0]
		} else if len(h.bads) > 1 {
			f.wrapper = strings.Join(h.bads, "+")
		}
	} else {
		scanPart(&f.body, "body", toNodes(list))
	}
	for _, d := range plain {
		p := pfPart{}
		// the deferred call itself and everything in a deferred literal
		sc := &pfScan{x: x, env: env, f: f, part: &p, kind: "defer"}
		var stack []ast.Node
		ast.Inspect(d.Call, func(n ast.Node) bool {
			if n == nil {
				stack = stack[:len(stack)-1]
				return true
			}
			sc.atom(n, stack)
			stack = append(stack, n)
			return true
		})
		f.plainDefers = append(f.plainDefers, p)
	}
}

// structured code for handler parts and for every function reachable from one
func (x *pf) addCodes() {
	need := map[string]bool{}
	var todo []string
	for _, f := range x.order {
		if f.handler != nil {
			todo = append(todo, f.handler.callees...)
		}
	}
	for len(todo) > 0 {
		k := todo[0]
		todo = todo[1:]
		if need[k] {
			continue
		}
		need[k] = true
		f := x.funcs[k]
		todo = append(todo, f.pre.callees...)
		todo = append(todo, f.body.callees...)
		if f.handler != nil {
			todo = append(todo, f.handler.callees...)
		}
	}
	for _, f := range x.order {
		env := x.newEnv(f)
		list := f.decl.Body.List
		if f.handler != nil {
			f.handler.code = x.codeOf(f, env, "handler", f.handlerBlk.List)
		}
		if !need[f.key] || len(f.plainDefers) > 0 {
			continue
		}
		if f.deferIdx >= 0 {
			f.pre.code = x.codeOf(f, env, "pre", list[:f.deferIdx])
			f.body.code = x.codeOf(f, env, "body", list[f.deferIdx+1:])
		} else {
			f.body.code = x.codeOf(f, env, "body", list)
		}
	}
}

// ---------------------------------------------------------------------------------------------
// (c) entry shapes

func (x *pf) entryShape(f *pfFunc) []string {
	env := x.newEnv(f)
	recv := ""
	if f.decl.Recv != nil && len(f.decl.Recv.List[0].Names) == 1 {
		recv = f.decl.Recv.List[0].Names[0].Name
	}
	isRecvSel := func(e ast.Expr, path ...string) bool { return src(e) == recv+"."+strings.Join(path, ".") }
	var out []string
	for _, s := range f.decl.Body.List {
		out = append(out, func() string {
			switch t := s.(type) {
			case *ast.ExprStmt:
				if c, ok := t.X.(*ast.CallExpr); ok && len(c.Args) == 0 {
					if k, kind := env.calleeOf(c); kind == "pkg" && x.funcs[k].recv == "Parser" && !isLexNextToken(k) {
						return fmt.Sprintf(".callStmt %d", x.funcs[k].id)
					}
				}
			case *ast.AssignStmt:
				if t.Tok == token.DEFINE && len(t.Lhs) == 1 && len(t.Rhs) == 1 {
					v, ok1 := t.Lhs[0].(*ast.Ident)
					c, ok2 := t.Rhs[0].(*ast.CallExpr)
					if ok1 && ok2 {
						k, kind := env.calleeOf(c)
						if kind == "pkg" && len(c.Args) == 0 && x.funcs[k].recv == "Parser" && !isLexNextToken(k) {
							return fmt.Sprintf(".parse %s %d", leanStr(v.Name), x.funcs[k].id)
						}
						if kind == "pkg" && k == "parseStatements" && len(c.Args) == 2 && src(c.Args[0]) == recv {
							if fv, ok := env.funcValue(c.Args[1]); ok {
								if g, ok := x.funcs[fv]; ok && g.recv == "Parser" {
									return fmt.Sprintf(".parseList %s %d %d", leanStr(v.Name), x.funcs[k].id, g.id)
								}
							}
						}
					}
				}
			case *ast.IfStmt:
				if t.Init != nil || t.Else != nil || len(t.Body.List) != 1 {
					break
				}
				if be, ok := t.Cond.(*ast.BinaryExpr); ok && be.Op == token.NEQ && isRecvSel(be.X, "Token", "Kind") && src(be.Y) == "token.TokenEOF" {
					if as, ok := t.Body.List[0].(*ast.AssignStmt); ok && isAppendOne(as) && isRecvSel(as.Lhs[0], "errors") {
						if c, ok := as.Rhs[0].(*ast.CallExpr).Args[1].(*ast.CallExpr); ok {
							if k, kind := env.calleeOf(c); kind == "pkg" && k == "Parser.errorfAtToken" && len(c.Args) >= 2 && src(c.Args[0]) == "&"+recv+".Token" {
								pure := true
								for _, a := range c.Args[1:] {
									ast.Inspect(a, func(n ast.Node) bool {
										if _, isCall := n.(*ast.CallExpr); isCall {
											pure = false
										}
										return true
									})
								}
								if pure {
									return fmt.Sprintf(".eofCheck %d", x.funcs[k].id)
								}
							}
						}
					}
				}
				if be, ok := t.Cond.(*ast.BinaryExpr); ok && be.Op == token.GTR && src(be.X) == "len("+recv+".errors)" && src(be.Y) == "0" {
					if r, ok := t.Body.List[0].(*ast.ReturnStmt); ok && len(r.Results) == 2 && src(r.Results[1]) == "MultiError("+recv+".errors)" {
						if v, ok := r.Results[0].(*ast.Ident); ok {
							return fmt.Sprintf(".retIfErrors %s", leanStr(v.Name))
						}
					}
				}
			case *ast.ReturnStmt:
				if len(t.Results) == 2 && src(t.Results[1]) == "nil" {
					if v, ok := t.Results[0].(*ast.Ident); ok {
						return fmt.Sprintf(".retNil %s", leanStr(v.Name))
					}
				}
			}
			return ".unrecognised " + leanStr(normSrc(s))
		}())
	}
	return out
}

func (x *pf) helperShape(f *pfFunc) string {
	env := x.newEnv(f)
	if len(f.decl.Body.List) == 1 {
		if r, ok := f.decl.Body.List[0].(*ast.ReturnStmt); ok && len(r.Results) == 1 {
			if c, ok := r.Results[0].(*ast.CallExpr); ok && len(c.Args) == 0 {
				if se, ok := c.Fun.(*ast.SelectorExpr); ok {
					if in, ok := se.X.(*ast.CallExpr); ok {
						if k, kind := env.calleeOf(in); kind == "pkg" && k == "newParser" {
							if m, ok := x.funcs["Parser."+se.Sel.Name]; ok && m.role == "entry" {
								return fmt.Sprintf("some %d", m.id)
							}
						}
					}
				}
			}
		}
	}
	return "none"
}

// ---------------------------------------------------------------------------------------------
// (d) EOF comparisons, (e) token selectors

func isEOFConst(e ast.Expr) bool {
	se, ok := e.(*ast.SelectorExpr)
	if !ok {
		return false
	}
	id, ok := se.X.(*ast.Ident)
	return ok && id.Name == "token" && se.Sel.Name == "TokenEOF"
}

func (x *pf) eofSites() []string {
	var out []string
	for _, f := range x.order {
		if f.file != "parser.go" {
			continue
		}
		var stack []ast.Node
		ast.Inspect(f.decl.Body, func(n ast.Node) bool {
			if n == nil {
				stack = stack[:len(stack)-1]
				return true
			}
			if be, ok := n.(*ast.BinaryExpr); ok && (isEOFConst(be.X) || isEOFConst(be.Y)) {
				op := "other"
				switch be.Op {
				case token.EQL:
					op = ".eq"
				case token.NEQ:
					op = ".ne"
				}
				ctx := ".other"
				// climb through parentheses, `!`, `&&`, `||` to the statement the condition belongs to
				var cur ast.Node = be
				conj, impure := false, false
				k := len(stack) - 1
			climb:
				for ; k >= 0; k-- {
					switch p := stack[k].(type) {
					case *ast.ParenExpr:
						cur = p
					case *ast.UnaryExpr:
						cur, impure = p, true
					case *ast.BinaryExpr:
						switch p.Op {
						case token.LAND:
							cur, conj = p, true
						case token.LOR:
							cur, impure = p, true
						default:
							break climb
						}
					default:
						break climb
					}
				}
				if k >= 0 {
					switch p := stack[k].(type) {
					case *ast.ForStmt:
						if p.Cond == cur && !impure {
							if conj {
								ctx = ".forConjunct"
							} else {
								ctx = ".forCond"
							}
						}
					case *ast.IfStmt:
						if p.Cond == cur {
							ctx = ".ifCond"
						}
					}
				}
				if op == "other" {
					op, ctx = ".eq", ".other"
				}
				out = append(out, fmt.Sprintf("⟨%d, %s, %s, %s, %d⟩", f.id, leanStr(f.key), op, ctx, line(be)))
			}
			stack = append(stack, n)
			return true
		})
	}
	return out
}

var tokSels = map[string]string{"Raw": ".raw", "AsString": ".asString", "Space": ".space", "Comments": ".comments"}

func isErrorfName(n string) bool {
	return strings.HasPrefix(n, "errorf") || strings.HasPrefix(n, "panicf")
}

func calleeName(c *ast.CallExpr) string {
	switch f := c.Fun.(type) {
	case *ast.Ident:
		return f.Name
	case *ast.SelectorExpr:
		return f.Sel.Name
	}
	return ""
}

func isConversion(c *ast.CallExpr) bool {
	switch f := c.Fun.(type) {
	case *ast.ArrayType:
		return true
	case *ast.Ident:
		return f.Obj == nil && (f.Name == "string" || f.Name == "byte")
	}
	return false
}

func (x *pf) tokenUsesIn(file string, fd *ast.FuncDecl, key string, env *pfEnv, inHelperDef bool) []string {
	var out []string
	var stack []ast.Node
	ast.Inspect(fd.Body, func(n ast.Node) bool {
		if n == nil {
			stack = stack[:len(stack)-1]
			return true
		}
		if se, ok := n.(*ast.SelectorExpr); ok {
			if sel, ok := tokSels[se.Sel.Name]; ok {
				isTok := false
				if env != nil {
					isTok = env.typeOf(se.X) == "Token"
				} else if id, ok := se.X.(*ast.Ident); ok && fd.Recv != nil && len(fd.Recv.List[0].Names) == 1 && id.Name == fd.Recv.List[0].Names[0].Name && recvTypeName(fd) == "Token" {
					isTok = true
				}
				cls, detail := ".other", ""
				direct := true // only parentheses and conversions between the selector and the current ancestor
			climb:
				for i := len(stack) - 1; i >= 0; i-- {
					switch p := stack[i].(type) {
					case *ast.ParenExpr:
						continue
					case *ast.CallExpr:
						if p.Fun == ast.Expr(se) {
							break climb
						}
						nm := calleeName(p)
						if isErrorfName(nm) {
							cls, detail = ".errorArg", nm
							break climb
						}
						if direct && (nm == "EqualFold" || nm == "IsKeywordLike" || nm == "IsIdent") {
							cls, detail = ".keywordTest", nm
							break climb
						}
						if !isConversion(p) {
							direct = false
						}
						continue
					case *ast.KeyValueExpr:
						if !direct {
							break climb
						}
						if i > 0 {
							if cl, ok := stack[i-1].(*ast.CompositeLit); ok {
								if ts, ok := cl.Type.(*ast.SelectorExpr); ok && src(ts.X) == "ast" {
									cls, detail = ".nodeValue", ts.Sel.Name+"."+src(p.Key)
								}
							}
						}
						break climb
					case *ast.AssignStmt:
						for _, l := range p.Lhs {
							if l == ast.Expr(se) {
								cls, detail = ".write", normSrc(p)
								break climb
							}
						}
						if direct && len(p.Lhs) == 1 {
							if ls, ok := p.Lhs[0].(*ast.SelectorExpr); ok {
								cls, detail = ".nodeValue", "?."+ls.Sel.Name
							}
						}
						break climb
					case ast.Stmt:
						break climb
					default:
						if _, isExpr := p.(ast.Expr); isExpr {
							direct = false
							continue
						}
						break climb
					}
				}
				if inHelperDef && cls == ".other" {
					cls, detail = ".keywordTest", "definition of "+fd.Name.Name
				}
				out = append(out, fmt.Sprintf("⟨%s, %s, %s, %s, %v, %s, %s, %d⟩", leanStr(file), leanStr(key), sel, leanStr(src(se.X)), isTok, cls, leanStr(detail), line(se)))
			}
		}
		stack = append(stack, n)
		return true
	})
	return out
}

// ---------------------------------------------------------------------------------------------
// (f) ownership facts of the four packages

var watchedImports = map[string]bool{"sync": true, "sync/atomic": true, "unsafe": true, "os": true, "time": true, "math/rand": true, "math/rand/v2": true, "runtime": true}

func ownership(repo string) (vars, writes, gos, imps []string) {
	for _, pk := range [][2]string{{"memefish", "."}, {"token", "token"}, {"ast", "ast"}, {"char", "char"}} {
		dir := filepath.Join(repo, pk[1])
		ents, err := os.ReadDir(dir)
		if err != nil {
			fmt.Fprintln(os.Stderr, "extract:", err)
			os.Exit(1)
		}
		var files []*ast.File
		var names []string
		for _, e := range ents {
			n := e.Name()
			if e.IsDir() || !strings.HasSuffix(n, ".go") || strings.HasSuffix(n, "_test.go") {
				continue
			}
			f := parseFile(filepath.Join(dir, n))
			if hasVerifTag(f) {
				continue
			}
			files = append(files, f)
			names = append(names, filepath.ToSlash(filepath.Join(pk[1], n)))
		}
		pkgVar := map[string]*ast.ValueSpec{}
		for i, f := range files {
			for _, im := range f.Imports {
				p, _ := strconv.Unquote(im.Path.Value)
				if watchedImports[p] {
					imps = append(imps, fmt.Sprintf("⟨%s, %s, %s⟩", leanStr(pk[0]), leanStr(names[i]), leanStr(p)))
				}
			}
			for _, d := range f.Decls {
				if gd, ok := d.(*ast.GenDecl); ok && gd.Tok == token.VAR {
					for _, sp := range gd.Specs {
						vs := sp.(*ast.ValueSpec)
						for _, n := range vs.Names {
							if n.Name == "_" {
								continue
							}
							pkgVar[n.Name] = vs
							vars = append(vars, fmt.Sprintf("⟨%s, %s, %s⟩", leanStr(pk[0]), leanStr(n.Name), leanStr(names[i])))
						}
					}
				}
			}
		}
		isPkgVar := func(id *ast.Ident) bool {
			vs, ok := pkgVar[id.Name]
			if !ok {
				return false
			}
			if id.Obj == nil {
				return true // declared in another file of the package
			}
			d, ok := id.Obj.Decl.(*ast.ValueSpec)
			return ok && d == vs
		}
		root := func(e ast.Expr) *ast.Ident {
			for {
				switch t := e.(type) {
				case *ast.ParenExpr:
					e = t.X
				case *ast.IndexExpr:
					e = t.X
				case *ast.SliceExpr:
					e = t.X
				case *ast.StarExpr:
					e = t.X
				case *ast.SelectorExpr:
					e = t.X
				case *ast.Ident:
					return t
				default:
					return nil
				}
			}
		}
		for _, f := range files {
			for _, d := range f.Decls {
				fd, ok := d.(*ast.FuncDecl)
				if !ok || fd.Body == nil {
					continue
				}
				key := fd.Name.Name
				if r := recvTypeName(fd); r != "" {
					key = r + "." + key
				}
				isInit := fd.Recv == nil && fd.Name.Name == "init"
				ast.Inspect(fd.Body, func(n ast.Node) bool {
					rec := func(e ast.Expr, how string) {
						if id := root(e); id != nil && isPkgVar(id) && !isInit {
							writes = append(writes, fmt.Sprintf("⟨%s, %s, %s, %s, %s⟩", leanStr(pk[0]), leanStr(id.Name), leanStr(key), leanStr(pos(e)), leanStr(how)))
						}
					}
					switch t := n.(type) {
					case *ast.AssignStmt:
						if t.Tok != token.DEFINE {
							for _, l := range t.Lhs {
								rec(l, "assign")
							}
						}
					case *ast.IncDecStmt:
						rec(t.X, "incdec")
					case *ast.UnaryExpr:
						if t.Op == token.AND {
							rec(t.X, "addr")
						}
					case *ast.RangeStmt:
						if t.Tok == token.ASSIGN {
							if t.Key != nil {
								rec(t.Key, "assign")
							}
							if t.Value != nil {
								rec(t.Value, "assign")
							}
						}
					case *ast.GoStmt:
						gos = append(gos, fmt.Sprintf("⟨%s, %s, %s⟩", leanStr(pk[0]), leanStr(key), leanStr(pos(t))))
					}
					return true
				})
			}
		}
	}
	return
}

// ---------------------------------------------------------------------------------------------
// rendering

func natList(x *pf, keys []string) string {
	var l []string
	for _, k := range keys {
		l = append(l, strconv.Itoa(x.funcs[k].id))
	}
	return leanList(l)
}

func strList(l []string) string {
	var out []string
	for _, s := range l {
		out = append(out, leanStr(s))
	}
	return leanList(out)
}

func (x *pf) partTerm(p *pfPart) string {
	var fs []string
	if len(p.callees) > 0 {
		fs = append(fs, "callees := "+natList(x, p.callees))
	}
	if len(p.ext) > 0 {
		fs = append(fs, "ext := "+strList(p.ext))
	}
	if p.raises {
		fs = append(fs, "raises := true")
	}
	if p.rethrows {
		fs = append(fs, "rethrows := true")
	}
	if p.lexPanic {
		fs = append(fs, "lexPanic := true")
	}
	if p.lexRecover {
		fs = append(fs, "lexRecover := true")
	}
	if p.errAppends > 0 {
		fs = append(fs, fmt.Sprintf("errAppends := %d", p.errAppends))
	}
	if p.errOther > 0 {
		fs = append(fs, fmt.Sprintf("errOther := %d", p.errOther))
	}
	if len(p.bads) > 0 {
		fs = append(fs, "bads := "+strList(p.bads))
	}
	if p.code != "" {
		fs = append(fs, "code := some "+parenIfNeeded(p.code))
	}
	if len(fs) == 0 {
		return "{}"
	}
	return "{ " + strings.Join(fs, ", ") + " }"
}

func parenIfNeeded(t string) string {
	if strings.HasPrefix(t, "(") {
		return t
	}
	return "(" + t + ")"
}

func genParserFacts(repo string, cat *catalog) string {
	x := loadPF(repo)
	for _, f := range x.order {
		x.analyse(f)
	}
	x.addCodes()

	var sb strings.Builder
	sb.WriteString(header)
	sb.WriteString("import MF.Model.Facts\nset_option maxRecDepth 100000\nnamespace MF.Gen.ParserFacts\nopen MF.Facts MF.Recovery\n\n")

	// (a)
	var rows []string
	for _, f := range x.order {
		var fs []string
		fs = append(fs, fmt.Sprintf("id := %d", f.id), "name := "+leanStr(f.key), "file := "+leanStr(f.file))
		if f.recv != "" {
			fs = append(fs, "recv := "+leanStr(f.recv))
		}
		if ast.IsExported(f.name) {
			fs = append(fs, "exported := true")
		}
		if f.decl.Type.TypeParams != nil {
			fs = append(fs, "generic := true")
		}
		if f.role != "production" {
			fs = append(fs, "role := ."+f.role)
		}
		if f.handler != nil {
			fs = append(fs, "pre := "+x.partTerm(&f.pre))
		}
		fs = append(fs, "body := "+x.partTerm(&f.body))
		if f.handler != nil {
			fs = append(fs, "handler := some "+x.partTerm(f.handler))
			fs = append(fs, "handlerFn := "+leanStr(f.handlerFn), "wrapper := "+leanStr(f.wrapper))
		}
		if len(f.plainDefers) > 0 {
			var ds []string
			for i := range f.plainDefers {
				ds = append(ds, x.partTerm(&f.plainDefers[i]))
			}
			fs = append(fs, "plainDefers := "+leanList(ds))
		}
		if f.oddRecover {
			fs = append(fs, "oddRecover := true")
		}
		if len(f.dynCalls) > 0 {
			fs = append(fs, "dynCalls := "+strList(f.dynCalls))
			if !f.dynOnlyParams {
				fs = append(fs, "dynOnlyParams := false")
			}
		}
		// a comment with the callee names keeps the table readable
		var names []string
		names = append(names, f.pre.callees...)
		names = append(names, f.body.callees...)
		if f.handler != nil {
			names = append(names, "| handler:")
			names = append(names, f.handler.callees...)
		}
		rows = append(rows, "/- "+strings.Join(names, " ")+" -/\n  { "+strings.Join(fs, ",\n    ")+" }")
	}
	chunked(&sb, "funcs", "FuncFact", rows, 12)

	var entries, helpers, entryIds, helperIds []string
	for _, f := range x.order {
		switch f.role {
		case "entry":
			entries = append(entries, fmt.Sprintf("⟨%s, %d, [%s]⟩", leanStr(f.key), f.id, strings.Join(x.entryShape(f), ", ")))
			entryIds = append(entryIds, strconv.Itoa(f.id))
		case "helperEntry":
			helpers = append(helpers, fmt.Sprintf("⟨%s, %d, %s⟩", leanStr(f.key), f.id, x.helperShape(f)))
			helperIds = append(helperIds, strconv.Itoa(f.id))
		}
	}
	fmt.Fprintf(&sb, "/-- (c) exported `Parser.Parse…` methods -/\ndef entryIds : List Nat := %s\n\n", leanList(entryIds))
	fmt.Fprintf(&sb, "def helperIds : List Nat := %s\n\n", leanList(helperIds))
	chunked(&sb, "entryShapes", "EntryShape", entries, 20)
	chunked(&sb, "helperShapes", "HelperShape", helpers, 20)

	// (b)
	chunked(&sb, "badLits", "BadLit", x.badLits, 40)
	// (d)
	chunked(&sb, "eofSites", "EofSite", x.eofSites(), 40)
	// (e)
	var uses []string
	for _, f := range x.order {
		if f.file == "parser.go" {
			uses = append(uses, x.tokenUsesIn("parser.go", f.decl, f.key, x.newEnv(f), false)...)
		}
	}
	tf := parseFile(filepath.Join(repo, "token", "token.go"))
	for _, d := range tf.Decls {
		if fd, ok := d.(*ast.FuncDecl); ok && fd.Body != nil {
			key := fd.Name.Name
			if r := recvTypeName(fd); r != "" {
				key = r + "." + key
			}
			helper := fd.Name.Name == "IsKeywordLike" || fd.Name.Name == "IsIdent"
			uses = append(uses, x.tokenUsesIn("token/token.go", fd, key, nil, helper)...)
		}
	}
	chunked(&sb, "tokenUses", "TokenUse", uses, 40)
	// (g)
	chunked(&sb, "errWrites", "ErrWrite", x.errWrites, 40)
	chunked(&sb, "funcValueUses", "FuncValueUse", x.funcValUses, 40)
	// (f)
	vars, writes, gos, imps := ownership(repo)
	chunked(&sb, "pkgVars", "PkgVar", vars, 40)
	chunked(&sb, "varWrites", "VarWrite", writes, 40)
	chunked(&sb, "goStmts", "GoStmt", gos, 40)
	chunked(&sb, "watchedImports", "ImportUse", imps, 40)

	fmt.Fprintf(&sb, "/-- calls whose receiver type the extractor could not determine and whose name is also an in-package method -/\ndef ambiguous : List String := %s\n\n", strList(x.ambiguous))
	fmt.Fprintf(&sb, "/-- calls that look in-package but resolve to nothing -/\ndef unresolved : List String := %s\n\n", strList(x.unresolved))
	fmt.Fprintf(&sb, "/-- handler-side code outside the translated statement subset (falls back to the flow-insensitive reading) -/\ndef codeFailures : List String := %s\n\n", strList(x.codeFailures))
	sb.WriteString("end MF.Gen.ParserFacts\n")
	return sb.String()
}
