package main

// nodelits.go — C04, "every node the parser builds carries the fields that SQL()/Pos()/End() dereference".
//
// A purely syntactic reader of parser.go (go/ast; no type checker).  Output: lean/MF/Gen/NodeLits.lean with
//
//   * one `Site` per composite literal `&ast.K{…}` / `ast.K{…}` of a catalogued struct K: the enclosing function and, for
//     every single-node field of K (pointer to a struct of ast.go, or one of its interfaces), the NIL-ABILITY CLASS of the
//     value: the set of `Atom`s the value can come from over all paths of a structured forward flow analysis
//     (a one-element set for `p.parseX()`, `x := p.parseX(); … F: x`; several for a `var x T` assigned in branches —
//     the brief's `branches […]`);
//   * for every string field of a site where the string comes from (`identName`: `id.AsString` of a token obtained by
//     `p.expect(token.TokenIdent)` or copied from `p.Token` directly under a `token.TokenIdent` guard);
//   * per function result / per node-typed parameter: the atoms of all `return`s / of all call-site arguments;
//   * the set of results and parameters CLAIMED never nil: the greatest fixed point, computed HERE in Go by
//     iterated removal; the Lean side does not trust it, it re-checks that the claimed set is consistent (every
//     atom of a claimed member is a literal, a claimed result, or a claimed parameter), which is what soundness of a
//     "returns ⇒ non-nil" claim needs (partial correctness: induction on the call depth of a terminating call);
//   * every assignment `x.F = v` to a field of a local node variable (post-construction mutation).  When `x` holds
//     exactly one literal of this function and the assignment is not inside a loop, it UPDATES that site's field
//     (so `cs := &ast.AlterChangeStream{…}; …; cs.ChangeStreamAlteration = …; return cs` is seen filled iff it is filled
//     on every path that lets `cs` escape); every mutation is also listed with the class of `v`.
//
// Flow analysis: if / switch (a missing `default` is a path) / type switch / for / range (iterated to a fixed point) /
// break / continue / labels / return; `panic(…)` and calls of functions that end in `panic(…)` without any `return`
// terminate a path.  `goto`, `fallthrough`, `select`: every class of the function gets an extra `unknown`.
// Closures: a variable assigned inside a closure reads as `unknown` outside; inside a closure, a captured variable
// assigned more than once reads as `unknown`; an assignment to a named result inside a (deferred) closure counts as a
// `return`.  Anything unfamiliar becomes `unknown "<go text>"`; the generator never fails: a Go panic inside the analysis
// of a function is caught and listed in `failures`, which the Lean obligation requires to be empty.

import (
	"bytes"
	"fmt"
	"go/ast"
	"go/printer"
	"go/token"
	"path/filepath"
	"sort"
	"strings"
)

func init() { extraGenerators["NodeLits.lean"] = genNodeLits }

// ---------------------------------------------------------------------------------------------
// atoms

type nlAtom struct {
	tag string // absent nil lit call maybeNil param unknown
	key int    // call/param: fn*16+idx ; lit: site id
	s   string // name / kind / source text
}

type aset []nlAtom

func (a aset) has(x nlAtom) bool {
	for _, y := range a {
		if y == x {
			return true
		}
	}
	return false
}

func union(a, b aset) aset {
	out := append(aset{}, a...)
	for _, x := range b {
		if !out.has(x) {
			out = append(out, x)
		}
	}
	return out
}

func sameSet(a, b aset) bool {
	if len(a) != len(b) {
		return false
	}
	for _, x := range a {
		if !b.has(x) {
			return false
		}
	}
	return true
}

func unknownAtom(s string) nlAtom {
	s = strings.Join(strings.Fields(s), " ")
	if len(s) > 70 {
		s = s[:70] + "…"
	}
	return nlAtom{tag: "unknown", s: s}
}

func nlSrc(n ast.Node) string {
	var b bytes.Buffer
	if err := printer.Fprint(&b, fset, n); err != nil {
		return "?"
	}
	return b.String()
}

// ---------------------------------------------------------------------------------------------
// function table

type nlParam struct {
	name string
	kind string // node kind / interface name, "" if not a node type
	ptr  bool
}

type nlFunc struct {
	id      int
	name    string
	decl    *ast.FuncDecl
	recv    string // receiver variable name
	params  []nlParam
	results []nlParam
	// facts
	returns   map[int]aset
	paramArgs map[int]aset
	noReturn  bool
	unstruct  bool
}

type nlSite struct {
	id     int
	fn     *nlFunc
	kind   string
	line   int
	own    map[string]aset // classes written in the literal
	obs    map[string]aset // classes seen when the node escapes
	strs   map[string]aset
	loop   bool
	keyed  bool
	fields []string // field names present in the literal, in source order
}

type nlMutation struct {
	fn         *nlFunc
	line       int
	target     string
	kind       string
	field      string
	cls        aset
	attributed bool
}

type nlWorld struct {
	cat       *catalog
	funcs     []*nlFunc
	byName    map[string]*nlFunc
	sites     []*nlSite
	siteOf    map[*ast.CompositeLit]*nlSite
	mutations []*nlMutation
	failures  []string
}

func (w *nlWorld) nodeType(t ast.Expr) (kind string, ptr bool) {
	switch x := t.(type) {
	case *ast.StarExpr:
		if s, ok := x.X.(*ast.SelectorExpr); ok {
			if id, ok := s.X.(*ast.Ident); ok && id.Name == "ast" && w.cat.byName[s.Sel.Name] != nil {
				return s.Sel.Name, true
			}
		}
	case *ast.SelectorExpr:
		if id, ok := x.X.(*ast.Ident); ok && id.Name == "ast" && w.cat.interfaces[x.Sel.Name] {
			return x.Sel.Name, false
		}
	}
	return "", false
}

func (w *nlWorld) fieldList(fl *ast.FieldList) []nlParam {
	var out []nlParam
	if fl == nil {
		return out
	}
	for _, f := range fl.List {
		k, ptr := w.nodeType(f.Type)
		if len(f.Names) == 0 {
			out = append(out, nlParam{"", k, ptr})
		}
		for _, n := range f.Names {
			out = append(out, nlParam{n.Name, k, ptr})
		}
	}
	return out
}

// the literal's struct kind if its type is `ast.K` with K catalogued
func (w *nlWorld) litKind(cl *ast.CompositeLit) string {
	if s, ok := cl.Type.(*ast.SelectorExpr); ok {
		if id, ok := s.X.(*ast.Ident); ok && id.Name == "ast" && w.cat.byName[s.Sel.Name] != nil {
			return s.Sel.Name
		}
	}
	return ""
}

// ---------------------------------------------------------------------------------------------
// flow environment

type nlEnv struct {
	vars map[*ast.Object]aset
	sf   map[int]map[string]aset
	dead bool
}

func newEnv() *nlEnv { return &nlEnv{vars: map[*ast.Object]aset{}, sf: map[int]map[string]aset{}} }

func (e *nlEnv) clone() *nlEnv {
	c := newEnv()
	c.dead = e.dead
	for k, v := range e.vars {
		c.vars[k] = v
	}
	for k, m := range e.sf {
		mm := map[string]aset{}
		for f, v := range m {
			mm[f] = v
		}
		c.sf[k] = mm
	}
	return c
}

func joinEnv(a, b *nlEnv) *nlEnv {
	if a == nil || a.dead {
		if b == nil {
			d := newEnv()
			d.dead = true
			return d
		}
		return b.clone()
	}
	if b == nil || b.dead {
		return a.clone()
	}
	c := a.clone()
	for k, v := range b.vars {
		if av, ok := c.vars[k]; ok {
			c.vars[k] = union(av, v)
		} else {
			c.vars[k] = v
		}
	}
	for k, m := range b.sf {
		if c.sf[k] == nil {
			c.sf[k] = map[string]aset{}
		}
		for f, v := range m {
			c.sf[k][f] = union(c.sf[k][f], v)
		}
	}
	return c
}

func envEqual(a, b *nlEnv) bool {
	if a.dead != b.dead || len(a.vars) != len(b.vars) || len(a.sf) != len(b.sf) {
		return false
	}
	for k, v := range a.vars {
		if bv, ok := b.vars[k]; !ok || !sameSet(v, bv) {
			return false
		}
	}
	for k, m := range a.sf {
		bm := b.sf[k]
		if len(bm) != len(m) {
			return false
		}
		for f, v := range m {
			if !sameSet(v, bm[f]) {
				return false
			}
		}
	}
	return true
}

type nlFrame struct {
	label     string
	isLoop    bool
	breaks    []*nlEnv
	continues []*nlEnv
}

type nlAnalysis struct {
	w          *nlWorld
	fn         *nlFunc
	frames     []*nlFrame
	loopDepth  int
	inClosure  int
	assignCnt  map[*ast.Object]int
	closureAsg map[*ast.Object]bool
	resultObjs map[*ast.Object]int
	paramObjs  map[*ast.Object]int
	varKind    map[*ast.Object]string
	varPtr     map[*ast.Object]bool // the variable's static type is a pointer to a node struct
	identTok   map[*ast.Object]bool // token variables known to hold an identifier token
	guarded    map[ast.Stmt]bool
	pendLabel  string
}

// ---------------------------------------------------------------------------------------------
// pre-scan of a function

func isIdentTokenConst(e ast.Expr) bool {
	s, ok := e.(*ast.SelectorExpr)
	if !ok {
		return false
	}
	id, ok := s.X.(*ast.Ident)
	return ok && id.Name == "token" && s.Sel.Name == "TokenIdent"
}

func (a *nlAnalysis) isRecvTokenKind(e ast.Expr) bool { // p.Token.Kind
	s, ok := e.(*ast.SelectorExpr)
	if !ok || s.Sel.Name != "Kind" {
		return false
	}
	return a.isRecvToken(s.X)
}

func (a *nlAnalysis) isRecvToken(e ast.Expr) bool { // p.Token
	s, ok := e.(*ast.SelectorExpr)
	if !ok || s.Sel.Name != "Token" {
		return false
	}
	id, ok := s.X.(*ast.Ident)
	return ok && id.Name == a.fn.recv && a.fn.recv != ""
}

func (a *nlAnalysis) prescan(body *ast.BlockStmt) {
	depth := 0
	deferred := map[*ast.FuncLit]bool{}
	var visit func(n ast.Node) bool
	visit = func(n ast.Node) bool {
		switch x := n.(type) {
		case *ast.DeferStmt:
			// `defer func() { … }()`: the closure runs when the function is left, after every statement of the main flow
			if fl, ok := x.Call.Fun.(*ast.FuncLit); ok && depth == 0 {
				deferred[fl] = true
			}
		case *ast.FuncLit:
			if deferred[x] {
				saved := depth
				depth = -1000
				ast.Inspect(x.Body, visit)
				depth = saved
				return false
			}
			depth++
			ast.Inspect(x.Body, visit)
			depth--
			return false
		case *ast.AssignStmt:
			for _, l := range x.Lhs {
				if id, ok := l.(*ast.Ident); ok && id.Obj != nil {
					a.assignCnt[id.Obj]++
					if depth > 0 && x.Tok != token.DEFINE {
						a.closureAsg[id.Obj] = true
					}
				}
			}
		case *ast.ValueSpec:
			for _, id := range x.Names {
				if id.Obj != nil {
					a.assignCnt[id.Obj]++
				}
			}
		case *ast.IncDecStmt:
			if id, ok := x.X.(*ast.Ident); ok && id.Obj != nil {
				a.assignCnt[id.Obj] += 2
			}
		case *ast.RangeStmt:
			for _, l := range []ast.Expr{x.Key, x.Value} {
				if id, ok := l.(*ast.Ident); ok && id.Obj != nil {
					a.assignCnt[id.Obj] += 2
				}
			}
		case *ast.UnaryExpr:
			if x.Op == token.AND {
				if id, ok := x.X.(*ast.Ident); ok && id.Obj != nil {
					// address taken: the variable may be written through the pointer
					a.assignCnt[id.Obj] += 2
				}
			}
		case *ast.BranchStmt:
			if x.Tok == token.GOTO || x.Tok == token.FALLTHROUGH {
				a.fn.unstruct = true
			}
		case *ast.SelectStmt:
			a.fn.unstruct = true
		case *ast.SwitchStmt:
			// `switch p.Token.Kind { case token.TokenIdent: <first statement> … }`
			if x.Tag != nil && a.isRecvTokenKind(x.Tag) {
				for _, c := range x.Body.List {
					cc := c.(*ast.CaseClause)
					if len(cc.List) == 1 && isIdentTokenConst(cc.List[0]) && len(cc.Body) > 0 {
						a.guarded[cc.Body[0]] = true
					}
				}
			}
		case *ast.IfStmt:
			// `if p.Token.Kind == token.TokenIdent { <first statement> … }`
			if b, ok := x.Cond.(*ast.BinaryExpr); ok && b.Op == token.EQL && x.Init == nil {
				if (a.isRecvTokenKind(b.X) && isIdentTokenConst(b.Y)) || (a.isRecvTokenKind(b.Y) && isIdentTokenConst(b.X)) {
					if len(x.Body.List) > 0 {
						a.guarded[x.Body.List[0]] = true
					}
				}
			}
		}
		return true
	}
	ast.Inspect(body, visit)
}

// ---------------------------------------------------------------------------------------------
// expressions

func (a *nlAnalysis) callee(c *ast.CallExpr) *nlFunc {
	switch f := c.Fun.(type) {
	case *ast.SelectorExpr:
		if id, ok := f.X.(*ast.Ident); ok && id.Name == a.fn.recv && a.fn.recv != "" && id.Obj != nil {
			if g := a.w.byName[f.Sel.Name]; g != nil && g.recv != "" {
				return g
			}
		}
	case *ast.Ident:
		if f.Obj != nil && f.Obj.Kind == ast.Fun {
			if g := a.w.byName[f.Name]; g != nil && g.recv == "" {
				return g
			}
		}
	case *ast.IndexExpr:
		if id, ok := f.X.(*ast.Ident); ok && id.Obj != nil && id.Obj.Kind == ast.Fun {
			if g := a.w.byName[id.Name]; g != nil && g.recv == "" {
				return g
			}
		}
	}
	return nil
}

func isPanicCall(c *ast.CallExpr) bool {
	id, ok := c.Fun.(*ast.Ident)
	return ok && id.Name == "panic" && id.Obj == nil
}

func maybeNilName(n string) bool {
	return strings.HasPrefix(n, "tryParse") || strings.HasPrefix(n, "lookahead")
}

func (a *nlAnalysis) observe(env *nlEnv, s aset) {
	for _, at := range s {
		if at.tag != "lit" {
			continue
		}
		site := a.w.sites[at.key]
		for f, v := range env.sf[site.id] {
			site.obs[f] = union(site.obs[f], v)
		}
	}
}

func (a *nlAnalysis) readVar(env *nlEnv, id *ast.Ident) aset {
	if id.Obj == nil {
		if id.Name == "nil" {
			return aset{{tag: "nil"}}
		}
		return aset{unknownAtom(id.Name)}
	}
	if a.closureAsg[id.Obj] {
		return aset{unknownAtom(id.Name + " (assigned inside a closure)")}
	}
	if a.inClosure > 0 && a.assignCnt[id.Obj] > 1 {
		return aset{unknownAtom(id.Name + " (captured variable assigned more than once)")}
	}
	if v, ok := env.vars[id.Obj]; ok {
		return v
	}
	if i, ok := a.paramObjs[id.Obj]; ok {
		if a.fn.params[i].kind != "" {
			return aset{{tag: "param", key: a.fn.id*16 + i, s: a.fn.name + "." + id.Name}}
		}
	}
	return aset{unknownAtom(id.Name)}
}

// eval evaluates an expression for its effects (nested literals, call arguments, escapes, panics) and returns the atoms
// of its value (meaningful for node-valued expressions only).
func (a *nlAnalysis) eval(e ast.Expr, env *nlEnv) aset {
	switch x := e.(type) {
	case nil:
		return nil
	case *ast.Ident:
		s := a.readVar(env, x)
		a.observe(env, s)
		return s
	case *ast.ParenExpr:
		return a.eval(x.X, env)
	case *ast.BasicLit:
		return aset{unknownAtom(x.Value)}
	case *ast.UnaryExpr:
		if x.Op == token.AND {
			if cl, ok := x.X.(*ast.CompositeLit); ok && a.w.litKind(cl) != "" {
				return a.evalLit(cl, env, false)
			}
			if id, ok := x.X.(*ast.Ident); ok && id.Obj != nil {
				// `&v` of a local holding a value literal `ast.K{…}`
				s := a.readVar(env, id)
				a.observe(env, s)
				allLit := len(s) > 0
				for _, at := range s {
					if at.tag != "lit" {
						allLit = false
					}
				}
				if allLit {
					return s
				}
				return aset{unknownAtom(nlSrc(e))}
			}
		}
		a.eval(x.X, env)
		return aset{unknownAtom(nlSrc(e))}
	case *ast.CompositeLit:
		if a.w.litKind(x) != "" {
			return a.evalLit(x, env, false)
		}
		for _, el := range x.Elts {
			if kv, ok := el.(*ast.KeyValueExpr); ok {
				a.eval(kv.Value, env)
			} else {
				a.eval(el, env)
			}
		}
		return aset{unknownAtom(nlSrc(e))}
	case *ast.CallExpr:
		g := a.callee(x)
		if g == nil {
			switch f := x.Fun.(type) {
			case *ast.SelectorExpr:
				if _, ok := f.X.(*ast.Ident); !ok {
					a.eval(f.X, env)
				}
			case *ast.Ident, *ast.IndexExpr:
			default:
				a.eval(x.Fun, env)
			}
		}
		var args []aset
		for _, arg := range x.Args {
			args = append(args, a.evalArg(arg, env))
		}
		if isPanicCall(x) {
			env.dead = true
			return nil
		}
		if g == nil {
			return aset{unknownAtom(nlSrc(e))}
		}
		for j, s := range args {
			if j < len(g.params) && g.params[j].kind != "" {
				g.paramArgs[j] = union(g.paramArgs[j], s)
			}
		}
		if g.noReturn {
			env.dead = true
			return nil
		}
		if len(g.results) == 1 && g.results[0].kind != "" {
			if maybeNilName(g.name) {
				return aset{{tag: "maybeNil", s: g.name}}
			}
			return aset{{tag: "call", key: g.id * 16, s: g.name}}
		}
		return aset{unknownAtom(nlSrc(e))}
	case *ast.SelectorExpr:
		if _, ok := x.X.(*ast.Ident); !ok {
			a.eval(x.X, env)
		}
		return aset{unknownAtom(nlSrc(e))}
	case *ast.BinaryExpr:
		// `x == nil` / `x != nil` do not let `x` escape
		isNil := func(y ast.Expr) bool { id, ok := y.(*ast.Ident); return ok && id.Name == "nil" && id.Obj == nil }
		if (x.Op == token.EQL || x.Op == token.NEQ) && (isNil(x.X) || isNil(x.Y)) {
			return aset{unknownAtom(nlSrc(e))}
		}
		a.eval(x.X, env)
		a.eval(x.Y, env)
		return aset{unknownAtom(nlSrc(e))}
	case *ast.StarExpr:
		a.eval(x.X, env)
		return aset{unknownAtom(nlSrc(e))}
	case *ast.TypeAssertExpr:
		// `v.(T)` (one result) is the same value (it panics otherwise): the origins of `v`
		return a.eval(x.X, env)
	case *ast.IndexExpr:
		a.eval(x.X, env)
		a.eval(x.Index, env)
		return aset{unknownAtom(nlSrc(e))}
	case *ast.SliceExpr:
		a.eval(x.X, env)
		a.eval(x.Low, env)
		a.eval(x.High, env)
		a.eval(x.Max, env)
		return aset{unknownAtom(nlSrc(e))}
	case *ast.KeyValueExpr:
		a.eval(x.Value, env)
		return aset{unknownAtom(nlSrc(e))}
	case *ast.FuncLit:
		a.closure(x, env)
		return aset{unknownAtom("func literal")}
	}
	return aset{unknownAtom(nlSrc(e))}
}

// an argument: a method value `p.parseX` of a function with node parameters makes those parameters unknown
func (a *nlAnalysis) evalArg(arg ast.Expr, env *nlEnv) aset {
	if s, ok := arg.(*ast.SelectorExpr); ok {
		if id, ok := s.X.(*ast.Ident); ok && id.Name == a.fn.recv && a.fn.recv != "" {
			if g := a.w.byName[s.Sel.Name]; g != nil && g.recv != "" {
				for j, p := range g.params {
					if p.kind != "" {
						g.paramArgs[j] = union(g.paramArgs[j], aset{unknownAtom("used as a function value in " + a.fn.name)})
					}
				}
				return aset{unknownAtom(nlSrc(arg))}
			}
		}
	}
	return a.eval(arg, env)
}

func (a *nlAnalysis) closure(f *ast.FuncLit, env *nlEnv) {
	sub := env.clone()
	sub.dead = false
	a.inClosure++
	saved := a.frames
	a.frames = nil
	a.block(f.Body.List, sub)
	a.frames = saved
	a.inClosure--
}

func (a *nlAnalysis) strSource(e ast.Expr, env *nlEnv) aset {
	// id.AsString where id is a token variable known to hold an identifier token
	if s, ok := e.(*ast.SelectorExpr); ok && s.Sel.Name == "AsString" {
		if id, ok := s.X.(*ast.Ident); ok && id.Obj != nil && a.identTok[id.Obj] && a.assignCnt[id.Obj] == 1 && !a.closureAsg[id.Obj] {
			return aset{{tag: "identName", s: id.Name + ".AsString"}}
		}
	}
	return aset{unknownAtom(nlSrc(e))}
}

func (a *nlAnalysis) evalLit(cl *ast.CompositeLit, env *nlEnv, toVar bool) aset {
	kind := a.w.litKind(cl)
	site := a.w.siteOf[cl]
	if site == nil {
		site = &nlSite{id: len(a.w.sites), fn: a.fn, kind: kind, line: fset.Position(cl.Pos()).Line,
			own: map[string]aset{}, obs: map[string]aset{}, strs: map[string]aset{}, keyed: true}
		a.w.sites = append(a.w.sites, site)
		a.w.siteOf[cl] = site
		for _, el := range cl.Elts {
			if kv, ok := el.(*ast.KeyValueExpr); ok {
				if id, ok := kv.Key.(*ast.Ident); ok {
					site.fields = append(site.fields, id.Name)
					continue
				}
			}
			site.keyed = false
		}
	}
	if a.loopDepth > 0 {
		site.loop = true
	}
	k := a.w.cat.byName[kind]
	cur := map[string]aset{}
	given := map[string]ast.Expr{}
	if site.keyed {
		for _, el := range cl.Elts {
			kv := el.(*ast.KeyValueExpr)
			given[kv.Key.(*ast.Ident).Name] = kv.Value
		}
	} else {
		for _, el := range cl.Elts {
			if kv, ok := el.(*ast.KeyValueExpr); ok {
				a.eval(kv.Value, env)
			} else {
				a.eval(el, env)
			}
		}
	}
	// evaluate the values in source order (Go's order), then file them by field
	vals := map[string]aset{}
	if site.keyed {
		for _, el := range cl.Elts {
			kv := el.(*ast.KeyValueExpr)
			vals[kv.Key.(*ast.Ident).Name] = a.eval(kv.Value, env)
		}
	}
	for _, f := range k.fields {
		switch f.cls {
		case "node":
			var s aset
			if !site.keyed {
				s = aset{unknownAtom("positional literal")}
			} else if _, ok := given[f.name]; ok {
				s = vals[f.name]
				if len(s) == 0 {
					s = aset{unknownAtom("no value (path ends)")}
				}
			} else {
				s = aset{{tag: "absent"}}
			}
			cur[f.name] = s
			site.own[f.name] = union(site.own[f.name], s)
		case "str":
			var s aset
			if !site.keyed {
				s = aset{unknownAtom("positional literal")}
			} else if v, ok := given[f.name]; ok {
				s = a.strSource(v, env)
			} else {
				s = aset{{tag: "absent"}}
			}
			site.strs[f.name] = union(site.strs[f.name], s)
		}
	}
	if old, ok := env.sf[site.id]; ok {
		for f, v := range cur {
			old[f] = union(old[f], v)
		}
	} else {
		env.sf[site.id] = cur
	}
	res := aset{{tag: "lit", key: site.id, s: kind}}
	if !toVar {
		a.observe(env, res)
	}
	return res
}

// ---------------------------------------------------------------------------------------------
// statements

func (a *nlAnalysis) block(stmts []ast.Stmt, env *nlEnv) {
	for _, s := range stmts {
		if env.dead {
			return
		}
		a.stmt(s, env)
	}
}

func (a *nlAnalysis) findFrame(label string, needLoop bool) *nlFrame {
	for i := len(a.frames) - 1; i >= 0; i-- {
		f := a.frames[i]
		if label != "" {
			if f.label == label {
				return f
			}
			continue
		}
		if !needLoop || f.isLoop {
			return f
		}
	}
	return nil
}

func (a *nlAnalysis) setVar(env *nlEnv, id *ast.Ident, s aset) {
	if id.Name == "_" || id.Obj == nil {
		return
	}
	env.vars[id.Obj] = s
	if i, ok := a.resultObjs[id.Obj]; ok && a.inClosure > 0 {
		a.fn.returns[i] = union(a.fn.returns[i], s)
	}
}

func (a *nlAnalysis) assign(x *ast.AssignStmt, env *nlEnv) {
	if len(x.Lhs) == 1 && len(x.Rhs) == 1 && (x.Tok == token.ASSIGN || x.Tok == token.DEFINE) {
		lhs, rhs := x.Lhs[0], x.Rhs[0]
		switch l := lhs.(type) {
		case *ast.Ident:
			var s aset
			r := rhs
			if u, ok := r.(*ast.UnaryExpr); ok && u.Op == token.AND {
				r = u.X
			}
			if cl, ok := r.(*ast.CompositeLit); ok && a.w.litKind(cl) != "" {
				s = a.evalLit(cl, env, true)
				if l.Obj != nil {
					a.varKind[l.Obj] = a.w.litKind(cl)
				}
			} else {
				s = a.eval(rhs, env)
				if c, ok := rhs.(*ast.CallExpr); ok && l.Obj != nil && x.Tok == token.DEFINE {
					if g := a.callee(c); g != nil && len(g.results) == 1 && g.results[0].ptr {
						a.varPtr[l.Obj] = true
					}
				}
			}
			if env.dead {
				return
			}
			// identifier tokens
			if l.Obj != nil && x.Tok == token.DEFINE {
				if c, ok := rhs.(*ast.CallExpr); ok && len(c.Args) == 1 && isIdentTokenConst(c.Args[0]) {
					if f, ok := c.Fun.(*ast.SelectorExpr); ok && f.Sel.Name == "expect" {
						if id, ok := f.X.(*ast.Ident); ok && id.Name == a.fn.recv {
							a.identTok[l.Obj] = true
						}
					}
				}
				if a.isRecvToken(rhs) && a.guarded[x] {
					a.identTok[l.Obj] = true
				}
			}
			a.setVar(env, l, s)
			return
		case *ast.SelectorExpr:
			if base, ok := l.X.(*ast.Ident); ok && base.Obj != nil && base.Name != a.fn.recv {
				s := a.eval(rhs, env)
				if env.dead {
					return
				}
				a.mutate(x, base, l.Sel.Name, s, env)
				return
			}
		}
	}
	// `a, b, c := p.f()` with f a function of this file
	if len(x.Rhs) == 1 && len(x.Lhs) > 1 && (x.Tok == token.ASSIGN || x.Tok == token.DEFINE) {
		if c, ok := x.Rhs[0].(*ast.CallExpr); ok {
			if g := a.callee(c); g != nil && len(g.results) == len(x.Lhs) {
				a.eval(c, env)
				if env.dead {
					return
				}
				allIdent := true
				for _, l := range x.Lhs {
					if _, ok := l.(*ast.Ident); !ok {
						allIdent = false
					}
				}
				if allIdent {
					for i, l := range x.Lhs {
						id := l.(*ast.Ident)
						switch {
						case g.results[i].kind == "":
							a.setVar(env, id, aset{unknownAtom(nlSrc(x))})
						case maybeNilName(g.name):
							a.setVar(env, id, aset{{tag: "maybeNil", s: g.name}})
						default:
							a.setVar(env, id, aset{{tag: "call", key: g.id*16 + i, s: g.name}})
						}
						if id.Obj != nil && x.Tok == token.DEFINE && g.results[i].ptr {
							a.varPtr[id.Obj] = true
						}
					}
					return
				}
			}
		}
	}
	for _, r := range x.Rhs {
		a.eval(r, env)
	}
	if env.dead {
		return
	}
	for _, l := range x.Lhs {
		switch y := l.(type) {
		case *ast.Ident:
			a.setVar(env, y, aset{unknownAtom(nlSrc(x))})
		case *ast.SelectorExpr:
			if base, ok := y.X.(*ast.Ident); ok && base.Obj != nil && base.Name != a.fn.recv {
				a.mutate(x, base, y.Sel.Name, aset{unknownAtom(nlSrc(x))}, env)
			}
		default:
			a.eval(l, env)
		}
	}
}

func (a *nlAnalysis) mutate(at ast.Node, base *ast.Ident, field string, s aset, env *nlEnv) {
	cur := a.readVar(env, base)
	kind := a.varKind[base.Obj]
	attributed := false
	if len(cur) == 1 && cur[0].tag == "lit" {
		site := a.w.sites[cur[0].key]
		kind = site.kind
		if m := env.sf[site.id]; m != nil {
			if _, isNode := m[field]; isNode {
				if a.loopDepth == 0 && a.inClosure == 0 {
					m[field] = s
				} else {
					m[field] = union(m[field], s)
				}
				attributed = true
			}
		}
	} else {
		// several possible targets: weak update of each literal among them
		for _, c := range cur {
			if c.tag == "lit" {
				if m := env.sf[c.key]; m != nil {
					if _, isNode := m[field]; isNode {
						m[field] = union(m[field], s)
					}
				}
			}
		}
	}
	// only node-typed fields are facts of interest; the kind may be unknown (then the field name alone is recorded)
	isNode := false
	if kind != "" {
		if k := a.w.cat.byName[kind]; k != nil {
			for _, f := range k.fields {
				if f.name == field && f.cls == "node" {
					isNode = true
				}
			}
		}
	} else {
		for _, k := range a.w.cat.kinds {
			for _, f := range k.fields {
				if f.name == field && f.cls == "node" {
					isNode = true
				}
			}
		}
	}
	if !isNode {
		return
	}
	line := fset.Position(at.Pos()).Line
	for _, m := range a.w.mutations {
		if m.fn == a.fn && m.line == line && m.field == field {
			m.cls = union(m.cls, s)
			return
		}
	}
	a.w.mutations = append(a.w.mutations, &nlMutation{fn: a.fn, line: line, target: base.Name, kind: kind, field: field, cls: s, attributed: attributed})
}

func (a *nlAnalysis) loop(label string, env *nlEnv, cond func(*nlEnv), body func(*nlEnv), post func(*nlEnv), infinite bool) {
	a.loopDepth++
	in := env.clone()
	var exit *nlEnv
	for iter := 0; iter < 8; iter++ {
		fr := &nlFrame{label: label, isLoop: true}
		a.frames = append(a.frames, fr)
		cur := in.clone()
		cond(cur)
		var condFalse *nlEnv
		if !infinite {
			condFalse = cur.clone()
		}
		body(cur)
		a.frames = a.frames[:len(a.frames)-1]
		next := cur
		for _, c := range fr.continues {
			next = joinEnv(next, c)
		}
		if !next.dead {
			post(next)
		}
		exit = condFalse
		for _, b := range fr.breaks {
			exit = joinEnv(exit, b)
		}
		newIn := joinEnv(in, next)
		if envEqual(newIn, in) {
			break
		}
		in = newIn
		if iter == 7 {
			a.fn.unstruct = true
			a.w.failures = append(a.w.failures, "loop analysis did not converge in "+a.fn.name)
		}
	}
	a.loopDepth--
	if exit == nil {
		exit = newEnv()
		exit.dead = true
	}
	*env = *exit
}

func (a *nlAnalysis) clauses(label string, env *nlEnv, list []ast.Stmt, bind func(cc *ast.CaseClause, e *nlEnv)) {
	fr := &nlFrame{label: label}
	a.frames = append(a.frames, fr)
	var out *nlEnv
	hasDefault := false
	for _, c := range list {
		cc, ok := c.(*ast.CaseClause)
		if !ok {
			continue
		}
		ce := env.clone()
		if cc.List == nil {
			hasDefault = true
		}
		for _, e := range cc.List {
			if _, isType := e.(*ast.StarExpr); !isType {
				a.eval(e, ce)
			}
		}
		if bind != nil {
			bind(cc, ce)
		}
		a.block(cc.Body, ce)
		out = joinEnv(out, ce)
	}
	a.frames = a.frames[:len(a.frames)-1]
	if !hasDefault {
		out = joinEnv(out, env)
	}
	for _, b := range fr.breaks {
		out = joinEnv(out, b)
	}
	if out == nil {
		out = env.clone()
	}
	*env = *out
}

func (a *nlAnalysis) stmt(s ast.Stmt, env *nlEnv) {
	label := a.pendLabel
	a.pendLabel = ""
	switch x := s.(type) {
	case *ast.BlockStmt:
		a.block(x.List, env)
	case *ast.LabeledStmt:
		a.pendLabel = x.Label.Name
		a.stmt(x.Stmt, env)
	case *ast.ExprStmt:
		a.eval(x.X, env)
	case *ast.AssignStmt:
		a.assign(x, env)
	case *ast.DeclStmt:
		gd, ok := x.Decl.(*ast.GenDecl)
		if !ok {
			return
		}
		for _, sp := range gd.Specs {
			vs, ok := sp.(*ast.ValueSpec)
			if !ok {
				continue
			}
			for i, id := range vs.Names {
				if vs.Type != nil && id.Obj != nil {
					if k, ptr := a.w.nodeType(vs.Type); k != "" {
						a.varKind[id.Obj] = k
						a.varPtr[id.Obj] = ptr
					}
				}
				if len(vs.Values) == len(vs.Names) {
					a.setVar(env, id, a.eval(vs.Values[i], env))
				} else if len(vs.Values) == 0 {
					a.setVar(env, id, aset{{tag: "absent"}})
				} else {
					for _, v := range vs.Values {
						a.eval(v, env)
					}
					a.setVar(env, id, aset{unknownAtom(nlSrc(vs))})
				}
			}
		}
	case *ast.IncDecStmt:
		a.eval(x.X, env)
	case *ast.ReturnStmt:
		if len(x.Results) == 0 {
			for obj, i := range a.resultObjs {
				if a.inClosure == 0 && a.fn.results[i].kind != "" {
					v, ok := env.vars[obj]
					if !ok {
						v = aset{{tag: "absent"}}
					}
					a.fn.returns[i] = union(a.fn.returns[i], v)
				}
			}
		} else if len(x.Results) == len(a.fn.results) || a.inClosure > 0 {
			for i, r := range x.Results {
				v := a.eval(r, env)
				if env.dead {
					return
				}
				if a.inClosure == 0 && a.fn.results[i].kind != "" {
					a.fn.returns[i] = union(a.fn.returns[i], v)
				}
			}
		} else {
			for _, r := range x.Results {
				a.eval(r, env)
			}
			for i := range a.fn.results {
				if a.fn.results[i].kind != "" {
					a.fn.returns[i] = union(a.fn.returns[i], aset{unknownAtom(nlSrc(x))})
				}
			}
		}
		env.dead = true
	case *ast.BranchStmt:
		lab := ""
		if x.Label != nil {
			lab = x.Label.Name
		}
		switch x.Tok {
		case token.BREAK:
			if f := a.findFrame(lab, false); f != nil {
				f.breaks = append(f.breaks, env.clone())
			} else {
				a.fn.unstruct = true
			}
			env.dead = true
		case token.CONTINUE:
			if f := a.findFrame(lab, true); f != nil {
				f.continues = append(f.continues, env.clone())
			} else {
				a.fn.unstruct = true
			}
			env.dead = true
		default:
			a.fn.unstruct = true
		}
	case *ast.IfStmt:
		if x.Init != nil {
			a.stmt(x.Init, env)
		}
		a.eval(x.Cond, env)
		if env.dead {
			return
		}
		th := env.clone()
		el := env.clone()
		a.refine(x.Cond, th, el)
		a.block(x.Body.List, th)
		if x.Else != nil {
			a.stmt(x.Else, el)
		}
		*env = *joinEnv(th, el)
		if th.dead && el.dead {
			env.dead = true
		}
	case *ast.SwitchStmt:
		if x.Init != nil {
			a.stmt(x.Init, env)
		}
		a.eval(x.Tag, env)
		if env.dead {
			return
		}
		a.clauses(label, env, x.Body.List, nil)
	case *ast.TypeSwitchStmt:
		if x.Init != nil {
			a.stmt(x.Init, env)
		}
		var bound *ast.Ident
		var operand aset
		switch as := x.Assign.(type) {
		case *ast.AssignStmt:
			if len(as.Lhs) == 1 && len(as.Rhs) == 1 {
				bound, _ = as.Lhs[0].(*ast.Ident)
				if ta, ok := as.Rhs[0].(*ast.TypeAssertExpr); ok {
					operand = a.eval(ta.X, env)
				}
			}
		case *ast.ExprStmt:
			if ta, ok := as.X.(*ast.TypeAssertExpr); ok {
				a.eval(ta.X, env)
			}
		}
		a.clauses(label, env, x.Body.List, func(cc *ast.CaseClause, ce *nlEnv) {
			if bound == nil {
				return
			}
			// the implicit object of the clause: found by name among the identifiers of the clause body
			kind := ""
			if len(cc.List) == 1 {
				kind, _ = a.w.nodeType(cc.List[0])
			}
			ast.Inspect(cc, func(n ast.Node) bool {
				if id, ok := n.(*ast.Ident); ok && id.Name == bound.Name && id.Obj != nil {
					if _, seen := ce.vars[id.Obj]; !seen {
						// the bound variable is the operand itself (same pointer inside the interface)
						if len(operand) > 0 {
							ce.vars[id.Obj] = operand
						} else {
							ce.vars[id.Obj] = aset{unknownAtom(bound.Name + " (type switch binding)")}
						}
						a.varKind[id.Obj] = kind
					}
				}
				return true
			})
		})
	case *ast.ForStmt:
		if x.Init != nil {
			a.stmt(x.Init, env)
		}
		a.loop(label, env,
			func(e *nlEnv) { a.eval(x.Cond, e) },
			func(e *nlEnv) { a.block(x.Body.List, e) },
			func(e *nlEnv) {
				if x.Post != nil {
					a.stmt(x.Post, e)
				}
			}, x.Cond == nil)
	case *ast.RangeStmt:
		a.eval(x.X, env)
		a.loop(label, env,
			func(e *nlEnv) {
				for _, l := range []ast.Expr{x.Key, x.Value} {
					if id, ok := l.(*ast.Ident); ok {
						a.setVar(e, id, aset{unknownAtom(id.Name + " (range variable)")})
					}
				}
			},
			func(e *nlEnv) { a.block(x.Body.List, e) },
			func(e *nlEnv) {}, false)
	case *ast.DeferStmt:
		a.deferOrGo(x.Call, env)
	case *ast.GoStmt:
		a.deferOrGo(x.Call, env)
	case *ast.EmptyStmt:
	case *ast.SendStmt:
		a.eval(x.Chan, env)
		a.eval(x.Value, env)
	default:
		a.fn.unstruct = true
	}
}

// nilTest recognises `x != nil` / `x == nil` for a local variable `x` whose static type is a POINTER to a node struct
// (for an interface-typed variable the test does not exclude a typed nil pointer, so nothing is learnt).
func (a *nlAnalysis) nilTest(e ast.Expr) (obj *ast.Object, name string, neq bool, ok bool) {
	for {
		p, isParen := e.(*ast.ParenExpr)
		if !isParen {
			break
		}
		e = p.X
	}
	b, isBin := e.(*ast.BinaryExpr)
	if !isBin || (b.Op != token.EQL && b.Op != token.NEQ) {
		return nil, "", false, false
	}
	isNil := func(y ast.Expr) bool { id, ok := y.(*ast.Ident); return ok && id.Name == "nil" && id.Obj == nil }
	var v ast.Expr
	switch {
	case isNil(b.Y):
		v = b.X
	case isNil(b.X):
		v = b.Y
	default:
		return nil, "", false, false
	}
	id, isId := v.(*ast.Ident)
	if !isId || id.Obj == nil || !a.varPtr[id.Obj] || a.closureAsg[id.Obj] || a.inClosure > 0 {
		return nil, "", false, false
	}
	return id.Obj, id.Name, b.Op == token.NEQ, true
}

func (a *nlAnalysis) refine(cond ast.Expr, th, el *nlEnv) {
	checked := func(name string) aset { return aset{{tag: "checked", s: name + " != nil"}} }
	// then-branch: every conjunct of `c1 && c2 && …` holds
	var conj func(e ast.Expr)
	conj = func(e ast.Expr) {
		if b, ok := e.(*ast.BinaryExpr); ok && b.Op == token.LAND {
			conj(b.X)
			conj(b.Y)
			return
		}
		if p, ok := e.(*ast.ParenExpr); ok {
			conj(p.X)
			return
		}
		if obj, name, neq, ok := a.nilTest(e); ok {
			if neq {
				th.vars[obj] = checked(name)
			} else {
				th.vars[obj] = aset{{tag: "nil"}}
			}
		}
	}
	conj(cond)
	// else-branch: every disjunct of `c1 || c2 || …` fails
	var disj func(e ast.Expr)
	disj = func(e ast.Expr) {
		if b, ok := e.(*ast.BinaryExpr); ok && b.Op == token.LOR {
			disj(b.X)
			disj(b.Y)
			return
		}
		if p, ok := e.(*ast.ParenExpr); ok {
			disj(p.X)
			return
		}
		if obj, name, neq, ok := a.nilTest(e); ok {
			if neq {
				el.vars[obj] = aset{{tag: "nil"}}
			} else {
				el.vars[obj] = checked(name)
			}
		}
	}
	disj(cond)
}

// the call runs later (or elsewhere): it must not terminate the current path
func (a *nlAnalysis) deferOrGo(c *ast.CallExpr, env *nlEnv) {
	sub := env.clone()
	a.inClosure++
	a.eval(c, sub)
	a.inClosure--
}

// ---------------------------------------------------------------------------------------------
// driver

func (w *nlWorld) analyse(f *nlFunc) {
	defer func() {
		if r := recover(); r != nil {
			w.failures = append(w.failures, fmt.Sprintf("%s: %v", f.name, r))
			f.unstruct = true
		}
	}()
	a := &nlAnalysis{w: w, fn: f, assignCnt: map[*ast.Object]int{}, closureAsg: map[*ast.Object]bool{},
		resultObjs: map[*ast.Object]int{}, paramObjs: map[*ast.Object]int{}, varKind: map[*ast.Object]string{}, varPtr: map[*ast.Object]bool{},
		identTok: map[*ast.Object]bool{}, guarded: map[ast.Stmt]bool{}}
	i := 0
	for _, fl := range f.decl.Type.Params.List {
		for _, n := range fl.Names {
			if n.Obj != nil {
				a.paramObjs[n.Obj] = i
				a.assignCnt[n.Obj] = 1
				a.varKind[n.Obj] = f.params[i].kind
			}
			i++
		}
		if len(fl.Names) == 0 {
			i++
		}
	}
	i = 0
	if f.decl.Type.Results != nil {
		for _, fl := range f.decl.Type.Results.List {
			for _, n := range fl.Names {
				if n.Obj != nil {
					a.resultObjs[n.Obj] = i
					a.assignCnt[n.Obj] = 1
				}
				i++
			}
			if len(fl.Names) == 0 {
				i++
			}
		}
	}
	a.prescan(f.decl.Body)
	env := newEnv()
	for obj := range a.resultObjs {
		env.vars[obj] = aset{{tag: "absent"}}
	}
	a.block(f.decl.Body.List, env)
}

func endsInPanic(w *nlWorld, f *nlFunc) bool {
	if len(f.results) != 0 || f.decl.Body == nil || len(f.decl.Body.List) == 0 {
		return false
	}
	hasReturn := false
	ast.Inspect(f.decl.Body, func(n ast.Node) bool {
		if _, ok := n.(*ast.ReturnStmt); ok {
			hasReturn = true
		}
		if _, ok := n.(*ast.FuncLit); ok {
			return false
		}
		return true
	})
	if hasReturn {
		return false
	}
	last, ok := f.decl.Body.List[len(f.decl.Body.List)-1].(*ast.ExprStmt)
	if !ok {
		return false
	}
	c, ok := last.X.(*ast.CallExpr)
	if !ok {
		return false
	}
	if isPanicCall(c) {
		return true
	}
	if s, ok := c.Fun.(*ast.SelectorExpr); ok {
		if id, ok := s.X.(*ast.Ident); ok && id.Name == f.recv && f.recv != "" {
			if g := w.byName[s.Sel.Name]; g != nil && g.noReturn {
				return true
			}
		}
	}
	return false
}

func atomLean(a nlAtom) string {
	switch a.tag {
	case "absent":
		return ".absent"
	case "nil":
		return ".nilLit"
	case "lit":
		return ".lit " + leanStr(a.s)
	case "call":
		return fmt.Sprintf(".call %d %s", a.key, leanStr(a.s))
	case "maybeNil":
		return ".maybeNil " + leanStr(a.s)
	case "param":
		return fmt.Sprintf(".param %d %s", a.key, leanStr(a.s))
	case "checked":
		return ".checked " + leanStr(a.s)
	case "identName":
		return ".identName " + leanStr(a.s)
	}
	return ".unknown " + leanStr(a.s)
}

func asetLean(s aset) string {
	var items []string
	for _, a := range s {
		items = append(items, atomLean(a))
	}
	return leanList(items)
}

func genNodeLits(repo string, cat *catalog) (out string) {
	w := &nlWorld{cat: cat, byName: map[string]*nlFunc{}, siteOf: map[*ast.CompositeLit]*nlSite{}}
	defer func() {
		if r := recover(); r != nil {
			out = nodeLitsFile(&nlWorld{cat: cat, failures: []string{fmt.Sprintf("generator: %v", r)}}, nil, nil, nil)
		}
	}()
	file := parseFile(filepath.Join(repo, "parser.go"))
	for _, d := range file.Decls {
		fd, ok := d.(*ast.FuncDecl)
		if !ok || fd.Body == nil {
			continue
		}
		f := &nlFunc{id: len(w.funcs), name: fd.Name.Name, decl: fd, returns: map[int]aset{}, paramArgs: map[int]aset{}}
		if fd.Recv != nil && len(fd.Recv.List) == 1 {
			if len(fd.Recv.List[0].Names) == 1 {
				f.recv = fd.Recv.List[0].Names[0].Name
			} else {
				f.recv = "_"
			}
		}
		f.params = w.fieldList(fd.Type.Params)
		f.results = w.fieldList(fd.Type.Results)
		w.funcs = append(w.funcs, f)
		if _, dup := w.byName[f.name]; dup {
			w.failures = append(w.failures, "duplicate function name "+f.name)
		}
		w.byName[f.name] = f
		if len(f.params) > 15 || len(f.results) > 15 {
			w.failures = append(w.failures, "too many parameters: "+f.name)
		}
	}
	// functions that never return normally
	for changed := true; changed; {
		changed = false
		for _, f := range w.funcs {
			if !f.noReturn && endsInPanic(w, f) {
				f.noReturn = true
				changed = true
			}
		}
	}
	for _, f := range w.funcs {
		w.analyse(f)
	}
	// exported functions can be called from anywhere
	for _, f := range w.funcs {
		if ast.IsExported(f.name) {
			for j, p := range f.params {
				if p.kind != "" {
					f.paramArgs[j] = union(f.paramArgs[j], aset{unknownAtom("exported function")})
				}
			}
		}
	}
	extra := func(f *nlFunc, s aset) aset {
		if f.unstruct {
			return union(s, aset{unknownAtom("unstructured control flow in " + f.name)})
		}
		return s
	}
	// greatest fixed point: results / parameters claimed non-nil
	type key = int
	claimed := map[key]bool{}
	retFacts := map[key]aset{}
	parFacts := map[key]aset{}
	names := map[key]string{}
	for _, f := range w.funcs {
		for i, r := range f.results {
			if r.kind != "" {
				k := f.id*16 + i
				retFacts[k] = extra(f, f.returns[i])
				names[k] = f.name
				claimed[k] = true
			}
		}
		for j, p := range f.params {
			if p.kind != "" {
				k := f.id*16 + j
				parFacts[k] = f.paramArgs[j]
				claimedParam(claimed, k)
			}
		}
	}
	ok := func(a nlAtom) bool {
		switch a.tag {
		case "lit", "checked":
			return true
		case "call":
			return claimed[a.key]
		case "param":
			return claimed[-a.key-1]
		}
		return false
	}
	for changed := true; changed; {
		changed = false
		for k, s := range retFacts {
			if claimed[k] {
				for _, a := range s {
					if !ok(a) {
						claimed[k] = false
						changed = true
						break
					}
				}
			}
		}
		for k, s := range parFacts {
			if claimed[-k-1] {
				for _, a := range s {
					if !ok(a) {
						claimed[-k-1] = false
						changed = true
						break
					}
				}
			}
		}
	}
	return nodeLitsFile(w, retFacts, parFacts, claimed)
}

func claimedParam(m map[int]bool, k int) { m[-k-1] = true }

func nodeLitsFile(w *nlWorld, retFacts, parFacts map[int]aset, claimed map[int]bool) string {
	var sb strings.Builder
	sb.WriteString(header + "import MF.Model.NodeLits\nnamespace MF.Gen.NodeLits\nopen MF.NodeLits\n\n")
	extra := func(f *nlFunc, s aset) aset {
		if f.unstruct {
			return union(s, aset{unknownAtom("unstructured control flow in " + f.name)})
		}
		return s
	}
	// sites grouped by kind, in catalogue order (lock-step with Gen.kinds / Gen.sqlGo)
	byKind := map[string][]*nlSite{}
	for _, s := range w.sites {
		byKind[s.kind] = append(byKind[s.kind], s)
	}
	counts := map[string]int{}
	nFields := 0
	var groups []string
	for _, k := range w.cat.kinds {
		var items []string
		ss := byKind[k.name]
		sort.Slice(ss, func(i, j int) bool { return ss[i].line < ss[j].line })
		for _, s := range ss {
			var fs, strs []string
			for _, f := range k.fields {
				switch f.cls {
				case "node":
					cls := s.obs[f.name]
					if len(cls) == 0 {
						cls = s.own[f.name]
					}
					cls = extra(s.fn, cls)
					fs = append(fs, fmt.Sprintf("(%s, %s)", leanStr(f.name), asetLean(cls)))
					nFields++
					tag := "branches"
					if len(cls) == 1 {
						tag = cls[0].tag
					}
					counts[tag]++
				case "str":
					strs = append(strs, fmt.Sprintf("(%s, %s)", leanStr(f.name), asetLean(s.strs[f.name])))
				}
			}
			items = append(items, fmt.Sprintf("⟨%d, %s, %d, %s, %s⟩", s.fn.id, leanStr(s.fn.name), s.line, leanList(fs), leanList(strs)))
		}
		sep := ""
		if len(items) > 0 {
			sep = "\n    "
		}
		groups = append(groups, fmt.Sprintf("⟨%s, [%s%s]⟩", leanStr(k.name), sep, strings.Join(items, ",\n    ")))
	}
	chunked(&sb, "kindSites", "KindSites", groups, 12)

	keys := func(m map[int]aset) []int {
		var ks []int
		for k := range m {
			ks = append(ks, k)
		}
		sort.Ints(ks)
		return ks
	}
	var rf, pf, cr, cp []string
	for _, k := range keys(retFacts) {
		f := w.funcs[k/16]
		rf = append(rf, fmt.Sprintf("(%d, %s, %s)", k, leanStr(f.name), asetLean(retFacts[k])))
		if claimed[k] {
			cr = append(cr, fmt.Sprint(k))
		}
	}
	for _, k := range keys(parFacts) {
		f := w.funcs[k/16]
		pf = append(pf, fmt.Sprintf("(%d, %s, %s)", k, leanStr(f.name+"."+f.params[k%16].name), asetLean(parFacts[k])))
		if claimed[-k-1] {
			cp = append(cp, fmt.Sprint(k))
		}
	}
	sb.WriteString("/-- per function result (key = 16·function + result index): the atoms of every `return` -/\n")
	chunked(&sb, "retFacts", "Nat × String × List Atom", rf, 40)
	sb.WriteString("/-- per node-typed parameter (key = 16·function + parameter index): the atoms of every call-site argument -/\n")
	chunked(&sb, "paramFacts", "Nat × String × List Atom", pf, 40)
	fmt.Fprintf(&sb, "/-- results claimed never nil (greatest fixed point computed by the generator; re-checked by `consistent`) -/\ndef nonNilRets : List Nat := %s\n\n", leanList(cr))
	fmt.Fprintf(&sb, "def nonNilParams : List Nat := %s\n\n", leanList(cp))

	var ms []string
	sort.SliceStable(w.mutations, func(i, j int) bool { return w.mutations[i].line < w.mutations[j].line })
	for _, m := range w.mutations {
		ms = append(ms, fmt.Sprintf("⟨%d, %s, %d, %s, %s, %s, %s, %v⟩", m.fn.id, leanStr(m.fn.name), m.line, leanStr(m.target), leanStr(m.kind),
			leanStr(m.field), asetLean(extra(m.fn, m.cls)), m.attributed))
	}
	sb.WriteString("/-- assignments `x.F = v` to a node-typed field of a local variable (post-construction mutations) -/\n")
	fmt.Fprintf(&sb, "def mutations : List Mutation := [\n  %s]\n\n", strings.Join(ms, ",\n  "))
	var fl []string
	for _, f := range w.failures {
		fl = append(fl, leanStr(f))
	}
	fmt.Fprintf(&sb, "/-- functions the generator could not analyse (must be empty) -/\ndef failures : List String := %s\n\n", leanList(fl))
	var cs []string
	for _, t := range []string{"absent", "nil", "lit", "call", "maybeNil", "param", "checked", "branches", "unknown"} {
		cs = append(cs, fmt.Sprintf("(%s, %d)", leanStr(t), counts[t]))
	}
	fmt.Fprintf(&sb, "/-- counts (for the report): literal sites, node fields, fields per class -/\ndef siteCount : Nat := %d\ndef fieldCount : Nat := %d\ndef classCounts : List (String × Nat) := %s\n\n", len(w.sites), nFields, leanList(cs))
	sb.WriteString("def facts : Facts := ⟨kindSites, retFacts, paramFacts, nonNilRets, nonNilParams, mutations, failures⟩\n\nend MF.Gen.NodeLits\n\nnamespace MF.Gen\n/-- the facts of tools/extract/nodelits.go -/\ndef nodeLits : MF.NodeLits.Facts := NodeLits.facts\nend MF.Gen\n")
	return sb.String()
}
