package main

import (
	"fmt"
	"go/ast"
	"go/token"
	"path/filepath"
	"regexp"
	"sort"
	"strings"
)

type field struct {
	name, cls, goType string
}

type kind struct {
	name    string
	fields  []field
	ifaces  []string
	posDoc  string
	endDoc  string
	tmplDoc []string
}

type catalog struct {
	kinds      []*kind
	byName     map[string]*kind
	interfaces map[string]bool
	enums      map[string][]string // enum type -> declared string values
	enumOrder  []string
}

func exprString(e ast.Expr) string {
	switch x := e.(type) {
	case *ast.Ident:
		return x.Name
	case *ast.StarExpr:
		return "*" + exprString(x.X)
	case *ast.ArrayType:
		return "[]" + exprString(x.Elt)
	case *ast.SelectorExpr:
		return exprString(x.X) + "." + x.Sel.Name
	}
	return fmt.Sprintf("%T", e)
}

var posDocRe = regexp.MustCompile(`^\s*(pos|end)\s*=\s*(.*)$`)

func loadCatalog(repo string) *catalog {
	c := &catalog{byName: map[string]*kind{}, interfaces: map[string]bool{}, enums: map[string][]string{}}
	f := parseFile(filepath.Join(repo, "ast", "ast.go"))
	cf := parseFile(filepath.Join(repo, "ast", "ast_const.go"))
	// enums
	for _, d := range cf.Decls {
		gd, ok := d.(*ast.GenDecl)
		if !ok {
			continue
		}
		for _, sp := range gd.Specs {
			switch s := sp.(type) {
			case *ast.TypeSpec:
				if id, ok := s.Type.(*ast.Ident); ok && id.Name == "string" {
					if _, seen := c.enums[s.Name.Name]; !seen {
						c.enums[s.Name.Name] = nil
						c.enumOrder = append(c.enumOrder, s.Name.Name)
					}
				}
			case *ast.ValueSpec:
				if id, ok := s.Type.(*ast.Ident); ok && len(s.Values) == 1 {
					if bl, ok := s.Values[0].(*ast.BasicLit); ok && bl.Kind == token.STRING {
						c.enums[id.Name] = append(c.enums[id.Name], strings.Trim(bl.Value, "\"`"))
					}
				}
			}
		}
	}
	// first pass: type names
	structs := map[string]bool{}
	for _, d := range f.Decls {
		gd, ok := d.(*ast.GenDecl)
		if !ok || gd.Tok != token.TYPE {
			continue
		}
		for _, sp := range gd.Specs {
			ts := sp.(*ast.TypeSpec)
			switch ts.Type.(type) {
			case *ast.InterfaceType:
				c.interfaces[ts.Name.Name] = true
			case *ast.StructType:
				structs[ts.Name.Name] = true
			}
		}
	}
	classify := func(t ast.Expr) string {
		s := exprString(t)
		switch {
		case s == "token.Pos":
			return "pos"
		case s == "bool":
			return "bool"
		case s == "string":
			return "str"
		case s == "int" || s == "int64":
			return "int"
		case s == "[]byte":
			return "bytes"
		case s == "[]*token.Token":
			return "toks"
		case strings.HasPrefix(s, "[]*") && structs[s[3:]]:
			return "nodes"
		case strings.HasPrefix(s, "[]") && c.interfaces[s[2:]]:
			return "nodes"
		case strings.HasPrefix(s, "*") && structs[s[1:]]:
			return "node"
		case c.interfaces[s]:
			return "node"
		}
		if _, ok := c.enums[s]; ok {
			return "enum"
		}
		return "other"
	}
	// second pass: structs with doc comments
	for _, d := range f.Decls {
		gd, ok := d.(*ast.GenDecl)
		if !ok || gd.Tok != token.TYPE {
			continue
		}
		for _, sp := range gd.Specs {
			ts := sp.(*ast.TypeSpec)
			st, ok := ts.Type.(*ast.StructType)
			if !ok {
				continue
			}
			k := &kind{name: ts.Name.Name}
			for _, fl := range st.Fields.List {
				for _, n := range fl.Names {
					if !n.IsExported() {
						continue
					}
					k.fields = append(k.fields, field{n.Name, classify(fl.Type), exprString(fl.Type)})
				}
				if len(fl.Names) == 0 { // embedded
					k.fields = append(k.fields, field{exprString(fl.Type), "other", exprString(fl.Type)})
				}
			}
			// the `// pos = …` / `// end = …` lines are comments inside the struct body, before the first field
			for _, cg := range f.Comments {
				if cg.Pos() > st.Fields.Opening && cg.End() < st.Fields.Closing {
					for _, cm := range cg.List {
						text := strings.TrimPrefix(cm.Text, "//")
						if m := posDocRe.FindStringSubmatch(text); m != nil {
							if m[1] == "pos" && k.posDoc == "" {
								k.posDoc = strings.TrimSpace(m[2])
							} else if m[1] == "end" && k.endDoc == "" {
								k.endDoc = strings.TrimSpace(m[2])
							}
						}
					}
				}
			}
			doc := gd.Doc
			if ts.Doc != nil {
				doc = ts.Doc
			}
			if doc != nil {
				for _, cm := range doc.List {
					t := strings.TrimPrefix(cm.Text, "//")
					if strings.HasPrefix(t, "\t") {
						k.tmplDoc = append(k.tmplDoc, strings.TrimPrefix(t, "\t"))
					}
				}
			}
			c.kinds = append(c.kinds, k)
			c.byName[k.name] = k
		}
	}
	// interface membership: `func (X) isExpr() {}`
	for _, d := range f.Decls {
		fd, ok := d.(*ast.FuncDecl)
		if !ok || fd.Recv == nil || len(fd.Recv.List) != 1 || !strings.HasPrefix(fd.Name.Name, "is") {
			continue
		}
		recv := strings.TrimPrefix(exprString(fd.Recv.List[0].Type), "*")
		if k := c.byName[recv]; k != nil {
			k.ifaces = append(k.ifaces, strings.TrimPrefix(fd.Name.Name, "is"))
		}
	}
	for _, k := range c.kinds {
		sort.Strings(k.ifaces)
	}
	return c
}

func genCatalog(c *catalog) string {
	var sb strings.Builder
	sb.WriteString(header + "import MF.Model.Ast\nnamespace MF.Gen\nopen MF.Ast\n\n")
	var items []string
	for _, k := range c.kinds {
		var fs []string
		for _, f := range k.fields {
			fs = append(fs, fmt.Sprintf("⟨%s, .%s, %s⟩", leanStr(f.name), f.cls, leanStr(f.goType)))
		}
		var is []string
		for _, i := range k.ifaces {
			is = append(is, leanStr(i))
		}
		items = append(items, fmt.Sprintf("⟨%s, %s, %s⟩", leanStr(k.name), leanList(fs), leanList(is)))
	}
	chunked(&sb, "kinds", "KindDecl", items, 20)
	var es []string
	for _, e := range c.enumOrder {
		var vs []string
		for _, v := range c.enums[e] {
			vs = append(vs, leanStr(v))
		}
		es = append(es, fmt.Sprintf("(%s, %s)", leanStr(e), leanList(vs)))
	}
	fmt.Fprintf(&sb, "def enums : List (String × List String) := %s\n\n", leanList(es))
	var ifs []string
	for i := range c.interfaces {
		ifs = append(ifs, leanStr(i))
	}
	sort.Strings(ifs)
	fmt.Fprintf(&sb, "def interfaces : List String := %s\n\nend MF.Gen\n", leanList(ifs))
	return sb.String()
}
