module extract

go 1.23.0
