// typego.go — the two places where the hand-written model of ParseType (lean/MF/Model/TypeParse.lean) copies DATA out of parser.go,
// regenerated on every run: the table `var simpleTypes` and the dispatch of `parseType` (the cases of its `switch p.Token.Kind`
// with the parse functions each calls, whether the identifier case tests `lookaheadSimpleType`, and whether the body runs under
// a deferred recover that calls handleParseTypeError).  Purely syntactic.
package main

import (
	"fmt"
	"go/ast"
	"go/token"
	"path/filepath"
	"strings"
)

func init() { extraGenerators["TypeGo.lean"] = genTypeGo }

func genTypeGo(repo string, cat *catalog) string {
	f := parseFile(filepath.Join(repo, "parser.go"))
	var simple []string
	simpleOK := false
	var dispatch []string
	protected, fallsToPanic := false, false
	for _, d := range f.Decls {
		switch x := d.(type) {
		case *ast.GenDecl:
			if x.Tok != token.VAR {
				continue
			}
			for _, sp := range x.Specs {
				vs := sp.(*ast.ValueSpec)
				if len(vs.Names) == 1 && vs.Names[0].Name == "simpleTypes" && len(vs.Values) == 1 {
					if cl, ok := vs.Values[0].(*ast.CompositeLit); ok {
						simpleOK = true
						for _, e := range cl.Elts {
							s := tokLit(e)
							if s == "<unrecognised>" {
								simpleOK = false
							}
							simple = append(simple, leanStr(s))
						}
					}
				}
			}
		case *ast.FuncDecl:
			if x.Recv == nil || x.Body == nil || x.Name.Name != "parseType" {
				continue
			}
			for _, s := range x.Body.List {
				switch y := s.(type) {
				case *ast.DeferStmt:
					// defer func() { if r := recover(); r != nil { t = p.handleParseTypeError(r, l) } }()
					txt := nodeText(y)
					protected = strings.Contains(txt, "recover") && strings.Contains(txt, "handleParseTypeError")
				case *ast.SwitchStmt:
					if y.Init != nil || !isTokenKind(y.Tag) {
						dispatch = append(dispatch, "(\"<unrecognised switch>\", [])")
						continue
					}
					for _, c := range y.Body.List {
						cc := c.(*ast.CaseClause)
						var toks []string
						for _, e := range cc.List {
							toks = append(toks, tokLit(e))
						}
						if cc.List == nil {
							toks = []string{"<default>"}
						}
						_, calls := scanBody(cc.Body, nil)
						var cs []string
						for _, c := range calls {
							cs = append(cs, leanStr(c))
						}
						// the shape of the identifier case: `if !p.lookaheadSimpleType() { return p.parseNamedType() }; return p.parseSimpleType()`
						shape := "plain"
						if len(cc.Body) == 2 {
							if is, ok := cc.Body[0].(*ast.IfStmt); ok {
								if u, ok := is.Cond.(*ast.UnaryExpr); ok && u.Op == token.NOT && pCall(u.X) == "lookaheadSimpleType" {
									shape = "ifNotLookaheadSimpleType"
								}
							}
						}
						dispatch = append(dispatch, fmt.Sprintf("(%s, %s)", leanStr(strings.Join(toks, ",")+"/"+shape), leanList(cs)))
					}
				case *ast.ExprStmt:
					if c, ok := y.X.(*ast.CallExpr); ok && isIdent(c.Fun, "panic") {
						fallsToPanic = true
					}
				}
			}
		}
	}
	return header + "namespace MF.Gen\n\n/-- `var simpleTypes` of parser.go -/\ndef simpleTypesGo : List String := " + leanList(simple) +
		fmt.Sprintf("\n\ndef simpleTypesRecognised : Bool := %v\n\n", simpleOK) +
		"/-- `parseType`: the cases of its `switch p.Token.Kind` (labels/shape, parse functions called in the case, in order) -/\ndef parseTypeDispatch : List (String × List String) := " +
		leanList(dispatch) + fmt.Sprintf("\n\n/-- the body of parseType runs under `defer … recover … handleParseTypeError` -/\ndef parseTypeProtected : Bool := %v\n\n/-- no case matched: `panic(p.errorfAtToken(…))` -/\ndef parseTypeFallsToPanic : Bool := %v\n\nend MF.Gen\n", protected, fallsToPanic)
}
