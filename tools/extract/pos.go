package main

import (
	"fmt"
	"go/ast"
	"go/token"
	"path/filepath"
	"strconv"
	"strings"
	"unicode"
)

// ---------------------------------------------------------------------------------------------
// an independent parser of the POS language of the node documentation (grammar in ast/ast.go's header)

type posParser struct {
	src []rune
	off int
	err string
}

func (p *posParser) skip() {
	for p.off < len(p.src) && unicode.IsSpace(p.src[p.off]) {
		p.off++
	}
}
func (p *posParser) peek(s string) bool {
	return strings.HasPrefix(string(p.src[p.off:]), s)
}
func (p *posParser) eat(s string) bool {
	if p.peek(s) {
		p.off += len([]rune(s))
		p.skip()
		return true
	}
	return false
}
func (p *posParser) fail(msg string) {
	if p.err == "" {
		p.err = fmt.Sprintf("%s at offset %d", msg, p.off)
	}
}
func (p *posParser) ident() string {
	st := p.off
	for p.off < len(p.src) && (unicode.IsLetter(p.src[p.off]) || (p.off > st && (unicode.IsDigit(p.src[p.off]) || p.src[p.off] == '_'))) {
		p.off++
	}
	s := string(p.src[st:p.off])
	if s == "" {
		p.fail("identifier expected")
	}
	p.skip()
	return s
}

// IntAtom -> IntVal | "len" "(" StringVar ")" | "(" BoolVar "?" IntAtom ":" IntAtom ")"
func (p *posParser) intAtom() string {
	if p.eat("(") {
		c := p.ident()
		if !p.eat("?") {
			p.fail("'?' expected")
		}
		a := p.intAtom()
		if !p.eat(":") {
			p.fail("':' expected")
		}
		b := p.intAtom()
		if !p.eat(")") {
			p.fail("')' expected")
		}
		return fmt.Sprintf("(.ite %s %s %s)", leanStr(c), a, b)
	}
	if p.off < len(p.src) && unicode.IsDigit(p.src[p.off]) {
		st := p.off
		for p.off < len(p.src) && unicode.IsDigit(p.src[p.off]) {
			p.off++
		}
		n := string(p.src[st:p.off])
		p.skip()
		return fmt.Sprintf("(.lit %s)", n)
	}
	id := p.ident()
	if id != "len" || !p.eat("(") {
		p.fail("int atom expected")
		return "(.lit 0)"
	}
	v := p.ident()
	if !p.eat(")") {
		p.fail("')' expected")
	}
	return fmt.Sprintf("(.len %s)", leanStr(v))
}

// NodeAtom -> NodeVar | NodeSliceVar "[" (IntAtom | "$") "]"
func (p *posParser) nodeAtom() string {
	v := p.ident()
	if p.eat("[") {
		if p.eat("$") {
			if !p.eat("]") {
				p.fail("']' expected")
			}
			return fmt.Sprintf(".last %s", leanStr(v))
		}
		i := p.intAtom()
		if !p.eat("]") {
			p.fail("']' expected")
		}
		return fmt.Sprintf(".idx %s %s", leanStr(v), i)
	}
	return fmt.Sprintf(".var %s", leanStr(v))
}

// PosAtom -> PosVar | NodeExpr "." ("pos" | "end")
func (p *posParser) posAtom() string {
	var alts []string
	paren := false
	if p.eat("(") {
		paren = true
		alts = append(alts, p.nodeAtom())
		for p.eat("??") {
			alts = append(alts, p.nodeAtom())
		}
		if !p.eat(")") {
			p.fail("')' expected")
		}
	} else {
		alts = append(alts, p.nodeAtom())
	}
	if p.eat(".") {
		sel := p.ident()
		choice := fmt.Sprintf("⟨%s, %v⟩", leanList(alts), paren)
		switch sel {
		case "pos":
			return ".nodePos " + choice
		case "end":
			return ".nodeEnd " + choice
		}
		p.fail("pos or end expected")
		return ".var \"?\""
	}
	if paren || len(alts) != 1 || !strings.HasPrefix(alts[0], ".var ") {
		p.fail("position variable expected")
		return ".var \"?\""
	}
	return alts[0] // `.var "F"` is also the PosAtom constructor name
}

func parsePosDoc(src string) (string, string) {
	p := &posParser{src: []rune(src)}
	p.skip()
	var terms []string
	for {
		atom := p.posAtom()
		var adds []string
		for p.eat("+") {
			adds = append(adds, p.intAtom())
		}
		terms = append(terms, fmt.Sprintf("⟨%s, %s⟩", atom, leanList(adds)))
		if !p.eat("||") {
			break
		}
	}
	if p.off < len(p.src) {
		p.fail("trailing input")
	}
	return fmt.Sprintf("⟨%s⟩", leanList(terms)), p.err
}

func genPosDoc(c *catalog) string {
	var sb strings.Builder
	sb.WriteString(header + "import MF.Model.Ast\nnamespace MF.Gen\nopen MF.Ast\n\n")
	var items, bad []string
	for _, k := range c.kinds {
		pe, e1 := parsePosDoc(k.posDoc)
		ee, e2 := parsePosDoc(k.endDoc)
		if e1 != "" || e2 != "" || k.posDoc == "" || k.endDoc == "" {
			bad = append(bad, leanStr(fmt.Sprintf("%s: pos=%q (%s) end=%q (%s)", k.name, k.posDoc, e1, k.endDoc, e2)))
		}
		items = append(items, fmt.Sprintf("(%s, %s, %s)", leanStr(k.name), pe, ee))
	}
	chunked(&sb, "posDoc", "String × PosE × PosE", items, 20)
	fmt.Fprintf(&sb, "/-- documentation lines the POS parser of the translator could not read -/\ndef posDocUnrecognised : List String := %s\n\nend MF.Gen\n", leanList(bad))
	return sb.String()
}

// ---------------------------------------------------------------------------------------------
// ast/pos.go read back as terms over the helpers of pos_util.go

func recvField(e ast.Expr, recv string) (string, bool) {
	se, ok := e.(*ast.SelectorExpr)
	if !ok {
		return "", false
	}
	id, ok := se.X.(*ast.Ident)
	if !ok || id.Name != recv {
		return "", false
	}
	return se.Sel.Name, true
}

func goInt(e ast.Expr, recv string) (string, bool) {
	switch x := e.(type) {
	case *ast.BasicLit:
		if x.Kind == token.INT {
			if _, err := strconv.Atoi(x.Value); err == nil {
				return fmt.Sprintf("(.lit %s)", x.Value), true
			}
		}
	case *ast.CallExpr:
		fn, _ := x.Fun.(*ast.Ident)
		if fn == nil {
			return "", false
		}
		switch {
		case fn.Name == "len" && len(x.Args) == 1:
			if f, ok := recvField(x.Args[0], recv); ok {
				return fmt.Sprintf("(.len %s)", leanStr(f)), true
			}
		case fn.Name == "ifThenElse" && len(x.Args) == 3:
			c, ok1 := recvField(x.Args[0], recv)
			a, ok2 := goInt(x.Args[1], recv)
			b, ok3 := goInt(x.Args[2], recv)
			if ok1 && ok2 && ok3 {
				return fmt.Sprintf("(.ifThenElse %s %s %s)", leanStr(c), a, b), true
			}
		}
	}
	return "", false
}

func callName(e ast.Expr) (string, []ast.Expr) {
	c, ok := e.(*ast.CallExpr)
	if !ok {
		return "", nil
	}
	switch f := c.Fun.(type) {
	case *ast.Ident:
		return f.Name, c.Args
	case *ast.IndexExpr: // generic instantiation, not used today
		if id, ok := f.X.(*ast.Ident); ok {
			return id.Name, c.Args
		}
	}
	return "", nil
}

func goNodeAtom(e ast.Expr, recv string) (string, bool) {
	name, args := callName(e)
	switch {
	case name == "wrapNode" && len(args) == 1:
		if f, ok := recvField(args[0], recv); ok {
			return fmt.Sprintf(".wrapNode %s", leanStr(f)), true
		}
	case name == "nodeSliceLast" && len(args) == 1:
		if f, ok := recvField(args[0], recv); ok {
			return fmt.Sprintf(".nodeSliceLast %s", leanStr(f)), true
		}
	case name == "nodeSliceIndex" && len(args) == 2:
		f, ok1 := recvField(args[0], recv)
		i, ok2 := goInt(args[1], recv)
		if ok1 && ok2 {
			return fmt.Sprintf(".nodeSliceIndex %s %s", leanStr(f), i), true
		}
	}
	return "", false
}

func goNode(e ast.Expr, recv string) (string, bool) {
	if name, args := callName(e); name == "nodeChoice" {
		var alts []string
		for _, a := range args {
			s, ok := goNodeAtom(a, recv)
			if !ok {
				return "", false
			}
			alts = append(alts, s)
		}
		return fmt.Sprintf("(.nodeChoice %s)", leanList(alts)), true
	}
	if s, ok := goNodeAtom(e, recv); ok {
		return fmt.Sprintf("(.atom (%s))", s), true
	}
	return "", false
}

func goPosTerm(e ast.Expr, recv string) (string, bool) {
	var adds []string
	for {
		name, args := callName(e)
		if name == "posAdd" && len(args) == 2 {
			i, ok := goInt(args[1], recv)
			if !ok {
				return "", false
			}
			adds = append([]string{i}, adds...)
			e = args[0]
			continue
		}
		break
	}
	var atom string
	if f, ok := recvField(e, recv); ok {
		atom = fmt.Sprintf(".field %s", leanStr(f))
	} else if name, args := callName(e); (name == "nodePos" || name == "nodeEnd") && len(args) == 1 {
		n, ok := goNode(args[0], recv)
		if !ok {
			return "", false
		}
		atom = fmt.Sprintf(".%s %s", name, n)
	} else {
		return "", false
	}
	return fmt.Sprintf("⟨%s, %s⟩", atom, leanList(adds)), true
}

func goPos(e ast.Expr, recv string) string {
	if name, args := callName(e); name == "posChoice" {
		var alts []string
		for _, a := range args {
			t, ok := goPosTerm(a, recv)
			if !ok {
				return ".unrecognised " + leanStr(nodeSrc(e))
			}
			alts = append(alts, t)
		}
		return fmt.Sprintf(".posChoice %s", leanList(alts))
	}
	if t, ok := goPosTerm(e, recv); ok {
		return ".term " + t
	}
	return ".unrecognised " + leanStr(nodeSrc(e))
}

func nodeSrc(n ast.Node) string {
	return fmt.Sprintf("%s", fset.Position(n.Pos()))
}

func genPosGo(repo string, c *catalog) string {
	f := parseFile(filepath.Join(repo, "ast", "pos.go"))
	pos := map[string]string{}
	end := map[string]string{}
	var order []string
	for _, d := range f.Decls {
		fd, ok := d.(*ast.FuncDecl)
		if !ok || fd.Recv == nil || len(fd.Recv.List) != 1 || (fd.Name.Name != "Pos" && fd.Name.Name != "End") {
			continue
		}
		typ := strings.TrimPrefix(exprString(fd.Recv.List[0].Type), "*")
		recv := ""
		if len(fd.Recv.List[0].Names) == 1 {
			recv = fd.Recv.List[0].Names[0].Name
		}
		term := ".unrecognised " + leanStr(nodeSrc(fd))
		if fd.Body != nil && len(fd.Body.List) == 1 {
			if ret, ok := fd.Body.List[0].(*ast.ReturnStmt); ok && len(ret.Results) == 1 {
				term = goPos(ret.Results[0], recv)
			}
		}
		if _, seen := pos[typ]; !seen {
			if _, seen2 := end[typ]; !seen2 {
				order = append(order, typ)
			}
		}
		if fd.Name.Name == "Pos" {
			pos[typ] = term
		} else {
			end[typ] = term
		}
	}
	var sb strings.Builder
	sb.WriteString(header + "import MF.Model.Ast\nnamespace MF.Gen\nopen MF.Ast\n\n")
	var items []string
	for _, t := range order {
		p, ok1 := pos[t]
		e, ok2 := end[t]
		if !ok1 {
			p = ".unrecognised \"missing Pos()\""
		}
		if !ok2 {
			e = ".unrecognised \"missing End()\""
		}
		items = append(items, fmt.Sprintf("(%s, %s, %s)", leanStr(t), p, e))
	}
	chunked(&sb, "posGo", "String × GoPos × GoPos", items, 20)
	sb.WriteString("end MF.Gen\n")
	return sb.String()
}

// ---------------------------------------------------------------------------------------------
// ast/walk_internal.go: per `case *T:` the list of pushes

func genWalkGo(repo string, c *catalog) string {
	f := parseFile(filepath.Join(repo, "ast", "walk_internal.go"))
	var items []string
	var notes []string
	ast.Inspect(f, func(n ast.Node) bool {
		ts, ok := n.(*ast.TypeSwitchStmt)
		if !ok {
			return true
		}
		for _, st := range ts.Body.List {
			cc := st.(*ast.CaseClause)
			if len(cc.List) != 1 {
				notes = append(notes, leanStr("case with "+strconv.Itoa(len(cc.List))+" types at "+nodeSrc(cc)))
				continue
			}
			typ := strings.TrimPrefix(exprString(cc.List[0]), "*")
			var pushes []string
			for _, s := range cc.Body {
				p, ok := walkPush(s)
				if !ok {
					pushes = append(pushes, fmt.Sprintf("⟨%s, false, %s⟩", leanStr("<unrecognised "+nodeSrc(s)+">"), leanStr("")))
					continue
				}
				pushes = append(pushes, p)
			}
			items = append(items, fmt.Sprintf("(%s, %s)", leanStr(typ), leanList(pushes)))
		}
		return false
	})
	var sb strings.Builder
	sb.WriteString(header + "import MF.Model.Ast\nnamespace MF.Gen\nopen MF.Ast\n\n")
	chunked(&sb, "walkGo", "String × List WalkPush", items, 20)
	fmt.Fprintf(&sb, "def walkGoNotes : List String := %s\n\nend MF.Gen\n", leanList(notes))
	return sb.String()
}

// stack = append(stack, &stackItem{node: wrapNode(n.F), visitor: v.Field("G")})
func walkPush(s ast.Stmt) (string, bool) {
	as, ok := s.(*ast.AssignStmt)
	if !ok || len(as.Lhs) != 1 || len(as.Rhs) != 1 {
		return "", false
	}
	name, args := callName(as.Rhs[0])
	if name != "append" || len(args) != 2 {
		return "", false
	}
	ue, ok := args[1].(*ast.UnaryExpr)
	if !ok {
		return "", false
	}
	cl, ok := ue.X.(*ast.CompositeLit)
	if !ok {
		return "", false
	}
	var fieldName, label string
	many := false
	have := 0
	for _, el := range cl.Elts {
		kv, ok := el.(*ast.KeyValueExpr)
		if !ok {
			return "", false
		}
		key := kv.Key.(*ast.Ident).Name
		switch key {
		case "node", "nodes":
			fn, a := callName(kv.Value)
			if len(a) != 1 || (key == "node" && fn != "wrapNode") || (key == "nodes" && fn != "wrapNodes") {
				return "", false
			}
			f, ok := recvField(a[0], "n")
			if !ok {
				return "", false
			}
			fieldName = f
			many = key == "nodes"
			have++
		case "visitor":
			c, ok := kv.Value.(*ast.CallExpr)
			if !ok || len(c.Args) != 1 {
				return "", false
			}
			se, ok := c.Fun.(*ast.SelectorExpr)
			if !ok || se.Sel.Name != "Field" {
				return "", false
			}
			bl, ok := c.Args[0].(*ast.BasicLit)
			if !ok {
				return "", false
			}
			label = strings.Trim(bl.Value, "\"")
			have++
		default:
			return "", false
		}
	}
	if have != 2 {
		return "", false
	}
	return fmt.Sprintf("⟨%s, %v, %s⟩", leanStr(fieldName), many, leanStr(label)), true
}
