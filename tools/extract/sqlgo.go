package main

// sqlgo.go — reads every `func (x *T) SQL() string` of ast/sql.go into a term of the DSL of
// lean/MF/Model/Print.lean (`SqlBody` / `SqlE` / `SqlCond`), and the precedence machinery (`prec` constants,
// the `exprPrec` switch, the comparison of `paren`) into data.  Purely syntactic.  A body is emitted in the DSL
// only if every sub-expression has one of the expected shapes AND every field it mentions has, in the catalogue,
// the class the shape needs; otherwise the whole body is emitted as `.custom "<T>" "<source>"` (never guessed).

import (
	"bytes"
	"fmt"
	"go/ast"
	"go/printer"
	"go/token"
	"os"
	"path/filepath"
	"sort"
	"strconv"
	"strings"
)

func init() { extraGenerators["SqlGo.lean"] = genSqlGo }

type sqlTr struct {
	cat       *catalog
	k         *kind             // the receiver's struct
	recv      string            // receiver variable name
	precVar   string            // local bound by `p := exprPrec(x)` ("" if none)
	locals    map[string]bool   // local strings bound by `v := e`
	precConst map[string]int    // prec constants
	strVars   map[string]string // package-level string variables with a statically known value (`indent`)
	constOf   map[string]string // enum constant name -> enum type
}

type notFit struct{ why string }

func (t *sqlTr) fail(format string, a ...any) { panic(notFit{fmt.Sprintf(format, a...)}) }

func (t *sqlTr) fieldOf(e ast.Expr) (field, bool) {
	se, ok := e.(*ast.SelectorExpr)
	if !ok {
		return field{}, false
	}
	id, ok := se.X.(*ast.Ident)
	if !ok || id.Name != t.recv {
		return field{}, false
	}
	for _, f := range t.k.fields {
		if f.name == se.Sel.Name {
			return f, true
		}
	}
	return field{}, false
}

// recvField: `x.F` with F of one of the given classes; returns the Lean string of the field name
func (t *sqlTr) recvField(e ast.Expr, what string, classes ...string) (string, field) {
	f, ok := t.fieldOf(e)
	if !ok {
		t.fail("%s: not a field of the receiver: %s", what, src(e))
	}
	for _, c := range classes {
		if f.cls == c {
			return leanStr(f.name), f
		}
	}
	t.fail("%s: field %s has class %s, expected one of %v", what, f.name, f.cls, classes)
	return "", f
}

func src(n ast.Node) string {
	var b bytes.Buffer
	printer.Fprint(&b, fset, n)
	return b.String()
}

// normSrc: the gofmt rendering of a method body without comments and blank lines (the text a hand-written
// definition in Print.lean is keyed by)
func normSrc(n ast.Node) string {
	ast.Inspect(n, func(x ast.Node) bool {
		switch d := x.(type) {
		case *ast.GenDecl:
			d.Doc = nil
		case *ast.ValueSpec:
			d.Doc, d.Comment = nil, nil
		case *ast.TypeSpec:
			d.Doc, d.Comment = nil, nil
		case *ast.Field:
			d.Doc, d.Comment = nil, nil
		}
		return true
	})
	var out []string
	for _, l := range strings.Split(src(n), "\n") {
		if t := strings.TrimSpace(l); t == "" || strings.HasPrefix(t, "//") {
			continue
		}
		out = append(out, l)
	}
	return strings.Join(out, "\n")
}

func isAscii(s string) bool {
	for i := 0; i < len(s); i++ {
		if s[i] >= 0x80 {
			return false
		}
	}
	return true
}

func isEmptyStrLit(e ast.Expr) bool {
	bl, ok := e.(*ast.BasicLit)
	return ok && bl.Kind == token.STRING && (bl.Value == `""` || bl.Value == "``")
}

func isIdent(e ast.Expr, name string) bool {
	id, ok := e.(*ast.Ident)
	return ok && id.Name == name
}

func (t *sqlTr) cond(e ast.Expr) string {
	switch x := e.(type) {
	case *ast.ParenExpr:
		return t.cond(x.X)
	case *ast.UnaryExpr:
		if x.Op == token.NOT {
			return "(.not " + t.cond(x.X) + ")"
		}
	case *ast.BinaryExpr:
		switch x.Op {
		case token.LAND:
			return "(.and " + t.cond(x.X) + " " + t.cond(x.Y) + ")"
		case token.LOR:
			return "(.or " + t.cond(x.X) + " " + t.cond(x.Y) + ")"
		case token.EQL, token.NEQ:
			eq := x.Op == token.EQL
			switch {
			case isEmptyStrLit(x.Y):
				f, _ := t.recvField(x.X, "comparison with \"\"", "str", "enum")
				if eq {
					return "(.strEmpty " + f + ")"
				}
				return "(.strNonEmpty " + f + ")"
			case isIdent(x.Y, "nil"):
				f, _ := t.recvField(x.X, "comparison with nil", "node")
				if eq {
					return "(.isNil " + f + ")"
				}
				return "(.notNil " + f + ")"
			default:
				if id, ok := x.Y.(*ast.Ident); ok {
					if typ, ok := t.constOf[id.Name]; ok {
						f, fd := t.recvField(x.X, "comparison with an enum constant", "enum")
						if fd.goType != typ {
							t.fail("constant %s has type %s, field %s has type %s", id.Name, typ, fd.name, fd.goType)
						}
						if eq {
							return "(.enumEq " + f + " " + leanStr(id.Name) + ")"
						}
						return "(.enumNe " + f + " " + leanStr(id.Name) + ")"
					}
				}
			}
		case token.GTR:
			// len(x.F) > 0
			if c, ok := x.X.(*ast.CallExpr); ok && isIdent(c.Fun, "len") && len(c.Args) == 1 {
				if bl, ok := x.Y.(*ast.BasicLit); ok && bl.Kind == token.INT && bl.Value == "0" {
					f, _ := t.recvField(c.Args[0], "len(...) > 0", "nodes", "str", "bytes")
					return "(.lenPos " + f + ")"
				}
			}
		}
	case *ast.CallExpr:
		// x.F.Invalid()
		if se, ok := x.Fun.(*ast.SelectorExpr); ok && se.Sel.Name == "Invalid" && len(x.Args) == 0 {
			f, _ := t.recvField(se.X, "Invalid()", "pos")
			return "(.posInvalid " + f + ")"
		}
		// strings.HasPrefix(v, "lit") for a local string v
		if se, ok := x.Fun.(*ast.SelectorExpr); ok && isIdent(se.X, "strings") && se.Sel.Name == "HasPrefix" && len(x.Args) == 2 {
			id, ok1 := x.Args[0].(*ast.Ident)
			bl, ok2 := x.Args[1].(*ast.BasicLit)
			if ok1 && ok2 && t.locals[id.Name] && bl.Kind == token.STRING {
				if lit, err := strconv.Unquote(bl.Value); err == nil && isAscii(lit) {
					return "(.localHasPrefix " + leanStr(id.Name) + " " + leanStr(lit) + ")"
				}
			}
		}
	case *ast.SelectorExpr:
		f, _ := t.recvField(x, "boolean field", "bool")
		return "(.bool " + f + ")"
	}
	t.fail("condition not in the DSL: %s", src(e))
	return ""
}

func (t *sqlTr) expr(e ast.Expr) string {
	switch x := e.(type) {
	case *ast.ParenExpr:
		return t.expr(x.X)
	case *ast.BasicLit:
		if x.Kind == token.STRING {
			s, err := strconv.Unquote(x.Value)
			if err != nil || !isAscii(s) {
				t.fail("string literal not ASCII / not unquotable: %s", x.Value)
			}
			return "(.lit " + leanStr(s) + ")"
		}
	case *ast.Ident:
		if t.locals[x.Name] {
			return "(.local " + leanStr(x.Name) + ")"
		}
		if v, ok := t.strVars[x.Name]; ok {
			return "(.lit " + leanStr(v) + ")"
		}
	case *ast.BinaryExpr:
		if x.Op == token.ADD {
			return "(.cat " + t.expr(x.X) + " " + t.expr(x.Y) + ")"
		}
	case *ast.SelectorExpr:
		f, _ := t.recvField(x, "bare field", "str")
		return "(.strField " + f + ")"
	case *ast.CallExpr:
		switch fn := x.Fun.(type) {
		case *ast.SelectorExpr:
			// x.F.SQL()
			if fn.Sel.Name == "SQL" && len(x.Args) == 0 {
				f, _ := t.recvField(fn.X, "x.F.SQL()", "node")
				return "(.child " + f + ")"
			}
			// token.QuoteSQL…(x.F)
			if isIdent(fn.X, "token") && len(x.Args) == 1 {
				switch fn.Sel.Name {
				case "QuoteSQLIdent":
					f, _ := t.recvField(x.Args[0], "QuoteSQLIdent", "str")
					return "(.quoteIdent " + f + ")"
				case "QuoteSQLString":
					f, _ := t.recvField(x.Args[0], "QuoteSQLString", "str")
					return "(.quoteString " + f + ")"
				case "QuoteSQLBytes":
					f, _ := t.recvField(x.Args[0], "QuoteSQLBytes", "bytes")
					return "(.quoteBytes " + f + ")"
				}
			}
		case *ast.Ident:
			switch {
			case fn.Name == "sqlOpt" && len(x.Args) == 3:
				l, r := t.expr(x.Args[0]), t.expr(x.Args[2])
				f, _ := t.recvField(x.Args[1], "sqlOpt", "node")
				return "(.sqlOpt " + l + " " + f + " " + r + ")"
			case fn.Name == "strOpt" && len(x.Args) == 2:
				return "(.strOpt " + t.cond(x.Args[0]) + " " + t.expr(x.Args[1]) + ")"
			case fn.Name == "strIfElse" && len(x.Args) == 3:
				return "(.strIfElse " + t.cond(x.Args[0]) + " " + t.expr(x.Args[1]) + " " + t.expr(x.Args[2]) + ")"
			case fn.Name == "sqlJoin" && len(x.Args) == 2:
				f, _ := t.recvField(x.Args[0], "sqlJoin", "nodes")
				return "(.sqlJoin " + f + " " + t.expr(x.Args[1]) + ")"
			case fn.Name == "paren" && len(x.Args) == 2:
				f, _ := t.recvField(x.Args[1], "paren", "node")
				if id, ok := x.Args[0].(*ast.Ident); ok {
					if t.precVar != "" && id.Name == t.precVar {
						return "(.paren .self " + f + ")"
					}
					if _, ok := t.precConst[id.Name]; ok {
						return "(.paren (.const " + leanStr(id.Name) + ") " + f + ")"
					}
				}
			case fn.Name == "string" && len(x.Args) == 1:
				f, _ := t.recvField(x.Args[0], "string(...)", "enum")
				return "(.enumStr " + f + ")"
			case fn.Name == "spaceAfterInt" && len(x.Args) == 1:
				return "(.spaceAfterInt " + t.expr(x.Args[0]) + ")"
			case fn.Name == "formatBoolUpper" && len(x.Args) == 1:
				f, _ := t.recvField(x.Args[0], "formatBoolUpper", "bool")
				return "(.boolUpper " + f + ")"
			}
		}
	}
	t.fail("expression not in the DSL: %s", src(e))
	return ""
}

// body: statement list -> SqlBody
func (t *sqlTr) body(stmts []ast.Stmt) string {
	if len(stmts) == 0 {
		t.fail("empty body")
	}
	switch s := stmts[0].(type) {
	case *ast.ReturnStmt:
		if len(stmts) == 1 && len(s.Results) == 1 {
			return "(.ret " + t.expr(s.Results[0]) + ")"
		}
	case *ast.AssignStmt:
		if len(stmts) >= 2 && s.Tok == token.DEFINE && len(s.Lhs) == 1 && len(s.Rhs) == 1 {
			v, isId := s.Lhs[0].(*ast.Ident)
			if !isId || v.Name == "_" || v.Name == t.recv || v.Name == t.precVar || t.locals[v.Name] {
				break
			}
			if _, shadows := t.strVars[v.Name]; shadows {
				break
			}
			// p := exprPrec(x); rest
			if c, ok := s.Rhs[0].(*ast.CallExpr); ok && isIdent(c.Fun, "exprPrec") {
				if t.precVar == "" && len(c.Args) == 1 && isIdent(c.Args[0], t.recv) {
					t.precVar = v.Name
					return "(.letPrec " + t.body(stmts[1:]) + ")"
				}
				break
			}
			// v := e; rest   (e a string expression of the DSL)
			e := t.expr(s.Rhs[0])
			t.locals[v.Name] = true
			return "(.letStr " + leanStr(v.Name) + " " + e + " " + t.body(stmts[1:]) + ")"
		}
	case *ast.IfStmt:
		// if _, ok := x.F.(*T); ok { v += "lit" }; rest     (v a local string)  ==>  v := v + strOpt(kidKindIs F T, "lit"); rest
		if as, ok := s.Init.(*ast.AssignStmt); ok && s.Else == nil && len(s.Body.List) == 1 && len(stmts) > 1 && len(as.Lhs) == 2 && len(as.Rhs) == 1 {
			okVar, isOk := as.Lhs[1].(*ast.Ident)
			ta, isTA := as.Rhs[0].(*ast.TypeAssertExpr)
			cond, condIsIdent := s.Cond.(*ast.Ident)
			if isOk && isTA && condIsIdent && cond.Name == okVar.Name && isIdent(as.Lhs[0], "_") {
				if f, ok := t.fieldOf(ta.X); ok {
					if star, ok := ta.Type.(*ast.StarExpr); ok {
						if kind, ok := star.X.(*ast.Ident); ok {
							if inc, ok := s.Body.List[0].(*ast.AssignStmt); ok && inc.Tok == token.ADD_ASSIGN && len(inc.Lhs) == 1 && len(inc.Rhs) == 1 {
								if v, ok := inc.Lhs[0].(*ast.Ident); ok && t.locals[v.Name] {
									if bl, ok := inc.Rhs[0].(*ast.BasicLit); ok && bl.Kind == token.STRING {
										lit, _ := strconv.Unquote(bl.Value)
										if f.cls == "node" && isASCIIText(lit) {
											return "(.letStr " + leanStr(v.Name) + " (.cat (.local " + leanStr(v.Name) + ") (.strOpt (.kidKindIs " + leanStr(f.name) + " " + leanStr(kind.Name) + ") (.lit " + leanStr(lit) + "))) " + t.body(stmts[1:]) + ")"
										}
									}
								}
							}
						}
					}
				}
			}
		}
		// if c { return a }; rest
		if s.Init == nil && s.Else == nil && len(s.Body.List) == 1 && len(stmts) > 1 {
			if ret, ok := s.Body.List[0].(*ast.ReturnStmt); ok && len(ret.Results) == 1 {
				return "(.ifRet " + t.cond(s.Cond) + " " + t.expr(ret.Results[0]) + " " + t.body(stmts[1:]) + ")"
			}
		}
	}
	t.fail("statement form not in the DSL")
	return ""
}

// ---------------------------------------------------------------------------------------------

type sqlReport struct {
	exact, custom, missing int
	customs                []string
	why                    map[string]string
	extra                  []string // methods on types that are not catalogue structs
}

func loadEnumConsts(repo string) (names []string, typ, val map[string]string) {
	cf := parseFile(filepath.Join(repo, "ast", "ast_const.go"))
	typ, val = map[string]string{}, map[string]string{}
	for _, d := range cf.Decls {
		gd, ok := d.(*ast.GenDecl)
		if !ok || gd.Tok != token.CONST {
			continue
		}
		for _, sp := range gd.Specs {
			s := sp.(*ast.ValueSpec)
			id, ok := s.Type.(*ast.Ident)
			if !ok || len(s.Values) != 1 || len(s.Names) != 1 {
				continue
			}
			if bl, ok := s.Values[0].(*ast.BasicLit); ok && bl.Kind == token.STRING {
				v, err := strconv.Unquote(bl.Value)
				if err != nil {
					continue
				}
				names = append(names, s.Names[0].Name)
				typ[s.Names[0].Name] = id.Name
				val[s.Names[0].Name] = v
			}
		}
	}
	return
}

func genSqlGo(repo string, cat *catalog) string {
	f := parseFile(filepath.Join(repo, "ast", "sql.go"))
	constNames, constTyp, constVal := loadEnumConsts(repo)

	// ---- package-level machinery: int constants, string variables, prec constants, exprPrec, paren
	intConst := map[string]int{}
	strVars := map[string]string{}
	var precNames []string
	precConst := map[string]int{}
	for _, d := range f.Decls {
		gd, ok := d.(*ast.GenDecl)
		if !ok {
			continue
		}
		switch gd.Tok {
		case token.CONST:
			// either `const name = <int>` or the iota block of type prec
			isPrec := false
			for i, sp := range gd.Specs {
				s := sp.(*ast.ValueSpec)
				if i == 0 {
					if id, ok := s.Type.(*ast.Ident); ok && id.Name == "prec" && len(s.Values) == 1 && isIdent(s.Values[0], "iota") {
						isPrec = true
					}
				}
				if isPrec {
					if (i == 0 || (s.Type == nil && len(s.Values) == 0)) && len(s.Names) == 1 {
						precConst[s.Names[0].Name] = len(precNames)
						precNames = append(precNames, s.Names[0].Name)
					} else {
						precNames = append(precNames, "<unrecognised>")
					}
					continue
				}
				if len(s.Names) == 1 && len(s.Values) == 1 {
					if bl, ok := s.Values[0].(*ast.BasicLit); ok && bl.Kind == token.INT {
						if v, err := strconv.Atoi(bl.Value); err == nil {
							intConst[s.Names[0].Name] = v
						}
					}
				}
			}
		case token.VAR:
			// var indent = strings.Repeat("<lit>", <int const>)
			for _, sp := range gd.Specs {
				s := sp.(*ast.ValueSpec)
				if len(s.Names) != 1 || len(s.Values) != 1 {
					continue
				}
				c, ok := s.Values[0].(*ast.CallExpr)
				if !ok || len(c.Args) != 2 {
					continue
				}
				se, ok := c.Fun.(*ast.SelectorExpr)
				if !ok || !isIdent(se.X, "strings") || se.Sel.Name != "Repeat" {
					continue
				}
				bl, ok1 := c.Args[0].(*ast.BasicLit)
				id, ok2 := c.Args[1].(*ast.Ident)
				if ok1 && ok2 && bl.Kind == token.STRING {
					if n, ok := intConst[id.Name]; ok {
						if u, err := strconv.Unquote(bl.Value); err == nil {
							strVars[s.Names[0].Name] = strings.Repeat(u, n)
						}
					}
				}
			}
		}
	}
	// a package-level string variable that is assigned anywhere in the package's sql.go is not a constant
	ast.Inspect(f, func(n ast.Node) bool {
		if as, ok := n.(*ast.AssignStmt); ok {
			for _, l := range as.Lhs {
				if id, ok := l.(*ast.Ident); ok && as.Tok != token.DEFINE {
					if _, isVar := strVars[id.Name]; isVar && id.Obj != nil && id.Obj.Kind == ast.Var {
						if _, isSpec := id.Obj.Decl.(*ast.ValueSpec); isSpec {
							delete(strVars, id.Name)
						}
					}
				}
			}
		}
		return true
	})

	var precRows []string
	var precSwitch []string
	exprPrecOK := false
	parenCmp, parenOpen, parenClose := "", "", ""
	for _, d := range f.Decls {
		fd, ok := d.(*ast.FuncDecl)
		if !ok || fd.Recv != nil || fd.Body == nil {
			continue
		}
		switch fd.Name.Name {
		case "exprPrec":
			precRows, precSwitch, exprPrecOK = readExprPrec(fd, cat, precConst, constTyp, constVal)
		case "paren":
			parenCmp, parenOpen, parenClose = readParen(fd)
		}
	}

	// ---- the methods
	rep := &sqlReport{why: map[string]string{}}
	bodies := map[string]string{}
	for _, d := range f.Decls {
		fd, ok := d.(*ast.FuncDecl)
		if !ok || fd.Recv == nil || fd.Name.Name != "SQL" || len(fd.Recv.List) != 1 || fd.Body == nil {
			continue
		}
		tn := strings.TrimPrefix(exprString(fd.Recv.List[0].Type), "*")
		k := cat.byName[tn]
		if k == nil {
			rep.extra = append(rep.extra, tn)
			continue
		}
		recv := "_"
		if len(fd.Recv.List[0].Names) == 1 {
			recv = fd.Recv.List[0].Names[0].Name
		}
		t := &sqlTr{cat: cat, k: k, recv: recv, precConst: precConst, strVars: strVars, constOf: constTyp, locals: map[string]bool{}}
		term, why := func() (term, why string) {
			defer func() {
				if r := recover(); r != nil {
					nf, ok := r.(notFit)
					if !ok {
						panic(r)
					}
					why = nf.why
				}
			}()
			return t.body(fd.Body.List), ""
		}()
		if _, dup := bodies[tn]; dup {
			term, why = "", "two SQL() methods"
		}
		if why != "" {
			bodies[tn] = fmt.Sprintf(".custom %s %s", leanStr(tn), leanStr(normSrc(fd.Body)))
			rep.custom++
			rep.customs = append(rep.customs, tn)
			rep.why[tn] = why
		} else {
			bodies[tn] = strings.TrimSuffix(strings.TrimPrefix(term, "("), ")")
			rep.exact++
		}
	}

	var sb strings.Builder
	sb.WriteString(header + "import MF.Model.Print\nimport MF.Gen.Catalog\nnamespace MF.Gen\nopen MF.Ast\n\n")
	var items []string
	for _, k := range cat.kinds {
		b, ok := bodies[k.name]
		if !ok {
			b = ".missing"
			rep.missing++
		}
		items = append(items, fmt.Sprintf("(%s, %s)", leanStr(k.name), b))
	}
	sb.WriteString("/-- every `func (x *T) SQL() string` of ast/sql.go, in the declaration order of ast/ast.go -/\n")
	chunked(&sb, "sqlGo", "String × SqlBody", items, 20)

	var cs []string
	for _, n := range constNames {
		cs = append(cs, fmt.Sprintf("(%s, %s, %s)", leanStr(n), leanStr(constTyp[n]), leanStr(constVal[n])))
	}
	fmt.Fprintf(&sb, "/-- the constants of ast/ast_const.go: (NAME, enum type, value) -/\ndef enumConsts : List (String × String × String) := [\n  %s]\n\n", strings.Join(cs, ",\n  "))

	var pn []string
	for _, n := range precNames {
		pn = append(pn, leanStr(n))
	}
	fmt.Fprintf(&sb, "/-- the `prec` constants in iota order -/\ndef precConsts : List String := %s\n\n", leanList(pn))
	if !exprPrecOK {
		precRows = append(precRows, `("<unrecognised>", none, 0)`)
	}
	fmt.Fprintf(&sb, "/-- the `exprPrec` switch: (kind, value of the inner-switch field, level) -/\ndef exprPrec : List (String × Option String × Nat) := [\n  %s]\n\n", strings.Join(precRows, ",\n  "))
	fmt.Fprintf(&sb, "/-- the inner switches of `exprPrec`: (kind, field) -/\ndef exprPrecSwitch : List (String × String) := %s\n\n", leanList(precSwitch))
	if parenCmp == "" {
		parenCmp, parenOpen, parenClose = ".ne", "<unrecognised>", "<unrecognised>"
	}
	fmt.Fprintf(&sb, "/-- `paren(p, e)`: `if exprPrec(e) CMP p { return e.SQL() } else { return OPEN + e.SQL() + CLOSE }` -/\ndef parenCmp : CmpOp := %s\ndef parenOpen : String := %s\ndef parenClose : String := %s\n\n", parenCmp, leanStr(parenOpen), leanStr(parenClose))
	sort.Strings(rep.customs)
	var cn []string
	for _, c := range rep.customs {
		cn = append(cn, leanStr(c))
	}
	fmt.Fprintf(&sb, "/-- bodies that did not fit the DSL (exact: %d, custom: %d, structs without SQL(): %d) -/\ndef sqlCustoms : List String := %s\n\n", rep.exact, rep.custom, rep.missing, leanList(cn))
	// survey: fields (other than positions) that the SQL() method never reads
	var unread, unreadItems []string
	for _, d := range f.Decls {
		fd, ok := d.(*ast.FuncDecl)
		if !ok || fd.Recv == nil || fd.Name.Name != "SQL" || fd.Body == nil {
			continue
		}
		k := cat.byName[strings.TrimPrefix(exprString(fd.Recv.List[0].Type), "*")]
		if k == nil {
			continue
		}
		recv := "_"
		if len(fd.Recv.List[0].Names) == 1 {
			recv = fd.Recv.List[0].Names[0].Name
		}
		used := map[string]bool{}
		ast.Inspect(fd.Body, func(n ast.Node) bool {
			if se, ok := n.(*ast.SelectorExpr); ok && isIdent(se.X, recv) {
				used[se.Sel.Name] = true
			}
			return true
		})
		for _, fl := range k.fields {
			if fl.cls != "pos" && !used[fl.name] {
				unread = append(unread, fmt.Sprintf("%s.%s (%s %s)", k.name, fl.name, fl.cls, fl.goType))
				unreadItems = append(unreadItems, fmt.Sprintf("(%s, %s)", leanStr(k.name), leanStr(fl.name)))
			}
		}
	}
	fmt.Fprintf(&sb, "/-- (kind, field): non-position fields that the kind's `SQL()` never reads -/\ndef sqlUnread : List (String × String) := %s\n\n", leanList(unreadItems))
	sb.WriteString("def sqlTables : SqlTables := ⟨kinds, sqlGo, enumConsts, precConsts, exprPrec, exprPrecSwitch, parenCmp, parenOpen, parenClose⟩\n\nend MF.Gen\n")

	if os.Getenv("EXTRACT_VERBOSE") != "" {
		fmt.Fprintf(os.Stderr, "sql.go: %d exact, %d custom, %d structs without SQL(), methods on non-catalogue types: %v\n", rep.exact, rep.custom, rep.missing, rep.extra)
		for _, c := range rep.customs {
			fmt.Fprintf(os.Stderr, "  custom %s: %s\n", c, rep.why[c])
		}
		for _, u := range unread {
			fmt.Fprintf(os.Stderr, "  unread %s\n", u)
		}
	}
	return sb.String()
}

// readExprPrec: `switch e := e.(type) { case *A, *B: return precX; case *C: switch e.F { case K1, K2: return precY } } panic(...)`
func readExprPrec(fd *ast.FuncDecl, cat *catalog, precConst map[string]int, constTyp, constVal map[string]string) (rows, sw []string, ok bool) {
	if len(fd.Body.List) != 2 {
		return nil, nil, false
	}
	ts, isTS := fd.Body.List[0].(*ast.TypeSwitchStmt)
	if !isTS {
		return nil, nil, false
	}
	// the statement after the switch must be a panic call
	if es, isE := fd.Body.List[1].(*ast.ExprStmt); !isE {
		return nil, nil, false
	} else if c, isC := es.X.(*ast.CallExpr); !isC || !isIdent(c.Fun, "panic") {
		return nil, nil, false
	}
	// the switch variable
	swVar := ""
	if as, isA := ts.Assign.(*ast.AssignStmt); isA && len(as.Lhs) == 1 {
		swVar = as.Lhs[0].(*ast.Ident).Name
	}
	ok = true
	retLevel := func(s ast.Stmt) (int, bool) {
		r, isR := s.(*ast.ReturnStmt)
		if !isR || len(r.Results) != 1 {
			return 0, false
		}
		id, isI := r.Results[0].(*ast.Ident)
		if !isI {
			return 0, false
		}
		v, has := precConst[id.Name]
		return v, has
	}
	for _, cs := range ts.Body.List {
		cc := cs.(*ast.CaseClause)
		var kinds []string
		for _, te := range cc.List {
			st, isS := te.(*ast.StarExpr)
			if !isS {
				ok = false
				continue
			}
			id, isI := st.X.(*ast.Ident)
			if !isI || cat.byName[id.Name] == nil {
				ok = false
				continue
			}
			kinds = append(kinds, id.Name)
		}
		if cc.List == nil || len(cc.Body) != 1 {
			ok = false
			continue
		}
		if lv, isRet := retLevel(cc.Body[0]); isRet {
			for _, k := range kinds {
				rows = append(rows, fmt.Sprintf("(%s, none, %d)", leanStr(k), lv))
			}
			continue
		}
		inner, isSw := cc.Body[0].(*ast.SwitchStmt)
		if !isSw || inner.Init != nil || len(kinds) != 1 {
			ok = false
			continue
		}
		se, isSe := inner.Tag.(*ast.SelectorExpr)
		if !isSe || !isIdent(se.X, swVar) {
			ok = false
			continue
		}
		fieldType := ""
		for _, fl := range cat.byName[kinds[0]].fields {
			if fl.name == se.Sel.Name && fl.cls == "enum" {
				fieldType = fl.goType
			}
		}
		if fieldType == "" {
			ok = false
			continue
		}
		sw = append(sw, fmt.Sprintf("(%s, %s)", leanStr(kinds[0]), leanStr(se.Sel.Name)))
		for _, ics := range inner.Body.List {
			icc := ics.(*ast.CaseClause)
			if icc.List == nil || len(icc.Body) != 1 {
				ok = false
				continue
			}
			lv, isRet := retLevel(icc.Body[0])
			if !isRet {
				ok = false
				continue
			}
			for _, ce := range icc.List {
				id, isI := ce.(*ast.Ident)
				if !isI || constTyp[id.Name] != fieldType {
					ok = false
					continue
				}
				rows = append(rows, fmt.Sprintf("(%s, some %s, %d)", leanStr(kinds[0]), leanStr(constVal[id.Name]), lv))
			}
		}
	}
	return rows, sw, ok
}

// readParen: `ep := exprPrec(e); if ep OP p { return e.SQL() } else { return "(" + e.SQL() + ")" }`
func readParen(fd *ast.FuncDecl) (cmp, open, close string) {
	if fd.Type.Params == nil || len(fd.Type.Params.List) != 2 || len(fd.Body.List) != 2 {
		return
	}
	p := fd.Type.Params.List[0].Names[0].Name
	e := fd.Type.Params.List[1].Names[0].Name
	as, ok := fd.Body.List[0].(*ast.AssignStmt)
	if !ok || len(as.Lhs) != 1 || len(as.Rhs) != 1 {
		return
	}
	ep := as.Lhs[0].(*ast.Ident).Name
	if c, ok := as.Rhs[0].(*ast.CallExpr); !ok || !isIdent(c.Fun, "exprPrec") || len(c.Args) != 1 || !isIdent(c.Args[0], e) {
		return
	}
	is, ok := fd.Body.List[1].(*ast.IfStmt)
	if !ok || is.Init != nil || is.Else == nil {
		return
	}
	be, ok := is.Cond.(*ast.BinaryExpr)
	if !ok || !isIdent(be.X, ep) || !isIdent(be.Y, p) {
		return
	}
	isESQL := func(x ast.Expr) bool {
		c, ok := x.(*ast.CallExpr)
		if !ok || len(c.Args) != 0 {
			return false
		}
		se, ok := c.Fun.(*ast.SelectorExpr)
		return ok && isIdent(se.X, e) && se.Sel.Name == "SQL"
	}
	oneRet := func(b *ast.BlockStmt) ast.Expr {
		if b == nil || len(b.List) != 1 {
			return nil
		}
		r, ok := b.List[0].(*ast.ReturnStmt)
		if !ok || len(r.Results) != 1 {
			return nil
		}
		return r.Results[0]
	}
	thenE := oneRet(is.Body)
	eb, _ := is.Else.(*ast.BlockStmt)
	elseE := oneRet(eb)
	if thenE == nil || elseE == nil || !isESQL(thenE) {
		return
	}
	// "(" + e.SQL() + ")"
	outer, ok := elseE.(*ast.BinaryExpr)
	if !ok || outer.Op != token.ADD {
		return
	}
	innerB, ok := outer.X.(*ast.BinaryExpr)
	if !ok || innerB.Op != token.ADD || !isESQL(innerB.Y) {
		return
	}
	l, ok1 := innerB.X.(*ast.BasicLit)
	r, ok2 := outer.Y.(*ast.BasicLit)
	if !ok1 || !ok2 || l.Kind != token.STRING || r.Kind != token.STRING {
		return
	}
	lo, err1 := strconv.Unquote(l.Value)
	rc, err2 := strconv.Unquote(r.Value)
	if err1 != nil || err2 != nil {
		return
	}
	switch be.Op {
	case token.LEQ:
		cmp = ".le"
	case token.LSS:
		cmp = ".lt"
	case token.GEQ:
		cmp = ".ge"
	case token.GTR:
		cmp = ".gt"
	case token.EQL:
		cmp = ".eq"
	case token.NEQ:
		cmp = ".ne"
	default:
		return
	}
	return cmp, lo, rc
}

func isASCIIText(s string) bool {
	for i := 0; i < len(s); i++ {
		if s[i] >= 0x80 {
			return false
		}
	}
	return true
}
