package main

// posprov.go — PROVENANCE of every token.Pos field of every `ast.K{…}` composite literal of parser.go.
//
// Output lean/MF/Gen/PosProv.lean (types in lean/MF/Model/PosProv.lean), regenerated on every run:
//   sitesByKind   one row per struct of ast/ast.go, in catalogue order: the literal sites of that kind, and for every
//                 token.Pos field of the kind the list of provenances the field can have at that site
//   helperSrc     the gofmt-printed source text of Parser.expect / expectKeywordLike / expectIdent / nextToken, whose
//                 meaning the reading below relies on (the Lean side pins the text)
//   counts
//
// The reader is a purely syntactic, flow-sensitive abstract interpretation of one function body at a time:
//   * every value the parser's current token `p.Token` takes gets a number (tid).  A call of a function that may
//     advance the lexer makes the current token a fresh, unknown one.  "May advance" is computed from the sources
//     (fixpoint): a function preserves the token iff on every return path nothing advanced it, or the function armed
//     `x := p.Lexer.Clone(); defer func() { p.Lexer = x }()` before anything advanced.  Unknown callees (function
//     values) advance.
//   * what is KNOWN about a token is a set of alternatives (`sym "X"` = Kind == "X", `kwlike "W"` = IsKeywordLike("W"),
//     `ident`, `identAs "W"` = IsIdent("W"), `special` = another token.TokenXxx constant); it is refined by dominating
//     guards on the branch where they hold (`if`, early exit, `switch` case, `for` condition, `&&`/`||`/`!`), and by
//     `p.expect(K)` / `p.expectKeywordLike(W)` / `p.expectIdent(W)`, which return THE CURRENT token, refined, and advance.
//     Knowledge is attached to the tid, so `pos := p.Token.Pos` followed by `switch p.Token.Kind { case "NULL": …`
//     knows in that case that `pos` is the start of a NULL token, and a read after `p.nextToken()` knows nothing.
//   * local variables are identified by their declaration (go/parser's object resolution), so shadowing is exact;
//     at a join two different values become a `multi` value (≤ 8 alternatives, else `other`); variables assigned inside
//     a loop are unknown at the loop head.
//   * a function parameter of type token.Pos is `param`; it is resolved ONE level: the provenances of the argument at
//     every call site in the package (a call site that passes its own parameter stays `param`).
// Whatever does not fit is `other "<source text>"`.  The analysis of a function runs under recover: a construct that
// trips it makes the sites of that function `other "analysis failed: …"`, never a crash.

import (
	"bytes"
	"fmt"
	"go/ast"
	"go/printer"
	"go/token"
	"os"
	"path/filepath"
	"sort"
	"strings"
)

func init() { extraGenerators["PosProv.lean"] = genPosProv }

// ---------------------------------------------------------------------------------------------
// abstract values

type tokAlt struct {
	cls  string // sym | kwlike | ident | identAs | special
	text string
}

type tokKnow struct {
	known bool
	alts  []tokAlt
}

type aval struct {
	k     string // pos | tok | invalid | nodepos | nodeend | param | lit | multi | unset | other
	tid   int
	side  string // start | end
	how   string // expect | tokvar | cur
	src   string
	pidx  int
	pname string
	site  int
	alts  []aval
	fa    []tokAlt // k == fpos: the knowledge frozen at a join
}

func (a aval) key() string {
	switch a.k {
	case "pos", "tok":
		return fmt.Sprintf("%s/%d/%s/%s", a.k, a.tid, a.side, a.how)
	case "param":
		return fmt.Sprintf("param/%d", a.pidx)
	case "tokparam", "parampos":
		return fmt.Sprintf("%s/%d/%s", a.k, a.pidx, a.side)
	case "ret":
		return fmt.Sprintf("ret/%s/%d", a.src, a.pidx)
	case "fpos":
		return fmt.Sprintf("fpos/%v/%s/%s", a.fa, a.side, a.how)
	case "lit":
		return fmt.Sprintf("lit/%d", a.site)
	case "multi":
		var ks []string
		for _, x := range a.alts {
			ks = append(ks, x.key())
		}
		return "multi(" + strings.Join(ks, ",") + ")"
	}
	return a.k + "/" + a.src
}

func otherVal(src string) aval { return aval{k: "other", src: src} }

// the provenance as emitted
type prov struct {
	cons   string // tok | tokvar | cur | invalid | nodePos | nodeEnd | param | unset | other
	alts   []tokAlt
	side   string
	src    string
	idx    int
	tokpar bool // cons == param: `.Pos`/`.End` (side) of a token-typed parameter
	entry  bool // the token is the one current at function entry
}

func (p prov) lean() string {
	switch p.cons {
	case "tok", "tokvar", "cur":
		var as []string
		for _, a := range p.alts {
			switch a.cls {
			case "ident":
				as = append(as, ".ident")
			default:
				as = append(as, fmt.Sprintf(".%s %s", a.cls, leanStr(a.text)))
			}
		}
		side := ".start"
		if p.side == "end" {
			side = ".end"
		}
		return fmt.Sprintf(".%s %s %s", p.cons, leanList(as), side)
	case "invalid", "unset":
		return "." + p.cons
	case "ret":
		return fmt.Sprintf(".other %s", leanStr(fmt.Sprintf("result %d of %s", p.idx, p.src)))
	}
	return fmt.Sprintf(".%s %s", p.cons, leanStr(p.src))
}

type fieldProv struct {
	field string
	via   string // "" | "param <name>" | "assign"
	provs []prov
}

type psite struct {
	fn       string
	kind     string
	line     int
	fields   []*fieldProv
	setInLit map[string]bool
	failed   string
}

// ---------------------------------------------------------------------------------------------
// per-package information

type fnInfo struct {
	name   string // Recv.name
	decl   *ast.FuncDecl
	recv   string                 // name of the *Parser receiver ("" if none)
	pvars  map[*ast.Object]string // variables holding the parser ("Parser") or its lexer ("Lexer")
	posPar map[int]string         // index -> name, parameters of type token.Pos
	tokPar map[int]string         // parameters of type token.Token / *token.Token
	posRes map[int]bool           // results of type token.Pos
	resObj []*ast.Object          // named results (nil entries when unnamed)
}

type ppkg struct {
	cat       *catalog
	fset      *token.FileSet
	fns       map[string]*fnInfo // by bare name for functions, Recv.name for methods
	byBare    map[string][]*fnInfo
	preserves map[string]bool // function name -> proven token-preserving
	noReturn  map[string]bool
	sites     []*psite
	calls     map[string]map[int][]prov // callee name -> param index -> argument provenances
	rets      map[string]map[int][]prov // function -> result index -> provenances at its returns
	entryKnow map[string][]tokKnow      // callee -> what each call site knows about the current token
	escapes   map[string]bool           // functions used as values: their call sites are not all visible
	record    bool
	src       map[string][]byte
}

func (pk *ppkg) srcOf(n ast.Node) string {
	p0, p1 := pk.fset.Position(n.Pos()), pk.fset.Position(n.End())
	b, ok := pk.src[p0.Filename]
	if !ok {
		var err error
		b, err = os.ReadFile(p0.Filename)
		if err != nil {
			return ""
		}
		pk.src[p0.Filename] = b
	}
	if p0.Offset < 0 || p1.Offset > len(b) || p0.Offset > p1.Offset {
		return ""
	}
	return oneLine(string(b[p0.Offset:p1.Offset]))
}

func typeIs(e ast.Expr, pkg, name string) bool {
	if s, ok := e.(*ast.StarExpr); ok {
		e = s.X
	}
	switch t := e.(type) {
	case *ast.SelectorExpr:
		id, ok := t.X.(*ast.Ident)
		return ok && id.Name == pkg && t.Sel.Name == name
	case *ast.Ident:
		return pkg == "" && t.Name == name
	}
	return false
}

// ---------------------------------------------------------------------------------------------
// state

type pstate struct {
	cur   int
	know  map[int]tokKnow
	vars  map[*ast.Object]aval
	dead  bool
	armed bool // the restore-defer is in place
	entry int
}

func (s *pstate) clone() *pstate {
	n := &pstate{cur: s.cur, dead: s.dead, armed: s.armed, entry: s.entry,
		know: make(map[int]tokKnow, len(s.know)), vars: make(map[*ast.Object]aval, len(s.vars))}
	for k, v := range s.know {
		n.know[k] = v
	}
	for k, v := range s.vars {
		n.vars[k] = v
	}
	return n
}

type frame struct {
	label  string
	isLoop bool
	breaks []*pstate
}

type interp struct {
	pk        *ppkg
	fn        *fnInfo
	nextTid   int
	frames    []*frame
	exits     []bool // per return point: token preserved?
	labels    map[ast.Stmt]string
	inClosure int
}

func (in *interp) fresh(s *pstate) int {
	in.nextTid++
	s.know[in.nextTid] = tokKnow{}
	return in.nextTid
}

func (in *interp) advance(s *pstate) { s.cur = in.fresh(s) }

func compat(old, nw tokAlt) bool {
	if old == nw {
		return true
	}
	if old.cls == "ident" && (nw.cls == "kwlike" || nw.cls == "identAs") {
		return true
	}
	return false
}

func meet(a tokKnow, b []tokAlt) tokKnow {
	if len(b) == 0 {
		return a
	}
	if !a.known {
		return tokKnow{true, append([]tokAlt(nil), b...)}
	}
	var out []tokAlt
	for _, x := range b {
		for _, y := range a.alts {
			if compat(y, x) {
				out = append(out, x)
				break
			}
		}
	}
	for _, y := range a.alts {
		if y.cls == "kwlike" || y.cls == "identAs" {
			for _, x := range b {
				if x.cls == "ident" {
					out = append(out, y)
					break
				}
			}
		}
	}
	if len(out) == 0 {
		out = append(out, b...)
	}
	return tokKnow{true, dedupAlts(out)}
}

func dedupAlts(in []tokAlt) []tokAlt {
	var out []tokAlt
	for _, a := range in {
		dup := false
		for _, b := range out {
			if a == b {
				dup = true
			}
		}
		if !dup {
			out = append(out, a)
		}
	}
	return out
}

// a position whose token is KNOWN on this path keeps that knowledge when it meets another value at a join
func freeze(s *pstate, v aval) aval {
	switch v.k {
	case "pos":
		if kn := s.know[v.tid]; kn.known {
			return aval{k: "fpos", fa: append([]tokAlt(nil), kn.alts...), side: v.side, how: v.how}
		}
	case "multi":
		var alts []aval
		for _, x := range v.alts {
			alts = append(alts, freeze(s, x))
		}
		return aval{k: "multi", alts: alts}
	}
	return v
}

func joinVal(sa, sb *pstate, a, b aval) aval {
	if a.key() == b.key() {
		return a
	}
	a, b = freeze(sa, a), freeze(sb, b)
	flat := func(x aval) []aval {
		if x.k == "multi" {
			return x.alts
		}
		return []aval{x}
	}
	var alts []aval
	seen := map[string]bool{}
	for _, x := range append(flat(a), flat(b)...) {
		if !seen[x.key()] {
			seen[x.key()] = true
			alts = append(alts, x)
		}
	}
	if len(alts) > 8 {
		return otherVal("more than 8 values reach this point")
	}
	return aval{k: "multi", alts: alts}
}

func (in *interp) join(a, b *pstate) *pstate {
	if a == nil || a.dead {
		if b == nil {
			return a
		}
		return b
	}
	if b == nil || b.dead {
		return a
	}
	n := a.clone()
	n.armed = a.armed && b.armed
	for tid, kb := range b.know {
		ka, ok := a.know[tid]
		if !ok {
			n.know[tid] = kb // created on b's branch only
			continue
		}
		if ka.known && kb.known {
			n.know[tid] = tokKnow{true, dedupAlts(append(append([]tokAlt(nil), ka.alts...), kb.alts...))}
		} else {
			n.know[tid] = tokKnow{}
		}
	}
	if a.cur != b.cur {
		n.cur = in.fresh(n)
	}
	for o, vb := range b.vars {
		va, ok := a.vars[o]
		if !ok {
			n.vars[o] = vb
			continue
		}
		n.vars[o] = joinVal(a, b, va, vb)
	}
	return n
}

func (in *interp) joinAll(ss []*pstate) *pstate {
	var r *pstate
	for _, s := range ss {
		if s == nil || s.dead {
			continue
		}
		if r == nil {
			r = s
		} else {
			r = in.join(r, s)
		}
	}
	if r == nil {
		return &pstate{dead: true, know: map[int]tokKnow{}, vars: map[*ast.Object]aval{}}
	}
	return r
}

// ---------------------------------------------------------------------------------------------
// recognisers

func (in *interp) isParserVar(e ast.Expr) bool {
	id, ok := e.(*ast.Ident)
	return ok && id.Obj != nil && in.fn.pvars[id.Obj] != ""
}

func (in *interp) parserVarType(e ast.Expr) string {
	if id, ok := e.(*ast.Ident); ok && id.Obj != nil {
		return in.fn.pvars[id.Obj]
	}
	return ""
}

// `p.Token` / `p.Lexer.Token`
func (in *interp) isCurToken(e ast.Expr) bool {
	se, ok := e.(*ast.SelectorExpr)
	if !ok || se.Sel.Name != "Token" {
		return false
	}
	if in.isParserVar(se.X) {
		return true
	}
	if s2, ok := se.X.(*ast.SelectorExpr); ok && s2.Sel.Name == "Lexer" && in.isParserVar(s2.X) {
		return true
	}
	return false
}

func strLit(e ast.Expr) (string, bool) {
	bl, ok := e.(*ast.BasicLit)
	if !ok || bl.Kind != token.STRING {
		return "", false
	}
	v := bl.Value
	if len(v) >= 2 && (v[0] == '"' || v[0] == '`') {
		if v[0] == '"' && strings.ContainsRune(v, '\\') {
			return "", false
		}
		return v[1 : len(v)-1], true
	}
	return "", false
}

// a token-kind operand: a string literal or a token.TokenXxx constant
func kindAlt(e ast.Expr) (tokAlt, bool) {
	if s, ok := strLit(e); ok {
		return tokAlt{"sym", s}, true
	}
	if se, ok := e.(*ast.SelectorExpr); ok {
		if id, ok := se.X.(*ast.Ident); ok && id.Name == "token" && strings.HasPrefix(se.Sel.Name, "Token") {
			if se.Sel.Name == "TokenIdent" {
				return tokAlt{"ident", ""}, true
			}
			return tokAlt{"special", se.Sel.Name}, true
		}
	}
	return tokAlt{}, false
}

// ---------------------------------------------------------------------------------------------
// expressions

func unparen(e ast.Expr) ast.Expr {
	for {
		p, ok := e.(*ast.ParenExpr)
		if !ok {
			return e
		}
		e = p.X
	}
}

// evaluates `e` in evaluation order; calls that may advance the lexer change s.cur
func (in *interp) eval(s *pstate, e ast.Expr) aval {
	switch x := e.(type) {
	case nil:
		return otherVal("")
	case *ast.ParenExpr:
		return in.eval(s, x.X)
	case *ast.Ident:
		if x.Obj != nil {
			if v, ok := s.vars[x.Obj]; ok {
				return v
			}
		}
		if _, ok := in.pk.fns[x.Name]; ok && (x.Obj == nil || x.Obj.Kind == ast.Fun) {
			in.pk.escapes[x.Name] = true // a function used as a value
		}
		return otherVal(x.Name)
	case *ast.BasicLit:
		return otherVal(x.Value)
	case *ast.SelectorExpr:
		if id, ok := x.X.(*ast.Ident); ok && id.Name == "token" && id.Obj == nil && x.Sel.Name == "InvalidPos" {
			return aval{k: "invalid"}
		}
		if in.isCurToken(x) {
			return aval{k: "tok", tid: s.cur, how: "cur"}
		}
		if in.isParserVar(x.X) {
			if _, ok := in.pk.fns[in.parserVarType(x.X)+"."+x.Sel.Name]; ok {
				in.pk.escapes[in.parserVarType(x.X)+"."+x.Sel.Name] = true // a method value
			} else if _, ok := in.pk.fns["Lexer."+x.Sel.Name]; ok {
				in.pk.escapes["Lexer."+x.Sel.Name] = true
			}
		}
		base := in.eval(s, x.X)
		if base.k == "tokparam" && (x.Sel.Name == "Pos" || x.Sel.Name == "End") {
			side := "start"
			if x.Sel.Name == "End" {
				side = "end"
			}
			return aval{k: "parampos", pidx: base.pidx, pname: base.pname, side: side}
		}
		if base.k == "tok" {
			switch x.Sel.Name {
			case "Pos":
				return aval{k: "pos", tid: base.tid, side: "start", how: base.how}
			case "End":
				return aval{k: "pos", tid: base.tid, side: "end", how: base.how}
			}
		}
		if base.k == "multi" && (x.Sel.Name == "Pos" || x.Sel.Name == "End") {
			allTok := true
			for _, a := range base.alts {
				if a.k != "tok" {
					allTok = false
				}
			}
			if allTok {
				side := "start"
				if x.Sel.Name == "End" {
					side = "end"
				}
				var alts []aval
				for _, a := range base.alts {
					alts = append(alts, aval{k: "pos", tid: a.tid, side: side, how: a.how})
				}
				return aval{k: "multi", alts: alts}
			}
		}
		return otherVal(in.pk.srcOf(x))
	case *ast.StarExpr:
		v := in.eval(s, x.X)
		if v.k == "tok" || v.k == "tokparam" {
			return v
		}
		return otherVal(in.pk.srcOf(x))
	case *ast.UnaryExpr:
		if x.Op == token.AND && in.isCurToken(unparen(x.X)) {
			// a POINTER to the parser's current token: it shows whatever token is current when it is read, not a copy
			return otherVal("&p.Token (an alias of the current token, not a copy)")
		}
		v := in.eval(s, x.X)
		if x.Op == token.AND && (v.k == "tok" || v.k == "lit" || v.k == "tokparam") {
			return v
		}
		return otherVal(in.pk.srcOf(x))
	case *ast.BinaryExpr:
		in.eval(s, x.X)
		if x.Op == token.LAND || x.Op == token.LOR {
			t := s.clone()
			in.eval(t, x.Y)
			*s = *in.join(s, t)
		} else {
			in.eval(s, x.Y)
		}
		return otherVal(in.pk.srcOf(x))
	case *ast.CallExpr:
		return in.evalCall(s, x)
	case *ast.CompositeLit:
		return in.evalLit(s, x)
	case *ast.FuncLit:
		in.closure(s, x)
		return otherVal("func literal")
	case *ast.IndexExpr:
		in.eval(s, x.X)
		in.eval(s, x.Index)
		return otherVal(in.pk.srcOf(x))
	case *ast.IndexListExpr:
		in.eval(s, x.X)
		return otherVal(in.pk.srcOf(x))
	case *ast.SliceExpr:
		in.eval(s, x.X)
		in.eval(s, x.Low)
		in.eval(s, x.High)
		in.eval(s, x.Max)
		return otherVal(in.pk.srcOf(x))
	case *ast.TypeAssertExpr:
		in.eval(s, x.X)
		return otherVal(in.pk.srcOf(x))
	case *ast.KeyValueExpr:
		in.eval(s, x.Key)
		return in.eval(s, x.Value)
	}
	return otherVal(in.pk.srcOf(e))
}

// the body of a closure runs at an unknown time: unknown current token, every captured variable unknown
func (in *interp) closure(s *pstate, fl *ast.FuncLit) {
	t := s.clone()
	t.dead = false
	in.advance(t)
	for o := range t.vars {
		if t.vars[o].k != "lit" {
			t.vars[o] = otherVal("captured by a closure")
		}
	}
	saveFrames, saveExits := in.frames, in.exits
	in.frames = nil
	in.inClosure++
	in.execBlock(t, fl.Body.List)
	in.inClosure--
	in.frames, in.exits = saveFrames, saveExits
	// assignments made by the closure to captured variables are not tracked: make them unknown in the enclosing state
	ast.Inspect(fl.Body, func(n ast.Node) bool {
		if as, ok := n.(*ast.AssignStmt); ok && as.Tok != token.DEFINE {
			for _, l := range as.Lhs {
				if id, ok := l.(*ast.Ident); ok && id.Obj != nil {
					if v, ok := s.vars[id.Obj]; ok && v.k != "lit" {
						s.vars[id.Obj] = otherVal("assigned inside a closure")
					}
				}
			}
		}
		return true
	})
}

func (in *interp) calleeName(call *ast.CallExpr) (name string, onParser bool, resolved bool) {
	fun := unparen(call.Fun)
	if ix, ok := fun.(*ast.IndexExpr); ok { // explicit instantiation f[T](…)
		fun = ix.X
	}
	switch f := fun.(type) {
	case *ast.SelectorExpr:
		if in.isParserVar(f.X) {
			n := in.parserVarType(f.X) + "." + f.Sel.Name
			if _, ok := in.pk.fns[n]; !ok {
				if _, ok2 := in.pk.fns["Lexer."+f.Sel.Name]; ok2 { // promoted through the embedded *Lexer
					n = "Lexer." + f.Sel.Name
				}
			}
			_, ok := in.pk.fns[n]
			return n, true, ok
		}
		if s2, ok := f.X.(*ast.SelectorExpr); ok && s2.Sel.Name == "Lexer" && in.isParserVar(s2.X) {
			n := "Lexer." + f.Sel.Name
			_, ok := in.pk.fns[n]
			return n, true, ok
		}
		return "", false, false
	case *ast.Ident:
		if f.Obj != nil && f.Obj.Kind != ast.Fun {
			return f.Name, false, false // a function value held in a variable or parameter
		}
		if _, ok := in.pk.fns[f.Name]; ok {
			return f.Name, false, true
		}
	}
	return "", false, false
}

func isBuiltin(name string) bool {
	switch name {
	case "len", "cap", "append", "make", "new", "copy", "delete", "min", "max", "string", "int", "int64", "byte", "rune", "bool", "recover", "print", "println":
		return true
	}
	return false
}

func (in *interp) evalCall(s *pstate, call *ast.CallExpr) aval {
	fun := unparen(call.Fun)
	// panic(x)
	if id, ok := fun.(*ast.Ident); ok && id.Name == "panic" && id.Obj == nil {
		for _, a := range call.Args {
			in.eval(s, a)
		}
		s.dead = true
		return otherVal("panic")
	}
	// x.Pos() / x.End() of a node; tok.Clone()
	if se, ok := fun.(*ast.SelectorExpr); ok && len(call.Args) == 0 && !in.isParserVar(se.X) {
		if se.Sel.Name == "Pos" || se.Sel.Name == "End" {
			base := in.eval(s, se.X)
			if base.k != "tok" {
				if se.Sel.Name == "Pos" {
					return aval{k: "nodepos", src: in.pk.srcOf(call)}
				}
				return aval{k: "nodeend", src: in.pk.srcOf(call)}
			}
			return otherVal(in.pk.srcOf(call))
		}
		if se.Sel.Name == "Clone" {
			if s2, ok := unparen(se.X).(*ast.SelectorExpr); ok && s2.Sel.Name == "Lexer" && in.isParserVar(s2.X) {
				return otherVal(fmt.Sprintf("lexer clone at %d", s.cur))
			}
			base := in.eval(s, se.X)
			if base.k == "tok" {
				return base
			}
			return otherVal(in.pk.srcOf(call))
		}
	}
	name, onParser, resolved := in.calleeName(call)
	// the three token-returning helpers: return the current token, refined, and advance
	if resolved && (name == "Parser.expect" || name == "Parser.expectKeywordLike" || name == "Parser.expectIdent") && len(call.Args) == 1 {
		in.eval(s, call.Args[0])
		tid := s.cur
		how := "tokvar"
		var alts []tokAlt
		switch name {
		case "Parser.expect":
			if a, ok := kindAlt(call.Args[0]); ok {
				alts = []tokAlt{a}
				if a.cls == "sym" {
					how = "expect"
				}
			}
		case "Parser.expectKeywordLike":
			if w, ok := strLit(call.Args[0]); ok {
				alts = []tokAlt{{"kwlike", w}}
				how = "expect"
			} else {
				alts = []tokAlt{{"ident", ""}}
			}
		case "Parser.expectIdent":
			if w, ok := strLit(call.Args[0]); ok {
				alts = []tokAlt{{"identAs", w}}
			} else {
				alts = []tokAlt{{"ident", ""}}
			}
		}
		s.know[tid] = meet(s.know[tid], alts)
		in.advance(s)
		return aval{k: "tok", tid: tid, how: how}
	}
	// receiver / function expression, then the arguments
	switch f := fun.(type) {
	case *ast.SelectorExpr:
		if !in.isParserVar(f.X) {
			in.eval(s, f.X)
		}
	case *ast.FuncLit:
		in.closure(s, f) // func() { … }(): its sites are recorded, what it assigns is forgotten; the call below advances
	case *ast.Ident:
	default:
		in.eval(s, fun)
	}
	var args []aval
	for _, a := range call.Args {
		args = append(args, in.eval(s, a))
	}
	if resolved {
		if fi := in.pk.fns[name]; fi != nil && in.pk.record {
			kn := s.know[s.cur]
			in.pk.entryKnow[name] = append(in.pk.entryKnow[name], tokKnow{kn.known, append([]tokAlt(nil), kn.alts...)})
			for i := range fi.tokPar {
				if i < len(args) {
					var pr []prov
					if args[i].k == "tok" {
						pr = in.toProvs(s, aval{k: "pos", tid: args[i].tid, side: "start", how: "tokvar"})
					} else {
						pr = []prov{{cons: "other", src: "a token argument the reader does not follow"}}
					}
					if in.pk.calls[name] == nil {
						in.pk.calls[name] = map[int][]prov{}
					}
					in.pk.calls[name][i] = append(in.pk.calls[name][i], pr...)
				}
			}
			for i, pname := range fi.posPar {
				_ = pname
				if i < len(args) {
					pr := in.toProvs(s, args[i])
					if in.pk.calls[name] == nil {
						in.pk.calls[name] = map[int][]prov{}
					}
					in.pk.calls[name][i] = append(in.pk.calls[name][i], pr...)
				}
			}
		}
		if in.pk.noReturn[name] {
			s.dead = true
			return otherVal(in.pk.srcOf(call))
		}
		if !in.pk.preserves[name] {
			in.advance(s)
		}
		if name == "Parser.lookaheadToken" {
			t := in.fresh(s)
			return aval{k: "tok", tid: t, how: "tokvar"}
		}
		if fi := in.pk.fns[name]; fi != nil && len(fi.posRes) > 0 {
			return aval{k: "ret", src: name, pidx: 0} // result 0 if used as a single value; a tuple is taken apart by the assignment
		}
		return otherVal(in.pk.srcOf(call))
	}
	// unresolved callee
	switch f := fun.(type) {
	case *ast.Ident:
		if f.Obj == nil && isBuiltin(f.Name) {
			return otherVal(in.pk.srcOf(call))
		}
		// a function value (parameter, local) or an unknown package-level function: may do anything
		in.advance(s)
	case *ast.SelectorExpr:
		if onParser || in.isParserVar(f.X) {
			in.advance(s)
		} else if id, ok := f.X.(*ast.Ident); ok && id.Obj == nil {
			// pkg.Func(…) of an imported package: cannot touch the parser
		} else {
			// a method of some other value (a node, a token, a string builder): cannot touch the parser,
			// unless the parser itself is among the arguments
			for _, a := range call.Args {
				if in.isParserVar(a) {
					in.advance(s)
					break
				}
			}
		}
	default:
		in.advance(s)
	}
	return otherVal(in.pk.srcOf(call))
}

func (in *interp) astKind(t ast.Expr) (string, bool) {
	se, ok := t.(*ast.SelectorExpr)
	if !ok {
		return "", false
	}
	id, ok := se.X.(*ast.Ident)
	if !ok || id.Name != "ast" || id.Obj != nil {
		return "", false
	}
	if _, ok := in.pk.cat.byName[se.Sel.Name]; !ok {
		return "", false
	}
	return se.Sel.Name, true
}

func (in *interp) evalLit(s *pstate, cl *ast.CompositeLit) aval {
	kname, ok := in.astKind(cl.Type)
	if !ok {
		for _, e := range cl.Elts {
			in.eval(s, e)
		}
		return otherVal("composite literal")
	}
	k := in.pk.cat.byName[kname]
	st := &psite{fn: in.fn.name, kind: kname, line: in.pk.fset.Position(cl.Pos()).Line, setInLit: map[string]bool{}}
	isPos := map[string]bool{}
	for _, f := range k.fields {
		if f.cls == "pos" {
			isPos[f.name] = true
		}
	}
	for _, e := range cl.Elts {
		kv, ok := e.(*ast.KeyValueExpr)
		if !ok {
			in.eval(s, e)
			st.failed = "unkeyed composite literal"
			continue
		}
		v := in.eval(s, kv.Value)
		key, ok := kv.Key.(*ast.Ident)
		if !ok {
			continue
		}
		if isPos[key.Name] {
			st.setInLit[key.Name] = true
			st.fields = append(st.fields, &fieldProv{field: key.Name, provs: in.toProvs(s, v), via: in.viaOf(v)})
		}
	}
	idx := -1
	if in.pk.record {
		in.pk.sites = append(in.pk.sites, st)
		idx = len(in.pk.sites) - 1
	}
	return aval{k: "lit", site: idx, src: kname}
}

func (in *interp) viaOf(v aval) string {
	if v.k == "param" || v.k == "parampos" {
		return "param " + v.pname
	}
	return ""
}

// the provenance(s) of a value at this program point (knowledge about tokens is read NOW)
func (in *interp) toProvs(s *pstate, v aval) []prov {
	switch v.k {
	case "pos":
		cons := map[string]string{"expect": "tok", "tokvar": "tokvar", "cur": "cur"}[v.how]
		if cons == "" {
			cons = "tokvar"
		}
		kn := s.know[v.tid]
		var alts []tokAlt
		if kn.known {
			alts = append(alts, kn.alts...)
		}
		return []prov{{cons: cons, alts: alts, side: v.side, entry: v.tid == s.entry && in.inClosure == 0}}
	case "fpos":
		cons := map[string]string{"expect": "tok", "tokvar": "tokvar", "cur": "cur"}[v.how]
		if cons == "" {
			cons = "tokvar"
		}
		return []prov{{cons: cons, alts: v.fa, side: v.side}}
	case "ret":
		return []prov{{cons: "ret", src: v.src, idx: v.pidx}}
	case "parampos":
		return []prov{{cons: "param", src: v.pname, side: v.side, tokpar: true}}
	case "invalid":
		return []prov{{cons: "invalid"}}
	case "nodepos":
		return []prov{{cons: "nodePos", src: v.src}}
	case "nodeend":
		return []prov{{cons: "nodeEnd", src: v.src}}
	case "param":
		return []prov{{cons: "param", src: v.pname}}
	case "unset":
		return []prov{{cons: "unset"}}
	case "multi":
		var out []prov
		for _, a := range v.alts {
			out = append(out, in.toProvs(s, a)...)
		}
		return out
	case "tok":
		return []prov{{cons: "other", src: "a token, not a position"}}
	}
	return []prov{{cons: "other", src: v.src}}
}

// ---------------------------------------------------------------------------------------------
// conditions

// the token an expression denotes (`p.Token`, a token variable, `p.expect(…)`), if any
func (in *interp) tokenOf(s *pstate, e ast.Expr) (int, bool) {
	e = unparen(e)
	if u, ok := e.(*ast.UnaryExpr); ok && u.Op == token.AND {
		e = unparen(u.X)
	}
	if st, ok := e.(*ast.StarExpr); ok {
		e = unparen(st.X)
	}
	if in.isCurToken(e) {
		return s.cur, true
	}
	if id, ok := e.(*ast.Ident); ok && id.Obj != nil {
		if v, ok := s.vars[id.Obj]; ok && v.k == "tok" {
			return v.tid, true
		}
	}
	return 0, false
}

// `<tok>.Kind`
func (in *interp) kindOperand(s *pstate, e ast.Expr) (int, bool) {
	se, ok := unparen(e).(*ast.SelectorExpr)
	if !ok || se.Sel.Name != "Kind" {
		return 0, false
	}
	return in.tokenOf(s, se.X)
}

func (in *interp) refine(s *pstate, cond ast.Expr) (t, f *pstate) {
	cond = unparen(cond)
	switch x := cond.(type) {
	case *ast.BinaryExpr:
		switch x.Op {
		case token.LAND:
			at, af := in.refine(s, x.X)
			bt, bf := in.refine(at, x.Y)
			return bt, in.join(af, bf)
		case token.LOR:
			at, af := in.refine(s, x.X)
			bt, bf := in.refine(af, x.Y)
			return in.join(at, bt), bf
		case token.EQL, token.NEQ:
			var tid int
			var alt tokAlt
			ok := false
			if id, ok1 := in.kindOperand(s, x.X); ok1 {
				if a, ok2 := kindAlt(x.Y); ok2 {
					tid, alt, ok = id, a, true
				}
			} else if id, ok1 := in.kindOperand(s, x.Y); ok1 {
				if a, ok2 := kindAlt(x.X); ok2 {
					tid, alt, ok = id, a, true
				}
			}
			if ok {
				yes, no := s.clone(), s.clone()
				yes.know[tid] = meet(yes.know[tid], []tokAlt{alt})
				if x.Op == token.EQL {
					return yes, no
				}
				return no, yes
			}
		}
	case *ast.UnaryExpr:
		if x.Op == token.NOT {
			t, f := in.refine(s, x.X)
			return f, t
		}
	case *ast.CallExpr:
		if se, ok := unparen(x.Fun).(*ast.SelectorExpr); ok && len(x.Args) == 1 && (se.Sel.Name == "IsKeywordLike" || se.Sel.Name == "IsIdent") {
			if tid, ok := in.tokenOf(s, se.X); ok {
				yes, no := s.clone(), s.clone()
				if w, ok := strLit(x.Args[0]); ok {
					cls := "kwlike"
					if se.Sel.Name == "IsIdent" {
						cls = "identAs"
					}
					yes.know[tid] = meet(yes.know[tid], []tokAlt{{cls, w}})
				} else {
					yes.know[tid] = meet(yes.know[tid], []tokAlt{{"ident", ""}})
				}
				return yes, no
			}
		}
	}
	in.eval(s, cond)
	return s.clone(), s.clone()
}

// ---------------------------------------------------------------------------------------------
// statements

func (in *interp) assignTo(s *pstate, lhs ast.Expr, v aval, rhsSrc string) {
	switch l := unparen(lhs).(type) {
	case *ast.Ident:
		if l.Name == "_" || l.Obj == nil {
			return
		}
		if v.k == "tok" && v.how == "cur" {
			v.how = "tokvar" // `id := p.Token`
		}
		s.vars[l.Obj] = v
	case *ast.SelectorExpr:
		// p.X… = …  : the parser / lexer state changes
		root := ast.Expr(l)
		for {
			if se, ok := root.(*ast.SelectorExpr); ok {
				root = se.X
				continue
			}
			break
		}
		if in.isParserVar(root) {
			in.advance(s)
			return
		}
		// x.F = v for a literal held in x
		base := in.eval(s, l.X)
		if base.k == "lit" && base.site >= 0 && in.pk.record {
			st := in.pk.sites[base.site]
			if k := in.pk.cat.byName[st.kind]; k != nil {
				for _, f := range k.fields {
					if f.name == l.Sel.Name && f.cls == "pos" {
						st.fields = append(st.fields, &fieldProv{field: f.name, via: "assign", provs: in.toProvs(s, v)})
					}
				}
			}
		} else if base.k == "multi" && in.pk.record {
			for _, a := range base.alts {
				if a.k == "lit" && a.site >= 0 {
					st := in.pk.sites[a.site]
					if k := in.pk.cat.byName[st.kind]; k != nil {
						for _, f := range k.fields {
							if f.name == l.Sel.Name && f.cls == "pos" {
								st.fields = append(st.fields, &fieldProv{field: f.name, via: "assign", provs: in.toProvs(s, v)})
							}
						}
					}
				}
			}
		}
	case *ast.IndexExpr:
		in.eval(s, l.X)
		in.eval(s, l.Index)
	case *ast.StarExpr:
		in.eval(s, l.X)
	}
}

func (in *interp) execBlock(s *pstate, list []ast.Stmt) {
	for _, st := range list {
		if s.dead {
			// unreachable code is still scanned for literal sites, from a state that knows nothing
			if !containsLit(st) {
				continue
			}
			t := s.clone()
			t.dead = false
			in.advance(t)
			for o := range t.vars {
				if t.vars[o].k != "lit" {
					t.vars[o] = otherVal("unreachable")
				}
			}
			in.exec(t, st)
			continue
		}
		in.exec(s, st)
	}
}

func containsLit(n ast.Node) bool {
	found := false
	ast.Inspect(n, func(m ast.Node) bool {
		if _, ok := m.(*ast.CompositeLit); ok {
			found = true
		}
		return !found
	})
	return found
}

func assignedObjs(n ast.Node) map[*ast.Object]bool {
	out := map[*ast.Object]bool{}
	add := func(e ast.Expr) {
		if id, ok := unparen(e).(*ast.Ident); ok && id.Obj != nil {
			out[id.Obj] = true
		}
	}
	ast.Inspect(n, func(m ast.Node) bool {
		switch t := m.(type) {
		case *ast.AssignStmt:
			for _, l := range t.Lhs {
				add(l)
			}
		case *ast.IncDecStmt:
			add(t.X)
		case *ast.RangeStmt:
			add(t.Key)
			add(t.Value)
		case *ast.UnaryExpr:
			if t.Op == token.AND {
				add(t.X)
			}
		}
		return true
	})
	return out
}

func (in *interp) havocLoop(s *pstate, nodes ...ast.Node) {
	for _, n := range nodes {
		if n == nil {
			continue
		}
		for o := range assignedObjs(n) {
			if v, ok := s.vars[o]; ok && v.k != "lit" {
				s.vars[o] = otherVal("assigned inside a loop")
			} else if !ok {
				// declared inside the loop: nothing to forget
				_ = v
			}
		}
	}
	in.advance(s)
}

func (in *interp) pushFrame(label string, loop bool) *frame {
	f := &frame{label: label, isLoop: loop}
	in.frames = append(in.frames, f)
	return f
}

func (in *interp) popFrame() { in.frames = in.frames[:len(in.frames)-1] }

func (in *interp) exec(s *pstate, st ast.Stmt) {
	switch x := st.(type) {
	case nil:
	case *ast.EmptyStmt:
	case *ast.ExprStmt:
		in.eval(s, x.X)
	case *ast.DeclStmt:
		if gd, ok := x.Decl.(*ast.GenDecl); ok {
			for _, sp := range gd.Specs {
				vs, ok := sp.(*ast.ValueSpec)
				if !ok {
					continue
				}
				var vals []aval
				for _, v := range vs.Values {
					vals = append(vals, in.eval(s, v))
				}
				for i, n := range vs.Names {
					if n.Obj == nil {
						continue
					}
					if i < len(vals) && len(vals) == len(vs.Names) {
						s.vars[n.Obj] = vals[i]
					} else if len(vals) == 0 && vs.Type != nil && typeIs(vs.Type, "token", "Pos") {
						s.vars[n.Obj] = aval{k: "unset"}
					} else {
						s.vars[n.Obj] = otherVal("var " + n.Name)
					}
				}
			}
		}
	case *ast.AssignStmt:
		if x.Tok != token.ASSIGN && x.Tok != token.DEFINE {
			// op-assignment
			for _, r := range x.Rhs {
				in.eval(s, r)
			}
			for _, l := range x.Lhs {
				in.assignTo(s, l, otherVal(in.pk.srcOf(x)), "")
			}
			return
		}
		var vals []aval
		for _, r := range x.Rhs {
			vals = append(vals, in.eval(s, r))
		}
		for i, l := range x.Lhs {
			v := otherVal(in.pk.srcOf(x))
			if len(vals) == len(x.Lhs) {
				v = vals[i]
			} else if len(vals) == 1 && vals[0].k == "ret" {
				if fi := in.pk.fns[vals[0].src]; fi != nil && fi.posRes[i] {
					v = aval{k: "ret", src: vals[0].src, pidx: i}
				}
			}
			in.assignTo(s, l, v, "")
		}
	case *ast.IncDecStmt:
		in.assignTo(s, x.X, otherVal(in.pk.srcOf(x)), "")
	case *ast.BlockStmt:
		in.execBlock(s, x.List)
	case *ast.LabeledStmt:
		in.labels[x.Stmt] = x.Label.Name
		in.exec(s, x.Stmt)
	case *ast.ReturnStmt:
		var vals []aval
		for _, r := range x.Results {
			vals = append(vals, in.eval(s, r))
		}
		in.recordReturn(s, vals)
		in.exits = append(in.exits, s.cur == s.entry || s.armed)
		s.dead = true
	case *ast.BranchStmt:
		switch x.Tok {
		case token.BREAK:
			for i := len(in.frames) - 1; i >= 0; i-- {
				f := in.frames[i]
				if x.Label == nil || f.label == x.Label.Name {
					f.breaks = append(f.breaks, s.clone())
					break
				}
			}
		case token.GOTO, token.FALLTHROUGH:
			panic("goto / fallthrough is not supported by the reader")
		}
		s.dead = true
	case *ast.DeferStmt:
		if in.isRestoreDefer(s, x) {
			s.armed = true
			return
		}
		if fl, ok := x.Call.Fun.(*ast.FuncLit); ok {
			in.closure(s, fl)
		} else {
			t := s.clone()
			in.eval(t, x.Call)
		}
	case *ast.GoStmt:
		t := s.clone()
		in.eval(t, x.Call)
		in.advance(s)
	case *ast.IfStmt:
		if x.Init != nil {
			in.exec(s, x.Init)
		}
		t, f := in.refine(s, x.Cond)
		in.execBlock(t, x.Body.List)
		if x.Else != nil {
			in.exec(f, x.Else)
		}
		*s = *in.joinAll([]*pstate{t, f})
	case *ast.SwitchStmt:
		in.execSwitch(s, x)
	case *ast.TypeSwitchStmt:
		if x.Init != nil {
			in.exec(s, x.Init)
		}
		switch a := x.Assign.(type) {
		case *ast.ExprStmt:
			in.eval(s, a.X)
		case *ast.AssignStmt:
			for _, r := range a.Rhs {
				in.eval(s, r)
			}
		}
		fr := in.pushFrame(in.labels[x], false)
		var ends []*pstate
		hasDefault := false
		for _, c := range x.Body.List {
			cc := c.(*ast.CaseClause)
			if cc.List == nil {
				hasDefault = true
			}
			t := s.clone()
			in.execBlock(t, cc.Body)
			ends = append(ends, t)
		}
		in.popFrame()
		if !hasDefault {
			ends = append(ends, s.clone())
		}
		*s = *in.joinAll(append(ends, fr.breaks...))
	case *ast.ForStmt:
		if x.Init != nil {
			in.exec(s, x.Init)
		}
		var post ast.Node
		if x.Post != nil {
			post = x.Post
		}
		var cond ast.Node
		if x.Cond != nil {
			cond = x.Cond
		}
		in.havocLoop(s, x.Body, post, cond)
		head := s.clone()
		body, exit := head, (*pstate)(nil)
		if x.Cond != nil {
			body, exit = in.refine(head, x.Cond)
		}
		fr := in.pushFrame(in.labels[x], true)
		in.execBlock(body, x.Body.List)
		if x.Post != nil && !body.dead {
			in.exec(body, x.Post)
		}
		in.popFrame()
		ends := append([]*pstate{exit}, fr.breaks...)
		r := in.joinAll(ends)
		// variables assigned in the loop keep no value from the body (the head state forgot them); breaks carry theirs
		*s = *r
	case *ast.RangeStmt:
		in.eval(s, x.X)
		in.havocLoop(s, x.Body)
		for _, kv := range []ast.Expr{x.Key, x.Value} {
			if id, ok := kv.(*ast.Ident); ok && id.Obj != nil {
				s.vars[id.Obj] = otherVal("range variable")
			}
		}
		head := s.clone()
		body := head.clone()
		fr := in.pushFrame(in.labels[x], true)
		in.execBlock(body, x.Body.List)
		in.popFrame()
		*s = *in.joinAll(append([]*pstate{head}, fr.breaks...))
	case *ast.SelectStmt:
		in.advance(s)
		for _, c := range x.Body.List {
			if cc, ok := c.(*ast.CommClause); ok {
				t := s.clone()
				in.execBlock(t, cc.Body)
			}
		}
	case *ast.SendStmt:
		in.eval(s, x.Chan)
		in.eval(s, x.Value)
	default:
		in.advance(s)
	}
}

func (in *interp) execSwitch(s *pstate, x *ast.SwitchStmt) {
	if x.Init != nil {
		in.exec(s, x.Init)
	}
	tagTid, tagIsKind := 0, false
	if x.Tag != nil {
		if tid, ok := in.kindOperand(s, x.Tag); ok {
			tagTid, tagIsKind = tid, true
		} else {
			in.eval(s, x.Tag)
		}
	}
	fr := in.pushFrame(in.labels[x], false)
	var ends []*pstate
	hasDefault := false
	rest := s.clone() // the state in which the next case expression is evaluated
	var defaultBody []ast.Stmt
	for _, c := range x.Body.List {
		cc := c.(*ast.CaseClause)
		if cc.List == nil {
			hasDefault = true
			defaultBody = cc.Body
			if defaultBody == nil {
				defaultBody = []ast.Stmt{}
			}
			continue
		}
		var t *pstate
		switch {
		case tagIsKind:
			var alts []tokAlt
			all := true
			for _, e := range cc.List {
				if a, ok := kindAlt(e); ok {
					alts = append(alts, a)
				} else {
					all = false
				}
			}
			t = rest.clone()
			if all {
				t.know[tagTid] = meet(t.know[tagTid], alts)
			}
		case x.Tag == nil:
			var ts []*pstate
			for _, e := range cc.List {
				yes, no := in.refine(rest, e)
				ts = append(ts, yes)
				rest = no
			}
			t = in.joinAll(ts)
		default:
			for _, e := range cc.List {
				in.eval(rest, e)
			}
			t = rest.clone()
		}
		in.execBlock(t, cc.Body)
		ends = append(ends, t)
	}
	if hasDefault {
		t := rest.clone()
		in.execBlock(t, defaultBody)
		ends = append(ends, t)
	} else {
		ends = append(ends, rest)
	}
	in.popFrame()
	*s = *in.joinAll(append(ends, fr.breaks...))
}

// `defer func() { p.Lexer = x }()` where x holds `p.Lexer.Clone()` taken while the token was still the entry token
func (in *interp) isRestoreDefer(s *pstate, d *ast.DeferStmt) bool {
	fl, ok := d.Call.Fun.(*ast.FuncLit)
	if !ok || len(d.Call.Args) != 0 || len(fl.Body.List) != 1 {
		return false
	}
	as, ok := fl.Body.List[0].(*ast.AssignStmt)
	if !ok || as.Tok != token.ASSIGN || len(as.Lhs) != 1 || len(as.Rhs) != 1 {
		return false
	}
	l, ok := as.Lhs[0].(*ast.SelectorExpr)
	if !ok || l.Sel.Name != "Lexer" || !in.isParserVar(l.X) {
		return false
	}
	id, ok := as.Rhs[0].(*ast.Ident)
	if !ok || id.Obj == nil {
		return false
	}
	v, ok := s.vars[id.Obj]
	return ok && v.k == "other" && v.src == fmt.Sprintf("lexer clone at %d", s.entry)
}

// ---------------------------------------------------------------------------------------------
// one function

func (pk *ppkg) analyse(fi *fnInfo) (preserving bool, failure string) {
	defer func() {
		if r := recover(); r != nil {
			preserving, failure = false, fmt.Sprint(r)
		}
	}()
	in := &interp{pk: pk, fn: fi, labels: map[ast.Stmt]string{}}
	s := &pstate{know: map[int]tokKnow{}, vars: map[*ast.Object]aval{}}
	s.cur = in.fresh(s)
	s.entry = s.cur
	// parameters
	i := 0
	if fi.decl.Type.Params != nil {
		for _, fl := range fi.decl.Type.Params.List {
			names := fl.Names
			if len(names) == 0 {
				i++
				continue
			}
			for _, n := range names {
				if n.Obj != nil {
					if typeIs(fl.Type, "token", "Pos") {
						s.vars[n.Obj] = aval{k: "param", pidx: i, pname: n.Name}
					} else if typeIs(fl.Type, "token", "Token") {
						s.vars[n.Obj] = aval{k: "tokparam", pidx: i, pname: n.Name}
					} else {
						s.vars[n.Obj] = otherVal("parameter " + n.Name)
					}
				}
				i++
			}
		}
	}
	for j, o := range fi.resObj {
		if o != nil {
			if fi.posRes[j] {
				s.vars[o] = aval{k: "unset"}
			} else {
				s.vars[o] = otherVal("result " + o.Name)
			}
		}
	}
	in.execBody(s, fi.decl.Body)
	if !s.dead {
		in.recordReturn(s, nil)
		in.exits = append(in.exits, s.cur == s.entry || s.armed)
	}
	preserving = true
	for _, e := range in.exits {
		if !e {
			preserving = false
		}
	}
	return preserving, ""
}

// the provenance of every token.Pos result at a return (explicit values, or the named results at a bare return)
func (in *interp) recordReturn(s *pstate, vals []aval) {
	if !in.pk.record || in.inClosure > 0 || len(in.fn.posRes) == 0 {
		return
	}
	for i := range in.fn.posRes {
		var v aval
		switch {
		case len(vals) == len(in.fn.resObj):
			v = vals[i]
		case len(vals) == 1 && vals[0].k == "ret" && len(in.fn.resObj) > 1: // return f() forwarding a tuple
			v = otherVal("forwarded tuple")
			if fi := in.pk.fns[vals[0].src]; fi != nil && fi.posRes[i] {
				v = aval{k: "ret", src: vals[0].src, pidx: i}
			}
		case len(vals) == 0 && i < len(in.fn.resObj) && in.fn.resObj[i] != nil:
			var ok bool
			if v, ok = s.vars[in.fn.resObj[i]]; !ok {
				v = aval{k: "unset"}
			}
		default:
			v = otherVal("return")
		}
		if in.pk.rets[in.fn.name] == nil {
			in.pk.rets[in.fn.name] = map[int][]prov{}
		}
		in.pk.rets[in.fn.name][i] = append(in.pk.rets[in.fn.name][i], in.toProvs(s, v)...)
	}
}

func (in *interp) execBody(s *pstate, b *ast.BlockStmt) { in.execBlock(s, b.List) }

// ---------------------------------------------------------------------------------------------
// driver

func loadPkg(repo string, cat *catalog) *ppkg {
	pk := &ppkg{cat: cat, fset: fset, fns: map[string]*fnInfo{}, byBare: map[string][]*fnInfo{}, preserves: map[string]bool{},
		noReturn: map[string]bool{}, calls: map[string]map[int][]prov{}, rets: map[string]map[int][]prov{}, src: map[string][]byte{}, entryKnow: map[string][]tokKnow{}, escapes: map[string]bool{}}
	for _, fn := range []string{"parser.go", "parse_helpers.go", "lexer.go"} {
		path := filepath.Join(repo, fn)
		if _, err := os.Stat(path); err != nil {
			continue
		}
		f := parseFile(path)
		for _, d := range f.Decls {
			fd, ok := d.(*ast.FuncDecl)
			if !ok || fd.Body == nil {
				continue
			}
			fi := &fnInfo{name: fd.Name.Name, decl: fd, pvars: map[*ast.Object]string{}, posPar: map[int]string{}, tokPar: map[int]string{}}
			if fd.Recv != nil && len(fd.Recv.List) == 1 {
				rt := strings.TrimPrefix(exprString(fd.Recv.List[0].Type), "*")
				if i := strings.Index(rt, "["); i >= 0 {
					rt = rt[:i]
				}
				fi.name = rt + "." + fd.Name.Name
				if rt == "Parser" || rt == "Lexer" {
					for _, n := range fd.Recv.List[0].Names {
						if n.Obj != nil {
							fi.pvars[n.Obj] = rt
							fi.recv = n.Name
						}
					}
				}
			}
			i := 0
			if fd.Type.Params != nil {
				for _, fl := range fd.Type.Params.List {
					if len(fl.Names) == 0 {
						i++
						continue
					}
					for _, n := range fl.Names {
						if typeIs(fl.Type, "", "Parser") && n.Obj != nil {
							fi.pvars[n.Obj] = "Parser"
						}
						if typeIs(fl.Type, "", "Lexer") && n.Obj != nil {
							fi.pvars[n.Obj] = "Lexer"
						}
						if typeIs(fl.Type, "token", "Pos") {
							fi.posPar[i] = n.Name
						}
						if typeIs(fl.Type, "token", "Token") {
							fi.tokPar[i] = n.Name
						}
						i++
					}
				}
			}
			fi.posRes = map[int]bool{}
			if fd.Type.Results != nil {
				j := 0
				for _, fl := range fd.Type.Results.List {
					if len(fl.Names) == 0 {
						if typeIs(fl.Type, "token", "Pos") {
							fi.posRes[j] = true
						}
						fi.resObj = append(fi.resObj, nil)
						j++
						continue
					}
					for _, n := range fl.Names {
						if typeIs(fl.Type, "token", "Pos") {
							fi.posRes[j] = true
						}
						fi.resObj = append(fi.resObj, n.Obj)
						j++
					}
				}
			}
			pk.fns[fi.name] = fi
			pk.byBare[fd.Name.Name] = append(pk.byBare[fd.Name.Name], fi)
		}
	}
	return pk
}

// a function never returns normally: its body ends in panic(…) or in a call of such a function
func (pk *ppkg) computeNoReturn() {
	for changed := true; changed; {
		changed = false
		for name, fi := range pk.fns {
			if pk.noReturn[name] || len(fi.decl.Body.List) == 0 {
				continue
			}
			if len(fi.decl.Body.List) != 1 {
				continue
			}
			es, ok := fi.decl.Body.List[0].(*ast.ExprStmt)
			if !ok {
				continue
			}
			call, ok := es.X.(*ast.CallExpr)
			if !ok {
				continue
			}
			if id, ok := call.Fun.(*ast.Ident); ok && id.Name == "panic" && id.Obj == nil {
				pk.noReturn[name] = true
				changed = true
				continue
			}
			if se, ok := call.Fun.(*ast.SelectorExpr); ok {
				if id, ok := se.X.(*ast.Ident); ok && id.Obj != nil && fi.pvars[id.Obj] != "" && pk.noReturn[fi.pvars[id.Obj]+"."+se.Sel.Name] {
					pk.noReturn[name] = true
					changed = true
				}
			}
		}
	}
}

func printedSrc(fd *ast.FuncDecl) string {
	var buf bytes.Buffer
	cp := *fd
	cp.Doc = nil
	if err := printer.Fprint(&buf, fset, &cp); err != nil {
		return "<unprintable>"
	}
	return buf.String()
}

func genPosProv(repo string, cat *catalog) (out string) {
	defer func() {
		if r := recover(); r != nil {
			out = header + "import MF.Model.PosProv\nnamespace MF.Gen.PosProv\nopen MF.PosProv\n\n" +
				"def failure : String := " + leanStr(fmt.Sprint(r)) + "\n\ndef sitesByKind : List KindSites := []\n\n" +
				"def helperSrc : List (String × String) := []\n\nend MF.Gen.PosProv\n"
		}
	}()
	pk := loadPkg(repo, cat)
	pk.computeNoReturn()
	// token-preservation: grow the set of proven-preserving functions until nothing changes
	names := make([]string, 0, len(pk.fns))
	for n := range pk.fns {
		names = append(names, n)
	}
	sort.Strings(names)
	for round := 0; round < 20; round++ {
		changed := false
		for _, n := range names {
			if pk.preserves[n] {
				continue
			}
			if ok, _ := pk.analyse(pk.fns[n]); ok {
				pk.preserves[n] = true
				changed = true
			}
		}
		if !changed {
			break
		}
	}
	// the real pass, in source order of parser.go
	pk.record = true
	var ordered []*fnInfo
	for _, n := range names {
		ordered = append(ordered, pk.fns[n])
	}
	sort.SliceStable(ordered, func(i, j int) bool {
		pi, pj := fset.Position(ordered[i].decl.Pos()), fset.Position(ordered[j].decl.Pos())
		if pi.Filename != pj.Filename {
			return pi.Filename > pj.Filename // parser.go before parse_helpers.go, lexer.go
		}
		return pi.Offset < pj.Offset
	})
	failures := map[string]string{}
	for _, fi := range ordered {
		before := len(pk.sites)
		if _, fail := pk.analyse(fi); fail != "" {
			failures[fi.name] = fail
			// sites recorded so far stay; the remaining literals of the function are recorded without provenance
			seen := map[int]bool{}
			for _, st := range pk.sites[before:] {
				seen[st.line] = true
			}
			ast.Inspect(fi.decl.Body, func(n ast.Node) bool {
				cl, ok := n.(*ast.CompositeLit)
				if !ok {
					return true
				}
				se, ok := cl.Type.(*ast.SelectorExpr)
				if !ok {
					return true
				}
				id, ok := se.X.(*ast.Ident)
				if !ok || id.Name != "ast" || cat.byName[se.Sel.Name] == nil {
					return true
				}
				line := fset.Position(cl.Pos()).Line
				if !seen[line] {
					pk.sites = append(pk.sites, &psite{fn: fi.name, kind: se.Sel.Name, line: line, setInLit: map[string]bool{}, failed: "analysis failed: " + fail})
				}
				return true
			})
		}
	}
	return pk.render(failures)
}

func (pk *ppkg) render(failures map[string]string) string {
	cat := pk.cat
	// complete every site: fields of class pos that are neither in the literal nor assigned later are `unset`;
	// parameters are resolved one level
	var resolveRet func(p prov, depth int) []prov
	resolveRet = func(p prov, depth int) []prov {
		if p.cons != "ret" {
			return []prov{p}
		}
		rs := pk.rets[p.src][p.idx]
		if depth > 4 || len(rs) == 0 {
			return []prov{p}
		}
		var out []prov
		for _, r := range rs {
			if r.cons == "param" {
				out = append(out, prov{cons: "other", src: "parameter " + r.src + " of " + p.src})
				continue
			}
			out = append(out, resolveRet(r, depth+1)...)
		}
		return out
	}
	visible := func(fn string) bool { // all callers are in the package and were seen
		fi := pk.fns[fn]
		return fi != nil && !pk.escapes[fn] && !ast.IsExported(fi.decl.Name.Name)
	}
	resolve := func(fn string, p prov) []prov {
		if p.cons == "ret" {
			return resolveRet(p, 0)
		}
		if (p.cons == "tok" || p.cons == "tokvar" || p.cons == "cur") && p.entry && len(p.alts) == 0 && visible(fn) && len(pk.entryKnow[fn]) > 0 {
			var alts []tokAlt
			for _, kn := range pk.entryKnow[fn] {
				if !kn.known {
					return []prov{p}
				}
				alts = append(alts, kn.alts...)
			}
			p.alts = dedupAlts(alts)
			return []prov{p}
		}
		if p.cons != "param" {
			return []prov{p}
		}
		fi := pk.fns[fn]
		if fi == nil || !visible(fn) {
			return []prov{p}
		}
		if p.tokpar {
			for i, n := range fi.tokPar {
				if n == p.src {
					args := pk.calls[fn][i]
					if len(args) == 0 {
						return []prov{p}
					}
					var out []prov
					for _, a := range args {
						if a.cons == "tok" || a.cons == "tokvar" || a.cons == "cur" {
							a.side = p.side
						}
						out = append(out, a)
					}
					return out
				}
			}
			return []prov{p}
		}
		for i, n := range fi.posPar {
			if n == p.src {
				args := pk.calls[fn][i]
				if len(args) == 0 {
					return []prov{p}
				}
				var out []prov
				for _, a := range args {
					out = append(out, resolveRet(a, 0)...)
				}
				return out
			}
		}
		return []prov{p}
	}
	dedup := func(ps []prov) []prov {
		var out []prov
		seen := map[string]bool{}
		for _, p := range ps {
			k := p.lean()
			if !seen[k] {
				seen[k] = true
				out = append(out, p)
			}
		}
		return out
	}
	counts := map[string]int{}
	nFields := 0
	for _, st := range pk.sites {
		k := cat.byName[st.kind]
		var fields []*fieldProv
		for _, f := range k.fields {
			if f.cls != "pos" {
				continue
			}
			fp := &fieldProv{field: f.name}
			found := false
			for _, g := range st.fields {
				if g.field != f.name {
					continue
				}
				found = true
				if g.via != "" {
					if fp.via == "" {
						fp.via = g.via
					} else if !strings.Contains(fp.via, g.via) {
						fp.via += "; " + g.via
					}
				}
				for _, p := range g.provs {
					fp.provs = append(fp.provs, resolve(st.fn, p)...)
				}
			}
			if st.failed != "" {
				fp.provs = append(fp.provs, prov{cons: "other", src: st.failed})
			} else if !found || !st.setInLit[f.name] {
				fp.provs = append([]prov{{cons: "unset"}}, fp.provs...)
			}
			fp.provs = dedup(fp.provs)
			fields = append(fields, fp)
			nFields++
			for _, p := range fp.provs {
				c := p.cons
				if (c == "tok" || c == "tokvar" || c == "cur") && len(p.alts) == 0 {
					c += " unknown"
				}
				counts[c]++
			}
		}
		st.fields = fields
	}
	var sb strings.Builder
	sb.WriteString(header + "import MF.Model.PosProv\nnamespace MF.Gen.PosProv\nopen MF.PosProv\n\n")
	byKind := map[string][]*psite{}
	for _, st := range pk.sites {
		byKind[st.kind] = append(byKind[st.kind], st)
	}
	var rows []string
	for _, k := range cat.kinds {
		var ss []string
		for _, st := range byKind[k.name] {
			var fs []string
			for _, f := range st.fields {
				var ps []string
				for _, p := range f.provs {
					ps = append(ps, p.lean())
				}
				fs = append(fs, fmt.Sprintf("⟨%s, %s, %s⟩", leanStr(f.field), leanStr(f.via), leanList(ps)))
			}
			ss = append(ss, fmt.Sprintf("⟨%s, %d, %s⟩", leanStr(st.fn), st.line, leanList(fs)))
		}
		if len(ss) == 0 {
			rows = append(rows, fmt.Sprintf("⟨%s, []⟩", leanStr(k.name)))
		} else {
			rows = append(rows, fmt.Sprintf("⟨%s, [\n      %s]⟩", leanStr(k.name), strings.Join(ss, ",\n      ")))
		}
	}
	sb.WriteString("/-- one row per struct of ast/ast.go in catalogue order: the `ast.K{…}` literals of parser.go and, for every token.Pos\n    field of K, where its value comes from -/\n")
	chunked(&sb, "sitesByKind", "KindSites", rows, 12)
	// helper sources
	var hs []string
	for _, n := range []string{"Parser.expect", "Parser.expectKeywordLike", "Parser.expectIdent", "Parser.nextToken"} {
		if fi := pk.fns[n]; fi != nil {
			hs = append(hs, fmt.Sprintf("(%s, %s)", leanStr(n), leanStr(printedSrc(fi.decl))))
		} else {
			hs = append(hs, fmt.Sprintf("(%s, %s)", leanStr(n), leanStr("<missing>")))
		}
	}
	sb.WriteString("/-- the helpers whose meaning the reading relies on, as printed by go/printer -/\ndef helperSrc : List (String × String) := [\n  " + strings.Join(hs, ",\n  ") + "]\n\n")
	var pres []string
	for n, ok := range pk.preserves {
		if ok {
			pres = append(pres, n)
		}
	}
	sort.Strings(pres)
	var ps []string
	for _, n := range pres {
		ps = append(ps, leanStr(n))
	}
	sb.WriteString("/-- functions proven (syntactically) to leave the current token as they found it -/\ndef preserving : List String := " + leanList(ps) + "\n\n")
	var fl []string
	var fnames []string
	for n := range failures {
		fnames = append(fnames, n)
	}
	sort.Strings(fnames)
	for _, n := range fnames {
		fl = append(fl, fmt.Sprintf("(%s, %s)", leanStr(n), leanStr(failures[n])))
	}
	sb.WriteString("/-- functions on which the reader gave up (their sites carry `other`) -/\ndef analysisFailures : List (String × String) := " + leanList(fl) + "\n\n")
	fmt.Fprintf(&sb, "def siteCount : Nat := %d\ndef posFieldCount : Nat := %d\n\n", len(pk.sites), nFields)
	var cs []string
	var cn []string
	for c := range counts {
		cn = append(cn, c)
	}
	sort.Strings(cn)
	for _, c := range cn {
		cs = append(cs, fmt.Sprintf("(%s, %d)", leanStr(c), counts[c]))
	}
	sb.WriteString("/-- provenances per class (a field with several provenances counts once per provenance) -/\ndef provCounts : List (String × Nat) := " + leanList(cs) + "\n\nend MF.Gen.PosProv\n")
	return sb.String()
}
