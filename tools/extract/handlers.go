// handlers.go — translates the four recovery handlers of parser.go (handleParse{Statement,QueryExpr,Expr,Type}Error) into
// a small statement language (lean/MF/Model/HandlerLang.lean): per handler, whether the skip-loop frame has the one
// known shape, and the `switch p.Token.Kind` as a list of cases whose bodies are sequences of
//
//	stop            break skip
//	split           p.Token.Kind = ">"; p.Token.Pos += 1; break skip
//	add k / sub k   nesting += k / nesting -= k
//	ifEqStop s v    if [simple &&] nesting == v { break skip }
//	ifEqSplit v     if nesting == v { p.Token.Kind = ">"; p.Token.Pos += 1; break skip }
//	unknown "…"     anything else (its interpretation is undefined, so the obligation that uses it fails)
//
// Purely syntactic.
package main

import (
	"fmt"
	"go/ast"
	"go/token"
	"path/filepath"
	"strings"
)

func init() { extraGenerators["HandlersGo.lean"] = genHandlers }

var handlerNames = []string{"handleParseStatementError", "handleParseQueryExprError", "handleParseExprError", "handleParseTypeError"}

func isSel(e ast.Expr, path ...string) bool { // p.Token.Kind → isSel(e, "p", "Token", "Kind")
	for i := len(path) - 1; i >= 1; i-- {
		s, ok := e.(*ast.SelectorExpr)
		if !ok || s.Sel.Name != path[i] {
			return false
		}
		e = s.X
	}
	return isIdent(e, path[0])
}

func isBreakSkip(s ast.Stmt) bool {
	b, ok := s.(*ast.BranchStmt)
	return ok && b.Tok == token.BREAK && b.Label != nil && b.Label.Name == "skip"
}

func intLit(e ast.Expr) (string, bool) {
	b, ok := e.(*ast.BasicLit)
	if !ok || b.Kind != token.INT {
		return "", false
	}
	for _, c := range b.Value {
		if c < '0' || c > '9' {
			return "", false
		}
	}
	return b.Value, true
}

// [p.Token.Kind = ">"; p.Token.Pos += 1; break skip]
func isSplitBody(b []ast.Stmt) bool {
	if len(b) != 3 || !isBreakSkip(b[2]) {
		return false
	}
	a0, ok0 := b[0].(*ast.AssignStmt)
	a1, ok1 := b[1].(*ast.AssignStmt)
	if !ok0 || !ok1 || a0.Tok != token.ASSIGN || a1.Tok != token.ADD_ASSIGN || len(a0.Lhs) != 1 || len(a1.Lhs) != 1 {
		return false
	}
	one, ok := intLit(a1.Rhs[0])
	return isSel(a0.Lhs[0], "p", "Token", "Kind") && tokLit(a0.Rhs[0]) == ">" && isSel(a1.Lhs[0], "p", "Token", "Pos") && ok && one == "1"
}

func handlerStmt(s ast.Stmt) string {
	unknown := func() string { return ".unknown " + leanStr(strings.Join(strings.Fields(nodeText(s)), " ")) }
	switch x := s.(type) {
	case *ast.BranchStmt:
		if isBreakSkip(x) {
			return ".stop"
		}
	case *ast.AssignStmt:
		if len(x.Lhs) == 1 && len(x.Rhs) == 1 && isIdent(x.Lhs[0], "nesting") {
			if k, ok := intLit(x.Rhs[0]); ok {
				switch x.Tok {
				case token.ADD_ASSIGN:
					return ".add " + k
				case token.SUB_ASSIGN:
					return ".sub " + k
				}
			}
		}
	case *ast.IncDecStmt:
		if isIdent(x.X, "nesting") {
			if x.Tok == token.INC {
				return ".add 1"
			}
			return ".sub 1"
		}
	case *ast.IfStmt:
		if x.Init != nil || x.Else != nil {
			return unknown()
		}
		cond, simple := x.Cond, false
		if be, ok := cond.(*ast.BinaryExpr); ok && be.Op == token.LAND && isIdent(be.X, "simple") {
			cond, simple = be.Y, true
		}
		be, ok := cond.(*ast.BinaryExpr)
		if !ok || be.Op != token.EQL || !isIdent(be.X, "nesting") {
			return unknown()
		}
		v, ok := intLit(be.Y)
		if !ok {
			return unknown()
		}
		if len(x.Body.List) == 1 && isBreakSkip(x.Body.List[0]) {
			return fmt.Sprintf(".ifEqStop %v %s", simple, v)
		}
		if !simple && isSplitBody(x.Body.List) {
			return ".ifEqSplit " + v
		}
	}
	return unknown()
}

func nodeText(n ast.Node) string {
	var sb strings.Builder
	ast.Inspect(n, func(m ast.Node) bool {
		switch y := m.(type) {
		case *ast.Ident:
			sb.WriteString(y.Name + " ")
		case *ast.BasicLit:
			sb.WriteString(y.Value + " ")
		}
		return true
	})
	return sb.String()
}

// the frame around the switch: the one known shape of the skip loop
func handlerFrame(fd *ast.FuncDecl) (sw *ast.SwitchStmt, ok bool, nesting bool) {
	b := fd.Body.List
	i := 0
	next := func() ast.Stmt {
		if i < len(b) {
			i++
			return b[i-1]
		}
		return nil
	}
	// p.handleError(r, l)
	es, isE := next().(*ast.ExprStmt)
	if !isE {
		return nil, false, false
	}
	if c, isC := es.X.(*ast.CallExpr); !isC || pCall(c) != "handleError" || len(c.Args) != 2 || !isIdent(c.Args[0], "r") || !isIdent(c.Args[1], "l") {
		return nil, false, false
	}
	// var tokens []*token.Token
	if ds, isD := next().(*ast.DeclStmt); !isD || !strings.HasPrefix(nodeText(ds), "tokens ") {
		return nil, false, false
	}
	def := func(s ast.Stmt, name string, rhs func(ast.Expr) bool) bool {
		as, isA := s.(*ast.AssignStmt)
		return isA && as.Tok == token.DEFINE && len(as.Lhs) == 1 && len(as.Rhs) == 1 && isIdent(as.Lhs[0], name) && rhs(as.Rhs[0])
	}
	tokPos := func(e ast.Expr) bool { return isSel(e, "p", "Token", "Pos") }
	if !def(next(), "pos", tokPos) || !def(next(), "end", tokPos) {
		return nil, false, false
	}
	s := next()
	if def(s, "nesting", func(e ast.Expr) bool { v, ok := intLit(e); return ok && v == "0" }) {
		nesting = true
		s = next()
	}
	ls, isL := s.(*ast.LabeledStmt)
	if !isL || ls.Label.Name != "skip" {
		return nil, false, nesting
	}
	fs, isF := ls.Stmt.(*ast.ForStmt)
	if !isF || fs.Init != nil || fs.Post != nil {
		return nil, false, nesting
	}
	cond, isB := fs.Cond.(*ast.BinaryExpr)
	if !isB || cond.Op != token.NEQ || !isTokenKind(cond.X) || tokLit(cond.Y) != "token.TokenEOF" {
		return nil, false, nesting
	}
	body := fs.Body.List
	if len(body) != 4 {
		return nil, false, nesting
	}
	sw, isS := body[0].(*ast.SwitchStmt)
	if !isS || sw.Init != nil || !isTokenKind(sw.Tag) {
		return nil, false, nesting
	}
	isEnd := func(s ast.Stmt) bool {
		as, ok := s.(*ast.AssignStmt)
		return ok && as.Tok == token.ASSIGN && len(as.Lhs) == 1 && isIdent(as.Lhs[0], "end") && isSel(as.Rhs[0], "p", "Token", "End")
	}
	isAppend := func(s ast.Stmt) bool {
		as, ok := s.(*ast.AssignStmt)
		if !ok || as.Tok != token.ASSIGN || len(as.Lhs) != 1 || !isIdent(as.Lhs[0], "tokens") {
			return false
		}
		c, ok := as.Rhs[0].(*ast.CallExpr)
		if !ok || !isIdent(c.Fun, "append") || len(c.Args) != 2 || !isIdent(c.Args[0], "tokens") {
			return false
		}
		cl, ok := c.Args[1].(*ast.CallExpr)
		return ok && len(cl.Args) == 0 && isSel(cl.Fun, "p", "Token", "Clone")
	}
	if !((isEnd(body[1]) && isAppend(body[2])) || (isAppend(body[1]) && isEnd(body[2]))) {
		return sw, false, nesting
	}
	nt, isE2 := body[3].(*ast.ExprStmt)
	if !isE2 {
		return sw, false, nesting
	}
	c, isC := nt.X.(*ast.CallExpr)
	if !isC || !isSel(c.Fun, "p", "Lexer", "nextToken") || len(c.Args) != 1 || !isIdent(c.Args[0], "true") {
		return sw, false, nesting
	}
	// return &ast.X{… NodePos: pos, NodeEnd: end, Tokens: tokens …} (possibly wrapped in BadNode:)
	r, isR := next().(*ast.ReturnStmt)
	if !isR || len(r.Results) != 1 || i != len(b) {
		return sw, false, nesting
	}
	_, fs2 := nodeLit(r.Results[0])
	if inner, has := fs2["BadNode"]; has {
		_, fs2 = nodeLit(inner)
	}
	if fs2 == nil || len(fs2) != 3 || !isIdent(fs2["NodePos"], "pos") || !isIdent(fs2["NodeEnd"], "end") || !isIdent(fs2["Tokens"], "tokens") {
		return sw, false, nesting
	}
	return sw, true, nesting
}

func genHandlers(repo string, cat *catalog) string {
	f := parseFile(filepath.Join(repo, "parser.go"))
	fns := map[string]*ast.FuncDecl{}
	for _, d := range f.Decls {
		if fd, ok := d.(*ast.FuncDecl); ok && fd.Recv != nil && fd.Body != nil {
			fns[fd.Name.Name] = fd
		}
	}
	var rows []string
	for _, name := range handlerNames {
		fd := fns[name]
		if fd == nil {
			rows = append(rows, fmt.Sprintf("⟨%s, false, false, []⟩", leanStr(name)))
			continue
		}
		sw, ok, nesting := handlerFrame(fd)
		var cases []string
		if sw != nil {
			for _, c := range sw.Body.List {
				cc := c.(*ast.CaseClause)
				var toks, body []string
				if cc.List == nil {
					toks = append(toks, leanStr("<default>"))
				}
				for _, e := range cc.List {
					toks = append(toks, leanStr(tokLit(e)))
				}
				for _, s := range cc.Body {
					body = append(body, handlerStmt(s))
				}
				cases = append(cases, fmt.Sprintf("⟨%s, %s⟩", leanList(toks), leanList(body)))
			}
		}
		rows = append(rows, fmt.Sprintf("⟨%s, %v, %v,\n    %s⟩", leanStr(name), ok, nesting, leanList(cases)))
	}
	return header + "import MF.Model.HandlerLang\nnamespace MF.Gen\nopen MF.HandlerLang\n\n/-- the four recovery handlers of parser.go: (name, skip-loop frame recognised, declares `nesting := 0`, cases of the switch) -/\ndef handlersGo : List HFn := [\n  " +
		strings.Join(rows, ",\n  ") + "]\n\nend MF.Gen\n"
}
