#!/usr/bin/env python3
"""gen_report.py: prints the count tables, the table of all survivors and the classified undetected survivors (markdown) to stdout,
from results.jsonl + classes.json + sites.json."""
import collections
import json

Q = '/tmp/work/Q'
rs = [json.loads(l) for l in open(Q + '/results.jsonl')]
cls = json.load(open(Q + '/classes.json'))
sites = json.load(open(Q + '/sites.json'))
b1 = {json.loads(l)['id'] for l in open(Q + '/results_batch1.jsonl')}

out = []
w = out.append


def esc(s, n=60):
    s = s.replace('\n', '\\n').replace('\t', ' ').replace('|', '\\|')
    s = ' '.join(s.split())
    return '`' + (s[:n] + ('…' if len(s) > n else '')).replace('`', "'") + '`'


def counts(sel, title):
    v = collections.Counter(r['verdict'] for r in sel)
    comp = len(sel) - v['nocompile']
    surv = [r for r in sel if r['verdict'] == 'survivor']
    rep = [r for r in surv if r.get('reported_by')]
    und = [r for r in surv if not r.get('reported_by')]
    w('**%s**: sampled %d, compiling %d, killed by the suite %d (%.0f %% of compiling), survivors %d, reported by a relevant quick check %d, undetected %d'
      % (title, len(sel), comp, v['killed'], 100.0 * v['killed'] / max(comp, 1), len(surv), len(rep), len(und)))
    w('')
    return surv, rep, und



w('## 2. Counts')
w('')
w('Sites enumerated by the mutator: **%d** (one-site mutants; per file and operator in the table below).' % len(sites))
w('')
allsurv, allrep, allund = counts(rs, 'Whole campaign (batches 1-3)')
counts([r for r in rs if r['id'] in b1], 'Batch 1 (the ≈400 stratified sample of the brief)')
counts([r for r in rs if r['id'] not in b1], 'Batches 2-3 (extension: parser.go, ast/sql.go, lexer.go only)')

w('Per file:')
w('')
w('| file | sites | sampled | no compile | killed by suite | survivors | reported | undetected E | N | M |')
w('|---|---|---|---|---|---|---|---|---|---|')
sf = collections.Counter(s['file'] for s in sites)
for f in ['parser.go', 'ast/sql.go', 'lexer.go', 'split.go', 'parse_helpers.go', 'token/quote.go', 'token/file.go', 'token/token.go', 'char/convert.go', 'char/is.go', 'ast/pos_util.go', 'ast/walk.go', 'error.go']:
    sel = [r for r in rs if r['file'] == f]
    v = collections.Counter(r['verdict'] for r in sel)
    surv = [r for r in sel if r['verdict'] == 'survivor']
    und = [r for r in surv if not r.get('reported_by')]
    c = collections.Counter(cls.get(r['id'], {}).get('class', '?') for r in und)
    w('| %s | %d | %d | %d | %d | %d | %d | %d | %d | %d |' % (f, sf[f], len(sel), v['nocompile'], v['killed'], len(surv), len(surv) - len(und), c['E'], c['N'], c['M']))
w('')
w('Per operator (whole campaign):')
w('')
w('| operator | sites | sampled | compiling | killed | survivors | reported | undetected |')
w('|---|---|---|---|---|---|---|---|')
so = collections.Counter(s['op'] for s in sites)
for o in sorted(so):
    sel = [r for r in rs if r['op'] == o]
    v = collections.Counter(r['verdict'] for r in sel)
    surv = [r for r in sel if r['verdict'] == 'survivor']
    und = [r for r in surv if not r.get('reported_by')]
    w('| %s | %d | %d | %d | %d | %d | %d | %d |' % (o, so[o], len(sel), len(sel) - v['nocompile'], v['killed'], len(surv), len(surv) - len(und), len(und)))
w('')
w('Survivors reported, by first reporting check and kind of report:')
w('')
w('| check | concrete replay | no-failing-input-found |')
w('|---|---|---|')
k = collections.Counter((r['reported_by'], r.get('reported_kind')) for r in allrep)
for c in sorted({a for a, _ in k}):
    w('| %s | %d | %d |' % (c, k[(c, 'replay')], k[(c, 'no-failing-input-found')]))
w('| total | %d | %d |' % (sum(n for (a, b), n in k.items() if b == 'replay'), sum(n for (a, b), n in k.items() if b != 'replay')))
w('')
c = collections.Counter(cls.get(r['id'], {}).get('class', '?') for r in allund)
w('Undetected survivors by class: **E %d, N %d, M %d**%s.' % (c['E'], c['N'], c['M'], (' (unclassified %d)' % c['?']) if c['?'] else ''))
w('')

w('## 3. All survivors')
w('')
w('`first report` = the first check of the file\'s list that printed a VIOLATION line (R = with a concrete replay, O = `no-failing-input-found`); checks before it ran clean. `—` = no relevant check reported.')
w('')
w('| id | site | operator | function | change | first report | class | wall s |')
w('|---|---|---|---|---|---|---|---|')
for r in allsurv:
    rep = '—'
    if r.get('reported_by'):
        rep = '%s %s' % (r['reported_by'], 'R' if r.get('reported_kind') == 'replay' else 'O')
    elif r.get('anomalies'):
        rep = '— (' + ', '.join(r['anomalies']) + ')'
    cl = cls.get(r['id'], {}).get('class', '') if not r.get('reported_by') else ''
    w('| %s | %s:%d | %s | %s | %s → %s | %s | %s | %.0f |' % (r['id'], r['file'], r['line'], r['op'], r['func'] or '(pkg)', esc(r['orig'], 40), esc(r['repl'], 40), rep, cl, r['wall']))
w('')

w('## 4. Undetected survivors, classified')
w('')
w('| id | site | change | class | property | reason |')
w('|---|---|---|---|---|---|')
for r in allund:
    c = cls.get(r['id'], {})
    w('| %s | %s:%d %s | %s → %s | **%s** | %s | %s |' % (r['id'], r['file'], r['line'], r['func'], esc(r['orig'], 40), esc(r['repl'], 40), c.get('class', '?'), c.get('prop', ''), c.get('why', '').replace('|', '\\|')))
w('')
print('\n'.join(out))
import sys
print('unclassified:', [r['id'] for r in allund if r['id'] not in cls], file=sys.stderr)
