// mutator: enumerates ONE-SITE mutants of memefish sources (go/ast positions + textual splice).
//
//	go run . <repo> > sites.json
//
// Each site is {id,file,line,op,start,end,orig,repl,func}: replace bytes [start,end) of file by repl.
package main

import (
	"encoding/json"
	"fmt"
	"go/ast"
	"go/parser"
	"go/token"
	"os"
	"path/filepath"
	"regexp"
	"sort"
	"strconv"
	"strings"
)

type Site struct {
	ID    string `json:"id"`
	File  string `json:"file"`
	Line  int    `json:"line"`
	Op    string `json:"op"`
	Start int    `json:"start"`
	End   int    `json:"end"`
	Orig  string `json:"orig"`
	Repl  string `json:"repl"`
	Func  string `json:"func"`
}

var files = []string{
	"lexer.go", "split.go", "parser.go", "parse_helpers.go",
	"token/quote.go", "token/file.go", "token/token.go",
	"char/convert.go", "char/is.go",
	"ast/sql.go", "ast/pos_util.go", "ast/walk.go", "error.go",
}

// structName.fieldName -> type text, from ast/ast.go
var fieldType = map[string]string{}

func loadAstFields(repo string) {
	fset := token.NewFileSet()
	path := filepath.Join(repo, "ast/ast.go")
	src, _ := os.ReadFile(path)
	f, err := parser.ParseFile(fset, path, src, 0)
	if err != nil {
		panic(err)
	}
	for _, d := range f.Decls {
		gd, ok := d.(*ast.GenDecl)
		if !ok {
			continue
		}
		for _, s := range gd.Specs {
			ts, ok := s.(*ast.TypeSpec)
			if !ok {
				continue
			}
			st, ok := ts.Type.(*ast.StructType)
			if !ok {
				continue
			}
			for _, fl := range st.Fields.List {
				t := string(src[fset.Position(fl.Type.Pos()).Offset:fset.Position(fl.Type.End()).Offset])
				for _, n := range fl.Names {
					fieldType[ts.Name.Name+"."+n.Name] = t
				}
			}
		}
	}
}

var relSwap = map[token.Token]string{
	token.LSS: "<=", token.LEQ: "<", token.GTR: ">=", token.GEQ: ">", token.EQL: "!=", token.NEQ: "==",
	token.LAND: "||", token.LOR: "&&",
}

var kwLike = regexp.MustCompile(`^"([A-Z_][A-Z_0-9]*|[^a-z0-9\s"\\]{1,3})"$`)

type ctx struct {
	rel   string
	src   []byte
	fset  *token.FileSet
	sites []Site
	fn    string
	seen  map[string]bool
}

func (c *ctx) off(p token.Pos) int { return c.fset.Position(p).Offset }
func (c *ctx) text(n ast.Node) string {
	return string(c.src[c.off(n.Pos()):c.off(n.End())])
}
func (c *ctx) add(op string, start, end int, repl string) {
	orig := string(c.src[start:end])
	if orig == repl {
		return
	}
	key := fmt.Sprintf("%d:%d:%s", start, end, repl)
	if c.seen[key] {
		return
	}
	c.seen[key] = true
	line := 1 + strings.Count(string(c.src[:start]), "\n")
	c.sites = append(c.sites, Site{File: c.rel, Line: line, Op: op, Start: start, End: end, Orig: orig, Repl: repl, Func: c.fn})
}
func (c *ctx) addNode(op string, n ast.Node, repl string) {
	c.add(op, c.off(n.Pos()), c.off(n.End()), repl)
}

func isIntLit(e ast.Expr) (int64, bool) {
	bl, ok := e.(*ast.BasicLit)
	if !ok || bl.Kind != token.INT {
		return 0, false
	}
	v, err := strconv.ParseInt(bl.Value, 0, 64)
	if err != nil {
		return 0, false
	}
	return v, true
}

func isStrLit(e ast.Expr) bool {
	bl, ok := e.(*ast.BasicLit)
	return ok && bl.Kind == token.STRING
}

// statement deletion: replace by nothing (keep a comment so line numbers stay)
func (c *ctx) delStmt(s ast.Stmt, kind string) {
	c.add("del_"+kind, c.off(s.Pos()), c.off(s.End()), "/*deleted*/")
}

func callName(e ast.Expr) string {
	ce, ok := e.(*ast.CallExpr)
	if !ok {
		return ""
	}
	switch f := ce.Fun.(type) {
	case *ast.Ident:
		return f.Name
	case *ast.SelectorExpr:
		return f.Sel.Name
	case *ast.IndexExpr:
		if id, ok := f.X.(*ast.Ident); ok {
			return id.Name
		}
	}
	return ""
}

func (c *ctx) stmtList(list []ast.Stmt) {
	for _, s := range list {
		switch st := s.(type) {
		case *ast.ExprStmt:
			n := callName(st.X)
			switch {
			case n == "nextToken":
				c.delStmt(s, "nextToken")
			case n == "panic":
				// deleting a panic is not a "small realistic change" of the listed kinds; skip
			default:
				c.delStmt(s, "call")
			}
		case *ast.AssignStmt:
			if st.Tok == token.DEFINE {
				continue
			}
			isAppend := false
			if len(st.Rhs) == 1 && callName(st.Rhs[0]) == "append" {
				isAppend = true
			}
			if isAppend {
				c.delStmt(s, "append")
			} else {
				c.delStmt(s, "assign")
			}
		case *ast.IncDecStmt:
			c.delStmt(s, "assign")
		case *ast.BranchStmt:
			if st.Tok == token.BREAK && st.Label == nil {
				c.delStmt(s, "break")
			} else if st.Tok == token.CONTINUE && st.Label == nil {
				c.delStmt(s, "continue")
			}
		}
	}
}

// nearest other keyword-like string literal in the file that is not in `avoid`
func (c *ctx) neighbourString(all []*ast.BasicLit, self *ast.BasicLit, avoid map[string]bool) string {
	idx := -1
	for i, b := range all {
		if b == self {
			idx = i
		}
	}
	if idx < 0 {
		return ""
	}
	for d := 1; d < len(all); d++ {
		for _, j := range []int{idx - d, idx + d} {
			if j < 0 || j >= len(all) {
				continue
			}
			v := all[j].Value
			if v != self.Value && !avoid[v] && kwLike.MatchString(v) {
				return v
			}
		}
	}
	return ""
}

var kwFuncs = map[string]bool{"expect": true, "expectKeywordLike": true, "IsKeywordLike": true, "tryExpect": true, "tryExpectKeywordLike": true,
	"lookaheadTokenIs": true, "EqualFold": true, "peekIs": true, "consumeKeywordLike": true, "IsIdent": true, "peekOk": true}

func (c *ctx) file(repo string) {
	path := filepath.Join(repo, c.rel)
	src, err := os.ReadFile(path)
	if err != nil {
		panic(err)
	}
	c.src = src
	c.fset = token.NewFileSet()
	f, err := parser.ParseFile(c.fset, path, src, parser.ParseComments)
	if err != nil {
		panic(err)
	}
	// all keyword-like string literals of the file, in order
	var strs []*ast.BasicLit
	ast.Inspect(f, func(n ast.Node) bool {
		if b, ok := n.(*ast.BasicLit); ok && b.Kind == token.STRING && kwLike.MatchString(b.Value) {
			strs = append(strs, b)
		}
		return true
	})
	isSQL := c.rel == "ast/sql.go"

	for _, d := range f.Decls {
		fd, ok := d.(*ast.FuncDecl)
		if !ok || fd.Body == nil {
			// package-level var with []string literals etc.
			c.fn = ""
			ast.Inspect(d, func(n ast.Node) bool { c.generic(n, strs, isSQL, nil); return true })
			continue
		}
		c.fn = fd.Name.Name
		if fd.Recv != nil && len(fd.Recv.List) == 1 {
			t := c.text(fd.Recv.List[0].Type)
			c.fn = strings.TrimPrefix(t, "*") + "." + fd.Name.Name
		}
		var switchStack []*ast.SwitchStmt
		var visit func(n ast.Node) bool
		visit = func(n ast.Node) bool {
			if n == nil {
				return true
			}
			if sw, ok := n.(*ast.SwitchStmt); ok {
				switchStack = append(switchStack, sw)
				if sw.Init != nil {
					ast.Inspect(sw.Init, visit)
				}
				if sw.Tag != nil {
					ast.Inspect(sw.Tag, visit)
				}
				ast.Inspect(sw.Body, visit)
				switchStack = switchStack[:len(switchStack)-1]
				return false
			}
			var sw *ast.SwitchStmt
			if len(switchStack) > 0 {
				sw = switchStack[len(switchStack)-1]
			}
			c.generic(n, strs, isSQL, sw)
			return true
		}
		ast.Inspect(fd.Body, visit)
	}
}

func (c *ctx) generic(n ast.Node, strs []*ast.BasicLit, isSQL bool, sw *ast.SwitchStmt) {
	switch x := n.(type) {
	case *ast.BinaryExpr:
		if r, ok := relSwap[x.Op]; ok {
			op := "rel_swap"
			if x.Op == token.LAND || x.Op == token.LOR {
				op = "and_or"
			}
			s := c.off(x.OpPos)
			c.add(op, s, s+len(x.Op.String()), r)
		}
		if x.Op == token.ADD || x.Op == token.SUB {
			if v, ok := isIntLit(x.Y); ok {
				c.addNode("offset_pm", x.Y, strconv.FormatInt(v+1, 10))
				if v >= 1 {
					c.addNode("offset_pm", x.Y, strconv.FormatInt(v-1, 10))
				}
			}
		}
		// keyword tests: x == "KW" / x != "KW"
		if x.Op == token.EQL || x.Op == token.NEQ {
			for _, e := range []ast.Expr{x.X, x.Y} {
				if b, ok := e.(*ast.BasicLit); ok && b.Kind == token.STRING && kwLike.MatchString(b.Value) {
					if nb := c.neighbourString(strs, b, nil); nb != "" {
						c.addNode("str_neighbour", b, nb)
					}
				}
			}
		}
	case *ast.BasicLit:
		if x.Kind == token.INT {
			if v, ok := isIntLit(x); ok {
				switch {
				case v == 0:
					c.addNode("const01", x, "1")
				case v == 1:
					c.addNode("const01", x, "0")
				default:
					// other integer constants (lengths, lookahead counts): n±1; hex constants keep their base
					if strings.HasPrefix(x.Value, "0x") || strings.HasPrefix(x.Value, "0X") {
						c.addNode("int_pm", x, fmt.Sprintf("0x%X", v+1))
						c.addNode("int_pm", x, fmt.Sprintf("0x%X", v-1))
					} else {
						c.addNode("int_pm", x, strconv.FormatInt(v+1, 10))
						c.addNode("int_pm", x, strconv.FormatInt(v-1, 10))
					}
				}
			}
		}
	case *ast.IndexExpr:
		if _, ok := isIntLit(x.Index); !ok && !isStrLit(x.Index) {
			// generic instantiation f[T] is an IndexExpr too: only mutate when the index looks like an integer expression
			t := c.text(x.Index)
			if !regexp.MustCompile(`^\*?[A-Za-z_.]*[A-Z][A-Za-z]*$`).MatchString(t) || strings.Contains(t, "pos") {
				c.addNode("index_pm", x.Index, "("+t+")+1")
				c.addNode("index_pm", x.Index, "("+t+")-1")
			}
		}
	case *ast.SliceExpr:
		for _, e := range []ast.Expr{x.Low, x.High} {
			if e == nil {
				continue
			}
			if _, ok := isIntLit(e); ok {
				continue
			}
			t := c.text(e)
			c.addNode("index_pm", e, "("+t+")+1")
			c.addNode("index_pm", e, "("+t+")-1")
		}
	case *ast.IfStmt:
		t := c.text(x.Cond)
		// a plain ==/!= comparison negated is the same mutant as its rel_swap: skip the duplicate
		if be, ok := x.Cond.(*ast.BinaryExpr); !ok || (be.Op != token.EQL && be.Op != token.NEQ) {
			c.addNode("neg_if", x.Cond, "!("+t+")")
		}
	case *ast.BlockStmt:
		c.stmtList(x.List)
	case *ast.CaseClause:
		c.stmtList(x.Body)
		// string literals in a case list
		nstr := 0
		for _, e := range x.List {
			if isStrLit(e) {
				nstr++
			}
		}
		if nstr >= 2 {
			// drop one element of the list
			for i, e := range x.List {
				if !isStrLit(e) {
					continue
				}
				s, en := c.off(e.Pos()), c.off(e.End())
				if i+1 < len(x.List) {
					en = c.off(x.List[i+1].Pos())
				} else {
					s = c.off(x.List[i-1].End())
				}
				c.add("case_drop", s, en, "")
			}
		}
		// replace a case string by a neighbour not present in the same switch
		if sw != nil {
			avoid := map[string]bool{}
			for _, cc := range sw.Body.List {
				for _, e := range cc.(*ast.CaseClause).List {
					if b, ok := e.(*ast.BasicLit); ok {
						avoid[b.Value] = true
					}
				}
			}
			for _, e := range x.List {
				if b, ok := e.(*ast.BasicLit); ok && b.Kind == token.STRING && kwLike.MatchString(b.Value) {
					if nb := c.neighbourString(strs, b, avoid); nb != "" {
						c.addNode("str_neighbour", b, nb)
					}
				}
			}
		}
	case *ast.CommClause:
		c.stmtList(x.Body)
	case *ast.CallExpr:
		name := callName(x)
		if kwFuncs[name] {
			for _, a := range x.Args {
				if b, ok := a.(*ast.BasicLit); ok && b.Kind == token.STRING && kwLike.MatchString(b.Value) {
					if nb := c.neighbourString(strs, b, nil); nb != "" {
						c.addNode("str_neighbour", b, nb)
					}
				}
			}
		}
		if isSQL && (name == "sqlOpt" || name == "strOpt" || name == "strIfElse") {
			for _, a := range x.Args {
				if b, ok := a.(*ast.BasicLit); ok && b.Kind == token.STRING {
					switch {
					case b.Value == `" "`:
						c.addNode("opt_space", b, `""`)
					case strings.HasPrefix(b.Value, `" `) && len(b.Value) > 3:
						c.addNode("opt_space", b, `"`+b.Value[2:])
					case strings.HasSuffix(b.Value, ` "`) && len(b.Value) > 3:
						c.addNode("opt_space", b, b.Value[:len(b.Value)-2]+`"`)
					}
				}
			}
		}
	case *ast.CompositeLit:
		// []string{...} literal: drop one element
		if at, ok := x.Type.(*ast.ArrayType); ok {
			if id, ok := at.Elt.(*ast.Ident); ok && id.Name == "string" && len(x.Elts) >= 2 {
				for i, e := range x.Elts {
					s, en := c.off(e.Pos()), c.off(e.End())
					if i+1 < len(x.Elts) {
						en = c.off(x.Elts[i+1].Pos())
					} else {
						s = c.off(x.Elts[i-1].End())
					}
					c.add("slice_drop", s, en, "")
				}
			}
		}
		// &ast.T{...}: position-typed fields
		tn := ""
		switch t := x.Type.(type) {
		case *ast.SelectorExpr:
			if id, ok := t.X.(*ast.Ident); ok && id.Name == "ast" {
				tn = t.Sel.Name
			}
		case *ast.Ident:
			tn = t.Name
		}
		if tn != "" {
			var prev *ast.KeyValueExpr
			for _, e := range x.Elts {
				kv, ok := e.(*ast.KeyValueExpr)
				if !ok {
					prev = nil
					continue
				}
				k, ok := kv.Key.(*ast.Ident)
				if !ok {
					prev = nil
					continue
				}
				ft := fieldType[tn+"."+k.Name]
				if ft == "token.Pos" {
					t := c.text(kv.Value)
					if t != "token.InvalidPos" {
						c.addNode("pos_pm", kv.Value, t+" + 1")
						c.addNode("pos_pm", kv.Value, t+" - 1")
					}
				}
				if prev != nil && ft != "" {
					pk := prev.Key.(*ast.Ident)
					if fieldType[tn+"."+pk.Name] == ft {
						a, b := c.text(prev.Value), c.text(kv.Value)
						if a != b {
							// swap the two values: one splice covering both
							s, en := c.off(prev.Value.Pos()), c.off(kv.Value.End())
							mid := string(c.src[c.off(prev.Value.End()):c.off(kv.Value.Pos())])
							c.add("swap_fields", s, en, b+mid+a)
						}
					}
				}
				prev = kv
			}
		}
	case *ast.SelectorExpr:
		switch x.Sel.Name {
		case "Pos":
			c.addNode("pos_end", x.Sel, "End")
		case "End":
			c.addNode("pos_end", x.Sel, "Pos")
		}
	}
}

func main() {
	repo := os.Args[1]
	loadAstFields(repo)
	var all []Site
	for _, rel := range files {
		c := &ctx{rel: rel, seen: map[string]bool{}}
		c.file(repo)
		sort.SliceStable(c.sites, func(i, j int) bool { return c.sites[i].Start < c.sites[j].Start })
		for i := range c.sites {
			c.sites[i].ID = fmt.Sprintf("%s#%04d", strings.NewReplacer("/", "_", ".go", "").Replace(rel), i)
		}
		all = append(all, c.sites...)
	}
	enc := json.NewEncoder(os.Stdout)
	enc.SetIndent("", " ")
	enc.Encode(all)
}
