#!/usr/bin/env python3
"""campaign.py — run the mutation campaign of Task Q.

  python3 campaign.py plan   [seed]      -> /tmp/work/Q/plan.json   (ordered candidate list per file + quotas)
  python3 campaign.py run    [workers]   -> /tmp/work/Q/results.jsonl (appends; resumes)
"""
import collections
import json
import os
import random
import subprocess
import sys
import threading
import time

Q = "/tmp/work/Q"
SITES = os.path.join(Q, "sites.json")
PLAN = os.path.join(Q, "plan.json")
RESULTS = os.path.join(Q, "results.jsonl")

QUOTA = {
    "parser.go": 160, "ast/sql.go": 60, "lexer.go": 60,
    "split.go": 14, "token/quote.go": 16, "token/file.go": 16, "token/token.go": 4,
    "char/convert.go": 12, "char/is.go": 12, "ast/pos_util.go": 12, "ast/walk.go": 14, "error.go": 10,
}

CHECKS = {
    "lexer.go": "C03 C10 C12 C13 C14 C16", "char/convert.go": "C03 C10 C12 C13 C14 C16", "char/is.go": "C03 C10 C12 C13 C14 C16",
    "token/token.go": "C03 C10 C12 C13 C14 C16",
    "split.go": "C03 C11 C12",
    "token/quote.go": "C15 C01",
    "token/file.go": "C20 C09", "error.go": "C20 C09",
    "parser.go": "C01 C02 C03 C05 C06 C07 C08 C09 C10 C11 C16", "parse_helpers.go": "C01 C02 C03 C05 C06 C07 C08 C09 C10 C11 C16",
    "ast/sql.go": "C01 C02 C04 C10",
    "ast/pos_util.go": "C04 C05 C17 C19", "ast/walk.go": "C04 C05 C17 C19",
}

ENV = dict(os.environ, GOFLAGS="-mod=mod", GOPROXY="off", GOSUMDB="off", GOTOOLCHAIN="local")


def plan(seed):
    sites = json.load(open(SITES))
    rnd = random.Random(seed)
    byfile = collections.defaultdict(lambda: collections.defaultdict(list))
    for s in sites:
        byfile[s["file"]][s["op"]].append(s)
    out = {}
    for f, ops in byfile.items():
        names = sorted(ops)
        rnd.shuffle(names)
        for o in names:
            rnd.shuffle(ops[o])
        order = []
        # round-robin over operators (big populations get two slots per round) so that every operator is represented
        while any(ops[o] for o in names):
            for o in names:
                n0 = ORIG_COUNT[(f, o)]
                k = 3 if n0 > 200 else 2 if n0 > 60 else 1
                if o == 'opt_space':
                    k = 4
                for _ in range(k):
                    if ops[o]:
                        order.append(ops[o].pop())
        out[f] = order
    json.dump({"seed": seed, "quota": QUOTA, "order": out}, open(PLAN, "w"))
    for f in out:
        print(f, len(out[f]), "candidates, quota", QUOTA.get(f, 0))


ORIG_COUNT = collections.Counter()


def sh(cmd, cwd, timeout, env=None):
    t0 = time.time()
    try:
        r = subprocess.run(cmd, cwd=cwd, env=env or ENV, stdout=subprocess.PIPE, stderr=subprocess.STDOUT, text=True, timeout=timeout,
                           shell=isinstance(cmd, str))
        return r.returncode, r.stdout, time.time() - t0
    except subprocess.TimeoutExpired as e:
        out = e.stdout.decode() if isinstance(e.stdout, bytes) else (e.stdout or "")
        return 124, out + "\n(TIMEOUT)", time.time() - t0


class State:
    def __init__(self):
        p = json.load(open(PLAN))
        self.order = p["order"]
        self.quota = p["quota"]
        self.lock = threading.Lock()
        self.compiled = collections.Counter()
        self.inflight = collections.Counter()
        self.done = set()
        if os.path.exists(RESULTS):
            for l in open(RESULTS):
                r = json.loads(l)
                self.done.add(r["id"])
                if r["verdict"] != "nocompile":
                    self.compiled[r["file"]] += 1
        self.idx = collections.Counter()
        # priority: parser.go, ast/sql.go, lexer.go first, then the rest
        self.files = ["parser.go", "ast/sql.go", "lexer.go"] + [f for f in self.quota if f not in ("parser.go", "ast/sql.go", "lexer.go")]
        self.rr = 0

    def next(self):
        with self.lock:
            # the stratum that is proportionally furthest from its quota goes next
            while True:
                cands = [f for f in self.files if f in self.order and self.idx[f] < len(self.order[f])
                         and self.compiled[f] + self.inflight[f] < self.quota.get(f, 0)]
                if not cands:
                    return None
                f = min(cands, key=lambda f: ((self.compiled[f] + self.inflight[f]) / self.quota[f], self.files.index(f)))
                s = self.order[f][self.idx[f]]
                self.idx[f] += 1
                if s["id"] in self.done:
                    continue
                self.inflight[f] += 1
                return s

    def finish(self, s, rec):
        with self.lock:
            self.inflight[s["file"]] -= 1
            if rec["verdict"] != "nocompile":
                self.compiled[s["file"]] += 1
            self.done.add(s["id"])
            with open(RESULTS, "a") as f:
                f.write(json.dumps(rec) + "\n")


def apply(wt, s):
    p = os.path.join(wt, s["file"])
    src = open(p, "rb").read()
    assert src[s["start"]:s["end"]].decode() == s["orig"], (s["id"], "orig mismatch")
    open(p, "wb").write(src[:s["start"]] + s["repl"].encode() + src[s["end"]:])


def restore(wt, s):
    sh(["git", "checkout", "--", s["file"]], wt, 60)


def run_checks(n, s, rec):
    verif = os.path.join(Q, "verif%d" % n)
    wt = os.path.join(Q, "wt%d" % n)
    env = dict(ENV, MF_REPO=wt, VERIF_SEED="1")
    rec["checks"] = []
    for c in CHECKS[s["file"]].split():
        rc, out, dt = sh(["timeout", "900", "./check", c, "quick"], verif, 960, env)
        lines = [l for l in out.splitlines() if l.startswith("VIOLATION") or l.startswith("BUILD-FAILED") or (" quick: " in l)]
        ent = {"check": c, "rc": rc, "time": round(dt, 1), "lines": lines[:8]}
        viol = [l for l in lines if l.startswith("VIOLATION")]
        if viol:
            ent["kind"] = "no-failing-input-found" if all(l.rstrip().endswith("no-failing-input-found") for l in viol) else "replay"
            # keep a short excerpt of the first replay
            try:
                rp = viol[0].split("replay=")[1].split()[0]
                j = json.load(open(os.path.join(verif, rp)))
                v = j.get("violation") or {}
                ent["excerpt"] = {"key": str(v.get("key"))[:200], "input": str(v.get("input"))[:300], "entry": v.get("entry"), "detail": str(v.get("detail"))[:500],
                                  "broken": [(b.get("kind"), b.get("name"), str(b.get("detail"))[:300]) for b in j.get("broken_obligations", [])][:4]}
            except Exception as e:  # noqa
                ent["excerpt"] = {"error": str(e)}
        elif rc != 0:
            ent["tail"] = out[-1500:]
        rec["checks"].append(ent)
        if viol:
            rec["reported_by"] = c
            rec["reported_kind"] = ent["kind"]
            return
        if rc not in (0,):
            # timeout / build failure of the harness: note it and go on (batch 2: a timed-out check ends the mutant's run, analysed by hand)
            rec.setdefault("anomalies", []).append("%s rc=%d" % (c, rc))
            if rc == 124 and os.environ.get("STOP_AT_TIMEOUT"):
                rec["reported_by"] = None
                return
    rec["reported_by"] = None


def worker(n, st):
    wt = os.path.join(Q, "wt%d" % n)
    while True:
        if os.path.exists(os.path.join(Q, "STOP")):
            return
        s = st.next()
        if s is None:
            return
        t0 = time.time()
        rec = {k: s[k] for k in ("id", "file", "line", "op", "orig", "repl", "func", "start", "end")}
        try:
            apply(wt, s)
            rc, out, dt = sh(["go", "build", "./..."], wt, 300)
            if rc != 0:
                rec["verdict"] = "nocompile"
                rec["build"] = out[-300:]
            else:
                rc, out, dt = sh(["go", "test", "-vet=off", "-count=1", "./..."], wt, 300)
                rec["suite_time"] = round(dt, 1)
                if rc != 0:
                    rec["verdict"] = "killed"
                    fails = [l for l in out.splitlines() if l.startswith("--- FAIL") or l.startswith("FAIL") or l.startswith("panic:")]
                    rec["suite"] = fails[:3]
                else:
                    rec["verdict"] = "survivor"
                    run_checks(n, s, rec)
        except Exception as e:  # noqa
            rec["verdict"] = "error"
            rec["error"] = repr(e)
        finally:
            restore(wt, s)
        rec["wall"] = round(time.time() - t0, 1)
        rec["worker"] = n
        st.finish(s, rec)
        print("[w%d] %s %s:%d %s %r->%r => %s %s (%.0fs)" % (n, s["id"], s["file"], s["line"], s["op"], s["orig"][:30], s["repl"][:30], rec["verdict"],
                                                          rec.get("reported_by", ""), rec["wall"]), flush=True)


def main():
    cmd = sys.argv[1]
    if cmd == "plan":
        for s in json.load(open(SITES)):
            ORIG_COUNT[(s["file"], s["op"])] += 1
        plan(int(sys.argv[2]) if len(sys.argv) > 2 else 20260929)
    elif cmd == "run":
        w = int(sys.argv[2]) if len(sys.argv) > 2 else 6
        st = State()
        ts = [threading.Thread(target=worker, args=(n, st)) for n in range(1, w + 1)]
        for t in ts:
            t.start()
        for t in ts:
            t.join()
        print("done; compiled per file:", dict(st.compiled))


main()
