#!/usr/bin/env python3
import json, collections, sys
rs = [json.loads(l) for l in open('/tmp/work/Q/results.jsonl')]
v = collections.Counter(r['verdict'] for r in rs)
print(len(rs), dict(v))
byf = collections.defaultdict(collections.Counter)
for r in rs:
    byf[r['file']][r['verdict']] += 1
    if r['verdict'] == 'survivor':
        byf[r['file']]['rep:' + str(r.get('reported_by'))] += 1
for f, c in byf.items():
    print(' ', f, dict(c))
if len(sys.argv) > 1:
    for r in rs:
        if r['verdict'] == 'survivor' and (sys.argv[1] == 'all' or r.get('reported_by') is None):
            print(r['id'], '%s:%d' % (r['file'], r['line']), r['op'], r['func'], repr(r['orig'][:50]), '->', repr(r['repl'][:50]), 'rep=', r.get('reported_by'), r.get('reported_kind', ''), r.get('anomalies', ''), r['wall'])
