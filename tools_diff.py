import sys
req=open(sys.argv[1]).read().split('\n'); a=open(sys.argv[2]).read().split('\n'); b=open(sys.argv[3]).read().split('\n')
n=0
for i,(x,y) in enumerate(zip(a,b)):
    if x!=y:
        n+=1
        if n<=int(sys.argv[4]) :
            r=req[i].split(' ')
            try: txt=bytes.fromhex(r[-1]) if r[-1]!='-' else b''
            except Exception: txt=r[-1]
            print(i, r[:-1], repr(txt)); print('  go  :',x[-300:]); print('  lean:',y[-300:])
print('diffs',n,'of',len(a))
