package main

import (
	"fmt"

	"github.com/cloudspannerecosystem/memefish/ast"
)

func init() { propTable["C04"] = propC04 }

// c04Check: SQL(), Pos(), End() on every node and Walk/Inspect/Preorder over the tree never panic.
func c04Check(root ast.Node) (kind, detail string) {
	for _, n := range allNodes(root) {
		k := kindName(n)
		if p := safely(func() { _ = n.SQL() }); p != nil {
			return k, fmt.Sprintf("%s.SQL() panicked: %v", k, p)
		}
		if p := safely(func() { _ = n.Pos() }); p != nil {
			return k, fmt.Sprintf("%s.Pos() panicked: %v", k, p)
		}
		if p := safely(func() { _ = n.End() }); p != nil {
			return k, fmt.Sprintf("%s.End() panicked: %v", k, p)
		}
	}
	if p := safely(func() {
		ast.Inspect(root, func(ast.Node) bool { return true })
		for range ast.Preorder(root) {
		}
		// leaving the loop early, at every 1st/2nd/3rd/5th/8th node: the iterator must not call yield again
		for _, stop := range []int{1, 2, 3, 5, 8} {
			k := 0
			for range ast.Preorder(root) {
				k++
				if k == stop {
					break
				}
			}
			k = 0
			for range ast.PreorderMany([]ast.Node{root, root}) {
				k++
				if k == stop {
					break
				}
			}
		}
		var log []string
		c := 0
		ast.Walk(root, &recVisitor{"", &log, 0, &c})
		ast.WalkMany([]ast.Node{root}, &recVisitor{"", &log, 3, &c})
	}); p != nil {
		return kindName(root), fmt.Sprintf("traversal panicked: %v", p)
	}
	return "", ""
}

func propC04(o *propOpts) *propResult {
	res := newResult("inputs: golden corpus, probes, token-level mutations and expression soups through the matching entry point (replay/hints through three); every node of every returned tree, with or without errors; non-trivial = returned tree contains a Bad* node or the parse reported an error; distinct by (entry, input)")
	parserInputs(o, func(e *entry, s string, origin string) {
		r := safeParse(e, s)
		if r.hung || r.panicked != nil {
			return // C03's subject
		}
		hasBad := false
		nodes := 0
		for _, root := range r.nodes {
			if isNilNode(root) {
				continue
			}
			for _, n := range allNodes(root) {
				nodes++
				if isBad(n) {
					hasBad = true
				}
			}
			if k, d := c04Check(root); d != "" {
				res.fail("kind:"+k+":"+d[:min(len(d), 60)], s, e.name, d)
			}
		}
		res.count(origin)
		res.eval(e.name+"|"+s, hasBad || r.err != nil, func() any { return map[string]any{"entry": e.name, "input": s, "nodes": nodes, "bad": hasBad} })
	})
	return res
}
