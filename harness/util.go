package main

import (
	"encoding/hex"
)

func hx(s string) string {
	if len(s) == 0 {
		return "-"
	}
	return hex.EncodeToString([]byte(s))
}

func unhex(s string) ([]byte, bool) {
	if s == "-" {
		return nil, true
	}
	b, err := hex.DecodeString(s)
	return b, err == nil
}

// splitmix64 — the one PRNG all generators draw from.
type rng struct{ s uint64 }

func (r *rng) next() uint64 {
	r.s += 0x9e3779b97f4a7c15
	z := r.s
	z = (z ^ (z >> 30)) * 0xbf58476d1ce4e5b9
	z = (z ^ (z >> 27)) * 0x94d049bb133111eb
	return z ^ (z >> 31)
}
func (r *rng) intn(n int) int { return int(r.next() % uint64(n)) }
