module mfh

go 1.23.0

require github.com/cloudspannerecosystem/memefish v0.0.0

replace github.com/cloudspannerecosystem/memefish => /repo
