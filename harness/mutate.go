package main

import (
	"strings"

	"github.com/cloudspannerecosystem/memefish/token"
)

// tokenSpans lexes s with the real lexer; ok=false when it does not lex.
func tokenSpans(s string) (toks []token.Token, ok bool) {
	ts, err, crashed := lexAllGo(s)
	if err != nil || crashed != nil {
		return nil, false
	}
	return ts, true
}

var mutPool = []string{"(", ")", ",", ";", "SELECT", "FROM", "AS", "+", "-", "*", ".", "1", "a", "'s'", "NOT", "NULL", "IN", "[", "]", "<", ">", ">>", "CASE", "END", "WHEN", "THEN",
	"UNION", "ALL", "@p", "{", "}", "=", "AND", "OR", "BETWEEN", "IS", "LIKE", "ARRAY", "STRUCT", "CAST", "@{a=1}", "|>", "WHERE", "ON", "JOIN", "0x", "1a", "'", "\"\\x", "/*", "\x00", "`", "``", "\xff"}

// mutate returns a token-level mutation of s (the malformed stream of the generators).
func mutate(r *rng, s string) string {
	toks, ok := tokenSpans(s)
	if !ok || len(toks) < 2 {
		return s + mutPool[r.intn(len(mutPool))]
	}
	n := len(toks) - 1 // without <eof>
	i := r.intn(n)
	t := toks[i]
	switch r.intn(9) {
	case 0: // delete a token
		return s[:t.Pos] + s[t.End:]
	case 1: // duplicate a token
		return s[:t.End] + " " + t.Raw + s[t.End:]
	case 2: // swap with the next token
		if i+1 < n {
			u := toks[i+1]
			return s[:t.Pos] + u.Raw + s[t.End:u.Pos] + t.Raw + s[u.End:]
		}
		return s[:t.Pos]
	case 3: // insert a token from the pool
		return s[:t.Pos] + mutPool[r.intn(len(mutPool))] + " " + s[t.Pos:]
	case 4: // replace a token
		return s[:t.Pos] + mutPool[r.intn(len(mutPool))] + s[t.End:]
	case 5: // truncate at a token boundary
		return s[:t.Pos]
	case 6: // truncate anywhere
		return s[:r.intn(len(s)+1)]
	case 7: // lexically bad first token / bad token after ';'
		bad := []string{"1a", "'abc", "\x00", "\"\\x", "``", "/*", "0x", "\xff"}[r.intn(8)]
		if r.intn(2) == 0 {
			return bad + " " + s
		}
		return strings.TrimRight(s, " \n;") + "; " + bad
	default: // inject a raw byte
		p := r.intn(len(s) + 1)
		return s[:p] + string([]byte{byte(r.intn(256))}) + s[p:]
	}
}

// repBytes: one representative per lexer equivalence class of bytes
var repBytes = []byte{0, '\t', '\n', '\r', ' ', '!', '"', '#', '$', '%', '&', '\'', '(', ')', '*', '+', ',', '-', '.', '/', '0', '1', '7', '8', '9', ':', ';', '<', '=', '>', '?', '@',
	'A', 'B', 'E', 'F', 'G', 'R', 'U', 'X', 'Z', '[', '\\', ']', '^', '_', '`', 'a', 'b', 'e', 'f', 'n', 'r', 'u', 'x', 'z', '{', '|', '}', '~', 0x7f, 0x80, 0x85, 0xa0, 0xc2, 0xe2, 0xf0, 0xff}
