package main

import (
	"fmt"
	"strings"

	"github.com/cloudspannerecosystem/memefish"
	"github.com/cloudspannerecosystem/memefish/token"
)

var lexErrKinds = []struct{ prefix, name string }{
	{"illegal input character", "illegalChar"},
	{"number literal cannot follow identifier", "numberFollow"},
	{"invalid empty identifier", "emptyIdent"},
	{"invalid escape sequence: \\<eof>", "escapeEof"},
	{"invalid escape sequence: hex escape sequence", "hexEscape"},
	{"invalid escape sequence: octal escape sequence", "octalEscape"},
	{"invalid escape sequence: invalid code point", "invalidCodePoint"},
	{"invalid escape sequence: strconv", "parseUint"},
	{"unclosed comment", "unclosedComment"},
}

func lexErrKind(msg string) string {
	for _, k := range lexErrKinds {
		if strings.HasPrefix(msg, k.prefix) {
			return k.name
		}
	}
	switch {
	case strings.HasPrefix(msg, "invalid escape sequence: \\") && strings.Contains(msg, "is not allowed in"):
		return "escapeNotAllowed"
	case strings.HasPrefix(msg, "invalid escape sequence: \\") && strings.Contains(msg, "must be followed by"):
		return "unicodeEscape"
	case strings.HasPrefix(msg, "invalid escape sequence: \\"):
		return "invalidEscape"
	case strings.HasPrefix(msg, "unclosed ") && strings.Contains(msg, "newline appears"):
		return "unclosedNewline"
	case strings.HasPrefix(msg, "unclosed "):
		return "unclosed"
	}
	return "other"
}

func fmtTok(t *token.Token) string {
	cs := "-"
	if len(t.Comments) > 0 {
		var parts []string
		for _, c := range t.Comments {
			parts = append(parts, fmt.Sprintf("%s:%s:%d:%d", hx(c.Space), hx(c.Raw), c.Pos, c.End))
		}
		cs = strings.Join(parts, ";")
	}
	return fmt.Sprintf("%s|%s|%s|%d|%d|%d|%s|%s", hx(string(t.Kind)), hx(t.Raw), hx(t.AsString), t.Base, t.Pos, t.End, hx(t.Space), cs)
}

// lexStep advances once; returns ("", true) on success, the terminator string otherwise.
func lexStep(l *memefish.Lexer, noPanic bool) (term string) {
	defer func() {
		if r := recover(); r != nil {
			term = "CRASH"
		}
	}()
	if noPanic {
		l.VerifNextToken(true)
		return ""
	}
	if err := l.NextToken(); err != nil {
		e, ok := err.(*memefish.Error)
		if !ok {
			return "CRASH"
		}
		return fmt.Sprintf("ERR:%s:%d:%d", lexErrKind(e.Message), e.Position.Pos, e.Position.End)
	}
	return ""
}

func lexRun(s string, noPanic bool) string {
	l := &memefish.Lexer{File: &token.File{Buffer: s}}
	var acc []string
	for n := 0; n < len(s)+2; n++ {
		if term := lexStep(l, noPanic); term != "" {
			acc = append(acc, term)
			return strings.Join(acc, " ")
		}
		acc = append(acc, fmtTok(&l.Token))
		if l.Token.Kind == token.TokenEOF {
			acc = append(acc, "OK")
			return strings.Join(acc, " ")
		}
	}
	acc = append(acc, "FUEL")
	return strings.Join(acc, " ")
}
