package main

import (
	"fmt"

	"github.com/cloudspannerecosystem/memefish/ast"
)

func init() {
	propTable["C01"] = propC01
	propTable["C06"] = propC06
}

func firstDiff(a, b string) string {
	i := 0
	for i < len(a) && i < len(b) && a[i] == b[i] {
		i++
	}
	lo := max(0, i-40)
	return fmt.Sprintf("…%s ≠ …%s", a[lo:min(len(a), i+60)], b[lo:min(len(b), i+60)])
}

func dumpAll(nodes []ast.Node, withPos bool) string {
	s := ""
	for _, n := range nodes {
		s += dump(n, withPos) + "\n"
	}
	return s
}

func sqlAll(nodes []ast.Node) (out string, panicked any) {
	panicked = safely(func() {
		for i, n := range nodes {
			if i > 0 {
				out += ";\n"
			}
			out += n.SQL()
		}
	})
	return
}

// c01Check: parse -> unparse -> parse is stable and unparse is a fixed point.
func c01Check(e *entry, s string) (accepted bool, detail string) {
	r := safeParse(e, s)
	if r.hung || r.panicked != nil || r.err != nil {
		return false, ""
	}
	sql1, p := sqlAll(r.nodes)
	if p != nil {
		return true, "" // C04's subject
	}
	r2 := safeParse(e, sql1)
	if r2.hung || r2.panicked != nil {
		return true, fmt.Sprintf("re-parsing SQL() = %q does not return normally", sql1)
	}
	if r2.err != nil {
		return true, fmt.Sprintf("SQL() = %q is rejected: %v", sql1, r2.err)
	}
	d1, d2 := dumpAll(r.nodes, false), dumpAll(r2.nodes, false)
	if d1 != d2 {
		return true, fmt.Sprintf("SQL() = %q parses to a different tree: %s", sql1, firstDiff(d1, d2))
	}
	sql2, p := sqlAll(r2.nodes)
	if p != nil || sql2 != sql1 {
		return true, fmt.Sprintf("SQL() is not a fixed point: %q then %q", sql1, sql2)
	}
	return true, ""
}

func propC01(o *propOpts) *propResult {
	res := newResult("inputs: as C04, each through its matching entry point; for every error-free parse: SQL() is accepted by the same entry point, parses to a tree equal in every field except position values (presence/absence of positions must agree), and SQL() of that tree is byte-identical; non-trivial = error-free parse; distinct by (entry,input)")
	parserInputs(o, func(e *entry, s string, origin string) {
		acc, d := c01Check(e, s)
		res.count(origin)
		res.eval(e.name+"|"+s, acc, func() any { return map[string]any{"entry": e.name, "input": s} })
		if d != "" {
			key := "input:" + e.name + ":" + hx(s)
			if r := safeParse(e, s); r.err == nil && r.panicked == nil && !r.hung {
				if site := knownSite(s, r.nodes, "C01"); site != "" {
					if s2 := neutralise(site, s); s2 != s {
						if _, d2 := c01Check(e, s2); d2 == "" {
							key = site
						}
					}
				}
			}
			res.fail(key, s, e.name, d)
		}
	})
	return res
}

// standalone entry point for clause (a) of C06, by node class
func standaloneEntry(n ast.Node) (*entry, func(root ast.Node) ast.Node) {
	id := func(r ast.Node) ast.Node { return r }
	switch x := n.(type) {
	case *ast.Path:
		if len(x.Idents) == 1 {
			return nil, nil // a one-identifier path parses as Ident on its own
		}
	case *ast.NamedType:
		return nil, nil // may be spelled like a simple type
	case *ast.ExprArg, *ast.Alias, *ast.DotStar, *ast.Star:
		return nil, nil
	}
	switch n.(type) {
	case ast.Expr:
		return entryByName("ParseExpr"), id
	case ast.Type:
		return entryByName("ParseType"), id
	case *ast.QueryStatement:
		return entryByName("ParseQuery"), id
	case ast.QueryExpr:
		return entryByName("ParseQuery"), func(r ast.Node) ast.Node {
			if qs, ok := r.(*ast.QueryStatement); ok && qs.Hint == nil {
				return qs.Query
			}
			return r
		}
	case ast.Statement:
		return entryByName("ParseStatement"), id
	}
	return nil, nil
}

// c06Check: slice-and-reparse (a) and splice-and-reparse (b) for every node of an accepted input.
func c06Check(e *entry, s string, budget *int) (checked int, key, detail string) {
	r := safeParse(e, s)
	if r.hung || r.panicked != nil || r.err != nil {
		return 0, "", ""
	}
	if acc, d := c01Check(e, s); !acc || d != "" {
		return 0, "", "" // quantifier: inputs whose own round trip holds
	}
	orig := dumpAll(r.nodes, false)
	for _, root := range r.nodes {
		for _, n := range allNodes(root) {
			if *budget <= 0 {
				return checked, "", ""
			}
			*budget--
			k := kindName(n)
			p, en := int(n.Pos()), int(n.End())
			if !(0 <= p && p <= en && en <= len(s)) {
				continue // C05's subject
			}
			checked++
			// (a) — not for a bare identifier used as a field name (after '.', where even digits and keywords are identifiers)
			afterDot := false
			if _, isIdent := n.(*ast.Ident); isIdent {
				j := p - 1
				for j >= 0 && (s[j] == ' ' || s[j] == '\n' || s[j] == '\t' || s[j] == '\r') {
					j--
				}
				afterDot = j >= 0 && s[j] == '.'
			}
			if se, unwrap := standaloneEntry(n); se != nil && !afterDot {
				sub := s[p:en]
				r2 := safeParse(se, sub)
				if r2.hung || r2.panicked != nil || r2.err != nil || len(r2.nodes) != 1 {
					// a field-name identifier, a keyword-named function etc. may be a different construct alone: only a
					// sub-range that is NOT token-aligned or parses to a different tree is a violation when it does parse;
					// a rejection is a violation for statements, queries and types, and for expressions unless the text is a single token
					if _, isExpr := n.(ast.Expr); !isExpr || !singleToken(sub) {
						return checked, k + ":slice", fmt.Sprintf("input[%d:%d] = %q of node %s is rejected by %s: %v", p, en, sub, k, se.name, r2.err)
					}
				} else if got := dump(unwrap(r2.nodes[0]), false); got != dump(n, false) {
					if !singleToken(sub) {
						return checked, k + ":slice", fmt.Sprintf("input[%d:%d] = %q parses to a different tree than node %s: %s", p, en, sub, k, firstDiff(dump(n, false), got))
					}
				}
			}
			// (b)
			var sql string
			if pn := safely(func() { sql = n.SQL() }); pn != nil {
				continue
			}
			spliced := s[:p] + " " + sql + " " + s[en:]
			r3 := safeParse(e, spliced)
			if r3.hung || r3.panicked != nil || r3.err != nil {
				return checked, k + ":splice", fmt.Sprintf("replacing input[%d:%d] by %s.SQL() = %q gives a rejected text: %v", p, en, k, sql, r3.err)
			}
			if got := dumpAll(r3.nodes, false); got != orig {
				return checked, k + ":splice", fmt.Sprintf("replacing input[%d:%d] by %s.SQL() = %q changes the tree: %s", p, en, k, sql, firstDiff(orig, got))
			}
		}
	}
	return checked, "", ""
}

func singleToken(s string) bool {
	toks, ok := tokenSpans(s)
	return ok && len(toks) <= 2
}

func propC06(o *propOpts) *propResult {
	res := newResult("inputs: golden corpus and probes (all nodes), plus mutations that still parse; for every node n of an accepted input whose round trip holds: (a) if n is an expression/type/query/statement, input[Pos:End] parses alone with the matching entry point to a tree equal to n up to positions (exclusions: one-identifier Path, NamedType, ExprArg/Alias/star items, single-token sub-ranges); (b) replacing input[Pos:End] by n.SQL() padded with blanks parses to the original tree; non-trivial = node with at least one child; distinct by (input,node range,kind)")
	budget := 60000
	if o.tier == "thorough" {
		budget = 1500000
	}
	parserInputs(o, withPrinted(func(e *entry, s string, origin string) {
		if budget <= 0 {
			return
		}
		n, key, d := c06Check(e, s, &budget)
		res.count(origin)
		res.Evaluations += n
		if n > 1 {
			id := e.name + "|" + s
			if !res.seen[id] {
				res.seen[id] = true
				res.DistinctNontrivial += n - 1
				if len(res.Samples) < 5 {
					res.Samples = append(res.Samples, map[string]any{"entry": e.name, "input": s, "nodes_checked": n})
				}
			}
		}
		if d != "" {
			if r := safeParse(e, s); r.err == nil && r.panicked == nil && !r.hung {
				if site := knownSite(s, r.nodes, "C06"); site != "" {
					if s2 := neutralise(site, s); s2 != s {
						b2 := 100000
						if _, _, d2 := c06Check(e, s2, &b2); d2 == "" {
							key = site
						}
					}
				}
			}
			res.fail(key, s, e.name, d)
		}
	}))
	return res
}
