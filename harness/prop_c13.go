package main

import (
	"fmt"
	"strings"
	"unicode"
	"unicode/utf8"

	"github.com/cloudspannerecosystem/memefish"
	"github.com/cloudspannerecosystem/memefish/token"
)

func init() { propTable["C13"] = propC13 }

func allSpace(s string) bool {
	for len(s) > 0 {
		r, n := utf8.DecodeRuneInString(s)
		if !unicode.IsSpace(r) {
			return false
		}
		s = s[n:]
	}
	return true
}

func completeComment(raw string, atEnd bool) bool {
	switch {
	case strings.HasPrefix(raw, "#"), strings.HasPrefix(raw, "--"), strings.HasPrefix(raw, "//"):
		i := strings.IndexByte(raw, '\n')
		return i == len(raw)-1 || (i < 0 && atEnd)
	case strings.HasPrefix(raw, "/*"):
		// closed by the FIRST "*/" after the opener
		return len(raw) >= 4 && strings.Index(raw[2:], "*/") == len(raw)-4
	}
	return false
}

// lexAllGo runs the public lexer to <eof>; err != nil when the lexer rejects.
// lexAllGo: the raw call under the deadline of safely (a lexer or splitter that loops is reported, not waited for).
func lexAllGo(s string) (toks []token.Token, err error, crashed any) {
	if p := safely(func() { toks, err, crashed = lexAllGoRaw(s) }); p != nil {
		crashed = p
	}
	return
}

func lexAllGoRaw(s string) (toks []token.Token, err error, crashed any) {
	defer func() {
		if r := recover(); r != nil {
			crashed = r
		}
	}()
	l := &memefish.Lexer{File: &token.File{Buffer: s}}
	for i := 0; i < len(s)+2; i++ {
		if e := l.NextToken(); e != nil {
			return toks, e, nil
		}
		toks = append(toks, l.Token)
		if l.Token.Kind == token.TokenEOF {
			// clause: NextToken at end of input keeps returning <eof>
			if e := l.NextToken(); e != nil || l.Token.Kind != token.TokenEOF || l.Token.Raw != "" {
				return toks, nil, fmt.Sprintf("NextToken after <eof> gave kind=%s err=%v", l.Token.Kind, e)
			}
			return toks, nil, nil
		}
	}
	return toks, nil, "no <eof> after len+2 tokens"
}

func c13Check(s string) string {
	toks, err, crashed := lexAllGo(s)
	if crashed != nil {
		return fmt.Sprint("lexer misbehaved: ", crashed)
	}
	if err != nil {
		return ""
	}
	var sb strings.Builder
	prevEnd := 0
	for i, t := range toks {
		for _, c := range t.Comments {
			if int(c.Pos) < prevEnd || c.End < c.Pos || int(c.End) > len(s) || c.Raw != s[c.Pos:c.End] {
				return fmt.Sprintf("comment range/raw inconsistent at %d", c.Pos)
			}
			if !allSpace(c.Space) {
				return fmt.Sprintf("comment Space %q is not whitespace", c.Space)
			}
			if !completeComment(c.Raw, int(c.End) == len(s)) {
				return fmt.Sprintf("incomplete comment %q", c.Raw)
			}
			sb.WriteString(c.Space)
			sb.WriteString(c.Raw)
			prevEnd = int(c.End)
		}
		if int(t.Pos) < prevEnd || t.End < t.Pos || int(t.End) > len(s) || t.Raw != s[t.Pos:t.End] {
			return fmt.Sprintf("token %d: Raw %q != input[%d:%d]", i, t.Raw, t.Pos, t.End)
		}
		if !allSpace(t.Space) {
			return fmt.Sprintf("token %d: Space %q is not whitespace", i, t.Space)
		}
		last := i == len(toks)-1
		if (t.Kind == token.TokenEOF) != last {
			return fmt.Sprintf("token %d: <eof> must be exactly the last token", i)
		}
		if t.Kind != token.TokenEOF && t.Raw == "" {
			return fmt.Sprintf("token %d (%s) is empty", i, t.Kind)
		}
		sb.WriteString(t.Space)
		sb.WriteString(t.Raw)
		prevEnd = int(t.End)
	}
	if sb.String() != s {
		return fmt.Sprintf("tokens tile %q, not the input", sb.String())
	}
	return ""
}

func propC13(o *propOpts) *propResult {
	res := newResult("inputs: replay/hints, all strings of length<=3 (quick) / <=4 (thorough) over the 24-symbol lexical alphabet, <=4 / <=6 over the 12-symbol one, the golden corpus, seeded random fragment soups; non-trivial = accepted by the lexer with at least 2 tokens before <eof>; distinct by input bytes")
	lexInputs(o, func(s string) {
		toks, err, _ := lexAllGo(s)
		switch {
		case err != nil:
			res.count("rejected")
		default:
			res.count(fmt.Sprintf("accepted_tokens_%d", min(len(toks)-1, 6)))
		}
		res.eval(s, err == nil && len(toks) >= 3, func() any { return map[string]any{"input": s, "tokens": len(toks)} })
		if d := c13Check(s); d != "" {
			res.fail("input:"+hx(s), s, "Lexer.NextToken", d)
		}
	})
	return res
}
