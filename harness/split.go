package main

import (
	"bufio"
	"fmt"
	"strings"

	"github.com/cloudspannerecosystem/memefish"
	"github.com/cloudspannerecosystem/memefish/token"
)

func splitRun(s string) (out string) {
	defer func() {
		if r := recover(); r != nil {
			out = "CRASH"
		}
	}()
	ps, err := memefish.SplitRawStatements("", s)
	if err != nil {
		e, ok := err.(*memefish.Error)
		if !ok {
			return "CRASH"
		}
		return fmt.Sprintf("ERR:%s:%d:%d", lexErrKind(e.Message), e.Position.Pos, e.Position.End)
	}
	var parts []string
	for _, p := range ps {
		parts = append(parts, fmt.Sprintf("%d:%d:%s", p.Pos, p.End, hx(p.Statement)))
	}
	return "OK " + strings.Join(parts, " ")
}

var splitSoup = []string{";", "'a;b'", "\"x\"", "`i;`", "--;\n", "/*;*/", "#;\n", "a", "1", " ", "\n", "//c", "/*", "'", "/**;**/", "*/", "r'\\';'"}

func splitInputs(tier string, r *rng, each func(string)) {
	maxTok := 4
	nrand := 3000
	if tier == "thorough" {
		maxTok = 6
		nrand = 60000
	}
	var rec func(cur string, n int)
	rec = func(cur string, n int) {
		each(cur)
		if n == maxTok {
			return
		}
		for _, t := range splitSoup {
			rec(cur+t, n+1)
		}
	}
	rec("", 0)
	texts := corpusStrings()
	trivia := []string{"", " ", "\n", " /*c*/ ", "-- c\n", "/*;*/", "#x\n ", "\t"}
	for i := 0; i < nrand; i++ {
		n := 1 + r.intn(4)
		var sb strings.Builder
		for j := 0; j < n; j++ {
			sb.WriteString(trivia[r.intn(len(trivia))])
			if r.intn(6) > 0 {
				sb.WriteString(strings.TrimRight(texts[r.intn(len(texts))], "\n"))
			}
			sb.WriteString(trivia[r.intn(len(trivia))])
			if j+1 < n || r.intn(2) == 0 {
				sb.WriteString(";")
			}
		}
		sb.WriteString(trivia[r.intn(len(trivia))])
		each(sb.String())
	}
}

func genSplit(w *bufio.Writer, tier string, r *rng) {
	splitInputs(tier, r, func(s string) { fmt.Fprintf(w, "SPLIT %s\n", hx(s)) })
}

func init() { propTable["C12"] = propC12 }

// c12Check evaluates the partition clauses of C12 on the real splitter against the real token stream.
// c12Check: the raw call under the deadline of safely (a lexer or splitter that loops is reported, not waited for).
func c12Check(s string) (nontrivial bool, detail string) {
	if p := safely(func() { nontrivial, detail = c12CheckRaw(s) }); p != nil {
		detail = fmt.Sprint("SplitRawStatements: ", p)
	}
	return
}

func c12CheckRaw(s string) (nontrivial bool, detail string) {
	defer func() {
		if r := recover(); r != nil {
			detail = fmt.Sprint("SplitRawStatements panicked: ", r)
		}
	}()
	toks, lexErr, crashed := lexAllGo(s)
	if crashed != nil {
		return false, ""
	}
	ps, err := memefish.SplitRawStatements("", s)
	if (err != nil) != (lexErr != nil) {
		return false, fmt.Sprintf("splitter error %v but lexer error %v", err, lexErr)
	}
	if err != nil {
		if err.Error() != lexErr.Error() {
			return false, fmt.Sprintf("splitter error %q differs from the lexical error %q", err, lexErr)
		}
		return false, ""
	}
	if len(ps) == 0 {
		return false, "no pieces"
	}
	prev := 0
	for i, p := range ps {
		if int(p.Pos) < prev || p.End < p.Pos || int(p.End) > len(s) || p.Statement != s[p.Pos:p.End] {
			return false, fmt.Sprintf("piece %d: range %d..%d / text inconsistent", i, p.Pos, p.End)
		}
		prev = int(p.End)
	}
	inPiece := func(a, b int) int {
		n := 0
		for _, p := range ps {
			if int(p.Pos) <= a && b <= int(p.End) {
				n++
			}
		}
		return n
	}
	semis := 0
	for _, t := range toks {
		for _, c := range t.Comments {
			if inPiece(int(c.Pos), int(c.End)) != 1 {
				return true, fmt.Sprintf("comment %q at %d lies in %d pieces", c.Raw, c.Pos, inPiece(int(c.Pos), int(c.End)))
			}
		}
		switch t.Kind {
		case ";":
			semis++
			for _, p := range ps {
				if int(p.Pos) < int(t.End) && int(t.Pos) < int(p.End) {
					return true, fmt.Sprintf("piece %d..%d contains the ';' at %d", p.Pos, p.End, t.Pos)
				}
			}
		case token.TokenEOF:
		default:
			if inPiece(int(t.Pos), int(t.End)) != 1 {
				return true, fmt.Sprintf("token %q at %d lies in %d pieces", t.Raw, t.Pos, inPiece(int(t.Pos), int(t.End)))
			}
		}
	}
	// between consecutive pieces, and after the last: exactly one ';' plus whitespace
	gap := func(a, b int, last bool) string {
		g := s[a:b]
		n := strings.Count(g, ";")
		if !allSpace(strings.Replace(g, ";", "", 1)) || (n != 1 && !(last && n == 0 && g == "")) {
			return fmt.Sprintf("text between pieces %q is not one ';' plus whitespace", g)
		}
		return ""
	}
	if len(ps) == 1 && ps[0].Statement == "" && ps[0].Pos == 0 && ps[0].End == 0 && semis == 0 {
		// the documented minimum output for an input without tokens
		if !allSpace(s) {
			return false, "empty result for a non-blank input"
		}
		return false, ""
	}
	for i := 0; i+1 < len(ps); i++ {
		if d := gap(int(ps[i].End), int(ps[i+1].Pos), false); d != "" {
			return true, d
		}
	}
	if d := gap(int(ps[len(ps)-1].End), len(s), true); d != "" {
		return true, d
	}
	if !allSpace(s[:ps[0].Pos]) {
		return true, "text before the first piece is not whitespace"
	}
	return semis > 0, ""
}

func propC12(o *propOpts) *propResult {
	res := newResult("inputs: token soups over {; 'a;b' \"x\" `i;` --;LF /*;*/ #;LF a 1 SP LF //c /* '} up to 4 (quick) / 6 (thorough) pieces, corpus statements joined with ';' and random trivia; non-trivial = lexes and contains at least one top-level ';'; distinct by input")
	each := func(s string) {
		nt, d := c12Check(s)
		res.eval(s, nt, func() any { return s })
		if nt {
			res.count("with_separator")
		} else {
			res.count("other")
		}
		if d != "" {
			res.fail("input:"+hx(s), s, "SplitRawStatements", d)
		}
	}
	if o.single != nil {
		b, _ := unhex(o.single.Input)
		each(string(b))
		return res
	}
	// inputs on which a channel disagreed, alone and embedded in separator contexts; for those the partition clauses are
	// ALSO evaluated against the token stream of the reference lexer (the implementation's own lexer may be the culprit)
	var derived []string
	for _, s := range hintInputs(o) {
		derived = append(derived, s)
		for _, suf := range splitHintSuffixes {
			derived = append(derived, s+suf, "a;"+s+suf)
		}
	}
	for _, s := range derived {
		each(s)
	}
	if len(derived) > 0 {
		if toks, ok, err := refLex(derived); err == nil {
			for i, s := range derived {
				if d := c12CheckRef(s, toks[i], ok[i]); d != "" {
					res.fail("ref:"+hx(s), s, "SplitRawStatements vs reference lexer", d)
				}
			}
		}
	}
	splitInputs(o.tier, &rng{s: o.seed}, each)
	return res
}

var splitHintSuffixes = []string{";", ";'", ";\"", ";`", ";'''", ";\"\"\"", "; x", ";*/", ";\n"}

// c12CheckRef evaluates C12 on the real splitter against the REFERENCE token stream of s.
// c12CheckRef: the raw call under the deadline of safely (a lexer or splitter that loops is reported, not waited for).
func c12CheckRef(s string, toks []refToken, lexes bool) (detail string) {
	if p := safely(func() { detail = c12CheckRefRaw(s, toks, lexes) }); p != nil {
		detail = fmt.Sprint("SplitRawStatements: ", p)
	}
	return
}

func c12CheckRefRaw(s string, toks []refToken, lexes bool) (detail string) {
	defer func() {
		if r := recover(); r != nil {
			detail = fmt.Sprint("SplitRawStatements panicked: ", r)
		}
	}()
	ps, err := memefish.SplitRawStatements("", s)
	if (err != nil) == lexes {
		return fmt.Sprintf("SplitRawStatements error=%v but the reference lexer accepts=%v", err, lexes)
	}
	if err != nil {
		return ""
	}
	for _, t := range toks {
		if t.kind == ";" {
			for _, p := range ps {
				if int(p.Pos) < t.end && t.pos < int(p.End) {
					return fmt.Sprintf("piece %d..%d contains the ';' token at %d", p.Pos, p.End, t.pos)
				}
			}
			continue
		}
		in := func(a, b int) int {
			n := 0
			for _, p := range ps {
				if int(p.Pos) <= a && b <= int(p.End) {
					n++
				}
			}
			return n
		}
		for _, c := range t.comments {
			if in(c[0], c[1]) != 1 {
				return fmt.Sprintf("comment at %d..%d lies in %d pieces", c[0], c[1], in(c[0], c[1]))
			}
		}
		if t.kind != "<eof>" && in(t.pos, t.end) != 1 {
			return fmt.Sprintf("token %q at %d..%d (reference lexer) lies in %d pieces: a ';' inside it split the input", s[t.pos:t.end], t.pos, t.end, in(t.pos, t.end))
		}
	}
	return ""
}
