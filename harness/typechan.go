package main

// TYPE channel, Go side: the answer of memefish.ParseType on one input, in the vocabulary of the Lean model
// MF/Model/TypeParse.lean (`typeRun`):
//
//	ERR                                         the input does not lex, or ParseType returns an error
//	OK <sexpr> <hex SQL()> <Pos()> <End()>      the returned AST with EVERY field (position fields included) and, after
//	                                            each node, `@Pos():End()` as computed by ast/pos.go
//
// The dump is written by hand (type switch), so that a field added to a node makes the channel fail to compile or
// to agree rather than pass silently.

import (
	"bufio"
	"fmt"
	"strconv"
	"strings"

	"github.com/cloudspannerecosystem/memefish"
	"github.com/cloudspannerecosystem/memefish/ast"
	"github.com/cloudspannerecosystem/memefish/token"
)

func typeParse(s string) (t ast.Type, err error, crashed any) {
	defer func() {
		if r := recover(); r != nil {
			crashed = r
		}
	}()
	t, err = memefish.ParseType("", s)
	return t, err, nil
}

// positions are dumped minus `off`, never below 0 (the truncated subtraction of the Lean model's `shiftT`)
func typeOff(p token.Pos, off int) string {
	v := int(p) - off
	if v < 0 {
		v = 0
	}
	return strconv.Itoa(v)
}

// typeSexp dumps a type AST; ok=false when a node kind outside the model (BadType) is met.
func typeSexp(t ast.Type) (s string, ok bool) { return typeSexpOff(t, 0) }

// typeSexpOff: the dump with every position decreased by off
func typeSexpOff(t ast.Type, off int) (s string, ok bool) {
	ok = true
	typeAt := func(n ast.Node) string {
		return "@" + typeOff(n.Pos(), off) + ":" + typeOff(n.End(), off)
	}
	typeIdentSexp := func(i *ast.Ident) string {
		return "(id " + typeOff(i.NamePos, off) + " " + typeOff(i.NameEnd, off) + " " + hx(i.Name) + ")"
	}
	var d func(n ast.Type) string
	d = func(n ast.Type) string {
		switch n := n.(type) {
		case *ast.SimpleType:
			return "(simple " + typeOff(n.NamePos, off) + " " + hx(string(n.Name)) + ")" + typeAt(n)
		case *ast.NamedType:
			var sb strings.Builder
			sb.WriteString("(named")
			for _, id := range n.Path {
				sb.WriteString(" " + typeIdentSexp(id))
			}
			sb.WriteString(")" + typeAt(n))
			return sb.String()
		case *ast.ArrayType:
			return "(array " + typeOff(n.Array, off) + " " + typeOff(n.Gt, off) + " " + d(n.Item) + ")" + typeAt(n)
		case *ast.StructType:
			var sb strings.Builder
			sb.WriteString("(struct " + typeOff(n.Struct, off) + " " + typeOff(n.Gt, off))
			for _, f := range n.Fields {
				sb.WriteString(" (field ")
				if f.Ident != nil {
					sb.WriteString(typeIdentSexp(f.Ident))
				} else {
					sb.WriteString("-")
				}
				sb.WriteString(" " + d(f.Type) + ")" + typeAt(f))
			}
			sb.WriteString(")" + typeAt(n))
			return sb.String()
		default:
			ok = false
			return fmt.Sprintf("(?%T)", n)
		}
	}
	return d(t), ok
}

func typeRun(s string) (out string) {
	defer func() {
		if r := recover(); r != nil {
			out = fmt.Sprintf("CRASH %v", r)
		}
	}()
	if _, err, crashed := exprLexAll(s); crashed != nil {
		return "CRASH"
	} else if err != nil {
		return "ERR"
	}
	t, err, crashed := typeParse(s)
	if crashed != nil {
		return fmt.Sprintf("CRASH %v", crashed)
	}
	if err != nil {
		return "ERR"
	}
	sx, ok := typeSexp(t)
	if !ok {
		return "OUTSIDE-AST " + sx
	}
	// a failed re-lexing check is never an agreement with the model (which answers rt=0 or rt=1)
	rt := " rt=BAD"
	if typeRelex(t) {
		rt = " rt=1"
	}
	// a failed slice-and-reparse check agrees with the model's ex=0 only when it is explained by the known defect
	// (a SimpleType on a back-quoted token: End() two bytes short)
	ex := " ex=1"
	if !typeExact(s, t) {
		if typeHasQuotedSimple(s, t) {
			ex = " ex=0"
		} else {
			ex = " ex=BAD"
		}
	}
	return "OK " + sx + " " + hx(t.SQL()) + " " + strconv.Itoa(int(t.Pos())) + " " + strconv.Itoa(int(t.End())) + rt + ex
}

func typeHasQuotedSimple(src string, t ast.Type) bool {
	switch n := t.(type) {
	case *ast.SimpleType:
		p := int(n.NamePos)
		return p >= 0 && p < len(src) && src[p] == '`'
	case *ast.ArrayType:
		return typeHasQuotedSimple(src, n.Item)
	case *ast.StructType:
		for _, f := range n.Fields {
			if typeHasQuotedSimple(src, f.Type) {
				return true
			}
		}
	}
	return false
}

// typeExact: C06 on every type node: ParseType(input[n.Pos():n.End()]) succeeds and equals n with all positions
// decreased by n.Pos()
func typeExact(src string, t ast.Type) (ok bool) {
	defer func() {
		if r := recover(); r != nil {
			ok = false
		}
	}()
	ok = true
	var visit func(n ast.Type)
	visit = func(n ast.Type) {
		p, e := int(n.Pos()), int(n.End())
		if p < 0 || e > len(src) || p > e {
			ok = false
			return
		}
		t2, err, crashed := typeParse(src[p:e])
		if err != nil || crashed != nil {
			ok = false
		} else {
			a, _ := typeSexpOff(t2, 0)
			b, _ := typeSexpOff(n, p)
			if a != b {
				ok = false
			}
		}
		switch n := n.(type) {
		case *ast.ArrayType:
			visit(n.Item)
		case *ast.StructType:
			for _, f := range n.Fields {
				visit(f.Type)
			}
		}
	}
	visit(t)
	return ok
}

// typeDesc describes one token of the yield of a type tree, positions aside (YT.readsB of the Lean specification):
// simple: an identifier that reads as this simple type name; ident: an identifier with this name; sym: this kind.
type typeDesc struct {
	kind string // "simple", "ident", or a token kind
	name string
}

func typeYield(t ast.Type, out []typeDesc) []typeDesc {
	switch n := t.(type) {
	case *ast.SimpleType:
		return append(out, typeDesc{"simple", string(n.Name)})
	case *ast.NamedType:
		for i, id := range n.Path {
			if i > 0 {
				out = append(out, typeDesc{".", ""})
			}
			out = append(out, typeDesc{"ident", id.Name})
		}
		return out
	case *ast.ArrayType:
		out = append(out, typeDesc{"ARRAY", ""}, typeDesc{"<", ""})
		out = typeYield(n.Item, out)
		return append(out, typeDesc{">", ""})
	case *ast.StructType:
		out = append(out, typeDesc{"STRUCT", ""}, typeDesc{"<", ""})
		for i, f := range n.Fields {
			if i > 0 {
				out = append(out, typeDesc{",", ""})
			}
			if f.Ident != nil {
				out = append(out, typeDesc{"ident", f.Ident.Name})
			}
			out = typeYield(f.Type, out)
		}
		return append(out, typeDesc{">", ""})
	}
	return append(out, typeDesc{"?", ""})
}

var typeSimpleNames = []string{"BOOL", "INT64", "FLOAT32", "FLOAT64", "DATE", "TIMESTAMP", "NUMERIC", "STRING", "BYTES", "JSON", "TOKENLIST"}

// typeRelex: SQL() lexes, and its tokens ('>>' and '<>' counted as two one-byte tokens) read as the yield of the tree
func typeRelex(t ast.Type) (ok bool) {
	defer func() {
		if r := recover(); r != nil {
			ok = false
		}
	}()
	toks, err, crashed := exprLexAll(t.SQL())
	if err != nil || crashed != nil || len(toks) == 0 {
		return false
	}
	type xt struct {
		kind string
		tok  *token.Token
	}
	var xs []xt
	for i := range toks {
		tk := &toks[i]
		switch tk.Kind {
		case ">>":
			xs = append(xs, xt{">", tk}, xt{">", tk})
		case "<>":
			xs = append(xs, xt{"<", tk}, xt{">", tk})
		default:
			xs = append(xs, xt{string(tk.Kind), tk})
		}
	}
	if xs[len(xs)-1].kind != string(token.TokenEOF) {
		return false
	}
	xs = xs[:len(xs)-1]
	ys := typeYield(t, nil)
	if len(xs) != len(ys) {
		return false
	}
	for i, y := range ys {
		x := xs[i]
		switch y.kind {
		case "simple":
			if x.kind != string(token.TokenIdent) {
				return false
			}
			first := ""
			for _, n := range typeSimpleNames {
				if x.tok.IsIdent(n) {
					first = n
					break
				}
			}
			if first != y.name {
				return false
			}
		case "ident":
			if x.kind != string(token.TokenIdent) || x.tok.AsString != y.name {
				return false
			}
		default:
			if x.kind != y.kind {
				return false
			}
		}
	}
	return true
}

// ---------------------------------------------------------------------------------------------------------------
// generator

// pieces a type text is assembled from (each is a complete token or a trivia item; joined with "" or " ")
var typeNames = []string{"INT64", "int64", "String", "bool", "a", "b", "`c d`", "`INT64`", "`ARRAY`", "x.y", "a.b.c", "`a`.`select`", "t.INT64",
	"INT64.t", "date.T", "string.x.y", "`date`.x", "select", "ARRAY", "STRUCT", "array", "struct", "tokenlist", "FLOAT32", "Float64", "DATE", "Timestamp", "NUMERIC", "bytes", "Json", "INTERVAL", "a.1", "a.select"}

// abstract type trees, printed in several concrete spellings
type tnode struct {
	kind   int // 0 name, 1 array, 2 struct
	name   string
	item   *tnode
	fields []tfield
}
type tfield struct {
	name string // "" = unnamed
	typ  *tnode
}

var tLeafNames = []string{"INT64", "string", "a", "`b c`", "x.y", "`INT64`", "date.T", "`date`.x"}
var tFieldNames = []string{"", "a", "INT64", "`select`", "array_"}

// enumTypes: all trees of depth ≤ d with ≤ w fields per struct over the leaf/field-name alphabets (rotated by rot)
func enumTypes(d, w int, leaves, fnames []string) []*tnode {
	var out []*tnode
	for _, n := range leaves {
		out = append(out, &tnode{kind: 0, name: n})
	}
	if d == 0 {
		return out
	}
	sub := enumTypes(d-1, w, leaves, fnames)
	for _, s := range sub {
		out = append(out, &tnode{kind: 1, item: s})
	}
	out = append(out, &tnode{kind: 2})
	// field lists of length 1..w
	var rec func(cur []tfield, n int)
	rec = func(cur []tfield, n int) {
		if len(cur) == n {
			out = append(out, &tnode{kind: 2, fields: append([]tfield(nil), cur...)})
			return
		}
		for _, fn := range fnames {
			for _, s := range sub {
				rec(append(cur, tfield{fn, s}), n)
			}
		}
	}
	for n := 1; n <= w; n++ {
		rec(nil, n)
	}
	return out
}

// style of a printing
type tstyle struct {
	sep      string // between tokens where a separator is optional
	gtSep    string // between consecutive closers ("" gives >> and >>>)
	emptyLt  string // "<>" or "< >"
	lower    bool   // keywords in lower case
	comment  bool   // a comment before every closer
	trailing bool   // a comma before the closer of a non-empty struct (malformed)
}

func (n *tnode) print(st tstyle, sb *strings.Builder) {
	kw := func(s string) string {
		if st.lower {
			return strings.ToLower(s)
		}
		return s
	}
	closer := func() {
		if st.comment {
			sb.WriteString("/*c*/")
		}
		s := sb.String()
		if len(s) > 0 && s[len(s)-1] == '>' {
			sb.WriteString(st.gtSep)
		}
		sb.WriteString(">")
	}
	switch n.kind {
	case 0:
		sb.WriteString(n.name)
	case 1:
		sb.WriteString(kw("ARRAY") + st.sep + "<" + st.sep)
		n.item.print(st, sb)
		sb.WriteString(st.sep)
		closer()
	case 2:
		if len(n.fields) == 0 {
			sb.WriteString(kw("STRUCT") + st.sep + st.emptyLt)
			return
		}
		sb.WriteString(kw("STRUCT") + st.sep + "<" + st.sep)
		for i, f := range n.fields {
			if i > 0 {
				sb.WriteString(st.sep + "," + st.sep)
				if st.sep == "" {
					sb.WriteString(" ")
				}
			}
			if f.name != "" {
				sb.WriteString(f.name + " ")
			}
			f.typ.print(st, sb)
		}
		if st.trailing {
			sb.WriteString(",")
		}
		sb.WriteString(st.sep)
		closer()
	}
}

var typeStyles = []tstyle{
	{sep: "", gtSep: "", emptyLt: "<>"},
	{sep: " ", gtSep: " ", emptyLt: "< >"},
	{sep: "", gtSep: " ", emptyLt: "<>", lower: true},
	{sep: "\n", gtSep: "", emptyLt: "<\t>", comment: true},
	{sep: "", gtSep: "", emptyLt: "<>", trailing: true},
	{sep: " ", gtSep: "", emptyLt: "<>--c\n"},
}

var typeCases = []string{
	"", " ", "INT64", "int64", "`INT64`", "`int64`", " INT64 ", "INT64 INT64", "INT64.x", "`INT64`.x", "x.INT64", "string.x", "a", "a.b", "a.b.c", "a .b", "a. b", "a.", ".a", "a..b",
	"a.select", "a.1", "a.1b", "select", "`select`", "ARRAY", "ARRAY<", "ARRAY<>", "ARRAY< >", "ARRAY<INT64", "ARRAY<INT64>", "ARRAY<INT64>>", "ARRAY<INT64> >", "array<int64>",
	"ARRAY<ARRAY<INT64>>", "ARRAY<ARRAY<INT64> >", "ARRAY<ARRAY<INT64>>>", "ARRAY<ARRAY<ARRAY<INT64>>>", "ARRAY<ARRAY<ARRAY<INT64>> >", "ARRAY<ARRAY<ARRAY<INT64> >>",
	"ARRAY<ARRAY<ARRAY<ARRAY<INT64>>>>", "ARRAY<ARRAY<ARRAY<INT64>>", "ARRAY<ARRAY<INT64>>=", "ARRAY<ARRAY<INT64>>>=", "ARRAY<INT64>=", "ARRAY<ARRAY<INT64>=>",
	"STRUCT", "STRUCT<>", "STRUCT< >", "STRUCT<>>", "STRUCT<", "STRUCT<,>", "STRUCT<a>", "STRUCT<a,>", "STRUCT<,a>", "STRUCT<a,,b>", "STRUCT<a b>", "STRUCT<a b c>", "STRUCT<a b.c>", "STRUCT<a.b c>",
	"STRUCT<a INT64>", "STRUCT<INT64 INT64>", "STRUCT<INT64>", "STRUCT<a INT64, b STRING>", "STRUCT<a INT64, STRING>", "STRUCT<INT64, b STRING>", "STRUCT<a INT64,>", "STRUCT<a INT64 b STRING>",
	"STRUCT<ARRAY<INT64>>", "STRUCT<a ARRAY<INT64>>", "STRUCT<a ARRAY<INT64>>>", "ARRAY<STRUCT<a INT64>>", "ARRAY<STRUCT<a ARRAY<INT64>>>", "ARRAY<STRUCT<>>", "ARRAY<STRUCT<> >", "ARRAY<STRUCT< >>",
	"STRUCT<STRUCT<>>", "STRUCT<a STRUCT<>>", "STRUCT<a STRUCT<>, b STRUCT<>>", "STRUCT<STRUCT<STRUCT<>>>", "STRUCT<a STRUCT<b STRUCT<c INT64>>>", "STRUCT<select INT64>", "STRUCT<`select` INT64>",
	"STRUCT<array INT64>", "STRUCT<a array<INT64>>", "STRUCT<struct<>>", "STRUCT<a struct>", "STRUCT<ARRAY ARRAY<INT64>>", "STRUCT<a ARRAY>", "STRUCT<a STRUCT>", "STRUCT<a, b>", "STRUCT<a.b, c.d>",
	"ARRAY<STRUCT<a INT64, b ARRAY<STRING>>>", "ARRAY<STRUCT<a INT64, b ARRAY<STRING>> >", "ARRAY<STRUCT<a INT64, b ARRAY<STRING> > >", "ARRAY<STRUCT<a INT64, b ARRAY<STRING>>",
	"ARRAY<INT64>/*c*/", "/*c*/ARRAY/*c*/</*c*/INT64/*c*/>", "ARRAY<INT64>--c", "ARRAY<INT64>#c\n", "ARRAY<INT64>;", "ARRAY<INT64>)", "(INT64)", "INT64(10)", "STRING(MAX)", "ARRAY<STRING(10)>",
	"INT64 NOT NULL", "ARRAY<INT64", "ARRAY INT64>", "ARRAY<INT64,>", "ARRAY<INT64, STRING>", "ARRAY<a b>", "ARRAY<a.b>", "ARRAY<a.b.c>>", "STRUCT<a.b.c>", "STRUCT<x a.b.c>", "STRUCT<x.y a>",
	"'INT64'", "\"a\"", "1", "@p", "ARRAY<1>", "ARRAY<'a'>", "STRUCT<a 1>", "INT64 'abc", "ARRAY<INT64> 'abc", "`abc", "ARRAY<`abc>", "INT64 /* open", "\xff", "ARRAY<\xff>", "INT64 \xff",
	"ARRAY<<INT64>>", "ARRAY<>INT64>", "ARRAY<<>>", "STRUCT<<>>", "STRUCT<><>", "ARRAY<INT64>>>", "ARRAY<ARRAY<INT64>>>>", "ARRAY<ARRAY<INT64>> >>", "STRUCT<ARRAY<INT64>>>", "STRUCT<a ARRAY<INT64>, b ARRAY<INT64>>",
	"STRUCT<a ARRAY<ARRAY<INT64>>, b ARRAY<ARRAY<INT64>>>", "ARRAY<STRUCT<ARRAY<STRUCT<ARRAY<INT64>>>>>", "ARRAY<STRUCT<ARRAY<STRUCT<ARRAY<INT64>>>> >", "ARRAY<STRUCT<ARRAY<STRUCT<ARRAY<INT64>>> >>",
	"ARRAY<STRUCT<ARRAY<STRUCT<ARRAY<INT64>> >>>", "ARRAY<STRUCT<ARRAY<STRUCT<ARRAY<INT64> >>>>", "ARRAY<a>>.b", "STRUCT<a>>b", "ARRAY<ARRAY<a>>b>", "ARRAY<ARRAY<a>>,b>", "STRUCT<ARRAY<a>>b>", "STRUCT<ARRAY<ARRAY<a>>,b>",
	"STRUCT<ARRAY<ARRAY<a>>, b>", "STRUCT<x ARRAY<ARRAY<a>>, b INT64>", "STRUCT<x ARRAY<STRUCT<>>, b INT64>", "STRUCT<x ARRAY<STRUCT<>>>", "STRUCT<ARRAY<ARRAY<a>> b>", "ARRAY<ARRAY<a>>.b>",
	"tokenlist", "TOKENLIST", "interval", "float32", "FLOAT", "int", "INT32", "ENUM", "PROTO", "`a.b`", "`a`.`b`", "`a``b`", "`a\\`b`", "`a\\nb`", "`\\x41`", "``", "a.``", "é", "`a b`.`c d`",
	// a named type whose first path component spells a scalar type (accepted since the repair of lookaheadSimpleType)
	"date.T", "DATE.T", "string.x.y", "`date`.x", "`date`.`x`", "date.`x`", "STRUCT<a date.t, b INT64.u>", "ARRAY<string.x>", "ARRAY<ARRAY<string.x>>", "STRUCT<date.t>", "STRUCT<date date.t>",
	"STRUCT<date.t date>", "STRUCT<date, date.t, date>", "date .T", "date. T", "date/*c*/./*c*/T", "date.", "date..T", "date.T.", "date.1", "date.select", "date.T x", "date.ARRAY<INT64>", "ARRAY<date.>",
	"ARRAY<date.t>>", "STRUCT<a date.t>>", "ARRAY<STRUCT<a date.t>>", "bool.b", "int64.i", "float32.f", "float64.f", "timestamp.t", "numeric.n", "bytes.b", "json.j", "tokenlist.t", "interval.i",
	"date.date", "date.date.date", "STRUCT<date date.date>", "`date`", "`date` .x", "date.T 'abc", "date 'abc", "date.\xff",
	"STRUCT<`INT64` `INT64`>", "STRUCT<`a b` `c d`>", "STRUCT<`a b`>", "STRUCT<a `ARRAY`<INT64>>", "`ARRAY`<INT64>", "`STRUCT`<>", "ARRAY`<`INT64>", "ARRAY<INT64`>`",
}

func genType(w *bufio.Writer, tier string, r *rng) {
	seen := map[string]bool{}
	emit := func(s string) {
		if seen[s] {
			return
		}
		seen[s] = true
		fmt.Fprintf(w, "TYPE %s\n", hx(s))
	}
	for _, s := range typeCases {
		emit(s)
	}
	// (1) every abstract tree up to the bound, in every style
	depth, width := 2, 2
	leaves, fnames := tLeafNames[:2], tFieldNames[:2]
	if tier == "thorough" {
		leaves, fnames = tLeafNames[:3], tFieldNames[:3]
	}
	trees := enumTypes(depth, width, leaves, fnames)
	for _, t := range trees {
		for _, st := range typeStyles {
			var sb strings.Builder
			t.print(st, &sb)
			emit(sb.String())
		}
	}
	// deeper, narrower trees over the full name alphabets
	deep := enumTypes(3, 1, tLeafNames, tFieldNames)
	deep = append(deep, enumTypes(1, 3, tLeafNames[:3], tFieldNames[:3])...)
	if tier == "thorough" {
		deep = append(deep, enumTypes(5, 1, tLeafNames[:3], tFieldNames[:2])...)
		deep = append(deep, enumTypes(1, 4, tLeafNames[:2], tFieldNames[:3])...)
	}
	for _, t := range deep {
		for _, st := range typeStyles[:4] {
			var sb strings.Builder
			t.print(st, &sb)
			emit(sb.String())
		}
	}
	// field-name / type-name alphabet in one-field and two-field structs (keywords as field names, quoted names, paths)
	for _, a := range typeNames {
		emit(a)
		emit("ARRAY<" + a + ">")
		emit("STRUCT<" + a + ">")
		for _, b := range typeNames {
			emit("STRUCT<" + a + " " + b + ">")
			emit("STRUCT<" + a + "," + b + ">")
			emit("ARRAY<STRUCT<" + a + " ARRAY<" + b + ">>>")
		}
	}
	// (2) ALL token sequences up to a length over the vocabulary of the type grammar (malformed ones included)
	vocab := []string{"INT64", "a", "ARRAY", "STRUCT", "<", ">", ">>", "<>", ",", "."}
	maxLen := 4
	if tier == "thorough" {
		maxLen = 6
	}
	var rec func(cur []string, n int)
	rec = func(cur []string, n int) {
		if len(cur) == n {
			emit(joinTypeTokens(cur, false))
			return
		}
		for _, v := range vocab {
			rec(append(cur, v), n)
		}
	}
	for n := 1; n <= maxLen; n++ {
		rec(nil, n)
	}
	// (3) one-token mutations of valid printings and random token soups
	nmut, nsoup := 15000, 15000
	if tier == "thorough" {
		nmut, nsoup = 250000, 250000
	}
	soupVocab := append(append([]string{}, vocab...), "b", "`c d`", "string", "x.y", "/*c*/", "--c\n", " ", "\n", ">>>", "> >", "<<", "(", ")", "=", "select", "1", "'s'", ";", "`INT64`", "int64", "date.t", "date", "`string`")
	all := enumTypes(2, 2, tLeafNames[:3], tFieldNames[:3])
	for i := 0; i < nmut; i++ {
		t := all[r.intn(len(all))]
		var sb strings.Builder
		t.print(typeStyles[r.intn(len(typeStyles))], &sb)
		toks := splitTypeText(sb.String())
		if len(toks) == 0 {
			continue
		}
		k := r.intn(len(toks))
		switch r.intn(3) {
		case 0: // delete
			toks = append(toks[:k:k], toks[k+1:]...)
		case 1: // replace
			toks[k] = soupVocab[r.intn(len(soupVocab))]
		case 2: // insert
			toks = append(toks[:k:k], append([]string{soupVocab[r.intn(len(soupVocab))]}, toks[k:]...)...)
		}
		emit(joinTypeTokens(toks, r.intn(2) == 0))
	}
	for i := 0; i < nsoup; i++ {
		n := 1 + r.intn(12)
		toks := make([]string, n)
		for j := range toks {
			toks[j] = soupVocab[r.intn(len(soupVocab))]
		}
		emit(joinTypeTokens(toks, r.intn(2) == 0))
	}
}

// joinTypeTokens glues tokens; words are always separated by a blank, punctuation is glued unless `spaced`
// (so that ">" ">" becomes ">>" in the text and is lexed as one token).
func joinTypeTokens(toks []string, spaced bool) string {
	var sb strings.Builder
	for i, t := range toks {
		if i > 0 {
			p := toks[i-1]
			if spaced || (isWordish(p) && isWordish(t)) {
				sb.WriteString(" ")
			}
		}
		sb.WriteString(t)
	}
	return sb.String()
}

func isWordish(s string) bool {
	if s == "" {
		return false
	}
	c := s[len(s)-1]
	d := s[0]
	w := func(c byte) bool {
		return c == '_' || c == '`' || c == '\'' || (c >= '0' && c <= '9') || (c >= 'a' && c <= 'z') || (c >= 'A' && c <= 'Z')
	}
	return w(c) && w(d)
}

// splitTypeText cuts a printed type into rough tokens (words incl. back-quoted ones, single punctuation characters, trivia runs)
func splitTypeText(s string) []string {
	var out []string
	i := 0
	for i < len(s) {
		c := s[i]
		switch {
		case c == '`':
			j := i + 1
			for j < len(s) && s[j] != '`' {
				j++
			}
			if j < len(s) {
				j++
			}
			out = append(out, s[i:j])
			i = j
		case c == '_' || (c >= '0' && c <= '9') || (c >= 'a' && c <= 'z') || (c >= 'A' && c <= 'Z'):
			j := i
			for j < len(s) && (s[j] == '_' || s[j] == '.' || (s[j] >= '0' && s[j] <= '9') || (s[j] >= 'a' && s[j] <= 'z') || (s[j] >= 'A' && s[j] <= 'Z')) {
				j++
			}
			out = append(out, s[i:j])
			i = j
		case c == '/' && i+1 < len(s) && s[i+1] == '*':
			j := strings.Index(s[i+2:], "*/")
			if j < 0 {
				j = len(s)
			} else {
				j = i + 2 + j + 2
			}
			out = append(out, s[i:j])
			i = j
		case c == '-' && i+1 < len(s) && s[i+1] == '-':
			j := strings.IndexByte(s[i:], '\n')
			if j < 0 {
				j = len(s)
			} else {
				j = i + j + 1
			}
			out = append(out, s[i:j])
			i = j
		default:
			out = append(out, s[i:i+1])
			i++
		}
	}
	return out
}
