package main

import (
	"fmt"
	"strings"

	"github.com/cloudspannerecosystem/memefish"
	"github.com/cloudspannerecosystem/memefish/token"
)

func init() {
	propTable["C11"] = propC11
	propTable["C16"] = propC16
}

func hasToken(s string) bool {
	toks, ok := tokenSpans(s)
	return ok && len(toks) > 1
}

// c11Check: list parse == split + single parses.
func c11Check(list *entry, s string) (nontrivial bool, detail string) {
	if _, ok := tokenSpans(s); !ok {
		return false, "" // quantifier: inputs that lex without error
	}
	single := entryByName(list.single)
	pieces, err := memefish.SplitRawStatements("", s)
	if err != nil {
		return false, ""
	}
	lr := safeParse(list, s)
	if lr.hung || lr.panicked != nil {
		return false, ""
	}
	allOK := true
	type one struct {
		text string
		res  callResult
	}
	var singles []one
	for _, p := range pieces {
		if !hasToken(p.Statement) {
			continue // empty statement (also a comment-only piece)
		}
		// the same text at the same offset: positions of the stand-alone parse are then directly comparable
		text := strings.Repeat(" ", int(p.Pos)) + p.Statement
		r := safeParse(single, text)
		if r.hung || r.panicked != nil {
			return false, ""
		}
		if r.err != nil {
			allOK = false
		}
		singles = append(singles, one{text, r})
	}
	if (lr.err == nil) != allOK {
		return true, fmt.Sprintf("%s error=%v, but accepted-by-%s for every non-empty piece=%v", list.name, lr.err, single.name, allOK)
	}
	if lr.err != nil {
		return len(singles) > 1, ""
	}
	if len(lr.nodes) != len(singles) {
		return true, fmt.Sprintf("%s returned %d statements for %d non-empty pieces", list.name, len(lr.nodes), len(singles))
	}
	for i, n := range lr.nodes {
		a, b := dump(n, true), dump(singles[i].res.nodes[0], true)
		if a != b {
			return true, fmt.Sprintf("statement %d differs from the stand-alone parse of its piece (positions shifted by the piece offset): %s", i, firstDiff(a, b))
		}
	}
	return len(singles) > 1, ""
}

var listTrivia = []string{"", " ", "\n", " /*c*/ ", "-- c\n", "\n\n", "/* ; */", "#x\n "}

func propC11(o *propOpts) *propResult {
	res := newResult("inputs: ';'-joined lists of 1..4 golden statements of one class (statements / DDL / DML) with random trivia around the separators, empty statements, optional trailing ';', plus end-of-input-sensitive statements (trailing comma in a select list) and mutated members; ParseStatements/ParseDDLs/ParseDMLs vs SplitRawStatements + the single-statement entry point; non-trivial = at least two non-empty pieces; distinct by (entry,input)")
	each := func(list *entry, s string) {
		nt, d := c11Check(list, s)
		res.eval(list.name+"|"+s, nt, func() any { return map[string]any{"entry": list.name, "input": s} })
		res.count(list.name)
		if d != "" {
			res.fail("input:"+list.name+":"+hx(s), s, list.name, d)
		}
	}
	if o.single != nil {
		b, _ := unhex(o.single.Input)
		if e := entryByName(o.single.Entry); e != nil && e.list {
			each(e, string(b))
		}
		return res
	}
	for _, h := range hintInputs(o) {
		each(entryByName("ParseStatements"), h)
		each(entryByName("ParseStatements"), h+"; SELECT 1")
		each(entryByName("ParseStatements"), "SELECT 1;"+h)
	}
	pools := map[string][]string{}
	for _, cf := range corpusFiles() {
		if cf.Bad {
			continue
		}
		t := strings.TrimRight(cf.Text, " \n\t")
		switch cf.Dir {
		case "ddl":
			pools["ParseDDLs"] = append(pools["ParseDDLs"], t)
		case "dml":
			pools["ParseDMLs"] = append(pools["ParseDMLs"], t)
		case "query", "statement":
		}
		if cf.Dir != "expr" {
			pools["ParseStatements"] = append(pools["ParseStatements"], t)
		}
	}
	special := []string{"SELECT 1,", "SELECT a, b, FROM t", "SELECT 1, ", "SELECT * FROM t WHERE a IN (1, 2)", "SELECT 1 /* ; */", "SELECT ';'", "SELECT 1 -- ;"}
	pools["ParseStatements"] = append(pools["ParseStatements"], special...)
	for _, p := range probes {
		if p.entry == "ParseStatements" {
			each(entryByName("ParseStatements"), p.text)
		}
	}
	r := &rng{s: o.seed}
	// long lists: the whole pool as one list, and many copies of each member (state carried from one statement to the next —
	// a counter, a flag, a buffer of the parser that is not reset — shows only after many statements)
	copies := 260
	if o.tier == "thorough" {
		copies = 1200
	}
	for _, name := range []string{"ParseStatements", "ParseDDLs", "ParseDMLs"} {
		pool := pools[name]
		each(entryByName(name), strings.Join(pool, "\n;\n"))
		for i, st := range pool {
			if name == "ParseStatements" && (cfDirIsDDLorDML(st) || (o.tier != "thorough" && i%2 != int(o.seed%2))) {
				continue
			}
			var sb strings.Builder
			for j := 0; j < copies; j++ {
				sb.WriteString(st)
				sb.WriteString([]string{";", " ;\n", "\n;\n", "; -- n\n", ";;"}[j%5])
			}
			each(entryByName(name), sb.String())
		}
	}
	// end of input vs ';': every token-boundary PREFIX of every pool member (the whole member included), as it is and with a
	// trailing comma, followed by ';' and a second statement — a production that asks "is this the end of the input?" where it
	// should ask "is this the end of the statement?" accepts the prefix alone and rejects it in a list (or the reverse)
	cnt := 0
	for _, name := range []string{"ParseStatements", "ParseDDLs", "ParseDMLs"} {
		pool := pools[name]
		second := map[string]string{"ParseStatements": "SELECT 1", "ParseDDLs": "DROP TABLE t", "ParseDMLs": "DELETE FROM t WHERE TRUE"}[name]
		for _, st := range pool {
			if name == "ParseStatements" && cfDirIsDDLorDML(st) {
				continue
			}
			toks, ok := tokenSpans(st)
			if !ok {
				continue
			}
			for i := 1; i < len(toks); i++ {
				cnt++
				if o.tier != "thorough" && cnt%2 != int(o.seed%2) {
					continue
				}
				pre := st[:toks[i].Pos]
				if toks[i].Kind == token.TokenEOF {
					pre = st
				}
				each(entryByName(name), pre+"; "+second)
				each(entryByName(name), pre+",; "+second)
				each(entryByName(name), pre+", ;"+second+";")
			}
		}
	}
	n := 1200
	if o.tier == "thorough" {
		n = 30000
	}
	for i := 0; i < n; i++ {
		name := []string{"ParseStatements", "ParseStatements", "ParseDDLs", "ParseDMLs"}[r.intn(4)]
		pool := pools[name]
		k := 1 + r.intn(4)
		var sb strings.Builder
		sb.WriteString(listTrivia[r.intn(len(listTrivia))])
		for j := 0; j < k; j++ {
			st := pool[r.intn(len(pool))]
			if r.intn(12) == 0 {
				st = mutate(r, st)
			}
			if r.intn(10) == 0 {
				st = "" // empty statement
			}
			sb.WriteString(st)
			sb.WriteString(listTrivia[r.intn(len(listTrivia))])
			if j+1 < k || r.intn(2) == 0 {
				sb.WriteString(";")
				sb.WriteString(listTrivia[r.intn(len(listTrivia))])
			}
		}
		each(entryByName(name), sb.String())
	}
	return res
}

// cfDirIsDDLorDML: the statement is also a member of the DDL or DML pool (its long list is built there)
func cfDirIsDDLorDML(st string) bool {
	u := strings.ToUpper(strings.TrimLeft(st, " \n\t"))
	for _, p := range []string{"CREATE", "ALTER", "DROP", "INSERT", "UPDATE", "DELETE", "GRANT", "REVOKE", "RENAME", "ANALYZE"} {
		if strings.HasPrefix(u, p) {
			return true
		}
	}
	return false
}

// ---------------------------------------------------------------------------------------------
// C16

var c16Trivia = []string{" ", "\n", "\t ", "  ", " /*x*/ ", " -- c\n", " #h\n", "\n/* a\n b */\n",
	// (round 3, seed C16h) runs of several comments: a hand-written look-ahead that skips "spaces, one comment, spaces" is wrong here
	" /*a*/ /*b*/ ", " /*a*//*b*/", " -- c\n-- d\n", " #h\n/*x*/ -- c\n", "\n/*x*/\n/*y*/\n/*z*/\n"}

// the trivia put into EVERY gap by the three deterministic re-spellings of c16Check
var c16EveryGap = []string{" /*a*/ /*b*/ ", " -- c\n-- d\n", " #h\n /*x*/\n"}

// respellAll rebuilds s from its tokens with the same trivia string in every gap (also where two tokens were adjacent: licensed by
// the proved trivia lemma, the trivia begins with a blank) and the tokens' own spelling.
func respellAll(toks []token.Token, trivia string) string {
	var sb strings.Builder
	for i, t := range toks {
		if t.Kind == token.TokenEOF {
			continue
		}
		if i > 0 {
			sb.WriteString(trivia)
		}
		sb.WriteString(t.Raw)
	}
	return sb.String()
}

// respell rebuilds s from its tokens with new trivia and new letter case.
// level 1: trivia and reserved-keyword case only. level 2: also the case of unquoted identifiers.
func respell(r *rng, s string, toks []token.Token, level int) string {
	var sb strings.Builder
	for i, t := range toks {
		hadTrivia := len(t.Space) > 0 || len(t.Comments) > 0
		switch {
		case t.Kind == token.TokenEOF:
			if r.intn(2) == 0 {
				sb.WriteString(c16Trivia[r.intn(len(c16Trivia))])
			}
			continue
		case i == 0:
			if r.intn(3) == 0 {
				sb.WriteString(c16Trivia[r.intn(len(c16Trivia))])
			}
		case hadTrivia:
			sb.WriteString(c16Trivia[r.intn(len(c16Trivia))])
		case r.intn(4) == 0:
			// insert trivia between two tokens that were adjacent — it begins with a blank (side condition S1 of the proved
			// trivia lemma MF.Props.C16.trivia_lemma, which makes ANY two adjacent tokens separable, also around '.')
			sb.WriteString(c16Trivia[r.intn(len(c16Trivia))])
		}
		raw := t.Raw
		_, isKw := token.KeywordsMap[t.Kind]
		if isKw || (level >= 2 && t.Kind == token.TokenIdent && !strings.HasPrefix(raw, "`")) {
			b := []byte(raw)
			mode := r.intn(3)
			for j := range b {
				switch {
				case mode == 0:
					b[j] = lower(b[j])
				case mode == 1:
					b[j] = upper(b[j])
				case r.intn(2) == 0:
					b[j] = lower(b[j])
				default:
					b[j] = upper(b[j])
				}
			}
			raw = string(b)
		}
		sb.WriteString(raw)
	}
	return sb.String()
}

func lower(c byte) byte {
	if 'A' <= c && c <= 'Z' {
		return c + 32
	}
	return c
}
func upper(c byte) byte {
	if 'a' <= c && c <= 'z' {
		return c - 32
	}
	return c
}

func c16Check(r *rng, e *entry, s string) (accepted bool, detail string) {
	r0 := safeParse(e, s)
	if r0.hung || r0.panicked != nil || r0.err != nil {
		return false, ""
	}
	toks, ok := tokenSpans(s)
	if !ok {
		return false, ""
	}
	d0 := dumpAll(r0.nodes, false)
	for _, tv := range c16EveryGap {
		s2 := respellAll(toks, tv)
		r2 := safeParse(e, s2)
		if r2.hung || r2.panicked != nil {
			return true, fmt.Sprintf("re-spelled input %q does not return normally", s2)
		}
		if r2.err != nil {
			return true, fmt.Sprintf("re-spelled input %q (a run of comments between all tokens) is rejected: %v", s2, r2.err)
		}
		if d2 := dumpAll(r2.nodes, false); d2 != d0 {
			return true, fmt.Sprintf("re-spelling trivia (%q) changes the tree: %s", s2, firstDiff(d0, d2))
		}
	}
	for level := 1; level <= 2; level++ {
		for k := 0; k < 2; k++ {
			s2 := respell(r, s, toks, level)
			r2 := safeParse(e, s2)
			if r2.hung || r2.panicked != nil {
				return true, fmt.Sprintf("re-spelled input %q does not return normally", s2)
			}
			if r2.err != nil {
				return true, fmt.Sprintf("re-spelled input %q is rejected: %v", s2, r2.err)
			}
			d2 := dumpAll(r2.nodes, false)
			if level == 1 && d2 != d0 {
				return true, fmt.Sprintf("re-spelling trivia and keyword case (%q) changes the tree: %s", s2, firstDiff(d0, d2))
			}
			if level == 2 && !strings.EqualFold(d2, d0) {
				return true, fmt.Sprintf("re-spelling identifier case (%q) changes the tree beyond letter case: %s", s2, firstDiff(strings.ToLower(d0), strings.ToLower(d2)))
			}
		}
	}
	return true, ""
}

func propC16(o *propOpts) *propResult {
	res := newResult("inputs: as C04 (accepted ones matter); each accepted input is re-spelled 4 times from its token stream: new whitespace/comments wherever trivia was (and sometimes between adjacent tokens, starting with a blank), random case of reserved keywords (level 1: tree must be identical up to positions) and additionally of unquoted identifiers incl. pseudo-keywords and type names (level 2: accepted, tree identical up to positions and letter case of names); non-trivial = accepted input with at least 4 tokens; distinct by (entry,input)")
	r := &rng{s: o.seed + 77}
	parserInputs(o, func(e *entry, s string, origin string) {
		acc, d := c16Check(r, e, s)
		res.count(origin)
		res.eval(e.name+"|"+s, acc && len(s) > 8, func() any { return map[string]any{"entry": e.name, "input": s} })
		if d != "" {
			res.fail("input:"+e.name+":"+hx(s), s, e.name, d)
		}
	})
	return res
}
