package main

import (
	"bufio"
	"fmt"
	"os"
	"os/exec"
	"path/filepath"
	"strconv"
	"strings"
)

// refToken is a token of the REFERENCE lexer (the Lean model, proved to refine Spec.Lexical), obtained from the driver.
type refToken struct {
	kind     string
	pos, end int
	comments [][2]int
}

func driverPath() string {
	if p := os.Getenv("MF_DRIVER"); p != "" {
		return p
	}
	exe, _ := os.Executable()
	return filepath.Join(filepath.Dir(filepath.Dir(exe)), "lean", ".lake", "build", "bin", "driver")
}

// refLex asks the Lean driver for the reference token streams of the inputs; ok[i] is false when the reference rejects.
func refLex(inputs []string) (toks [][]refToken, ok []bool, err error) {
	cmd := exec.Command(driverPath())
	var in strings.Builder
	for _, s := range inputs {
		fmt.Fprintf(&in, "LEX p %s\n", hx(s))
	}
	cmd.Stdin = strings.NewReader(in.String())
	out, e := cmd.Output()
	if e != nil {
		return nil, nil, e
	}
	sc := bufio.NewScanner(strings.NewReader(string(out)))
	sc.Buffer(make([]byte, 1<<20), 1<<26)
	for sc.Scan() {
		f := strings.Split(sc.Text(), " ")
		var ts []refToken
		good := len(f) > 0 && f[len(f)-1] == "OK"
		for _, t := range f[:len(f)-1] {
			p := strings.Split(t, "|")
			if len(p) != 8 {
				continue
			}
			k, _ := unhex(p[0])
			a, _ := strconv.Atoi(p[4])
			b, _ := strconv.Atoi(p[5])
			rt := refToken{kind: string(k), pos: a, end: b}
			if p[7] != "-" {
				for _, c := range strings.Split(p[7], ";") {
					q := strings.Split(c, ":")
					if len(q) == 4 {
						x, _ := strconv.Atoi(q[2])
						y, _ := strconv.Atoi(q[3])
						rt.comments = append(rt.comments, [2]int{x, y})
					}
				}
			}
			ts = append(ts, rt)
		}
		toks = append(toks, ts)
		ok = append(ok, good)
	}
	if len(toks) != len(inputs) {
		return nil, nil, fmt.Errorf("driver answered %d of %d requests", len(toks), len(inputs))
	}
	return toks, ok, nil
}
