package main

import (
	"github.com/cloudspannerecosystem/memefish/ast"
)

// knownSite recognises, in a returned tree, the call sites of the genuine defects that were recorded rather than
// repaired (known-findings.txt). A failure on a tree carrying such a site is keyed by the site, so that the listed
// finding is recognised on any input that exercises it while every other violation keeps its own key.
func knownSite(src string, roots []ast.Node, prop string) string {
	for _, root := range roots {
		if isNilNode(root) {
			continue
		}
		for _, n := range allNodes(root) {
			switch x := n.(type) {
			case *ast.Join:
				if x.Method != "" && (prop == "C01" || prop == "C02" || prop == "C06") {
					return "site:Join.Method"
				}
			case *ast.CreateTable:
				if len(x.PrimaryKeys) == 0 && !x.PrimaryKeyRparen.Invalid() && (prop == "C01" || prop == "C02" || prop == "C06") {
					return "site:CreateTable.emptyPrimaryKey"
				}
			case *ast.ChangeStreamForAll:
				if prop == "C05" || prop == "C06" {
					return "site:ChangeStreamForAll.All"
				}
			case *ast.SimpleType:
				// only the back-quoted spelling is affected: End() = NamePos + len(Name) assumes the bare spelling
				if p := int(x.NamePos); (prop == "C05" || prop == "C06") && 0 <= p && p < len(src) && src[p] == '`' {
					return "site:SimpleType.quotedName"
				}
			}
		}
	}
	return ""
}
