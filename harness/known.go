package main

import (
	"strings"

	"github.com/cloudspannerecosystem/memefish/ast"
	"github.com/cloudspannerecosystem/memefish/token"
)

// knownSite recognises, in a returned tree, the call sites of the genuine defects that were recorded rather than
// repaired (known-findings.txt). A failure on a tree carrying such a site is keyed by the site, so that the listed
// finding is recognised on any input that exercises it while every other violation keeps its own key.
func knownSite(src string, roots []ast.Node, prop string) string {
	for _, root := range roots {
		if isNilNode(root) {
			continue
		}
		for _, n := range allNodes(root) {
			switch x := n.(type) {
			case *ast.Join:
				if x.Method != "" && (prop == "C01" || prop == "C02" || prop == "C06") {
					return "site:Join.Method"
				}
			case *ast.CreateTable:
				if len(x.PrimaryKeys) == 0 && !x.PrimaryKeyRparen.Invalid() && (prop == "C01" || prop == "C02" || prop == "C06") {
					return "site:CreateTable.emptyPrimaryKey"
				}
			case *ast.ChangeStreamForAll:
				if prop == "C05" || prop == "C06" {
					return "site:ChangeStreamForAll.All"
				}
			case *ast.CallExpr:
				// a function named SAFE_CAST / REPLACE_FIELDS (only expressible with back quotes) is printed bare
				if prop == "C01" && x.Func != nil && len(x.Func.Idents) == 1 && (strings.EqualFold(x.Func.Idents[0].Name, "SAFE_CAST") || strings.EqualFold(x.Func.Idents[0].Name, "REPLACE_FIELDS")) {
					return "site:quotedWord.call"
				}
			case *ast.AsTypeName:
				// SELECT AS `value`: a type named value is printed without back quotes and re-read as SELECT AS VALUE
				if prop == "C01" && x.TypeName != nil && len(x.TypeName.Path) == 1 && strings.EqualFold(x.TypeName.Path[0].Name, "VALUE") {
					return "site:AsTypeName.value"
				}
			case *ast.SimpleType:
				// only the back-quoted spelling is affected: End() = NamePos + len(Name) assumes the bare spelling
				if p := int(x.NamePos); (prop == "C05" || prop == "C06") && 0 <= p && p < len(src) && src[p] == '`' {
					return "site:SimpleType.quotedName"
				}
			}
		}
	}
	return ""
}

// neutralise removes from src the construct that triggers the recorded site defect (the join method word, the empty
// "PRIMARY KEY ()", the back quotes around a scalar type name, the ALL of a change stream). A failure on src is attributed to
// the recorded finding only if the same check PASSES on the neutralised text: a second, different defect that shows on a
// sentence which also happens to contain a HASH JOIN is then still reported under its own key.
func neutralise(site, src string) string {
	toks, ok := tokenSpans(src)
	if !ok {
		return src
	}
	type cut struct {
		from, to int
		repl     string
	}
	var cuts []cut
	up := func(t token.Token) string { return strings.ToUpper(t.AsString) }
	for i := 0; i+1 < len(toks); i++ {
		t := toks[i]
		switch site {
		case "site:Join.Method":
			if (t.Kind == token.TokenIdent || t.Kind == "HASH" || t.Kind == "LOOKUP") && toks[i+1].Kind == "JOIN" {
				switch strings.ToUpper(t.Raw) {
				case "HASH", "LOOKUP", "APPLY", "LOOP", "MERGE":
					cuts = append(cuts, cut{int(t.Pos), int(t.End), ""})
				}
			}
		case "site:CreateTable.emptyPrimaryKey":
			if i+3 < len(toks) && strings.EqualFold(t.Raw, "PRIMARY") && strings.EqualFold(toks[i+1].Raw, "KEY") && toks[i+2].Kind == "(" && toks[i+3].Kind == ")" {
				cuts = append(cuts, cut{int(t.Pos), int(toks[i+3].End), ""})
			}
		case "site:SimpleType.quotedName":
			if t.Kind == token.TokenIdent && strings.HasPrefix(t.Raw, "`") {
				switch up(t) {
				case "BOOL", "INT64", "FLOAT32", "FLOAT64", "DATE", "TIMESTAMP", "NUMERIC", "STRING", "BYTES", "JSON", "TOKENLIST":
					cuts = append(cuts, cut{int(t.Pos), int(t.End), t.AsString})
				}
			}
		case "site:quotedWord.call":
			if t.Kind == token.TokenIdent && strings.HasPrefix(t.Raw, "`") && toks[i+1].Kind == "(" && (strings.EqualFold(t.AsString, "SAFE_CAST") || strings.EqualFold(t.AsString, "REPLACE_FIELDS")) {
				cuts = append(cuts, cut{int(t.Pos), int(t.End), "`" + t.AsString + "x`"})
			}
		case "site:AsTypeName.value":
			if t.Kind == "AS" && toks[i+1].Kind == token.TokenIdent && strings.HasPrefix(toks[i+1].Raw, "`") && strings.EqualFold(toks[i+1].AsString, "VALUE") {
				cuts = append(cuts, cut{int(toks[i+1].Pos), int(toks[i+1].End), "`valuex`"})
			}
		case "site:ChangeStreamForAll.All":
			if t.Kind == "FOR" && toks[i+1].Kind == "ALL" {
				cuts = append(cuts, cut{int(toks[i+1].Pos), int(toks[i+1].End), "t0"})
			}
		}
	}
	out := src
	for i := len(cuts) - 1; i >= 0; i-- {
		out = out[:cuts[i].from] + cuts[i].repl + out[cuts[i].to:]
	}
	return out
}
