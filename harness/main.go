// mfh — verification harness for memefish: runs the real packages in-process behind the
// same line protocol as the Lean driver (serve), and produces the request streams (gen).
package main

import (
	"bufio"
	"fmt"
	"os"
	"strconv"
	"strings"
)

func main() {
	if len(os.Args) < 2 {
		fmt.Fprintln(os.Stderr, "usage: mfh serve | gen <channel> <tier> <seed> | prop <Cxx> ...")
		os.Exit(2)
	}
	switch os.Args[1] {
	case "serve":
		serve()
	case "gen":
		gen(os.Args[2:])
	case "gram":
		gramMain(os.Args[2:])
	case "prop":
		propMain(os.Args[2:])
	default:
		fmt.Fprintln(os.Stderr, "unknown subcommand", os.Args[1])
		os.Exit(2)
	}
}

func serve() {
	in := bufio.NewReaderSize(os.Stdin, 1<<20)
	out := bufio.NewWriterSize(os.Stdout, 1<<20)
	defer out.Flush()
	for {
		line, err := in.ReadString('\n')
		if len(line) == 0 && err != nil {
			return
		}
		line = strings.TrimRight(line, "\r\n")
		// one request = one deadline: an entry point, SQL(), Pos(), End() or Walk that loops or panics outside the per-channel
		// guards answers ABNORMAL (a disagreement with the model) instead of hanging or killing the server
		var res string
		if p := safely(func() { res = handle(line) }); p != nil {
			res = fmt.Sprint("ABNORMAL ", p)
		}
		out.WriteString(res)
		out.WriteByte('\n')
		if err != nil {
			return
		}
	}
}

func handle(line string) string {
	f := strings.Split(line, " ")
	switch f[0] {
	case "LEX":
		if len(f) != 3 {
			return "BADREQ"
		}
		b, ok := unhex(f[2])
		if !ok {
			return "BADREQ"
		}
		return lexRun(string(b), f[1] == "n")
	case "TREE":
		return treeServe(line)
	case "HANDLER":
		return handlerServe(f)
	case "SPEC":
		if len(f) != 2 {
			return "BADREQ"
		}
		b, ok := unhex(f[1])
		if !ok {
			return "BADREQ"
		}
		return specRun(string(b))
	case "QUOTE":
		if len(f) != 3 {
			return "BADREQ"
		}
		b, ok := unhex(f[1])
		if !ok {
			return "BADREQ"
		}
		return quoteRun(string(b))
	case "SPLIT":
		if len(f) != 2 {
			return "BADREQ"
		}
		b, ok := unhex(f[1])
		if !ok {
			return "BADREQ"
		}
		return splitRun(string(b))
	case "EXPR":
		if len(f) != 2 {
			return "BADREQ"
		}
		b, ok := unhex(f[1])
		if !ok {
			return "BADREQ"
		}
		return exprRun(string(b))
	case "BRIDGE":
		return bridgeServe(f)
	case "EXPRPOS":
		if len(f) != 2 {
			return "BADREQ"
		}
		b, ok := unhex(f[1])
		if !ok {
			return "BADREQ"
		}
		return exprPosRun(string(b))
	case "DML": // Task S (harness/dmlchan.go)
		if len(f) != 3 {
			return "BADREQ"
		}
		b, ok := unhex(f[2])
		if !ok {
			return "BADREQ"
		}
		return dmlRun(f[1], string(b))
	case "QUERY": // Task X (harness/querychan.go)
		return queryServe(f)
	case "TYPE":
		if len(f) != 2 {
			return "BADREQ"
		}
		b, ok := unhex(f[1])
		if !ok {
			return "BADREQ"
		}
		return typeRun(string(b))
	case "POS":
		if len(f) != 4 {
			return "BADREQ"
		}
		b, ok := unhex(f[1])
		pos, e1 := strconv.Atoi(f[2])
		end, e2 := strconv.Atoi(f[3])
		if !ok || e1 != nil || e2 != nil {
			return "BADREQ"
		}
		return posRun(string(b), pos, end)
	}
	return "BADREQ"
}
