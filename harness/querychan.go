package main

// QUERY channel, Go side (Task X): the answer of memefish.ParseQuery / memefish.ParseStatement on one input, in the
// vocabulary of the Lean model MF/Model/Query.lean (`queryRun`):
//
//	request  QUERY <Q|S> <hex>          Q = ParseQuery, S = ParseStatement
//	ERR                                 the input does not lex, or the entry point returns an error
//	OUTSIDE                             the token-level rule says the input may leave the fragment M3 (not compared further)
//	OK <sexpr> <hex SQL()> <Pos> <End>  the returned AST with EVERY field (position fields included) and, after each
//	                                    node, `@Pos():End()` as computed by ast/pos.go; an expression slot is
//	                                    `{<shape as on EXPR> <all nodes as on EXPRPOS>}`
//
// The dump is written by hand (type switch); a node kind outside the fragment answers OUTSIDE-AST (a disagreement).
// The token-level OUTSIDE rule (`queryOutside`) is the same function as `MF.Query.queryOutside` of the Lean model.

import (
	"bufio"
	"fmt"
	"strconv"
	"strings"

	"github.com/cloudspannerecosystem/memefish"
	"github.com/cloudspannerecosystem/memefish/ast"
	"github.com/cloudspannerecosystem/memefish/token"
)

// QK of the Lean model
const (
	qkOther = iota
	qkEOF
	qkIdent
	qkInt
	qkParam
	qkSelect
	qkAll
	qkDistinct
	qkAs
	qkFrom
	qkWhere
	qkGroup
	qkBy
	qkHaving
	qkOrder
	qkAsc
	qkDesc
	qkLimit
	qkStar
	qkDot
	qkComma
	qkLparen
	qkRparen
	qkSemi
	qkHint
	qkWith
	qkUnnest
	qkTablesample
	qkCollate
	qkFor
	qkPipe
	qkSetop
	qkExcept
	qkCast
	qkJoin
)

var qkSym = map[string]int{
	"SELECT": qkSelect, "ALL": qkAll, "DISTINCT": qkDistinct, "AS": qkAs, "FROM": qkFrom, "WHERE": qkWhere,
	"GROUP": qkGroup, "BY": qkBy, "HAVING": qkHaving, "ORDER": qkOrder, "ASC": qkAsc, "DESC": qkDesc,
	"LIMIT": qkLimit, "*": qkStar, ".": qkDot, ",": qkComma, "(": qkLparen, ")": qkRparen, ";": qkSemi,
	"@": qkHint, "WITH": qkWith, "UNNEST": qkUnnest, "TABLESAMPLE": qkTablesample, "COLLATE": qkCollate,
	"FOR": qkFor, "|>": qkPipe, "UNION": qkSetop, "INTERSECT": qkSetop, "EXCEPT": qkExcept, "CAST": qkCast,
	"INNER": qkJoin, "CROSS": qkJoin, "FULL": qkJoin, "LEFT": qkJoin, "RIGHT": qkJoin, "HASH": qkJoin,
	"LOOKUP": qkJoin, "JOIN": qkJoin,
}

func qkOf(t *token.Token) int {
	switch t.Kind {
	case token.TokenEOF:
		return qkEOF
	case token.TokenIdent:
		return qkIdent
	case token.TokenInt:
		return qkInt
	case token.TokenParam:
		return qkParam
	case token.TokenBad, token.TokenFloat, token.TokenString, token.TokenBytes:
		return qkOther
	}
	if k, ok := qkSym[string(t.Kind)]; ok {
		return k
	}
	return qkOther
}

func qIsQueryWord(q int) bool {
	switch q {
	case qkAll, qkDistinct, qkFrom, qkWhere, qkGroup, qkBy, qkHaving, qkOrder, qkAsc, qkDesc, qkLimit, qkSemi:
		return true
	}
	return false
}

// the token classes of the expression rule that qScan tests individually (xkOp hides some of them in expr.go)
func qIsKind(t *token.Token, k string) bool { return string(t.Kind) == k }

// queryScan mirrors MF.Query.qScan.
func queryScan(prev int, prevTok *token.Token, qprev int, toks []token.Token) bool {
	var stack []bool
	inFrom := false
	prevIsAs := prevTok != nil && qIsKind(prevTok, "AS")
	for i := range toks {
		t := &toks[i]
		k := xkOf(t)
		q := qkOf(t)
		next := xkEOF
		if i+1 < len(toks) {
			next = xkOf(&toks[i+1])
		}
		if (k == xkOther && !qIsQueryWord(q)) || k == xkLitStart || k == xkSelect {
			return true
		}
		if k == xkIdent {
			if t.IsKeywordLike("SAFE_CAST") || t.IsKeywordLike("REPLACE_FIELDS") {
				return true
			}
			if next == xkLparen && !(prev == xkLbrack && len(stack) > 0 && !stack[len(stack)-1] && xIsPosKw(t)) {
				return true
			}
			if next == xkString && (t.IsKeywordLike("DATE") || t.IsKeywordLike("TIMESTAMP") || t.IsKeywordLike("NUMERIC") || t.IsKeywordLike("JSON")) {
				return true
			}
		}
		if k == xkIdent && prevIsAs && len(stack) > 0 && xIsSimpleTypeName(t) && next != xkDot {
			return true
		}
		if k == xkComma && len(stack) > 0 && !stack[len(stack)-1] {
			return true
		}
		if k == xkComma && len(stack) == 0 && inFrom {
			return true
		}
		if qprev == qkFrom && (k == xkLparen || qIsKind(t, "UNNEST")) {
			return true
		}
		if k == xkAs && (qprev == qkSelect || qprev == qkAll || qprev == qkDistinct) {
			return true
		}
		if qIsKind(t, "CAST") && (qprev == qkLimit || prev == xkIdent) {
			return true
		}
		depth0 := len(stack) == 0
		switch k {
		case xkLparen:
			stack = append(stack, prev == xkIn || prev == xkIf)
		case xkLbrack:
			stack = append(stack, !xOperandEnd(prev))
		case xkRparen, xkRbrack:
			if len(stack) > 0 {
				stack = stack[:len(stack)-1]
			}
		}
		if depth0 {
			switch q {
			case qkFrom:
				inFrom = true
			case qkWhere, qkGroup, qkHaving, qkOrder, qkLimit:
				inFrom = false
			}
		}
		prev = k
		qprev = q
		prevIsAs = k == xkAs
	}
	return false
}

// queryOutside mirrors MF.Query.queryOutside.
func queryOutside(stmt bool, toks []token.Token) bool {
	if len(toks) == 0 {
		return true
	}
	if qkOf(&toks[0]) == qkSelect {
		return queryScan(xkSelect, &toks[0], qkSelect, toks[1:])
	}
	if stmt {
		return true
	}
	switch qkOf(&toks[0]) {
	case qkFrom, qkLparen, qkWith, qkHint:
		return true
	}
	return queryScan(xkEOF, nil, qkEOF, toks)
}

// ---------------------------------------------------------------- dump

type qDump struct{ ok bool }

func qAt(n ast.Node) string { return fmt.Sprintf("@%d:%d", int(n.Pos()), int(n.End())) }

func (d *qDump) expr(e ast.Expr) string {
	sx, ok := exprSexp(e)
	if !ok {
		d.ok = false
	}
	return "{" + sx + " " + exprPosNodes(e) + "}"
}

func qID(i *ast.Ident) string {
	return fmt.Sprintf("(id %d %d %s)", int(i.NamePos), int(i.NameEnd), hx(i.Name))
}

func (d *qDump) as(a *ast.AsAlias) string {
	if a == nil {
		return "-"
	}
	return "(as " + strconv.Itoa(int(a.As)) + " " + qID(a.Alias) + ")" + qAt(a)
}

func (d *qDump) item(i ast.SelectItem) string {
	switch i := i.(type) {
	case *ast.Star:
		if i.Except != nil || i.Replace != nil {
			d.ok = false
		}
		return fmt.Sprintf("(star %d)", int(i.Star)) + qAt(i)
	case *ast.DotStar:
		if i.Except != nil || i.Replace != nil {
			d.ok = false
		}
		return fmt.Sprintf("(dotstar %d ", int(i.Star)) + d.expr(i.Expr) + ")" + qAt(i)
	case *ast.Alias:
		return "(alias " + d.expr(i.Expr) + " " + d.as(i.As) + ")" + qAt(i)
	case *ast.ExprSelectItem:
		return "(item " + d.expr(i.Expr) + ")" + qAt(i)
	}
	d.ok = false
	return fmt.Sprintf("(?%T)", i)
}

func (d *qDump) table(t ast.TableExpr) string {
	switch t := t.(type) {
	case *ast.TableName:
		if t.Hint != nil || t.Sample != nil {
			d.ok = false
		}
		return "(table " + qID(t.Table) + " " + d.as(t.As) + ")" + qAt(t)
	case *ast.PathTableExpr:
		if t.Hint != nil || t.Sample != nil || t.WithOffset != nil {
			d.ok = false
		}
		var sb strings.Builder
		sb.WriteString("(pathtable (path")
		for _, id := range t.Path.Idents {
			sb.WriteString(" " + qID(id))
		}
		sb.WriteString(")" + qAt(t.Path) + " " + d.as(t.As) + ")" + qAt(t))
		return sb.String()
	}
	d.ok = false
	return fmt.Sprintf("(?%T)", t)
}

func (d *qDump) intv(v ast.IntValue) string {
	switch v := v.(type) {
	case *ast.Param:
		return fmt.Sprintf("(param %d %s)", int(v.Atmark), hx(v.Name)) + qAt(v)
	case *ast.IntLiteral:
		return fmt.Sprintf("(int %d %d %d %s)", int(v.ValuePos), int(v.ValueEnd), v.Base, hx(v.Value)) + qAt(v)
	}
	d.ok = false
	return fmt.Sprintf("(?%T)", v)
}

func (d *qDump) sel(s *ast.Select) string {
	var sb strings.Builder
	aod := "-"
	if s.AllOrDistinct != "" {
		aod = string(s.AllOrDistinct)
	}
	if s.As != nil {
		d.ok = false
	}
	fmt.Fprintf(&sb, "(select %d %s [", int(s.Select), aod)
	for i, it := range s.Results {
		if i > 0 {
			sb.WriteString(" ")
		}
		sb.WriteString(d.item(it))
	}
	sb.WriteString("] ")
	if s.From != nil {
		fmt.Fprintf(&sb, "(from %d %s)%s", int(s.From.From), d.table(s.From.Source), qAt(s.From))
	} else {
		sb.WriteString("-")
	}
	sb.WriteString(" ")
	if s.Where != nil {
		fmt.Fprintf(&sb, "(where %d %s)%s", int(s.Where.Where), d.expr(s.Where.Expr), qAt(s.Where))
	} else {
		sb.WriteString("-")
	}
	sb.WriteString(" ")
	if s.GroupBy != nil {
		fmt.Fprintf(&sb, "(groupby %d", int(s.GroupBy.Group))
		for _, e := range s.GroupBy.Exprs {
			sb.WriteString(" " + d.expr(e))
		}
		sb.WriteString(")" + qAt(s.GroupBy))
	} else {
		sb.WriteString("-")
	}
	sb.WriteString(" ")
	if s.Having != nil {
		fmt.Fprintf(&sb, "(having %d %s)%s", int(s.Having.Having), d.expr(s.Having.Expr), qAt(s.Having))
	} else {
		sb.WriteString("-")
	}
	sb.WriteString(")" + qAt(s))
	return sb.String()
}

func (d *qDump) limit(l *ast.Limit) string {
	var sb strings.Builder
	fmt.Fprintf(&sb, "(limit %d %s ", int(l.Limit), d.intv(l.Count))
	if l.Offset != nil {
		fmt.Fprintf(&sb, "(offset %d %s)%s", int(l.Offset.Offset), d.intv(l.Offset.Value), qAt(l.Offset))
	} else {
		sb.WriteString("-")
	}
	sb.WriteString(")" + qAt(l))
	return sb.String()
}

func (d *qDump) qe(q ast.QueryExpr) string {
	switch q := q.(type) {
	case *ast.Select:
		return d.sel(q)
	case *ast.Query:
		s, ok := q.Query.(*ast.Select)
		if !ok || q.With != nil || q.ForUpdate != nil || len(q.PipeOperators) > 0 {
			d.ok = false
			return fmt.Sprintf("(?query %T)", q.Query)
		}
		var sb strings.Builder
		sb.WriteString("(query " + d.sel(s) + " ")
		if q.OrderBy != nil {
			fmt.Fprintf(&sb, "(orderby %d", int(q.OrderBy.Order))
			for _, it := range q.OrderBy.Items {
				if it.Collate != nil {
					d.ok = false
				}
				dir := "-"
				if it.Dir != "" {
					dir = string(it.Dir)
				}
				fmt.Fprintf(&sb, " (ob %d %s %s)%s", int(it.DirPos), d.expr(it.Expr), dir, qAt(it))
			}
			sb.WriteString(")" + qAt(q.OrderBy))
		} else {
			sb.WriteString("-")
		}
		sb.WriteString(" ")
		if q.Limit != nil {
			sb.WriteString(d.limit(q.Limit))
		} else {
			sb.WriteString("-")
		}
		sb.WriteString(")" + qAt(q))
		return sb.String()
	}
	d.ok = false
	return fmt.Sprintf("(?%T)", q)
}

func queryParse(stmt bool, s string) (q *ast.QueryStatement, err error, crashed any, other bool) {
	defer func() {
		if r := recover(); r != nil {
			crashed = r
		}
	}()
	if stmt {
		st, e := memefish.ParseStatement("", s)
		qs, ok := st.(*ast.QueryStatement)
		return qs, e, nil, !ok
	}
	q, err = memefish.ParseQuery("", s)
	return q, err, nil, false
}

func queryRun(stmt bool, s string) (out string) {
	defer func() {
		if r := recover(); r != nil {
			out = fmt.Sprintf("CRASH %v", r)
		}
	}()
	toks, err, crashed := exprLexAll(s)
	if crashed != nil {
		return "CRASH"
	}
	if err != nil {
		return "ERR"
	}
	if queryOutside(stmt, toks) {
		return "OUTSIDE"
	}
	q, err, crashed, other := queryParse(stmt, s)
	if crashed != nil {
		return fmt.Sprintf("CRASH %v", crashed)
	}
	if err != nil {
		return "ERR"
	}
	if other || q == nil {
		return "OUTSIDE-AST not a QueryStatement"
	}
	d := &qDump{ok: true}
	if q.Hint != nil {
		d.ok = false
	}
	sx := "(stmt " + d.qe(q.Query) + ")" + qAt(q)
	if !d.ok {
		return "OUTSIDE-AST " + sx
	}
	return "OK " + sx + " " + hx(q.SQL()) + " " + strconv.Itoa(int(q.Pos())) + " " + strconv.Itoa(int(q.End()))
}

func queryServe(f []string) string {
	if len(f) != 3 || (f[1] != "Q" && f[1] != "S") {
		return "BADREQ"
	}
	b, ok := unhex(f[2])
	if !ok {
		return "BADREQ"
	}
	return queryRun(f[1] == "S", string(b))
}

// ---------------------------------------------------------------- generator

var qNames = []string{"a", "b", "t", "x1", "offset", "limit_", "replace", "value", "Date", "`select`", "`from`", "ordinal", "safe_cast1",
	"desc_", "`a b`", "OFFSET", "except_", "key", "u", "all_", "row", "`limit`", "`OFFSET`", "Replace"}

var qExprs = []string{"1", "a", "a.b", "a + 1", "(a)", "((a + b) * 2)", "NOT a", "a AND b OR c", "a IS NULL", "a IN (1, 2)", "x BETWEEN 1 AND 2",
	"-1", "'s'", "@p", "a[0]", "a[OFFSET(1)]", "a[offset]", "CASE WHEN a THEN 1 ELSE 2 END", "IF(a, b, c)", "[1, 2]", "CAST(a AS t.u)",
	"a.b.c", "offset", "a = b", "a < b + 1", "TRUE", "NULL", "1.5", "b'x'", "a || b", "t.offset", "(a, b)", "f(x)", "a LIKE 'x'", "~a", "a.`b c`", "1 + 2 * 3"}

func qPick(r *rng, xs []string) string { return xs[r.intn(len(xs))] }

// qGenQuery: the token list of a mostly valid query of the fragment
func qGenQuery(r *rng) []string {
	var ts []string
	add := func(s ...string) { ts = append(ts, s...) }
	expr := func() {
		add(strings.Split(qPick(r, qExprs), " ")...)
	}
	kw := func(s string) string {
		if r.intn(5) == 0 {
			return strings.ToLower(s)
		}
		return s
	}
	add(kw("SELECT"))
	switch r.intn(6) {
	case 0:
		add(kw("ALL"))
	case 1:
		add(kw("DISTINCT"))
	}
	n := 1 + r.intn(3)
	for i := 0; i < n; i++ {
		if i > 0 {
			add(",")
		}
		switch r.intn(8) {
		case 0:
			add("*")
		case 1:
			expr()
			add(".", "*")
		case 2, 3:
			expr()
			add(kw("AS"), qPick(r, qNames))
		case 4:
			expr()
			add(qPick(r, qNames))
		default:
			expr()
		}
	}
	if r.intn(6) == 0 {
		add(",")
	}
	if r.intn(4) != 0 {
		add(kw("FROM"), qPick(r, qNames))
		for r.intn(3) == 0 {
			add(".", qPick(r, qNames))
		}
		switch r.intn(4) {
		case 0:
			add(kw("AS"), qPick(r, qNames))
		case 1:
			add(qPick(r, qNames))
		}
	}
	if r.intn(3) == 0 {
		add(kw("WHERE"))
		expr()
	}
	if r.intn(4) == 0 {
		add(kw("GROUP"), kw("BY"))
		expr()
		for r.intn(3) == 0 {
			add(",")
			expr()
		}
	}
	if r.intn(5) == 0 {
		add(kw("HAVING"))
		expr()
	}
	if r.intn(3) == 0 {
		add(kw("ORDER"), kw("BY"))
		for {
			expr()
			switch r.intn(4) {
			case 0:
				add(kw("ASC"))
			case 1:
				add(kw("DESC"))
			}
			if r.intn(3) != 0 {
				break
			}
			add(",")
		}
	}
	if r.intn(3) == 0 {
		add(kw("LIMIT"))
		add(qPick(r, []string{"1", "10", "@n", "0x1F", "a", "1.5", "CAST(1 AS INT64)", "08", "0190", "007", "0XaB", "9223372036854775808"}))
		if r.intn(2) == 0 {
			add(qPick(r, []string{"OFFSET", "offset", "Offset", "`OFFSET`"}))
			add(qPick(r, []string{"2", "@m", "b", "-1", "09", "00", "0x0"}))
		}
	}
	return ts
}

var qSoup = []string{"SELECT", "FROM", "WHERE", "GROUP", "BY", "HAVING", "ORDER", "LIMIT", "OFFSET", "AS", "ALL", "DISTINCT", "ASC", "DESC",
	"*", ".", ",", "(", ")", ";", "a", "b", "t", "1", "@p", "+", "=", "AND", "offset", "replace", "x", "UNION", "JOIN", "EXCEPT", "@", "WITH",
	"TABLESAMPLE", "COLLATE", "'s'", "IN", "NOT", "[", "]", "FOR", "UNNEST", "CAST", "INT64"}

var queryCases = []string{
	"SELECT 1", "select 1", "SELECT * FROM t", "SELECT a b", "SELECT a AS b", "SELECT a FROM t u", "SELECT a FROM t AS u",
	"SELECT a, FROM t", "SELECT a,", "SELECT a, b,", "SELECT a,;", "SELECT a,)", "SELECT a, WHERE b", "SELECT a, LIMIT 1",
	"SELECT t.* FROM t", "SELECT a.b.* FROM t", "SELECT 1.* FROM t", "SELECT 1 .* FROM t", "SELECT (1).* FROM t", "SELECT a + b.* FROM t",
	"SELECT * REPLACE", "SELECT * replace (a AS b)", "SELECT * EXCEPT (a)", "SELECT * EXCEPT ALL SELECT 1", "SELECT * a",
	"SELECT a.* b", "SELECT a b.*", "SELECT a b c", "SELECT a AS", "SELECT a AS 1", "SELECT AS STRUCT 1", "SELECT AS VALUE a",
	"SELECT ALL a", "SELECT DISTINCT a, b", "SELECT ALL DISTINCT a", "SELECT DISTINCT", "SELECT", "", "a", "1", ";", "SELECT ;",
	"SELECT a FROM", "SELECT a FROM 1", "SELECT a FROM t.u", "SELECT a FROM t.u.v w", "SELECT a FROM t.", "SELECT a FROM t.*",
	"SELECT a FROM t, u", "SELECT a FROM t JOIN u ON x", "SELECT a FROM (SELECT 1)", "SELECT a FROM UNNEST(x)", "SELECT a FROM t@{x=1}",
	"SELECT a FROM f(x)", "SELECT a FROM t TABLESAMPLE BERNOULLI (1 PERCENT)", "SELECT a FROM t.u WITH OFFSET",
	"SELECT a FROM t WHERE", "SELECT a WHERE b", "SELECT a WHERE b GROUP BY c HAVING d", "SELECT a GROUP c", "SELECT a GROUP BY",
	"SELECT a GROUP BY b, c", "SELECT a GROUP BY b,", "SELECT a HAVING b", "SELECT a HAVING b WHERE c", "SELECT a WHERE b WHERE c",
	"SELECT a ORDER BY b", "SELECT a ORDER BY b ASC, c DESC, d", "SELECT a ORDER b", "SELECT a ORDER BY", "SELECT a ORDER BY b COLLATE 'x'",
	"SELECT a ORDER BY b ASC DESC", "SELECT a ORDER BY b LIMIT 1", "SELECT a LIMIT 1 ORDER BY b", "SELECT a LIMIT 1", "SELECT a LIMIT @p",
	"SELECT a LIMIT 1 OFFSET 2", "SELECT a LIMIT 1 offset @q", "SELECT a LIMIT 1 `offset` 2", "SELECT a LIMIT 1 OFFSET", "SELECT a LIMIT b",
	"SELECT a LIMIT CAST(1 AS INT64)", "SELECT a LIMIT 1 OFFSET CAST(@p AS INT64)", "SELECT a LIMIT -1", "SELECT a LIMIT 1.5", "SELECT a LIMIT 0x10 OFFSET 0X2", "SELECT a LIMIT 08", "SELECT a LIMIT 10 OFFSET 09", "SELECT a LIMIT 0019 OFFSET 00",
	"SELECT a offset", "SELECT a limit", "SELECT a FROM offset offset", "SELECT offset FROM t LIMIT 1 OFFSET 1", "SELECT a FROM t offset LIMIT 1",
	"SELECT a FOR UPDATE", "SELECT a LIMIT 1 FOR UPDATE", "SELECT a |> WHERE b", "SELECT a UNION ALL SELECT b", "(SELECT a)", "FROM t", "WITH x AS (SELECT 1) SELECT 2",
	"@{a=1} SELECT 1", "SELECT 1; SELECT 2", "SELECT 1;", "SELECT (SELECT 1)", "SELECT a IN (SELECT 1)", "SELECT EXISTS(SELECT 1)", "SELECT ARRAY(SELECT 1)",
	"SELECT a /*c*/ , -- x\n b", "SELECT\ta\nFROM\tt", "SELECT `a` AS `b c` FROM `t`.`u` AS `select`", "SELECT a AS from", "SELECT a from",
	"SELECT a AS INT64", "SELECT CAST(a AS t) AS date", "SELECT a date", "SELECT date 'x'", "SELECT a 'x'", "SELECT 1 2", "SELECT a.1", "SELECT a . b",
	"SELECT a, b c, d AS e, f.*, * FROM t", "SELECT a[0].*", "SELECT a AND b c", "SELECT NOT a b", "SELECT a IS NULL b", "SELECT a b WHERE c", "SELECT * , * ",
	"SELECT a ASC", "SELECT a BY", "SELECT a, , b", "SELECT , a", "SELECT a FROM t GROUP BY 1 ORDER BY 1 LIMIT 1", "INSERT INTO t (a) VALUES (1)", "CREATE TABLE t (a INT64) PRIMARY KEY (a)",
	"SELECT a FROM t AS", "SELECT a FROM t AS 1", "SELECT a FROM t u v", "SELECT a FROM t.u AS v WHERE w", "SELECT a FROM `t` `u`", "SELECT replace", "SELECT * , replace",
	"SELECT a ORDER BY b, ", "SELECT a ORDER BY b DESC, c LIMIT 2 OFFSET 3", "SELECT a LIMIT 1 2", "SELECT a LIMIT 1 OFFSET 2 3", "SELECT a LIMIT 1 OFFSET 2 OFFSET 3",
}

func genQuery(w *bufio.Writer, tier string, r *rng) {
	seen := map[string]bool{}
	emit := func(s string) {
		if seen[s] {
			return
		}
		seen[s] = true
		fmt.Fprintf(w, "QUERY Q %s\n", hx(s))
		fmt.Fprintf(w, "QUERY S %s\n", hx(s))
	}
	for _, s := range queryCases {
		emit(s)
	}
	nvalid, nmut, nsoup := 32000, 22000, 6000 // ~120 k requests: the Lean driver needs ~45 s for them
	if tier == "thorough" {
		nvalid, nmut, nsoup = 600000, 400000, 120000
	}
	join := func(ts []string) string {
		// glue "." to its neighbours now and then (a.b, t.*), otherwise single blanks
		var sb strings.Builder
		for i, t := range ts {
			if i > 0 && !(r.intn(2) == 0 && (t == "." || ts[i-1] == "." || t == ",")) {
				sb.WriteByte(' ')
			}
			sb.WriteString(t)
		}
		return sb.String()
	}
	var pool [][]string
	for i := 0; i < nvalid; i++ {
		ts := qGenQuery(r)
		if len(pool) < 20000 {
			pool = append(pool, ts)
		}
		emit(join(ts))
	}
	for i := 0; i < nmut; i++ {
		src := pool[r.intn(len(pool))]
		ts := append([]string{}, src...)
		j := r.intn(len(ts))
		switch r.intn(5) {
		case 0:
			ts = append(ts[:j], ts[j+1:]...)
		case 1:
			ts = append(ts[:j+1], ts[j:]...)
		case 2:
			ts[j] = qSoup[r.intn(len(qSoup))]
		case 3:
			k := r.intn(len(ts))
			ts[j], ts[k] = ts[k], ts[j]
		case 4:
			ts = append(ts[:j+1], append([]string{qSoup[r.intn(len(qSoup))]}, ts[j+1:]...)...)
		}
		emit(join(ts))
	}
	for i := 0; i < nsoup; i++ {
		n := 1 + r.intn(8)
		parts := []string{"SELECT"}
		if r.intn(8) == 0 {
			parts = nil
		}
		for j := 0; j < n; j++ {
			parts = append(parts, qSoup[r.intn(len(qSoup))])
		}
		emit(strings.Join(parts, " "))
	}
}
