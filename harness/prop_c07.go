package main

// C07 — operator precedence and associativity follow the GoogleSQL table: the property's predicate evaluated on
// the IMPLEMENTATION (memefish.ParseExpr and SQL()), independent of the Lean model.
//
// For every abstract tree t of the generator (exprgen.go; printing by the table, not by SQL()):
//   (G) ParseExpr(minimal text) and ParseExpr(full text) succeed, and erasing ParenExpr from either result gives t
//       (modulo the parser's two normalisations: a sign in front of an unsigned numeric literal is part of the
//       literal; `a.b` chains of identifiers are a Path);
//   (P) the number of ParenExpr nodes is the number of parenthesis pairs the printer wrote around operands, and every
//       ParenExpr has "(" at Lparen, ")" at Rparen and the tokens strictly between them are the tokens of its operand;
//   (Y) the token sequence of the returned tree (its yield) is the token sequence of the input, and the tree satisfies
//       the table constraint at every node (operand levels; ParenExpr is an atom);
//   (S) SQL() of either result re-lexes to the token sequence of the text it was parsed from: no parenthesis added,
//       none missing;
//   (N) the comparison family does not associate: `a op1 b op2 c` without parentheses is rejected.
// Replay / hinted inputs (plain texts): (P), (Y), (S) — which determine the grouping, the table's grammar being
// unambiguous.

import (
	"fmt"
	"strings"

	"github.com/cloudspannerecosystem/memefish/ast"
)

func init() { propTable["C07"] = propC07 }

// astLevel: row of the outermost operator in the GoogleSQL table (0 = atom).
func astLevel(n ast.Node) int {
	switch n := n.(type) {
	case *ast.IntLiteral:
		if len(n.Value) > 0 && (n.Value[0] == '+' || n.Value[0] == '-') {
			return 2
		}
		return 0
	case *ast.FloatLiteral:
		if len(n.Value) > 0 && (n.Value[0] == '+' || n.Value[0] == '-') {
			return 2
		}
		return 0
	case *ast.Path, *ast.SelectorExpr, *ast.IndexExpr:
		return 1
	case *ast.UnaryExpr:
		if n.Op == ast.OpNot {
			return 10
		}
		return 2
	case *ast.BinaryExpr:
		switch n.Op {
		case ast.OpMul, ast.OpDiv, ast.OpConcat:
			return 3
		case ast.OpAdd, ast.OpSub:
			return 4
		case ast.OpBitLeftShift, ast.OpBitRightShift:
			return 5
		case ast.OpBitAnd:
			return 6
		case ast.OpBitXor:
			return 7
		case ast.OpBitOr:
			return 8
		case ast.OpAnd:
			return 11
		case ast.OpOr:
			return 12
		}
		return 9
	case *ast.InExpr, *ast.IsNullExpr, *ast.IsBoolExpr, *ast.BetweenExpr:
		return 9
	}
	return 0
}

// astTableOK: "" when every operand of every node sits where the table allows it without parentheses.
func astTableOK(n ast.Node) string {
	bad := ""
	chk := func(what string, c ast.Node, ok bool) {
		if !ok && bad == "" {
			bad = fmt.Sprintf("%s operand of level %d under %T of level %d", what, astLevel(c), n, astLevel(n))
		}
	}
	rec := func(cs ...ast.Node) {
		for _, c := range cs {
			if d := astTableOK(c); d != "" && bad == "" {
				bad = d
			}
		}
	}
	switch n := n.(type) {
	case *ast.ParenExpr:
		rec(n.Expr)
	case *ast.UnaryExpr:
		chk("prefix", n.Expr, astLevel(n.Expr) <= astLevel(n))
		rec(n.Expr)
	case *ast.BinaryExpr:
		l := astLevel(n)
		if l == 9 {
			chk("left", n.Left, astLevel(n.Left) < 9)
		} else {
			chk("left", n.Left, astLevel(n.Left) <= l)
		}
		chk("right", n.Right, astLevel(n.Right) < l)
		rec(n.Left, n.Right)
	case *ast.IsNullExpr:
		chk("left", n.Left, astLevel(n.Left) < 9)
		rec(n.Left)
	case *ast.IsBoolExpr:
		chk("left", n.Left, astLevel(n.Left) < 9)
		rec(n.Left)
	case *ast.BetweenExpr:
		chk("left", n.Left, astLevel(n.Left) < 9)
		chk("lower bound", n.RightStart, astLevel(n.RightStart) < 9)
		chk("upper bound", n.RightEnd, astLevel(n.RightEnd) < 9)
		rec(n.Left, n.RightStart, n.RightEnd)
	case *ast.InExpr:
		chk("left", n.Left, astLevel(n.Left) < 9)
		rec(n.Left)
		switch c := n.Right.(type) {
		case *ast.ValuesInCondition:
			for _, x := range c.Exprs {
				rec(x)
			}
		case *ast.UnnestInCondition:
			rec(c.Expr)
		}
	case *ast.SelectorExpr:
		chk("postfix", n.Expr, astLevel(n.Expr) <= 1)
		rec(n.Expr)
	case *ast.IndexExpr:
		chk("postfix", n.Expr, astLevel(n.Expr) <= 1)
		rec(n.Expr)
		switch ix := n.Index.(type) {
		case *ast.ExprArg:
			rec(ix.Expr)
		case *ast.SubscriptSpecifierKeyword:
			rec(ix.Expr)
		}
	case *ast.CaseExpr: // an atom whose parts are delimited by keywords: any level anywhere
		if n.Expr != nil {
			rec(n.Expr)
		}
		for _, w := range n.Whens {
			rec(w.Cond, w.Then)
		}
		if n.Else != nil {
			rec(n.Else.Expr)
		}
	case *ast.IfExpr:
		rec(n.Expr, n.TrueResult, n.ElseResult)
	case *ast.ArrayLiteral:
		for _, x := range n.Values {
			rec(x)
		}
	case *ast.CastExpr:
		rec(n.Expr)
	}
	return bad
}

// astCanon: canonical dump of the AST with ParenExpr erased, in the notation of xnode.canon; parens counts them.
func astCanon(n ast.Node, parens *int) string {
	c := func(m ast.Node) string { return astCanon(m, parens) }
	nt := func(b bool, yes, no string) string {
		if b {
			return yes
		}
		return no
	}
	switch n := n.(type) {
	case *ast.ParenExpr:
		*parens++
		return c(n.Expr)
	case *ast.NullLiteral:
		return "NULL"
	case *ast.BoolLiteral:
		return nt(n.Value, "TRUE", "FALSE")
	case *ast.IntLiteral:
		return n.Value
	case *ast.FloatLiteral:
		return n.Value
	case *ast.StringLiteral:
		return "'" + n.Value + "'"
	case *ast.Param:
		return "@" + n.Name
	case *ast.Ident:
		return n.Name
	case *ast.Path:
		s := n.Idents[0].Name
		for _, id := range n.Idents[1:] {
			s = "(sel " + s + ")"
			_ = id
		}
		return s
	case *ast.UnaryExpr:
		return "(un:" + string(n.Op) + " " + c(n.Expr) + ")"
	case *ast.BinaryExpr:
		return "(bin:" + strings.ReplaceAll(string(n.Op), " ", "_") + " " + c(n.Left) + " " + c(n.Right) + ")"
	case *ast.IsNullExpr:
		return "(is:" + nt(n.Not, "NOT_", "") + "NULL " + c(n.Left) + ")"
	case *ast.IsBoolExpr:
		return "(is:" + nt(n.Not, "NOT_", "") + nt(n.Right, "TRUE", "FALSE") + " " + c(n.Left) + ")"
	case *ast.BetweenExpr:
		return "(" + nt(n.Not, "not", "") + "between " + c(n.Left) + " " + c(n.RightStart) + " " + c(n.RightEnd) + ")"
	case *ast.InExpr:
		switch r := n.Right.(type) {
		case *ast.ValuesInCondition:
			s := fmt.Sprintf("(%sin%d %s", nt(n.Not, "not", ""), len(r.Exprs), c(n.Left))
			for _, x := range r.Exprs {
				s += " " + c(x)
			}
			return s + ")"
		case *ast.UnnestInCondition:
			return "(" + nt(n.Not, "not", "") + "inunnest " + c(n.Left) + " " + c(r.Expr) + ")"
		}
	case *ast.SelectorExpr:
		return "(sel " + c(n.Expr) + ")"
	case *ast.IndexExpr:
		switch ix := n.Index.(type) {
		case *ast.ExprArg:
			return "(idx " + c(n.Expr) + " " + c(ix.Expr) + ")"
		case *ast.SubscriptSpecifierKeyword:
			return "(idx:" + string(ix.Keyword) + " " + c(n.Expr) + " " + c(ix.Expr) + ")"
		}
	case *ast.CaseExpr:
		id, kids := "case:", ""
		if n.Expr != nil {
			id += "o"
			kids += " " + c(n.Expr)
		}
		for _, w := range n.Whens {
			id += "w"
			kids += " " + c(w.Cond) + " " + c(w.Then)
		}
		if n.Else != nil {
			id += "e"
			kids += " " + c(n.Else.Expr)
		}
		return "(" + id + kids + ")"
	case *ast.IfExpr:
		return "(if " + c(n.Expr) + " " + c(n.TrueResult) + " " + c(n.ElseResult) + ")"
	case *ast.CastExpr:
		return "(cast:" + n.Type.SQL() + " " + c(n.Expr) + ")"
	case *ast.ArrayLiteral:
		s := fmt.Sprintf("(arr%d", len(n.Values))
		for _, x := range n.Values {
			s += " " + c(x)
		}
		return s + ")"
	}
	return fmt.Sprintf("?%T", n)
}

// countWraps: parenthesis pairs the printer writes around operands.
func (n *xnode) countWraps(full bool) int {
	if n.op == nil {
		return 0
	}
	c := 0
	for i, k := range n.kids {
		if needParen(n.op, i, k) || (full && k.op != nil) {
			c++
		}
		c += k.countWraps(full)
	}
	return c
}

// c07ParenCheck: every ParenExpr sits on a "(" ")" pair whose inner tokens are the tokens of its operand.
func c07ParenCheck(src string, e ast.Node) string {
	bad := ""
	ast.Inspect(e, func(n ast.Node) bool {
		p, ok := n.(*ast.ParenExpr)
		if !ok || bad != "" {
			return bad == ""
		}
		lp, rp := int(p.Lparen), int(p.Rparen)
		if lp < 0 || rp >= len(src) || lp >= rp || src[lp] != '(' || src[rp] != ')' {
			bad = fmt.Sprintf("ParenExpr at %d..%d is not on a parenthesis pair", lp, rp)
			return false
		}
		inner, ok := exprLexYield(src[lp+1 : rp])
		want := strings.Join(exprYield(p.Expr), " ") + " <eof>:-"
		if !ok || c07Norm(inner) != c07Norm(want) {
			bad = fmt.Sprintf("ParenExpr at %d..%d does not wrap exactly its operand: between the parentheses %q, operand %q", lp, rp, inner, want)
			return false
		}
		return true
	})
	return bad
}

// c07TextCheck: the tree-independent clauses (P), (Y), (S) on one accepted text. "" = holds.
func c07TextCheck(src string, e ast.Expr) string {
	if _, ok := exprSexp(e); !ok {
		return "" // outside the fragment
	}
	in, ok := exprLexYield(src)
	if !ok {
		return "input does not lex although ParseExpr accepted it"
	}
	if y := strings.Join(exprYield(e), " ") + " <eof>:-"; c07Norm(y) != c07Norm(in) {
		return fmt.Sprintf("yield of the tree %q is not the token sequence of the input %q", y, in)
	}
	if d := astTableOK(e); d != "" {
		return "grouping is not the table's: " + d
	}
	if d := c07ParenCheck(src, e); d != "" {
		return d
	}
	sql := e.SQL()
	out, ok := exprLexYield(sql)
	if !ok {
		return fmt.Sprintf("SQL() = %q does not lex", sql)
	}
	if c07Norm(out) != c07Norm(in) {
		return fmt.Sprintf("SQL() = %q re-lexes to %q, the input to %q (a parenthesis added or lost)", sql, out, in)
	}
	return ""
}

// c07Norm: a position keyword right after "[" and in front of "(" is compared in its canonical (upper-case) spelling —
// the one place where SQL() legitimately changes a token value (offset → OFFSET).  Without the "(" the word is a column
// name (a[offset]) and is compared as written.
func c07Norm(keys string) string {
	ks := strings.Split(keys, " ")
	for i := 1; i+1 < len(ks); i++ {
		if ks[i-1] == "[:-" && ks[i+1] == "(:-" && strings.HasPrefix(ks[i], "<ident>:") {
			if b, ok := unhex(strings.TrimPrefix(ks[i], "<ident>:")); ok {
				switch u := strings.ToUpper(string(b)); u {
				case "OFFSET", "ORDINAL", "SAFE_OFFSET", "SAFE_ORDINAL":
					ks[i] = "<ident>:" + hx(u)
				}
			}
		}
	}
	// a scalar type name right after AS (CAST(x AS int64)) is compared in its canonical spelling too, unless a "." follows
	// (then it is the first component of a named type)
	for i := 1; i < len(ks); i++ {
		if ks[i-1] == "AS:-" && strings.HasPrefix(ks[i], "<ident>:") && !(i+1 < len(ks) && ks[i+1] == ".:-") {
			if b, ok := unhex(strings.TrimPrefix(ks[i], "<ident>:")); ok {
				u := strings.ToUpper(string(b))
				for _, n := range xSimpleTypes {
					if u == n {
						ks[i] = "<ident>:" + hx(u)
					}
				}
			}
		}
	}
	return strings.Join(ks, " ")
}

func c07Tree(res *propResult, t *xnode) {
	want := t.canon()
	for _, full := range []bool{false, true} {
		src := t.text(full)
		mode := "minimal"
		if full {
			mode = "full"
		}
		e, err, crashed := exprParse(src)
		if crashed != nil {
			res.fail("c07:crash:"+src, src, "ParseExpr", fmt.Sprint("panic: ", crashed))
			continue
		}
		if err != nil {
			res.fail("c07:reject:"+src, src, "ParseExpr", fmt.Sprintf("%s printing of %s is rejected: %v", mode, want, err))
			continue
		}
		parens := 0
		got := astCanon(e, &parens)
		if got != want {
			res.fail("c07:group:"+src, src, "ParseExpr", fmt.Sprintf("%s printing of %s groups as %s", mode, want, got))
			continue
		}
		if w := t.countWraps(full); parens != w {
			res.fail("c07:parens:"+src, src, "ParseExpr", fmt.Sprintf("%d ParenExpr nodes for %d parenthesised operands", parens, w))
			continue
		}
		if d := c07TextCheck(src, e); d != "" {
			res.fail("c07:text:"+src, src, "ParseExpr/SQL", d)
		}
	}
}

// c07NonAssoc: `x op1 … op2 …` with two comparison-family operators and no parentheses must be rejected.
func c07NonAssoc(res *propResult) {
	var cmps []*xop
	for i := range xops {
		if xops[i].level == 9 {
			cmps = append(cmps, &xops[i])
		}
	}
	atom := func(s string) *xnode { return &xnode{atom: s} }
	mk := func(op *xop, first *xnode) *xnode {
		n := &xnode{op: op, kids: []*xnode{first}}
		for len(n.kids) < op.arity {
			n.kids = append(n.kids, atom([]string{"b", "1", "'x'"}[len(n.kids)%3]))
		}
		return n
	}
	for _, o1 := range cmps {
		for _, o2 := range cmps {
			inner := mk(o1, atom("a"))
			outer := mk(o2, inner)
			// print without the parentheses the table requires around `inner`
			toks := outer.toks(false)
			var flat []string
			depth, skipped := 0, false
			for i, tk := range toks {
				if i == 0 && tk == "(" {
					skipped = true
					continue
				}
				if skipped && depth == 0 && tk == ")" {
					skipped = false
					continue
				}
				if skipped {
					if tk == "(" {
						depth++
					} else if tk == ")" {
						depth--
					}
				}
				flat = append(flat, tk)
			}
			src := strings.Join(flat, " ")
			res.count("nonassoc_pairs")
			res.eval("na:"+src, true, func() any { return map[string]any{"input": src} })
			e, err, crashed := exprParse(src)
			if crashed != nil {
				res.fail("c07:crash:"+src, src, "ParseExpr", fmt.Sprint("panic: ", crashed))
			} else if err == nil {
				sx, _ := exprSexp(e)
				res.fail("c07:assoc:"+src, src, "ParseExpr", "two comparison-family operators without parentheses are accepted as "+sx)
			}
		}
	}
}

func propC07(o *propOpts) *propResult {
	res := newResult("inputs: replay/hints; every abstract tree over the full operator set (21 binary spellings, 4 prefix, 14 postfix/ternary forms, 4 CASE shapes, IF, array literals with 1-3 elements and CAST to four named types as compound atoms) with up to 2 (quick) / 3 (thorough) operator occurrences and three atom rotations, every tree over one representative per precedence level and form with 3 / 4 occurrences, plain subscripts a[t] whose expression t has a column spelled offset / ORDINAL / safe_offset / Safe_Ordinal as its leftmost leaf (t with up to 1 / 2 occurrences over the full set and each word, 2 / 3 occurrences over the representative set), each printed minimally parenthesised by the GoogleSQL table and fully parenthesised; all ordered pairs of comparison-family operators without parentheses; non-trivial = at least 2 operator occurrences; distinct by printed text")
	if o.single != nil {
		b, _ := unhex(o.single.Input)
		src := string(b)
		e, err, crashed := exprParse(src)
		res.eval(src, true, func() any { return map[string]any{"input": src} })
		switch {
		case crashed != nil:
			res.fail(o.single.Key, src, "ParseExpr", fmt.Sprint("panic: ", crashed))
		case strings.HasPrefix(o.single.Key, "c07:assoc:") && err == nil:
			res.fail(o.single.Key, src, "ParseExpr", "two comparison-family operators without parentheses are accepted")
		case strings.HasPrefix(o.single.Key, "c07:reject:") && err != nil:
			res.fail(o.single.Key, src, "ParseExpr", fmt.Sprintf("rejected: %v", err))
		case err == nil:
			if d := c07TextCheck(src, e); d != "" {
				res.fail(o.single.Key, src, "ParseExpr/SQL", d)
			}
		}
		return res
	}
	for _, src := range hintInputs(o) {
		e, err, crashed := exprParse(src)
		res.count("hints")
		if crashed != nil {
			res.fail("c07:crash:"+src, src, "ParseExpr", fmt.Sprint("panic: ", crashed))
		} else if err == nil {
			if d := c07TextCheck(src, e); d != "" {
				res.fail("c07:text:"+src, src, "ParseExpr/SQL", d)
			}
		}
	}
	// the explicit cases of the EXPR channel that ParseExpr accepts: tree-independent clauses
	for _, src := range exprCases {
		e, err, crashed := exprParse(src)
		if crashed != nil {
			res.fail("c07:crash:"+src, src, "ParseExpr", fmt.Sprint("panic: ", crashed))
			continue
		}
		if err != nil {
			res.count("cases_rejected")
			continue
		}
		res.count("cases_accepted")
		res.eval("case:"+src, false, func() any { return map[string]any{"input": src} })
		if d := c07TextCheck(src, e); d != "" {
			res.fail("c07:text:"+src, src, "ParseExpr/SQL", d)
		}
	}
	exprTrees(o.tier, func(t *xnode) {
		n := t.nops()
		res.count(fmt.Sprintf("trees_ops_%d", n))
		res.eval(t.text(false), n >= 2, func() any {
			return map[string]any{"minimal": t.text(false), "full": t.text(true), "tree": t.canon()}
		})
		c07Tree(res, t)
	})
	c07NonAssoc(res)
	return res
}
