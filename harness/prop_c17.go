package main

import (
	"fmt"
	"strings"
	"sync"

	"github.com/cloudspannerecosystem/memefish"

	"github.com/cloudspannerecosystem/memefish/ast"
)

func init() {
	propTable["C17"] = propC17
	propTable["C18"] = propC18
}

// expected events of Walk by reflection over exported node-typed fields (independent of walk_internal.go)
func expectEvents(n ast.Node, path string, prune func(ast.Node) bool, out *[]string) {
	*out = append(*out, fmt.Sprintf("V|%s|%s", path, kindName(n)))
	if prune(n) {
		return
	}
	type fld struct {
		name  string
		many  bool
		one   ast.Node
		elems []ast.Node
	}
	var fs []fld
	for _, f := range nodeFields(n) {
		fs = append(fs, fld{f.name, f.many, f.one, f.elems})
	}
	for i := len(fs) - 1; i >= 0; i-- {
		*out = append(*out, fmt.Sprintf("F|%s|%s", path, fs[i].name))
	}
	for _, f := range fs {
		p := path + "." + f.name
		if f.many {
			*out = append(*out, fmt.Sprintf("M|%s|%d", p, len(f.elems)))
			for i := len(f.elems) - 1; i >= 0; i-- {
				*out = append(*out, fmt.Sprintf("I|%s|%d", p, i))
			}
			for i, c := range f.elems {
				expectEvents(c, fmt.Sprintf("%s[%d]", p, i), prune, out)
			}
		} else if f.one != nil {
			expectEvents(f.one, p, prune, out)
		}
	}
}

func c17Check(root ast.Node, pruneMod int) (nodes int, detail string) {
	prune := func(n ast.Node) bool { return pruneMod > 0 && len(kindName(n))%pruneMod == 0 }
	var want []string
	expectEvents(root, "", prune, &want)
	got, ok := walkEvents(root, pruneMod)
	if !ok {
		return 0, "" // C04's subject
	}
	w := strings.Join(want, " ")
	if got != w {
		return len(want), fmt.Sprintf("Walk events differ from the reflection-derived expectation (prune rule %d): %s", pruneMod, firstDiff(w, got))
	}
	// Inspect / Preorder visit the same nodes in the same order; Preorder stops when the consumer stops
	var pre []ast.Node
	for _, n := range allNodes(root) {
		pre = append(pre, n)
	}
	var ins []ast.Node
	ast.Inspect(root, func(n ast.Node) bool { ins = append(ins, n); return true })
	if len(ins) != len(pre) {
		return len(pre), fmt.Sprintf("Inspect visited %d nodes, reachable are %d", len(ins), len(pre))
	}
	for i := range pre {
		if ins[i] != pre[i] {
			return len(pre), fmt.Sprintf("Inspect order differs at %d: %s vs %s", i, kindName(ins[i]), kindName(pre[i]))
		}
	}
	stopAt := len(pre) / 2
	cnt := 0
	for n := range ast.Preorder(root) {
		if n != pre[cnt] {
			return len(pre), fmt.Sprintf("Preorder order differs at %d", cnt)
		}
		cnt++
		if cnt > stopAt {
			break
		}
	}
	if cnt != stopAt+1 {
		return len(pre), fmt.Sprintf("Preorder yielded %d nodes before the consumer stopped at %d", cnt, stopAt+1)
	}
	// ... and yields every node when the consumer does not stop
	cnt = 0
	for n := range ast.Preorder(root) {
		if cnt >= len(pre) || n != pre[cnt] {
			return len(pre), fmt.Sprintf("Preorder (full) differs at %d", cnt)
		}
		cnt++
	}
	if cnt != len(pre) {
		return len(pre), fmt.Sprintf("Preorder yielded %d nodes, reachable are %d", cnt, len(pre))
	}
	return len(pre), ""
}

// c17Many: the *Many variants over several roots visit the concatenation of the per-root pre-orders; PreorderMany stops with
// the consumer; WalkMany announces the roots through VisitMany and Index.
func c17Many(roots []ast.Node) (nodes int, detail string) {
	var pre []ast.Node
	for _, r := range roots {
		if isNilNode(r) {
			return 0, ""
		}
		pre = append(pre, allNodes(r)...)
	}
	var ins []ast.Node
	ast.InspectMany(roots, func(n ast.Node) bool { ins = append(ins, n); return true })
	if len(ins) != len(pre) {
		return len(pre), fmt.Sprintf("InspectMany visited %d nodes, reachable are %d", len(ins), len(pre))
	}
	for i := range pre {
		if ins[i] != pre[i] {
			return len(pre), fmt.Sprintf("InspectMany order differs at %d: %s vs %s", i, kindName(ins[i]), kindName(pre[i]))
		}
	}
	cnt := 0
	for n := range ast.PreorderMany(roots) {
		if cnt >= len(pre) || n != pre[cnt] {
			return len(pre), fmt.Sprintf("PreorderMany differs at %d", cnt)
		}
		cnt++
	}
	if cnt != len(pre) {
		return len(pre), fmt.Sprintf("PreorderMany yielded %d nodes, reachable are %d", cnt, len(pre))
	}
	stopAt := len(pre) / 2
	cnt = 0
	for range ast.PreorderMany(roots) {
		cnt++
		if cnt > stopAt {
			break
		}
	}
	if cnt != stopAt+1 {
		return len(pre), fmt.Sprintf("PreorderMany yielded %d nodes before the consumer stopped at %d", cnt, stopAt+1)
	}
	// WalkMany with a counting visitor that prunes nothing
	var wk []ast.Node
	ast.WalkMany(roots, &manyVisitor{&wk})
	if len(wk) != len(pre) {
		return len(pre), fmt.Sprintf("WalkMany visited %d nodes, reachable are %d", len(wk), len(pre))
	}
	for i := range pre {
		if wk[i] != pre[i] {
			return len(pre), fmt.Sprintf("WalkMany order differs at %d", i)
		}
	}
	return len(pre), ""
}

type manyVisitor struct{ seen *[]ast.Node }

func (v *manyVisitor) Visit(n ast.Node) ast.Visitor {
	*v.seen = append(*v.seen, n)
	return v
}
func (v *manyVisitor) VisitMany(ns []ast.Node) ast.Visitor { return v }
func (v *manyVisitor) Field(string) ast.Visitor            { return v }
func (v *manyVisitor) Index(int) ast.Visitor               { return v }

func propC17(o *propOpts) *propResult {
	res := newResult("inputs: as C04; for every returned tree: the event list of ast.Walk with a recording visitor (Visit/VisitMany/Field/Index, the visitor identified by its Field/Index path) under three pruning rules vs the expectation derived by reflection over exported node-typed fields in declaration order; Inspect and Preorder visit exactly the reachable nodes in pre-order; Preorder stops with the consumer and yields everything otherwise; WalkMany / InspectMany / PreorderMany over the returned roots and over a two-element list visit the concatenation of the per-root pre-orders; non-trivial = tree with at least 5 nodes; distinct by (entry,input)")
	parserInputs(o, func(e *entry, s string, origin string) {
		r := safeParse(e, s)
		if r.hung || r.panicked != nil {
			return
		}
		for _, root := range r.nodes {
			if isNilNode(root) {
				continue
			}
			for _, pm := range []int{0, 3, 5} {
				var n int
				var d string
				if p := safely(func() { n, d = c17Check(root, pm) }); p != nil {
					// a panic out of Walk / Inspect / Preorder (e.g. the runtime's "range function continued iteration after function
					// for loop body returned false" when Preorder yields again after the consumer stopped) is a failed traversal
					res.fail("panic:"+kindName(root)+":"+fmt.Sprint(pm), s, e.name, fmt.Sprintf("traversal panicked: %v", p))
					continue
				}
				res.eval(fmt.Sprintf("%s|%s|%d", e.name, s, pm), n >= 5, func() any { return map[string]any{"entry": e.name, "input": s, "nodes": n, "prune": pm} })
				if d != "" {
					res.fail("kind:"+kindName(root)+":"+fmt.Sprint(pm), s, e.name, d)
				}
			}
		}
		// the *Many variants: over the roots of this parse, and over a two-element list
		var roots []ast.Node
		for _, root := range r.nodes {
			if !isNilNode(root) {
				roots = append(roots, root)
			}
		}
		if len(roots) > 0 {
			for _, rs := range [][]ast.Node{roots, {roots[0], roots[len(roots)-1]}} {
				var d string
				if p := safely(func() { _, d = c17Many(rs) }); p != nil {
					res.fail("manypanic:"+kindName(roots[0]), s, e.name, fmt.Sprintf("traversal (*Many) panicked: %v", p))
				} else if d != "" {
					res.fail("many:"+kindName(roots[0]), s, e.name, d)
				}
			}
		}
		res.count(origin)
	})
	return res
}

// ---------------------------------------------------------------------------------------------
// C18: purity / determinism / re-entrancy

type obs struct {
	dump, sql, errs string
}

func observe(e *entry, s string) obs {
	r := safeParse(e, s)
	if r.hung {
		// a call that does not return is C03's finding; for C18 it is no observation (two runs cannot be compared)
		return obs{errs: "hung"}
	}
	if r.panicked != nil {
		return obs{errs: fmt.Sprint("panic: ", r.panicked)}
	}
	var o obs
	o.dump = dumpAll(r.nodes, true)
	o.sql, _ = sqlAll(r.nodes)
	if r.err != nil {
		o.errs = r.err.Error()
		if me, ok := r.err.(interface{ FullError() string }); ok {
			o.errs = me.FullError()
		}
	}
	return o
}

func propC18(o *propOpts) *propResult {
	res := newResult("cases: each input of the C04 distribution is parsed (tree with positions, SQL text, full error text observed) once alone, once again after all other inputs were parsed (sequential order independence), and once more concurrently with the others on 16 goroutines in a shuffled order (under -race when the check builds the race binary); observations must be identical; returned trees are re-dumped after later parses to detect shared mutable state; non-trivial = input with an error or at least 20 bytes; distinct by (entry,input)")
	type item struct {
		e *entry
		s string
	}
	var items []item
	parserInputs(o, func(e *entry, s string, origin string) {
		if len(items) < 6000 || o.tier == "thorough" {
			items = append(items, item{e, s})
		}
	})
	// every literal form and escape kind, so that each code path of the lexer runs concurrently with itself
	literalCases(func(s string) {
		if len(items) < 9000 {
			items = append(items, item{entryByName("ParseExpr"), s})
		}
	})
	first := make([]obs, len(items))
	kept := make([]callResult, len(items))
	keptDump := make([]string, len(items))
	for i, it := range items {
		first[i] = observe(it.e, it.s)
		if i%7 == 0 {
			kept[i] = safeParse(it.e, it.s)
			keptDump[i] = dumpAll(kept[i].nodes, true)
		}
	}
	// second sequential pass in reverse order
	for i := len(items) - 1; i >= 0; i-- {
		it := items[i]
		if got := observe(it.e, it.s); got != first[i] && got.errs != "hung" && first[i].errs != "hung" {
			res.fail("seq:"+it.e.name+":"+hx(it.s), it.s, it.e.name, "a repeated call after other calls gives a different result: "+firstDiff(first[i].dump+first[i].sql+first[i].errs, got.dump+got.sql+got.errs))
		}
	}
	// trees returned earlier are unchanged by later parses
	for i := range items {
		if i%7 == 0 && kept[i].nodes != nil {
			if d := dumpAll(kept[i].nodes, true); d != keptDump[i] {
				res.fail("shared:"+items[i].e.name+":"+hx(items[i].s), items[i].s, items[i].e.name, "a returned AST changed after later parses: "+firstDiff(keptDump[i], d))
			}
		}
	}
	// concurrent pass
	r := &rng{s: o.seed}
	perm := make([]int, len(items))
	for i := range perm {
		perm[i] = i
	}
	for i := len(perm) - 1; i > 0; i-- {
		j := r.intn(i + 1)
		perm[i], perm[j] = perm[j], perm[i]
	}
	got := make([]obs, len(items))
	var wg sync.WaitGroup
	const workers = 16
	for w := 0; w < workers; w++ {
		wg.Add(1)
		go func(w int) {
			defer wg.Done()
			for k := w; k < len(perm); k += workers {
				i := perm[k]
				got[i] = observe(items[i].e, items[i].s)
				// traversal and SQL() of a tree shared read-only between goroutines
				if i%7 == 0 && kept[i].nodes != nil {
					for _, n := range kept[i].nodes {
						if !isNilNode(n) {
							safely(func() { _ = n.SQL(); ast.Inspect(n, func(ast.Node) bool { return true }) })
						}
					}
				}
			}
		}(w)
	}
	wg.Wait()
	for i, it := range items {
		res.eval(it.e.name+"|"+it.s, first[i].errs != "" || len(it.s) >= 20, func() any { return map[string]any{"entry": it.e.name, "input": it.s} })
		if got[i] != first[i] && got[i].errs != "hung" && first[i].errs != "hung" {
			res.fail("conc:"+it.e.name+":"+hx(it.s), it.s, it.e.name, "a concurrent call gives a different result than the call alone: "+firstDiff(first[i].dump+first[i].sql+first[i].errs, got[i].dump+got[i].sql+got[i].errs))
		}
	}
	// order dependence through state that outlives a call (a pooled parser / lexer / file, a cached line table, a leftover look-ahead
	// flag): every "leaver" call (an input that stops early or fails at a particular kind of token, through every entry point
	// including SplitRawStatements and the Lexer) followed by every "sensitive" call (an input whose FIRST token lexes differently
	// in another lexer state) must give the result the sensitive call gives after a neutral, successful call
	type anyCall struct {
		name    string
		neutral string
		run     func(s string) string
	}
	var calls []anyCall
	for i := range entries {
		e := &entries[i]
		neutral := map[string]string{"ParseExpr": "1", "ParseType": "INT64", "ParseDDL": "DROP TABLE t", "ParseDDLs": "DROP TABLE t", "ParseDML": "DELETE FROM t WHERE TRUE", "ParseDMLs": "DELETE FROM t WHERE TRUE"}[e.name]
		if neutral == "" {
			neutral = "SELECT 1"
		}
		calls = append(calls, anyCall{e.name, neutral, func(s string) string { ob := observe(e, s); return ob.dump + "|" + ob.sql + "|" + ob.errs }})
	}
	calls = append(calls, anyCall{"SplitRawStatements", "SELECT 1", func(s string) string {
		var out string
		safely(func() {
			ps, err := memefish.SplitRawStatements("f.sql", s)
			out = fmt.Sprint(err)
			for _, p := range ps {
				out += fmt.Sprintf("|%d-%d:%s", p.Pos, p.End, p.Statement)
			}
		})
		return out
	}})
	calls = append(calls, anyCall{"Lexer", "SELECT 1", specRun})
	leavers := []string{"a b", "f(x) )", "1 ]", "@p 1", "a.", "a.'x", "SELECT t.'oops", "SELECT t.", "a . `", "x.\"abc", "(a).1a", "a[1].0x", "a\n\n\n\n\n\n\n\n\n\n\n\n\n\n\n\n\nb c", "1 +", "'abc", "/* x", "a.b.", "SELECT 1;", "SELECT 1; SELECT t."}
	sensitive := []string{".5", "  .25e1 * 2", "1a", "0x", "0x; SELECT 1", "select", "SELECT 1", "r'\\d+;\\d+' ; SELECT 2", "1", "e1", "NULL", "INT64", "`x`", "DELETE FROM t WHERE TRUE", "DROP TABLE t", "\n\n\n\n\n\n\n\n\n\n\n\n\n\n\n\n\nb c"}
	pairs := 0
	for bi := range calls {
		cb := &calls[bi]
		for _, b := range sensitive {
			cb.run(cb.neutral)
			ref := cb.run(b)
			for ai := range calls {
				ca := &calls[ai]
				for _, a := range leavers {
					ca.run(a)
					got := cb.run(b)
					pairs++
					if got != ref && !strings.Contains(got, "hung") && !strings.Contains(ref, "hung") {
						res.fail("order:"+ca.name+":"+hx(a)+":"+cb.name+":"+hx(b), b, cb.name, fmt.Sprintf("%s(%q) gives a different result after %s(%q) than after a successful call: %s", cb.name, b, ca.name, a, firstDiff(ref, got)))
					}
				}
			}
		}
	}
	res.Hist["order_pairs"] = pairs
	res.Hist["inputs"] = len(items)
	res.Hist["goroutines"] = workers
	return res
}
