package main

import (
	"bufio"
	"encoding/binary"
	"fmt"
	"unicode"
	"unicode/utf8"

	"github.com/cloudspannerecosystem/memefish"
	"github.com/cloudspannerecosystem/memefish/token"
)

func quoteRun(s string) string {
	qi := "CRASH"
	safely(func() { qi = hx(token.QuoteSQLIdent(s)) })
	return fmt.Sprintf("%s %s %s", hx(token.QuoteSQLString(s)), hx(token.QuoteSQLBytes([]byte(s))), qi)
}

// nonPrintable lists, as Go's unicode.IsPrint judges them, the runes of s that are not printable.
func nonPrintable(s string) string {
	var out []byte
	seen := map[rune]bool{}
	for _, r := range s {
		if !unicode.IsPrint(r) && !seen[r] {
			seen[r] = true
			var b [4]byte
			binary.BigEndian.PutUint32(b[:], uint32(r))
			out = append(out, b[:]...)
		}
	}
	return hx(string(out))
}

var quoteBytesAlpha = []byte{'a', '\'', '"', '`', '\\', '\n', '\r', '\t', 0, 0x7f, 0x80, 0xc3, 0xa9, 0xff, ' ', '?', 'x', '0', 'I', 'F'}

var quotePieces = []string{"a", "é", "€", "\U0001F600", "\ufffd", "\xff", "\x80", "\xc3", "\xe2\x82", "\xf0\x9f\x98", "\xc0\xaf", "\xed\xa0\x80",
	"\\", "'", "\"", "`", "\n", "\x00", "\x7f", "\u0085", "\u2028"}

func quoteInputs(tier string, r *rng, each func(string)) {
	// every 1- and 2-byte string
	for a := 0; a < 256; a++ {
		each(string([]byte{byte(a)}))
	}
	step := 1
	if tier != "thorough" {
		step = 3 // quick: every third second byte, plus the structured alphabet below
	}
	for a := 0; a < 256; a++ {
		for b := a % step; b < 256; b += step {
			each(string([]byte{byte(a), byte(b)}))
		}
	}
	enumStrings(quoteBytesAlpha, 3, func(b []byte) { each(string(b)) })
	// code points: all of them in thorough, a stride plus all boundaries in quick
	cpStep := 97
	if tier == "thorough" {
		cpStep = 1
	}
	for cp := 0; cp <= 0x10FFFF; cp += cpStep {
		if cp >= 0xD800 && cp <= 0xDFFF {
			continue
		}
		each(string(rune(cp)))
		if cpStep == 1 || cp%(97*13) == 0 {
			each("'" + string(rune(cp)) + "\"")
		}
	}
	for _, cp := range []int{0x7f, 0x80, 0xff, 0x100, 0x7ff, 0x800, 0xd7ff, 0xe000, 0xfffd, 0xffff, 0x10000, 0x10ffff, 0x85, 0xa0, 0xad, 0x2028, 0x2060} {
		each(string(rune(cp)))
		each("a" + string(rune(cp)) + "`")
	}
	for _, k := range token.Keywords {
		each(string(k))
		each(string(k) + "x")
	}
	for _, s := range []string{"if", "If", "select", "_a1", "1a", "a b", "a-b", "", "é", "a\x00", "\xff\xfe", "\xe2\x82", "\xed\xa0\x80", "\xf4\x90\x80\x80", "\xc0\xaf", "\xef\xbf\xbd"} {
		each(s)
	}
	// every sequence of up to 3 (quick) / 4 (thorough) PIECES: one representative per way a stretch of the value can matter to
	// the quoting loop and to the lexer's decoder — valid runes of each encoded length, the genuine replacement character, each
	// kind of invalid byte / truncated / overlong / surrogate sequence, the characters with escapes, delimiters, non-printables
	depth := 3
	if tier == "thorough" {
		depth = 4
	}
	var rec func(cur string, k int)
	rec = func(cur string, k int) {
		if k == 0 {
			return
		}
		for _, pc := range quotePieces {
			each(cur + pc)
			rec(cur+pc, k-1)
		}
	}
	rec("", depth)
	n := 3000
	if tier == "thorough" {
		n = 100000
	}
	for i := 0; i < n; i++ {
		l := 1 + r.intn(10)
		b := make([]byte, 0, l*4)
		for j := 0; j < l; j++ {
			switch r.intn(6) {
			case 0:
				b = append(b, byte(r.intn(256)))
			case 1:
				b = utf8.AppendRune(b, rune(r.intn(0x110000)))
			case 2:
				b = append(b, quoteBytesAlpha[r.intn(len(quoteBytesAlpha))])
			default:
				b = append(b, byte(0x20+r.intn(0x5f)))
			}
		}
		each(string(b))
	}
}

func genQuote(w *bufio.Writer, tier string, r *rng) {
	quoteInputs(tier, r, func(s string) { fmt.Fprintf(w, "QUOTE %s %s\n", hx(s), nonPrintable(s)) })
}

func init() { propTable["C15"] = propC15 }

// lexOne lexes s and requires exactly one token of the given kind followed by <eof>.
func lexOne(s string, kind token.TokenKind) (value string, detail string) {
	toks, err, crashed := lexAllGo(s)
	if crashed != nil {
		return "", fmt.Sprint("lexer misbehaved: ", crashed)
	}
	if err != nil {
		return "", fmt.Sprintf("does not lex: %v", err)
	}
	if len(toks) != 2 || toks[0].Kind != kind {
		return "", fmt.Sprintf("lexes as %d tokens, first kind %q, want one %q", len(toks)-1, toks[0].Kind, kind)
	}
	if toks[0].Space != "" || len(toks[0].Comments) != 0 || toks[1].Space != "" || len(toks[1].Comments) != 0 {
		return "", "quoted text lexes with stray trivia"
	}
	return toks[0].AsString, ""
}

func c15Check(s string) (string, string) {
	q := token.QuoteSQLString(s)
	if v, d := lexOne(q, token.TokenString); d != "" {
		return "QuoteSQLString", fmt.Sprintf("%q %s", q, d)
	} else if v != s {
		return "QuoteSQLString", fmt.Sprintf("%q decodes to %q", q, v)
	}
	q = token.QuoteSQLBytes([]byte(s))
	if v, d := lexOne(q, token.TokenBytes); d != "" {
		return "QuoteSQLBytes", fmt.Sprintf("%q %s", q, d)
	} else if v != s {
		return "QuoteSQLBytes", fmt.Sprintf("%q decodes to %q", q, v)
	}
	if s == "" {
		return "", ""
	}
	q = token.QuoteSQLIdent(s)
	if v, d := lexOne(q, token.TokenIdent); d != "" {
		return "QuoteSQLIdent", fmt.Sprintf("%q %s", q, d)
	} else if v != s {
		return "QuoteSQLIdent", fmt.Sprintf("%q names %q", q, v)
	}
	shaped := identShaped(s)
	if (q == s) != (shaped && !token.IsKeyword(s)) {
		return "QuoteSQLIdent", fmt.Sprintf("returned %q; identifier-shaped=%v keyword=%v", q, shaped, token.IsKeyword(s))
	}
	// consequence: the value survives SQL()
	if e, err := memefish.ParseExpr("", token.QuoteSQLString(s)); err != nil {
		return "ParseExpr", fmt.Sprintf("string literal of %q does not parse: %v", s, err)
	} else if got := e.SQL(); got != token.QuoteSQLString(s) {
		return "SQL", fmt.Sprintf("string literal prints as %q, not %q", got, token.QuoteSQLString(s))
	}
	return "", ""
}

func identShaped(s string) bool {
	for i := 0; i < len(s); i++ {
		c := s[i]
		ok := c == '_' || 'a' <= c && c <= 'z' || 'A' <= c && c <= 'Z' || (i > 0 && '0' <= c && c <= '9')
		if !ok {
			return false
		}
	}
	return len(s) > 0
}

func propC15(o *propOpts) *propResult {
	res := newResult("inputs: every 1-byte string, 2-byte strings (every third second byte in quick, all in thorough), all strings of length<=3 over 20 special bytes, code points (stride 97 in quick, every scalar value in thorough, plus boundary values), every keyword, seeded random strings mixing raw bytes, runes, quotes, controls; non-trivial = needs escaping or quoting (quoted text differs from the bare text in more than the delimiters); distinct by input")
	each := func(s string) {
		nt := token.QuoteSQLString(s) != `"`+s+`"` || (s != "" && safeQuoteIdent(s) != s)
		res.eval(s, nt, func() any { return map[string]any{"input": s, "quoted": token.QuoteSQLString(s)} })
		switch {
		case !utf8.ValidString(s):
			res.count("invalid_utf8")
		case len(s) > 0 && s[0] < 0x80 && len(s) == 1:
			res.count("ascii_1")
		default:
			res.count("valid_utf8")
		}
		if where, d := c15Check(s); d != "" {
			res.fail("input:"+hx(s), s, where, d)
		}
	}
	if o.single != nil {
		b, _ := unhex(o.single.Input)
		each(string(b))
		return res
	}
	for _, h := range o.hints {
		var a, b string
		if n, _ := fmt.Sscanf(h, "QUOTE %s %s", &a, &b); n >= 1 {
			if bs, ok := unhex(a); ok {
				each(string(bs))
			}
		}
	}
	quoteInputs(o.tier, &rng{s: o.seed}, each)
	return res
}

func safeQuoteIdent(s string) (out string) {
	defer func() { recover() }()
	return token.QuoteSQLIdent(s)
}
