package main

import (
	"bufio"
	"fmt"
	"hash/fnv"
	"os"
	"reflect"
	"strings"

	"github.com/cloudspannerecosystem/memefish/ast"
	"github.com/cloudspannerecosystem/memefish/token"
)

func fnv64(s string) uint64 {
	h := fnv.New64a()
	h.Write([]byte(s))
	return h.Sum64()
}

func safeStr(f func() string) (out string, ok bool) {
	if x := safely(func() { out = f() }); x != nil {
		return "", false
	}
	return out, true
}

func safePos(f func() token.Pos) string {
	var p token.Pos
	if x := safely(func() { p = f() }); x != nil {
		return "X"
	}
	return fmt.Sprint(int(p))
}

// dumpTree writes the generic-tree form of n with the implementation's own Pos(), End(), SQL() per node.
func dumpTree(sb *strings.Builder, n ast.Node) { dumpTreeStr(sb, n, nil) }

// dumpTreeStr also collects the values of all string fields (for the non-printable rune list of the request).
func dumpTreeStr(sb *strings.Builder, n ast.Node, strs *strings.Builder) {
	v := reflect.ValueOf(n)
	if v.Kind() == reflect.Ptr {
		v = v.Elem()
	}
	t := v.Type()
	sql := "PANIC"
	if s, ok := safeStr(n.SQL); ok {
		sql = fmt.Sprintf("%d:%d", len(s), fnv64(s))
	}
	fmt.Fprintf(sb, "N %s %s %s %s", t.Name(), safePos(n.Pos), safePos(n.End), sql)
	var scalars []string
	for i := 0; i < t.NumField(); i++ {
		f := t.Field(i)
		if !f.IsExported() {
			continue
		}
		fv := v.Field(i)
		switch {
		case f.Type == posType:
			scalars = append(scalars, fmt.Sprintf("P %s %d", f.Name, fv.Int()))
		case f.Type.Kind() == reflect.Bool:
			b := 0
			if fv.Bool() {
				b = 1
			}
			scalars = append(scalars, fmt.Sprintf("B %s %d", f.Name, b))
		case f.Type.Kind() == reflect.Int:
			scalars = append(scalars, fmt.Sprintf("I %s %d", f.Name, fv.Int()))
		case f.Type.Kind() == reflect.String:
			scalars = append(scalars, fmt.Sprintf("S %s %s", f.Name, hx(fv.String())))
			if strs != nil {
				strs.WriteString(fv.String())
			}
		case f.Type.Kind() == reflect.Slice && f.Type.Elem().Kind() == reflect.Uint8:
			scalars = append(scalars, fmt.Sprintf("S %s %s", f.Name, hx(string(fv.Bytes()))))
		case f.Type.Kind() == reflect.Slice && f.Type.Elem() == tokPtr:
			var ts []string
			for j := 0; j < fv.Len(); j++ {
				tk := fv.Index(j).Interface().(*token.Token)
				cs := []string{fmt.Sprint(len(tk.Comments))}
				for _, c := range tk.Comments {
					cs = append(cs, hx(c.Space), hx(c.Raw))
				}
				ts = append(ts, fmt.Sprintf("%s %s %s %d %d %s", hx(string(tk.Kind)), hx(tk.Raw), hx(tk.Space), tk.Pos, tk.End, strings.Join(cs, " ")))
			}
			scalars = append(scalars, strings.TrimSpace(fmt.Sprintf("T %s %d %s", f.Name, fv.Len(), strings.Join(ts, " "))))
		}
	}
	fmt.Fprintf(sb, " %d", len(scalars))
	for _, s := range scalars {
		sb.WriteString(" " + s)
	}
	kids := children(n)
	fmt.Fprintf(sb, " %d", len(kids))
	for _, k := range kids {
		idx := "-"
		if k.index >= 0 {
			idx = fmt.Sprint(k.index)
		}
		fmt.Fprintf(sb, " K %s %s ", k.field, idx)
		dumpTreeStr(sb, k.node, strs)
	}
}

// recVisitor records every call; a visitor is identified by the path of Field/Index steps that led to it.
type recVisitor struct {
	path   string
	log    *[]string
	prune  int
	visits *int
}

func (v *recVisitor) Visit(n ast.Node) ast.Visitor {
	*v.log = append(*v.log, fmt.Sprintf("V|%s|%s", v.path, kindName(n)))
	if v.prune > 0 && len(kindName(n))%v.prune == 0 {
		return nil
	}
	return v
}
func (v *recVisitor) VisitMany(ns []ast.Node) ast.Visitor {
	*v.log = append(*v.log, fmt.Sprintf("M|%s|%d", v.path, len(ns)))
	return v
}
func (v *recVisitor) Field(name string) ast.Visitor {
	*v.log = append(*v.log, fmt.Sprintf("F|%s|%s", v.path, name))
	return &recVisitor{v.path + "." + name, v.log, v.prune, v.visits}
}
func (v *recVisitor) Index(i int) ast.Visitor {
	*v.log = append(*v.log, fmt.Sprintf("I|%s|%d", v.path, i))
	return &recVisitor{fmt.Sprintf("%s[%d]", v.path, i), v.log, v.prune, v.visits}
}

func walkEvents(n ast.Node, prune int) (string, bool) {
	var log []string
	cnt := 0
	if p := safely(func() { ast.Walk(n, &recVisitor{"", &log, prune, &cnt}) }); p != nil {
		return "PANIC", false
	}
	return strings.Join(log, " "), true
}

// treeLine is one TREE request: the dump of a parsed root with the implementation's values and its Walk event list,
// and (like the QUOTE channel) the runes of the tree's string fields that unicode.IsPrint judges non-printable
// (trailing `NP <hex>`, 4 bytes big-endian per rune): the Lean side builds its `isPrint` from it.
func treeLine(n ast.Node, prune int) string {
	var sb, strs strings.Builder
	dumpTreeStr(&sb, n, &strs)
	ev, _ := walkEvents(n, prune)
	return fmt.Sprintf("TREE %d %s W %s NP %s", prune, sb.String(), ev, nonPrintable(strs.String()))
}

// treeServe echoes, from a TREE request, what the implementation computed (the Lean driver recomputes the same
// canonical line from the regenerated tables).
func treeServe(line string) string {
	f := strings.Split(line, " ")
	if len(f) >= 2 && f[len(f)-2] == "NP" { // the non-printable rune list is input for the model only
		f = f[:len(f)-2]
	}
	var out []string
	i := 2
	var rec func()
	rec = func() {
		// N Kind pos end sql nsc …
		kind, pos, end, sql := f[i+1], f[i+2], f[i+3], f[i+4]
		out = append(out, fmt.Sprintf("%s:%s:%s:%s", kind, pos, end, sql))
		i += 5
		var nsc int
		fmt.Sscan(f[i], &nsc)
		i++
		for s := 0; s < nsc; s++ {
			switch f[i] {
			case "T":
				var nt int
				fmt.Sscan(f[i+2], &nt)
				i += 3
				for t := 0; t < nt; t++ {
					var nc int
					fmt.Sscan(f[i+5], &nc)
					i += 6 + 2*nc
				}
			default:
				i += 3
			}
		}
		var nk int
		fmt.Sscan(f[i], &nk)
		i++
		for k := 0; k < nk; k++ {
			i += 3 // K field idx
			rec()
		}
	}
	rec()
	return strings.Join(out, " ") + " " + strings.Join(f[i:], " ")
}

func treeInputs(tier string, r *rng, each func(entry *entry, s string)) {
	// ad-hoc tier `file=<path>`: one input per line, `<EntryPoint> <hex of the text>` (for experiments and replays)
	if strings.HasPrefix(tier, "file=") {
		b, err := os.ReadFile(strings.TrimPrefix(tier, "file="))
		if err != nil {
			fmt.Fprintln(os.Stderr, err)
			os.Exit(2)
		}
		for _, l := range strings.Split(string(b), "\n") {
			f := strings.Fields(l)
			if len(f) != 2 || entryByName(f[0]) == nil {
				continue
			}
			if t, ok := unhex(f[1]); ok {
				each(entryByName(f[0]), string(t))
			}
		}
		return
	}
	for _, cf := range corpusFiles() {
		each(entryByName(entryForDir(cf.Dir)), cf.Text)
	}
	nmut := 1500
	if tier == "thorough" {
		nmut = 30000
	}
	files := corpusFiles()
	for i := 0; i < nmut; i++ {
		cf := files[r.intn(len(files))]
		s := cf.Text
		for j := 0; j < 1+r.intn(2); j++ {
			s = mutate(r, s)
		}
		each(entryByName(entryForDir(cf.Dir)), s)
	}
	// the hand-written probes, the grammar G0 and structural recombinations of the golden inputs: node shapes and SQL() branches
	// (optional children, separators, operand kinds) the golden inputs do not have
	for _, p := range probes {
		each(entryByName(p.entry), p.text)
	}
	for i, st := range g0Sentences(tier) {
		if tier == "thorough" || i%2 == 0 {
			each(entryByName(st.entry), st.text)
		}
	}
	ngraft := 2500
	if tier == "thorough" {
		ngraft = 40000
	}
	for i := 0; i < ngraft; i++ {
		cf := files[r.intn(len(files))]
		if cf.Bad {
			continue
		}
		e := entryByName(entryForDir(cf.Dir))
		if s := graft(r, e, cf.Text); s != "" {
			each(e, s)
		}
	}
}

func genTree(w *bufio.Writer, tier string, r *rng) {
	n := 0
	treeInputs(tier, r, func(e *entry, s string) {
		res := safeParse(e, s)
		if res.hung || res.panicked != nil {
			return
		}
		for _, root := range res.nodes {
			if isNilNode(root) {
				continue
			}
			n++
			fmt.Fprintln(w, treeLine(root, []int{0, 0, 3, 5}[n%4]))
		}
	})
}
