package main

import (
	"fmt"

	"github.com/cloudspannerecosystem/memefish/ast"
)

func init() { propTable["C05"] = propC05 }

// c05Check: range, token alignment, nesting and sibling order of every node.
func c05Check(s string, roots []ast.Node, clean bool) (nodes int, key, detail string) {
	starts := map[int]bool{}
	ends := map[int]bool{}
	if clean {
		if toks, ok := tokenSpans(s); ok {
			for _, t := range toks {
				starts[int(t.Pos)] = true
				ends[int(t.End)] = true
				if t.Kind == ">>" { // the parser splits ">>" in two when closing nested types
					starts[int(t.Pos)+1] = true
					ends[int(t.Pos)+1] = true
				}
			}
		} else {
			clean = false
		}
	}
	var rec func(n ast.Node) (string, string)
	rec = func(n ast.Node) (string, string) {
		nodes++
		k := kindName(n)
		var p, e int
		if pn := safely(func() { p, e = int(n.Pos()), int(n.End()) }); pn != nil {
			return "", "" // C04's subject
		}
		if clean {
			if !(0 <= p && p < e && e <= len(s)) {
				return k + ":range", fmt.Sprintf("%s: Pos()=%d End()=%d violates 0 <= Pos < End <= %d", k, p, e, len(s))
			}
			if !starts[p] {
				return k + ":pos-align", fmt.Sprintf("%s: Pos()=%d is not the start of a token", k, p)
			}
			if !ends[e] {
				return k + ":end-align", fmt.Sprintf("%s: End()=%d is not the end of a token", k, e)
			}
		} else if !(0 <= p && p <= e && e <= len(s)) {
			return k + ":range", fmt.Sprintf("%s: Pos()=%d End()=%d violates 0 <= Pos <= End <= %d (tree with errors)", k, p, e, len(s))
		}
		prevEnd := -1
		prevField := ""
		for _, c := range children(n) {
			var cp, ce int
			if pn := safely(func() { cp, ce = int(c.node.Pos()), int(c.node.End()) }); pn != nil {
				continue
			}
			if cp < p || ce > e {
				return k + ":nest:" + c.field, fmt.Sprintf("%s %d..%d does not contain its child %s (%s) %d..%d", k, p, e, c.field, kindName(c.node), cp, ce)
			}
			if k != "CreateTable" && cp < prevEnd {
				return k + ":order:" + c.field, fmt.Sprintf("%s: child %s starts at %d before the end %d of the preceding child %s", k, c.field, cp, prevEnd, prevField)
			}
			prevEnd, prevField = ce, c.field
			if key, d := rec(c.node); d != "" {
				return key, d
			}
		}
		return "", ""
	}
	for _, root := range roots {
		if isNilNode(root) {
			continue
		}
		if key, d := rec(root); d != "" {
			return nodes, key, d
		}
	}
	return nodes, "", ""
}

func propC05(o *propOpts) *propResult {
	res := newResult("inputs: as C04; every node of every returned tree: for error-free parses 0<=Pos<End<=len, Pos at a token start, End at a token end, children inside the parent and in non-decreasing order without overlap (CreateTable exempt); with errors the <= versions; non-trivial = error-free parse with at least 5 nodes; distinct by (entry,input)")
	parserInputs(o, withPrinted(func(e *entry, s string, origin string) {
		r := safeParse(e, s)
		if r.hung || r.panicked != nil {
			return
		}
		n, key, d := c05Check(s, r.nodes, r.err == nil)
		res.count(origin)
		res.eval(e.name+"|"+s, r.err == nil && n >= 5, func() any { return map[string]any{"entry": e.name, "input": s, "nodes": n} })
		if d != "" {
			if site := knownSite(s, r.nodes, "C05"); site != "" {
				if s2 := neutralise(site, s); s2 != s {
					if r2 := safeParse(e, s2); !r2.hung && r2.panicked == nil {
						if _, _, d2 := c05Check(s2, r2.nodes, r2.err == nil); d2 == "" {
							key = site
						}
					}
				}
			}
			res.fail(key, s, e.name, d)
		}
	}))
	return res
}
