package main

import (
	"bufio"
	"fmt"
	"os"
	"strconv"
)

// the lexically significant alphabet of DESIGN §4 C13
var alpha24 = []byte{'a', '1', '0', 'x', 'e', '.', '\'', '"', '`', '\\', '\n', ' ', '#', '-', '/', '*', 'r', 'b', '@', '<', '>', ';', '(', 0xff}
var alpha12 = []byte{'a', '1', '.', '\'', '"', '`', '\\', '\n', '-', '/', '*', 'b'}

// focused alphabets: longer strings over the few bytes that matter to one token class
var alphaComment = []byte{'/', '*', '-', '#', '\n', 'a'}
var alphaQuote = []byte{'\'', '"', '\\', 'a', '\n', 'r', 'b'}
var alphaNumber = []byte{'0', '1', 'x', 'e', '.', '+', 'a', ' '}

// focusedStrings enumerates all strings up to the tier's length over each focused alphabet.
func focusedStrings(tier string, emit func([]byte)) {
	n := 6
	if tier == "thorough" {
		n = 8
	}
	enumStrings(alphaComment, n, emit)
	enumStrings(alphaQuote, n-1, emit)
	enumStrings(alphaNumber, n-1, emit)
}

func enumStrings(alpha []byte, maxLen int, emit func([]byte)) {
	var rec func(cur []byte, n int)
	rec = func(cur []byte, n int) {
		if len(cur) == n {
			emit(cur)
			return
		}
		for _, c := range alpha {
			rec(append(cur, c), n)
		}
	}
	for n := 0; n <= maxLen; n++ {
		rec(make([]byte, 0, n), n)
	}
}

func gen(args []string) {
	if len(args) < 3 {
		fmt.Fprintln(os.Stderr, "usage: mfh gen <channel> <tier> <seed>")
		os.Exit(2)
	}
	ch, tier := args[0], args[1]
	seed, _ := strconv.ParseUint(args[2], 10, 64)
	r := &rng{s: seed}
	w := bufio.NewWriterSize(os.Stdout, 1<<20)
	defer w.Flush()
	switch ch {
	case "LEX":
		genLex(w, tier, r)
	case "POS":
		genPos(w, tier, r)
	case "SPLIT":
		genSplit(w, tier, r)
	case "QUOTE":
		genQuote(w, tier, r)
	case "SPEC":
		genSpec(w, tier, r)
	case "TREE":
		genTree(w, tier, r)
	case "EXPR":
		genExpr(w, tier, r)
	case "BRIDGE":
		genBridge(w, tier, r)
	case "EXPRPOS":
		genExprPos(w, tier, r)
	case "TYPE":
		genType(w, tier, r)
	case "DML": // Task S (harness/dmlchan.go)
		genDML(w, tier, r)
	case "QUERY": // Task X (harness/querychan.go)
		genQuery(w, tier, r)
	case "HANDLER":
		genHandler(w, tier, r)
	default:
		fmt.Fprintln(os.Stderr, "unknown channel", ch)
		os.Exit(2)
	}
}

func genLex(w *bufio.Writer, tier string, r *rng) {
	emit := func(b []byte) {
		fmt.Fprintf(w, "LEX p %s\n", hx(string(b)))
		fmt.Fprintf(w, "LEX n %s\n", hx(string(b)))
	}
	n24, n12 := 3, 4
	nrand := 5000
	if tier == "thorough" {
		n24, n12 = 4, 6
		nrand = 100000
	}
	enumStrings(alpha24, n24, emit)
	enumStrings(alpha12, n12, emit)
	focusedStrings(tier, emit)
	// every literal prefix x quote form x escape (valid, truncated, out of range) x position, alone and followed by more tokens:
	// both lexer modes must agree with the model on them (the recovery mode turns the malformed ones into <bad> tokens)
	literalCases(func(s string) {
		emit([]byte(s))
		emit([]byte(s + " x"))
		emit([]byte("1 + " + s + ", 2"))
	})
	keywordCases(func(s string) { emit([]byte(s)) })
	byteMarkCases(func(s string) { emit([]byte(s)) })
	for _, s := range corpusStrings() {
		emit([]byte(s))
	}
	for i := 0; i < nrand; i++ {
		emit(randomLexInput(r))
	}
}
