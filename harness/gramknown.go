package main

import (
	"regexp"
	"strings"
)

// Genuine defects found with G: documented forms that memefish implements (it has the AST node and a parser branch for
// the construct) but rejects in this spelling.  The sentences stay in G; propC08 reports them under "G-known:<production>"
// instead of a per-input key.  See TASK_L_REPORT.md, list (c), for the exact inputs and errors.

// gKnownAlts: whole alternatives of G ("non-terminal/alternative") every sentence of which is rejected.  They are derived by
// the systematic enumeration (and reported), but never used as the default derivation of their non-terminal, as context for
// other productions, or by the random stream.
var gKnownAlts = map[string]string{
	"table_alteration/add_column_short":   "ALTER TABLE t ADD [COLUMN] c ...: the optional word COLUMN is required",
	"table_alteration/drop_column_short":  "ALTER TABLE t DROP [COLUMN] c: the optional word COLUMN is required",
	"table_alteration/alter_column_short": "ALTER TABLE t ALTER [COLUMN] c ...: the optional word COLUMN is required",
	"create_model/if_not_exists":          "CREATE MODEL IF NOT EXISTS name is rejected (memefish wants CREATE MODEL name IF NOT EXISTS)",
	"index_parent/qualified":              "CREATE INDEX ... , INTERLEAVE IN sch.t: a schema-qualified parent table is rejected (the index name and the ON table accept one)",
	"granted_table/qualified":             "GRANT/REVOKE ... ON TABLE sch.t: a schema-qualified table is rejected",
}

// gKnownPatterns: combinations of clauses (not a single alternative) that are rejected.
var gKnownPatterns = []struct {
	name string
	re   *regexp.Regexp
	why  string
}{
	{"search_index_interleave_after_list", regexp.MustCompile(`(?i)\b(ORDER|PARTITION) BY [^()]*, INTERLEAVE IN\b`), "CREATE SEARCH INDEX: ', INTERLEAVE IN' directly after a PARTITION BY / ORDER BY list is taken for another list element"},
	{"table_subquery_in_parens", regexp.MustCompile(`(?i)\(\(+(SELECT|WITH|FROM)\b`), "a table subquery whose query_expr is itself parenthesised is taken for a parenthesised join: FROM ((SELECT 1))"},
	{"dot_float_after_word", regexp.MustCompile("(?i)[A-Za-z0-9_`] \\.[0-9]"), "a float literal written .5 directly after an identifier or keyword-like word (AS VALUE .5, SELECT AS T .5, HAVING MAX .5, THEN RETURN .5, WITH ACTION .5) lexes as '.' and an identifier (the lexer's dot-identifier mode after an identifier token)"},
}

// gKnownRejected: single sentences (text -> reason), for defects that depend on one identifier at one position.
var gKnownRejected = map[string]string{}

// gKnown: the key and the reason under which a failing sentence of G is a listed finding, if it is.
// gKnownErr: the message a listed pattern finding fails with. A sentence that matches the pattern but fails in another way is
// NOT the listed finding (the pattern alone would mask a new rejection of, say, every "((SELECT" sentence).
var gKnownErr = map[string]*regexp.Regexp{
	"table_subquery_in_parens":           regexp.MustCompile(`expected token: JOIN, but: \)`),
	"subscript_offset_ordinal_column":    regexp.MustCompile(`expected token: \(, but: `),
	"search_index_interleave_after_list": regexp.MustCompile(`expected token \(, UNNEST, but: <ident>|expected token: <eof>, but: IN|expected token: <ident>, but: IN`),
	"named_type_scalar_prefix":           regexp.MustCompile(`but: \.`),
}

func gKnown(s gSentence, detail string) (key, why string, ok bool) {
	if why, ok := gKnownRejected[s.text]; ok {
		return s.prod, why, true
	}
	if why, ok := gKnownAlts[s.prod]; ok {
		return s.prod, why, true
	}
	for _, p := range gKnownPatterns {
		if p.re.MatchString(s.text) {
			if er := gKnownErr[p.name]; er != nil && !er.MatchString(detail) {
				continue
			}
			return p.name, p.why, true
		}
	}
	return "", "", false
}

// gExcluded: texts the context-free productions derive but the documentation does not allow, because of a side condition the
// productions do not express; the enumerator drops them.
var gExcluded = []struct {
	re  *regexp.Regexp
	why string
}{
	// column types of the DDL: STRING and BYTES must carry a length; a proto/enum type cannot be spelled like them
	{regexp.MustCompile(`(?i)^(CREATE|ALTER) .*\b(STRING|BYTES)\b *([^( ]|$)`), "STRING / BYTES without a length as a DDL column type (the identifier pool put the word where a proto type name goes)"},
}

// gExcludedToks: the same, decided on the generator's token list.  A FUNCTION named offset / ordinal / safe_offset /
// safe_ordinal called at the head of a plain subscript expression (a[ordinal(x) / 2], a[offset(1, 2)]): the production
// `subscript: index: expr` derives it (the words are not reserved, so the identifier pool may put one where a function name
// goes), but GoogleSQL itself reads `[` word `(` as the position keyword, and so does memefish (parseIndexSpecifier takes the
// word for the keyword exactly when "(" follows).  A COLUMN of that name (a[offset], a[ordinal * 2]) is NOT excluded.
func gExcludedToks(toks []gTok) bool {
	for i := 0; i+2 < len(toks); i++ {
		if toks[i].text == "[" && !toks[i+1].kw && toks[i+2].text == "(" {
			switch strings.ToUpper(toks[i+1].text) {
			case "OFFSET", "ORDINAL", "SAFE_OFFSET", "SAFE_ORDINAL":
				return true
			}
		}
	}
	return false
}
