package main

// EXPRPOS channel, Go side: the positions of memefish.ParseExpr's tree on one input, in the vocabulary of the Lean
// model MF/Model/ExprPos.lean (`exprPosRun`):
//
//	ERR | OUTSIDE                      as in the EXPR channel (same token-level OUTSIDE rule)
//	OK <sexpr> <node> <node> ... c06=<r>   shape (as EXPR) and ALL nodes of the tree in preorder, each as
//	                                   depth:Kind:Pos():End():Field=value,...   (every field of type token.Pos of the
//	                                   struct, in declaration order, found by reflection; "-" when there is none);
//	                                   <r> = 1 when re-parsing the text of every covered node gives that node (exprC06)
//
// Children are enumerated by reflection over the struct fields (`children`, parse.go), not by ast.Walk.

import (
	"bufio"
	"fmt"
	"reflect"
	"strings"

	"github.com/cloudspannerecosystem/memefish/ast"
	"github.com/cloudspannerecosystem/memefish/token"
)

func exprPosNodes(root ast.Node) string { return exprPosNodesShift(root, 0) }

// exprPosNodesShift: the node list with every position moved d bytes to the left
func exprPosNodesShift(root ast.Node, d int) string {
	var sb strings.Builder
	var rec func(n ast.Node, depth int)
	rec = func(n ast.Node, depth int) {
		if isNilNode(n) || depth > 5000 {
			return
		}
		v := reflect.ValueOf(n)
		if v.Kind() == reflect.Ptr {
			v = v.Elem()
		}
		t := v.Type()
		var fields []string
		for i := 0; i < t.NumField(); i++ {
			f := t.Field(i)
			if f.IsExported() && f.Type == posType {
				pv := int(v.Field(i).Int())
				if pv >= 0 { // token.InvalidPos (an absent optional keyword) has no place to move
					pv -= d
				}
				fields = append(fields, fmt.Sprintf("%s=%d", f.Name, pv))
			}
		}
		fs := "-"
		if len(fields) > 0 {
			fs = strings.Join(fields, ",")
		}
		if sb.Len() > 0 {
			sb.WriteByte(' ')
		}
		fmt.Fprintf(&sb, "%d:%s:%s:%s:%s", depth, t.Name(), safePosShift(n.Pos, d), safePosShift(n.End, d), fs)
		for _, c := range children(n) {
			rec(c.node, depth+1)
		}
	}
	rec(root, 0)
	return sb.String()
}

func safePosShift(f func() token.Pos, d int) string {
	var p token.Pos
	if x := safely(func() { p = f() }); x != nil {
		return "X"
	}
	return fmt.Sprint(int(p) - d)
}

// exprC06: C06 (a) evaluated on the implementation for the nodes the Lean theorem covers (MF.Props.C06.expr_exact_partial):
// every ast.Expr node of the tree except the Idents that are components of a Path (or of the NamedType of a CAST) or the field name of a SelectorExpr;
// the text s[Pos():End()] must be accepted by ParseExpr and give the same tree with all positions moved Pos() bytes to
// the left (same node list, same shape).  Returns "1" or "0:<pos>:<end>" of the first node that fails.
func exprC06(s string, root ast.Node) string {
	res := "1"
	var rec func(n ast.Node, parent ast.Node, field string)
	rec = func(n ast.Node, parent ast.Node, field string) {
		if res != "1" || isNilNode(n) {
			return
		}
		_, isExpr := n.(ast.Expr)
		if _, isIdent := n.(*ast.Ident); isIdent && parent != nil {
			switch parent.(type) {
			case *ast.Path, *ast.NamedType: // a component of a path / of the name of a type is not an expression of its own
				isExpr = false
			case *ast.SelectorExpr:
				if field == "Ident" {
					isExpr = false
				}
			}
		}
		if isExpr {
			p, e := int(n.Pos()), int(n.End())
			ok := false
			if 0 <= p && p <= e && e <= len(s) {
				e2, err, crashed := exprParse(s[p:e])
				if err == nil && crashed == nil {
					sx1, _ := exprSexp(n)
					sx2, _ := exprSexp(e2)
					ok = sx1 == sx2 && exprPosNodesShift(n, p) == exprPosNodes(e2)
				}
			}
			if !ok {
				res = fmt.Sprintf("0:%d:%d", p, e)
				return
			}
		}
		for _, c := range children(n) {
			rec(c.node, n, c.field)
		}
	}
	rec(root, nil, "")
	return res
}

func exprPosRun(s string) string {
	toks, err, crashed := exprLexAll(s)
	if crashed != nil {
		return "CRASH"
	}
	if err != nil {
		return "ERR"
	}
	if exprTokenOutside(toks) {
		return "OUTSIDE"
	}
	e, err, crashed := exprParse(s)
	if crashed != nil {
		return "CRASH"
	}
	if err != nil {
		return "ERR"
	}
	sx, ok := exprSexp(e)
	if !ok {
		return "OUTSIDE-AST " + sx
	}
	return "OK " + sx + " " + exprPosNodes(e) + " c06=" + exprC06(s, e)
}

// trivia placed between tokens: blanks, tabs, newlines, block comments, line comments (always closed by a newline)
var posTrivia = []string{
	" ", " ", " ", "  ", "\t", "\n", " \n ", "   ", "/**/", " /* c */ ", "/* a\nb */", " -- c\n", "# c\n", " // c\n ", "\n\n",
	" /*x*/ /*y*/ ", "\r\n", " ", " 　 ",
}

// joinTrivia prints a token sequence with varied trivia between ALL tokens (and before / after); mode 0: single
// blanks; 1: random trivia everywhere; 2: like 1 but an EMPTY separator where the neighbours allow it most of the time
func joinTrivia(ts []string, r *rng, mode int) string {
	var sb strings.Builder
	pick := func() string { return posTrivia[r.intn(len(posTrivia))] }
	if mode > 0 && r.intn(2) == 0 {
		sb.WriteString(pick())
	}
	for i, t := range ts {
		if i > 0 {
			switch {
			case mode == 0:
				sb.WriteByte(' ')
			case mode == 2 && r.intn(3) > 0:
				// glue: may merge tokens ("a" "b" -> "ab", "-" "-" -> comment, "1" ".b"): both sides see the same bytes
			default:
				sb.WriteString(pick())
				if r.intn(4) == 0 {
					sb.WriteString(pick())
				}
			}
		}
		sb.WriteString(t)
	}
	if mode > 0 && r.intn(2) == 0 {
		sb.WriteString(pick())
	}
	return sb.String()
}

// tokens of an explicit case: split at blanks (the cases of exprCases are written with single blanks where a
// separator matters; an unsplittable case is one token)
func caseToks(s string) []string { return strings.Fields(s) }

var exprPosCases = []string{
	" a.b [ OFFSET ( 1 ) ] - -1 IS NOT NULL", "a.b[OFFSET(1)]--1\n IS NOT NULL", "-\n1", "- /* c */ 1", "-1.f", "- 1 . f", "+.5", "- .5e1",
	"a . b . c", "a\n.\nb", "a.1", "a.1.2", "a.select", "a.1e", "(a).1", "a.b.select.from", "a[offset (1)]", "a [ safe_ordinal\n(\n1\n)\n]",
	"@p", "@p . x", " @param_1 + @q", "`a b`.`c`", "`a`", "`a\\`b`", "'x' 'y'", "r'''x''' || b\"\"\"y\"\"\"", "'''a\nb'''", "0x1F", "1.", "1.e3", "1e3",
	"NULL", "null", "True", "false", "nUlL IS nOt NuLl", "a IS TRUE", "a is not false", "a IS /*c*/ NOT /*d*/ NULL",
	"a NOT  IN  ( 1 ,2 , 3 )", "a IN UNNEST ( b )", "a not in unnest(b)", "a IN(1)", "a IN ((1),(2))", "a BETWEEN 1 AND 2", "a NOT BETWEEN -1 AND +2",
	"( a )", "((a))", "( ( a ) )", "(a)+(b)", "NOT a", "NOT NOT a", "not\ta", "~ a", "- - 1", "- - - 1", "- + 1", "-(-1)", "- a", "-a.b", "a - - 1", "a--1\n",
	"a LIKE b", "a NOT LIKE b", "a NOT /*c*/ LIKE b", "a<>b", "a!=b", "a<=b", "a>=b", "a<<b>>c", "a||b", "a|b", "a^b&c",
	"a[1]", "a[1][2]", "a[b[c]]", "a [ 1 ] . f", "a . f [ 1 ]", "(a)[1].f.g", "(a).f.g[1]", "'x'.f", "1 .f", "NULL.f", "@p.f.g",
	"a OR b AND NOT c = d | e ^ f & g << h + i * - j . k [ l ]", "  a  ", "\ta\n", "/* lead */ a /* trail */", "a -- trail", "-- lead\na",
	"a +", "a + /* c", "", " ", "\n", "é", "a.é", "`é`.x", "'é' || 'ü'", "a /* é */ + b",
}

func genExprPos(w *bufio.Writer, tier string, r *rng) {
	emit := func(s string) { fmt.Fprintf(w, "EXPRPOS %s\n", hx(s)) }
	for _, s := range exprPosCases {
		emit(s)
	}
	for _, s := range exprCases {
		emit(s)
		emit(" " + s + " ")
		ts := caseToks(s)
		if len(ts) > 1 {
			emit(joinTrivia(ts, r, 1))
			emit(joinTrivia(ts, r, 1))
		}
	}
	// all trees of Task F's distribution: minimal and full printing, each with single blanks and with random trivia
	exprTrees(tier, func(t *xnode) {
		a, b := t.toks(false), t.toks(true)
		if tier != "thorough" || r.intn(4) == 0 { // the thorough tier has ~20x the trees: plain printing for a quarter of them
			emit(strings.Join(a, " "))
		}
		emit(joinTrivia(a, r, 1))
		emit(joinTrivia(b, r, 1))
		if r.intn(4) == 0 {
			emit(joinTrivia(a, r, 2))
		}
	})
	nsoup, nmut := 4000, 4000
	if tier == "thorough" {
		nsoup, nmut = 100000, 100000
	}
	vocab := append(append([]string{}, soupVocab...), "a.b", "x.1", "-1", "+.5", "0x1f", "`q r`", "@p1", "r'z'", "null", "is", "not", "SAFE_OFFSET", "é")
	for i := 0; i < nsoup; i++ {
		n := 1 + r.intn(9)
		parts := make([]string, n)
		for j := range parts {
			parts[j] = vocab[r.intn(len(vocab))]
		}
		emit(joinTrivia(parts, r, 1+r.intn(2)))
	}
	var pool [][]string
	exprTrees("quick", func(t *xnode) {
		if t.nops() >= 2 && len(pool) < 20000 {
			pool = append(pool, t.toks(false))
		}
	})
	for i := 0; i < nmut; i++ {
		src := pool[r.intn(len(pool))]
		ts := append([]string{}, src...)
		j := r.intn(len(ts))
		switch r.intn(4) {
		case 0:
			ts = append(ts[:j], ts[j+1:]...)
		case 1:
			ts = append(ts[:j+1], ts[j:]...)
		case 2:
			ts[j] = vocab[r.intn(len(vocab))]
		case 3:
			k := r.intn(len(ts))
			ts[j], ts[k] = ts[k], ts[j]
		}
		emit(joinTrivia(ts, r, 1))
	}
}
