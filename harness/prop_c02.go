package main

import (
	"fmt"
	"sort"
	"strings"

	"github.com/cloudspannerecosystem/memefish/token"
)

func init() {
	propTable["C02"] = propC02
	propTable["C08"] = propC08
}

// canon maps a token stream to its significant-token sequence, removing only the documented canonicalisations.
func canon(toks []token.Token) []string {
	var out []string
	var stack []string
	n := len(toks)
	for i := 0; i < n; i++ {
		t := toks[i]
		switch t.Kind {
		case "(", "[", "{":
			stack = append(stack, string(t.Kind))
		case ")", "]", "}":
			if len(stack) > 0 {
				stack = stack[:len(stack)-1]
			}
		}
		var item string
		switch t.Kind {
		case token.TokenEOF:
			continue
		case token.TokenIdent:
			item = "id:" + strings.ToUpper(t.AsString)
		case token.TokenParam:
			item = "param:" + strings.ToUpper(t.AsString)
		case token.TokenString:
			item = "str:" + t.AsString
		case token.TokenBytes:
			item = "bytes:" + t.AsString
		case token.TokenInt, token.TokenFloat:
			item = "num:" + strings.ToUpper(t.Raw)
		case "<>":
			item = "!="
		default:
			item = string(t.Kind)
		}
		// optional noise words
		switch item {
		case "INNER", "OUTER", "INTO":
			continue
		case "id:ARE":
			continue
		case "FROM":
			if len(out) > 0 && out[len(out)-1] == "id:DELETE" {
				continue
			}
		case ",":
			// optional commas: between the fields of a braced constructor
			if len(stack) > 0 && stack[len(stack)-1] == "{" {
				continue
			}
			// trailing commas: a comma directly before a closer or the end
			j := i + 1
			if j >= n || toks[j].Kind == token.TokenEOF || toks[j].Kind == ")" || toks[j].Kind == "}" || toks[j].Kind == "]" || toks[j].Kind == "FROM" || toks[j].Kind == ";" || toks[j].Kind == ">" {
				continue
			}
		}
		out = append(out, item)
	}
	return out
}

func c02Check(e *entry, s string) (accepted bool, key, detail string) {
	r := safeParse(e, s)
	if r.hung || r.panicked != nil || r.err != nil {
		return false, "", ""
	}
	in, ok := tokenSpans(s)
	if !ok {
		return false, "", ""
	}
	sql, p := sqlAll(r.nodes)
	if p != nil {
		return true, "", ""
	}
	outToks, ok := tokenSpans(sql)
	if !ok {
		return true, "relex", fmt.Sprintf("SQL() = %q does not lex", sql)
	}
	a, b := canon(in), canon(outToks)
	// statement separators of list entry points are not part of any statement
	a, b = dropSemis(a), dropSemis(b)
	if strings.Join(a, "\x00") == strings.Join(b, "\x00") {
		return true, "", ""
	}
	// CREATE TABLE prints its elements grouped by kind: compare as multisets
	if containsSeq(a, "CREATE", "id:TABLE") {
		sa, sb := append([]string{}, a...), append([]string{}, b...)
		sort.Strings(sa)
		sort.Strings(sb)
		if strings.Join(sa, "\x00") == strings.Join(sb, "\x00") {
			return true, "", ""
		}
	}
	i := 0
	for i < len(a) && i < len(b) && a[i] == b[i] {
		i++
	}
	ctx := func(x []string) string { return strings.Join(x[max(0, i-3):min(len(x), i+4)], " ") }
	what := "differs"
	if i < len(a) {
		what = a[i]
	}
	return true, "tok:" + what, fmt.Sprintf("significant tokens differ at %d: input [… %s …] vs SQL() [… %s …]; SQL() = %q", i, ctx(a), ctx(b), sql)
}

func dropSemis(x []string) []string {
	var out []string
	for _, s := range x {
		if s != ";" {
			out = append(out, s)
		}
	}
	return out
}

func containsSeq(x []string, a, b string) bool {
	for i := 0; i+1 < len(x); i++ {
		if x[i] == a && x[i+1] == b {
			return true
		}
	}
	return false
}

func propC02(o *propOpts) *propResult {
	res := newResult("inputs: as C04; for every error-free parse the significant-token sequence of the input (from the lexer: identifiers by upper-cased name, literals by decoded value, numbers by spelling, keywords/punctuation by kind) is compared with that of SQL(), after removing only the documented canonicalisations (trivia, keyword case, quoting, INNER/OUTER/INTO/ARE, DELETE's FROM, <> vs !=, trailing/optional commas, CREATE TABLE element grouping compared as a multiset); non-trivial = error-free parse with >= 4 significant tokens; distinct by (entry,input)")
	parserInputs(o, func(e *entry, s string, origin string) {
		acc, key, d := c02Check(e, s)
		res.count(origin)
		res.eval(e.name+"|"+s, acc && len(s) > 8, func() any { return map[string]any{"entry": e.name, "input": s} })
		if d != "" {
			if r := safeParse(e, s); r.err == nil && r.panicked == nil && !r.hung {
				if site := knownSite(s, r.nodes, "C02"); site != "" {
					if s2 := neutralise(site, s); s2 != s {
						if _, _, d2 := c02Check(e, s2); d2 == "" {
							key = site
						}
					}
				}
			}
			res.fail(key, s, e.name, d)
		}
	})
	return res
}

// ---------------------------------------------------------------------------------------------
// C08 — acceptance of the documented forms and agreement of entry points.
// G here is: every golden input of the suite that is not marked !bad_ (the maintainers' rendering of each documented
// production), with keyword-like identifiers re-cased, joined into ';'-lists.  (A template-driven generator from the
// node documentation is planned; see DESIGN.)

func c08Check(specific *entry, s string) (detail string) {
	r := safeParse(specific, s)
	if r.hung || r.panicked != nil {
		return ""
	}
	if r.err != nil {
		return fmt.Sprintf("%s rejects a documented form: %v", specific.name, r.err)
	}
	if specific.name == "ParseExpr" || specific.name == "ParseType" {
		return ""
	}
	g := entryByName("ParseStatement")
	r2 := safeParse(g, s)
	if r2.hung || r2.panicked != nil {
		return ""
	}
	if r2.err != nil {
		return fmt.Sprintf("ParseStatement rejects what %s accepts: %v", specific.name, r2.err)
	}
	if a, b := dumpAll(r.nodes, true), dumpAll(r2.nodes, true); a != b {
		return fmt.Sprintf("ParseStatement and %s return different trees: %s", specific.name, firstDiff(a, b))
	}
	return ""
}

func propC08(o *propOpts) *propResult {
	res := newResult("sentences: every golden input not marked !bad_ through its specific entry point and through ParseStatement (equal trees incl. positions), each also with keywords and unquoted identifiers upper-cased and lower-cased where the lower/upper-cased text still lexes to the same token kinds; ';'-joined lists of 1..3 such sentences with and without trailing ';' through ParseStatements/ParseDDLs/ParseDMLs; plus the sentences of the reference grammar G written from the documentation (systematic: every alternative, every optional on/off in minimal and maximal context, list lengths min..min+2, the identifier pool at every identifier position; and seeded random derivations), each through its entry point and ParseStatement with equal trees and with the lexer's tokens compared to the generator's own terminal list, and ';'-lists of them; non-trivial = sentence with >= 4 tokens; distinct by (entry,sentence)")
	r := &rng{s: o.seed}
	var stmts, ddls, dmls []string
	for _, cf := range corpusFiles() {
		if cf.Bad {
			continue
		}
		e := entryByName(entryForDir(cf.Dir))
		variants := []string{cf.Text}
		if toks, ok := tokenSpans(cf.Text); ok {
			for mode := 0; mode < 2; mode++ {
				var sb strings.Builder
				last := 0
				for _, t := range toks {
					sb.WriteString(cf.Text[last:t.Pos])
					raw := t.Raw
					_, kw := token.KeywordsMap[t.Kind]
					if kw || (t.Kind == token.TokenIdent && !strings.HasPrefix(raw, "`") && token.IsKeyword(raw) == false && isPseudoKeyword(raw)) {
						if mode == 0 {
							raw = strings.ToUpper(raw)
						} else {
							raw = strings.ToLower(raw)
						}
					}
					sb.WriteString(raw)
					last = int(t.End)
				}
				sb.WriteString(cf.Text[last:])
				variants = append(variants, sb.String())
			}
		}
		for _, v := range variants {
			res.eval(e.name+"|"+v, len(v) > 12, func() any { return map[string]any{"entry": e.name, "sentence": v} })
			res.count(cf.Dir)
			if d := c08Check(e, v); d != "" {
				res.fail("file:"+cf.Dir+"/"+cf.Name, v, e.name, d)
			}
		}
		t := strings.TrimRight(cf.Text, " \n\t")
		switch cf.Dir {
		case "ddl":
			ddls = append(ddls, t)
			stmts = append(stmts, t)
		case "dml":
			dmls = append(dmls, t)
			stmts = append(stmts, t)
		case "query", "statement":
			stmts = append(stmts, t)
		}
	}
	// the hand-written grammar G₀ (types, casts, typed literals, simple queries with awkward but legitimate names)
	for _, st := range g0Sentences(o.tier) {
		e := entryByName(st.entry)
		res.eval(e.name+"|"+st.text, true, func() any { return map[string]any{"entry": e.name, "sentence": st.text} })
		res.count("G0_" + st.entry)
		if d := c08Check(e, st.text); d != "" {
			res.fail("g0:"+st.entry+":"+st.text, st.text, e.name, d)
		}
	}
	// the reference grammar G (grammar.go, grammar_rules.go): systematic and random derivations, coverage counted per non-terminal
	gStmts, gDDLs, gDMLs := c08Grammar(o, res)
	gPools := map[string][]string{"ParseStatements": gStmts, "ParseDDLs": gDDLs, "ParseDMLs": gDMLs}
	nlist := 600
	if o.tier == "thorough" {
		nlist = 12000
	}
	for i := 0; i < nlist; i++ {
		name, pool := "ParseStatements", stmts
		switch r.intn(3) {
		case 1:
			name, pool = "ParseDDLs", ddls
		case 2:
			name, pool = "ParseDMLs", dmls
		}
		if gp := gPools[name]; len(gp) > 0 && r.intn(2) == 0 {
			pool = gp // a list of sentences of G
		}
		k := 1 + r.intn(3)
		var parts []string
		for j := 0; j < k; j++ {
			parts = append(parts, pool[r.intn(len(pool))])
		}
		s := strings.Join(parts, "\n;\n")
		if r.intn(2) == 0 {
			s += "\n;"
		}
		e := entryByName(name)
		rr := safeParse(e, s)
		res.eval(name+"|"+s, k > 1, func() any { return map[string]any{"entry": name, "sentence": s} })
		res.count(name)
		if !rr.hung && rr.panicked == nil && (rr.err != nil || len(rr.nodes) != k) {
			res.fail("list:"+name+":"+hx(s), s, name, fmt.Sprintf("list of %d documented sentences: error=%v, %d statements returned", k, rr.err, len(rr.nodes)))
		}
	}
	return res
}

// identifiers the parser treats as pseudo-keywords (raw spelling, case-insensitive); re-casing them must not matter
var pseudoKeywords = map[string]bool{}

func init() {
	for _, k := range strings.Fields("INSERT DELETE UPDATE ALTER DROP RENAME GRANT REVOKE ANALYZE CALL TABLE INDEX VIEW SCHEMA DATABASE SEQUENCE ROLE MODEL OPTIONS COLUMN ADD KEY PRIMARY FOREIGN REFERENCES CONSTRAINT CHECK INTERLEAVE PARENT CASCADE ACTION ROW DELETION POLICY OLDER_THAN STORING UNIQUE NULL_FILTERED SEARCH VECTOR CHANGE STREAM PROPERTY GRAPH NODE EDGE TABLES LABEL PROPERTIES SOURCE DESTINATION VALUES RETURN OFFSET ORDINAL SAFE_OFFSET SAFE_ORDINAL SAFE_CAST BERNOULLI RESERVOIR PERCENT REPLACE INPUT OUTPUT REMOTE STATISTICS LOCALITY BUNDLE PLACEMENT SYNONYM HIDDEN STORED GENERATED ALWAYS IDENTITY BIT_REVERSED_POSITIVE SKIP START COUNTER RESTART EXISTS FIRST LAST SECURITY INVOKER DEFINER SQL TOKENLIST") {
		pseudoKeywords[k] = true
	}
}

func isPseudoKeyword(raw string) bool { return pseudoKeywords[strings.ToUpper(raw)] }
