package main

// BRIDGE channel, Go side: validates the translation `toNodeP` / `toNodeT` of the typed fragment models (MF/Model/Expr*.lean,
// MF/Model/TypeParse.lean) into the generic tree of MF/Model/Ast.lean (MF/Model/Bridge.lean).
//
//	request   BRIDGE E <hex text> <np>     the text is given to memefish.ParseExpr
//	          BRIDGE T <hex text> <np>     the text is given to memefish.ParseType
//	          <np> = the runes of the tree's string fields that unicode.IsPrint rejects (input of the model only, as on the
//	          TREE channel)
//	answer    ERR | OUTSIDE | OUTSIDE-AST … as on the EXPRPOS / TYPE channels (same gates), or
//	          OK <dump>                    the TREE-style reflective dump of the returned ast value (dumpTreeStr): per node the
//	                                       struct name, Go's own Pos() End() SQL(), every scalar field, every child with its
//	                                       field name and index
//
// The Lean driver answers with the same rendering of `toNodeP (parsePTop …)` / `toNodeT (parseTypeTop …)`, the per-node
// Pos()/End()/SQL() computed by the generic interpreters from the regenerated tables.

import (
	"bufio"
	"bytes"
	"fmt"
	"strings"

	"github.com/cloudspannerecosystem/memefish/ast"
)

func bridgeDump(n ast.Node) string {
	var sb strings.Builder
	dumpTreeStr(&sb, n, nil)
	return "OK " + sb.String()
}

func bridgeRunE(s string) string {
	toks, err, crashed := exprLexAll(s)
	if crashed != nil {
		return "CRASH"
	}
	if err != nil {
		return "ERR"
	}
	if exprTokenOutside(toks) {
		return "OUTSIDE"
	}
	e, err, crashed := exprParse(s)
	if crashed != nil {
		return "CRASH"
	}
	if err != nil {
		return "ERR"
	}
	if sx, ok := exprSexp(e); !ok {
		return "OUTSIDE-AST " + sx
	}
	return bridgeDump(e)
}

func bridgeRunT(s string) (out string) {
	defer func() {
		if r := recover(); r != nil {
			out = fmt.Sprintf("CRASH %v", r)
		}
	}()
	if _, err, crashed := exprLexAll(s); crashed != nil {
		return "CRASH"
	} else if err != nil {
		return "ERR"
	}
	t, err, crashed := typeParse(s)
	if crashed != nil {
		return fmt.Sprintf("CRASH %v", crashed)
	}
	if err != nil {
		return "ERR"
	}
	if sx, ok := typeSexp(t); !ok {
		return "OUTSIDE-AST " + sx
	}
	return bridgeDump(t)
}

func bridgeServe(f []string) string {
	if len(f) != 4 {
		return "BADREQ"
	}
	b, ok := unhex(f[2])
	if !ok {
		return "BADREQ"
	}
	switch f[1] {
	case "E":
		return bridgeRunE(string(b))
	case "T":
		return bridgeRunT(string(b))
	}
	return "BADREQ"
}

// bridgeNP: the non-printable runes among the string fields of the parsed tree ("-" when nothing is parsed)
func bridgeNP(kind, s string) string {
	var root ast.Node
	safely(func() {
		switch kind {
		case "E":
			if e, err, crashed := exprParse(s); err == nil && crashed == nil && e != nil {
				root = e
			}
		case "T":
			if t, err, crashed := typeParse(s); err == nil && crashed == nil && t != nil {
				root = t
			}
		}
	})
	if root == nil || isNilNode(root) {
		return "-"
	}
	var sb, strs strings.Builder
	if p := safely(func() { dumpTreeStr(&sb, root, &strs) }); p != nil {
		return "-"
	}
	return nonPrintable(strs.String())
}

// genBridge: the request streams of the EXPRPOS and TYPE generators, readdressed
func genBridge(w *bufio.Writer, tier string, r *rng) {
	readdress := func(kind, prefix string, gen func(*bufio.Writer)) {
		var buf bytes.Buffer
		bw := bufio.NewWriterSize(&buf, 1<<20)
		gen(bw)
		bw.Flush()
		seen := map[string]bool{}
		for _, l := range strings.Split(buf.String(), "\n") {
			if !strings.HasPrefix(l, prefix) {
				continue
			}
			h := strings.TrimPrefix(l, prefix)
			if seen[h] {
				continue
			}
			seen[h] = true
			b, ok := unhex(h)
			if !ok {
				continue
			}
			fmt.Fprintf(w, "BRIDGE %s %s %s\n", kind, h, bridgeNP(kind, string(b)))
		}
	}
	readdress("E", "EXPRPOS ", func(bw *bufio.Writer) { genExprPos(bw, tier, r) })
	readdress("T", "TYPE ", func(bw *bufio.Writer) { genType(bw, tier, r) })
}
