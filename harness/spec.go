package main

import (
	"bufio"
	"fmt"
	"strings"

	"github.com/cloudspannerecosystem/memefish/token"
)

// specRun renders the implementation's token stream in the format of the reference lexer (Spec.Lexical).
func specRun(s string) string {
	toks, err, crashed := lexAllGo(s)
	if crashed != nil {
		return "CRASH"
	}
	if err != nil {
		return "REJECT"
	}
	var parts []string
	for _, t := range toks {
		parts = append(parts, fmt.Sprintf("%s|%d|%d|%s|%d", hx(string(t.Kind)), t.Pos, t.End, hx(t.AsString), t.Base))
	}
	return strings.Join(parts, " ") + " OK"
}

// literalCases: every prefix x quote form x escape kind x position (start, middle, before the closing quote, end of input)
func literalCases(emit func(string)) {
	prefixes := []string{"", "r", "R", "b", "B", "rb", "Rb", "bR", "BR", "br"}
	quotes := []string{"'", "\"", "'''", "\"\"\""}
	escapes := []string{"\\a", "\\b", "\\f", "\\n", "\\r", "\\t", "\\v", "\\\\", "\\?", "\\\"", "\\'", "\\`", "\\101", "\\377", "\\400", "\\18", "\\0", "\\x41", "\\X4a", "\\x4", "\\xg1",
		"\\u00e9", "\\u12", "\\ud800", "\\udfff", "\\ue000", "\\U0001F600", "\\U00110000", "\\U0010FFFF", "\\U0001F60", "\\q", "\\", "\n", "\r", "'", "\"", "''", "\"\"", "é", "\xff"}
	for _, p := range prefixes {
		for _, q := range quotes {
			for _, e := range escapes {
				emit(p + q + e + q)
				emit(p + q + "a" + e + "b" + q)
				emit(p + q + "ab" + e + q)
				emit(p + q + e)
				emit(p + q + "a" + e)
			}
			emit(p + q + q)
			emit(p + q)
		}
	}
	for _, e := range escapes {
		emit("`" + e + "`")
		emit("`a" + e + "`")
		emit("`" + e)
	}
}

// keywordCases: every reserved word in three letter cases, alone, with identifier characters glued before / after it (then it is
// an identifier, however long), cut by one letter, doubled, and after a dot (then it is an identifier)
func keywordCases(emit func(string)) {
	for _, k := range token.Keywords {
		u := string(k)
		for _, w := range []string{u, strings.ToLower(u), u[:1] + strings.ToLower(u[1:])} {
			for _, v := range []string{w, w + "_", w + "_count", w + "1", w + "x", w + "X", "x" + w, "_" + w, w[:len(w)-1], w + w, "a." + w, w + ".a", "`" + w + "`", "@" + w} {
				emit(v)
			}
			emit(w + " 1")
			emit("1 " + w + "x")
		}
	}
}

// byteMarkCases (round 3, seed C13i): byte order marks, NUL / control bytes and the Unicode space characters at the very start of the
// input, between two tokens and at the end — a lexer that quietly drops a mark, or treats a format character as white space, leaves
// bytes that belong to no token
func byteMarkCases(emit func(string)) {
	marks := []string{"\xef\xbb\xbf", "\xfe\xff", "\xff\xfe", "\x00", "\x1a", "\x0b", "\x0c", "\x85", "\r", "\r\n", "\xc2\xa0", "\xc2\x85",
		"\xe2\x80\x8b", "\xe2\x80\xa8", "\xe2\x80\xa9", "\xe2\x81\xa0", "\xe3\x80\x80", "\xe1\x9a\x80", "\xef\xbb\xbf\xef\xbb\xbf", "\xef\xbb", "\xef"}
	bases := [][2]string{{"", ""}, {"SELECT", "1"}, {"a", "b"}, {"--c\n", "x"}, {"/*c*/", "x"}, {"'s'", ","}, {"1", ".5"}, {"a.", "b"}}
	for _, m := range marks {
		for _, b := range bases {
			emit(m + b[0] + " " + b[1])
			emit(b[0] + m + b[1])
			emit(b[0] + " " + m + " " + b[1])
			emit(b[0] + " " + b[1] + m)
		}
	}
}

func specInputs(tier string, r *rng, each func(string)) {
	n24, n12, nrand := 3, 4, 8000
	if tier == "thorough" {
		n24, n12, nrand = 4, 6, 200000
	}
	enumStrings(alpha24, n24, func(b []byte) { each(string(b)) })
	enumStrings(alpha12, n12, func(b []byte) { each(string(b)) })
	focusedStrings(tier, func(b []byte) { each(string(b)) })
	literalCases(each)
	keywordCases(each)
	byteMarkCases(each)
	for _, s := range corpusStrings() {
		each(s)
	}
	nums := []string{"0", "00", "1", "0x", "0X1", "0x1g", "0xG", "1.", ".1", "1.5", "1.5.5", "1e5", "1e+5", "1E-5", "1e", "1e+", "1.e5", ".5e5", ".e5", "1..2", "a.1", "a.1e5", "a.0x1", ").5", "].5", "@p.5", "1 .5", "a . 5", "a.b.1", "a.select", "a.`b`", "a..1", "1a", "1_", "1.a", "1.5a", "1e5a", "0x1.5", "0x1e5", "0x1p", "9999999999999999999999", "1.5e", "1.5e+", "@", "@@", "@a", "@1", "@_a.b", "@@a", "?", "$a", "$", "\\"}
	for _, a := range nums {
		each(a)
		each(a + " ")
		each("x " + a)
		each(a + "+1")
	}
	for i := 0; i < nrand; i++ {
		each(string(randomLexInput(r)))
	}
}

func genSpec(w *bufio.Writer, tier string, r *rng) {
	specInputs(tier, r, func(s string) { fmt.Fprintf(w, "SPEC %s\n", hx(s)) })
}
