package main

import (
	"fmt"

	"github.com/cloudspannerecosystem/memefish"
	"github.com/cloudspannerecosystem/memefish/ast"
	"github.com/cloudspannerecosystem/memefish/token"
)

func init() {
	propTable["C09"] = propC09
	propTable["C10"] = propC10
}

func countKinds(roots []ast.Node) (bad, badNodes, total int) {
	for _, root := range roots {
		if isNilNode(root) {
			continue
		}
		for _, n := range allNodes(root) {
			total++
			if isBad(n) {
				bad++
			}
			if _, ok := n.(*ast.BadNode); ok {
				badNodes++
			}
		}
	}
	return
}

// c09Check: the error contract of one call.
func c09Check(e *entry, s string) (nontrivial bool, detail string) {
	r := safeParse(e, s)
	if r.hung || r.panicked != nil {
		return false, ""
	}
	bad, badNodes, _ := countKinds(r.nodes)
	if r.err == nil {
		if bad > 0 {
			return true, fmt.Sprintf("nil error although the tree contains %d Bad* nodes", bad)
		}
		// the whole input was consumed: appending an unbalanced ')' must turn the call into an error
		r2 := safeParse(e, s+"\n )")
		if !r2.hung && r2.panicked == nil && r2.err == nil {
			return true, "nil error although input remains after the parsed construct (input + newline + \")\")"
		}
		return false, ""
	}
	me, ok := r.err.(memefish.MultiError)
	if !ok || len(me) == 0 {
		return true, fmt.Sprintf("non-nil error of type %T / empty", r.err)
	}
	if len(me) < badNodes {
		return true, fmt.Sprintf("%d errors for %d BadNode placeholders", len(me), badNodes)
	}
	for _, x := range me {
		if x == nil || x.Message == "" || x.Position == nil {
			return true, "error element without message or position"
		}
		if !(0 <= x.Position.Pos && x.Position.Pos <= x.Position.End && int(x.Position.End) <= len(s)) {
			return true, fmt.Sprintf("error range %d..%d outside 0..%d (%s)", x.Position.Pos, x.Position.End, len(s), x.Message)
		}
	}
	return true, ""
}

func propC09(o *propOpts) *propResult {
	res := newResult("inputs: golden corpus, probes, token-level mutations, expression soups, each through its matching entry point; checks nil-error => no Bad* node and input fully consumed (input+' )' must fail), Bad* => error, MultiError length >= BadNode placeholders, every element has message and 0<=Pos<=End<=len; non-trivial = call returning an error; distinct by (entry,input)")
	parserInputs(o, func(e *entry, s string, origin string) {
		nt, d := c09Check(e, s)
		res.count(origin)
		res.eval(e.name+"|"+s, nt, func() any { return map[string]any{"entry": e.name, "input": s} })
		if d != "" {
			res.fail("input:"+e.name+":"+hx(s), s, e.name, d)
		}
	})
	return res
}

// badNodeOf returns the *ast.BadNode carried by a Bad* node.
func badNodeOf(n ast.Node) *ast.BadNode {
	switch x := n.(type) {
	case *ast.BadNode:
		return x
	case *ast.BadStatement:
		return x.BadNode
	case *ast.BadQueryExpr:
		return x.BadNode
	case *ast.BadExpr:
		return x.BadNode
	case *ast.BadType:
		return x.BadNode
	case *ast.BadDDL:
		return x.BadNode
	case *ast.BadDML:
		return x.BadNode
	}
	return nil
}

// relexRecovery lexes s with the recovery-mode lexer (lexically bad tokens come back as <bad>).
// relexRecovery: the raw call under the deadline of safely (a lexer or splitter that loops is reported, not waited for).
func relexRecovery(s string) (toks []token.Token, crashed any) {
	if p := safely(func() { toks, crashed = relexRecoveryRaw(s) }); p != nil {
		crashed = p
	}
	return
}

func relexRecoveryRaw(s string) (toks []token.Token, crashed any) {
	defer func() {
		if r := recover(); r != nil {
			crashed = r
		}
	}()
	l := &memefish.Lexer{File: &token.File{Buffer: s}}
	for i := 0; i < len(s)+2; i++ {
		l.VerifNextToken(true)
		if l.Token.Kind == token.TokenEOF {
			return toks, nil
		}
		toks = append(toks, l.Token)
	}
	return toks, "no <eof>"
}

// c10Check evaluates C10 on every BadNode of the returned trees. site is non-empty when the only disagreement is the
// recorded finding "site:BadNode.sliceContext": the node holds exactly the tokens of the WHOLE input that lie in its range,
// but the slice lexed on its own gives other tokens because the lexer is context dependent at the cut.
func c10Check(s string, roots []ast.Node) (nbad int, detail string, site string) {
	var whole []token.Token
	wholeDone := false
	for _, root := range roots {
		if isNilNode(root) {
			continue
		}
		for _, n := range allNodes(root) {
			bn, ok := n.(*ast.BadNode)
			if !ok {
				continue
			}
			nbad++
			if !(0 <= bn.NodePos && bn.NodePos <= bn.NodeEnd && int(bn.NodeEnd) <= len(s)) {
				return nbad, fmt.Sprintf("Bad node range %d..%d outside the input", bn.NodePos, bn.NodeEnd), ""
			}
			toks, crashed := relexRecovery(s[bn.NodePos:bn.NodeEnd])
			if crashed != nil {
				return nbad, fmt.Sprint("re-lexing the Bad node range failed: ", crashed), ""
			}
			d := c10Compare(bn, toks)
			if len(bn.Tokens) > 0 {
				if bn.Tokens[0].Pos != bn.NodePos || bn.Tokens[len(bn.Tokens)-1].End != bn.NodeEnd {
					return nbad, fmt.Sprintf("Bad node range %d..%d but tokens span %d..%d", bn.NodePos, bn.NodeEnd, bn.Tokens[0].Pos, bn.Tokens[len(bn.Tokens)-1].End), ""
				}
			} else if bn.NodePos != bn.NodeEnd {
				return nbad, "Bad node without tokens has a non-empty range", ""
			}
			var sql string
			if p := safely(func() { sql = bn.SQL() }); p != nil {
				return nbad, fmt.Sprint("BadNode.SQL() panicked: ", p), ""
			}
			st, crashed := relexRecovery(sql)
			if d != "" {
				// the slice on its own lexes differently: is it the context at the cut, and nothing else?
				if !wholeDone {
					whole, _ = relexRecovery(s)
					wholeDone = true
				}
				var ctx []token.Token
				for _, t := range whole {
					if t.Pos >= bn.NodePos && t.End <= bn.NodeEnd {
						ctx = append(ctx, t)
					}
				}
				same := len(ctx) == len(bn.Tokens)
				for i := 0; same && i < len(ctx); i++ {
					same = ctx[i].Kind == bn.Tokens[i].Kind && ctx[i].Raw == bn.Tokens[i].Raw && ctx[i].Pos == bn.Tokens[i].Pos && ctx[i].End == bn.Tokens[i].End
				}
				// and SQL() must still re-lex the way the range itself does
				same = same && crashed == nil && len(st) == len(toks)
				for i := 0; same && i < len(st); i++ {
					same = st[i].Raw == toks[i].Raw && st[i].Kind == toks[i].Kind
				}
				if same {
					return nbad, d, "site:BadNode.sliceContext"
				}
				return nbad, d, ""
			}
			// SQL() re-lexes to the same token sequence
			if crashed != nil || len(st) != len(bn.Tokens) {
				return nbad, fmt.Sprintf("BadNode.SQL() = %q lexes to %d tokens, the node holds %d", sql, len(st), len(bn.Tokens)), ""
			}
			for i, t := range bn.Tokens {
				if st[i].Raw != t.Raw {
					return nbad, fmt.Sprintf("BadNode.SQL() = %q: token %d is %q, expected %q", sql, i, st[i].Raw, t.Raw), ""
				}
			}
		}
	}
	return nbad, "", ""
}

// c10Compare: the tokens of the slice lexed on its own against BadNode.Tokens (kinds, spellings, offsets).
func c10Compare(bn *ast.BadNode, toks []token.Token) string {
	if len(toks) != len(bn.Tokens) {
		return fmt.Sprintf("Bad node %d..%d holds %d tokens, its range lexes to %d", bn.NodePos, bn.NodeEnd, len(bn.Tokens), len(toks))
	}
	for i, t := range bn.Tokens {
		if t.Raw != toks[i].Raw || t.Kind != toks[i].Kind {
			return fmt.Sprintf("Bad node token %d is %s %q, its range lexes to %s %q", i, t.Kind, t.Raw, toks[i].Kind, toks[i].Raw)
		}
		if int(t.Pos) != int(bn.NodePos)+int(toks[i].Pos) && !(t.Kind == ">" && len(t.Raw) == 2) {
			return fmt.Sprintf("Bad node token %d at %d, expected %d", i, t.Pos, int(bn.NodePos)+int(toks[i].Pos))
		}
	}
	return ""
}

func propC10(o *propOpts) *propResult {
	res := newResult("inputs: as C09 (mutations produce most Bad* nodes, incl. nested recoveries and '>>' in types); every BadNode of every returned tree: tokens == recovery-mode lexing of input[NodePos:NodeEnd] (kinds, spellings, offsets), range == span of its tokens, SQL() re-lexes to the same spellings; non-trivial = tree with at least one BadNode holding >= 1 token; distinct by (entry,input)")
	parserInputs(o, func(e *entry, s string, origin string) {
		r := safeParse(e, s)
		if r.hung || r.panicked != nil {
			return
		}
		nbad, d, site := c10Check(s, r.nodes)
		res.count(fmt.Sprintf("badnodes_%d", min(nbad, 4)))
		res.eval(e.name+"|"+s, nbad > 0, func() any { return map[string]any{"entry": e.name, "input": s, "bad_nodes": nbad} })
		if d != "" {
			if site != "" {
				res.count("known_sliceContext")
				res.fail(site, s, e.name, d)
			} else {
				res.fail("input:"+e.name+":"+hx(s), s, e.name, d)
			}
		}
	})
	return res
}
