package main

import (
	"fmt"
	"strings"
)

// A small hand-written reference grammar G₀ for the constructs whose sentences the golden inputs do not vary enough:
// types, typed literals, casts and simple queries, with every identifier position filled from a list of legitimate but
// awkward names (GoogleSQL type names and pseudo-keywords are NOT reserved words, so they are valid field, column, table
// and alias names). Written from the documentation's grammar for data types and query syntax, not from parser.go.

var trickyNames = []string{"x", "date", "string", "json", "int64", "float64", "bool", "bytes", "numeric", "timestamp", "tokenlist", "INT64", "Date",
	"offset", "ordinal", "table", "options", "insert", "update", "delete", "key", "value", "values", "row", "action", "first", "last", "replace", "model", "input", "output", "percent", "array_x", "struct_x"}

var simpleTypeNames = []string{"BOOL", "INT64", "FLOAT32", "FLOAT64", "DATE", "TIMESTAMP", "NUMERIC", "STRING", "BYTES", "JSON", "int64", "String"}

// genTypes enumerates type sentences up to the given nesting depth.
func genTypes(depth int, names []string) []string {
	out := append([]string{}, simpleTypeNames...)
	out = append(out, "a.b.C", "my_proto")
	if depth == 0 {
		return out
	}
	inner := genTypes(depth-1, names[:min(len(names), 4)])
	pick := func(i int) string { return inner[i%len(inner)] }
	for i, t := range inner {
		if i%3 == 0 {
			out = append(out, "ARRAY<"+t+">")
		}
	}
	for i, n := range names {
		out = append(out, fmt.Sprintf("STRUCT<%s %s>", n, pick(i)))
		out = append(out, fmt.Sprintf("STRUCT<%s %s, %s>", n, pick(i+1), pick(i+2)))
		out = append(out, fmt.Sprintf("STRUCT<%s, %s %s>", pick(i+3), n, pick(i+4)))
		out = append(out, fmt.Sprintf("ARRAY<STRUCT<%s %s, y ARRAY<%s>>>", n, pick(i), pick(i+5)))
	}
	out = append(out, "STRUCT<>", "STRUCT<INT64>", "ARRAY<STRUCT<ARRAY<INT64>>>")
	return out
}

type sentence struct{ entry, text string }

// g0Sentences: every sentence must be accepted by its entry point (and by ParseStatement where applicable).
func g0Sentences(tier string) []sentence {
	var out []sentence
	names := trickyNames
	depth := 1
	if tier == "thorough" {
		depth = 2
	}
	types := genTypes(depth, names)
	for _, t := range types {
		out = append(out, sentence{"ParseType", t})
	}
	for i, t := range types {
		if i%2 == 0 || tier == "thorough" {
			out = append(out, sentence{"ParseExpr", "CAST(a AS " + t + ")"})
			out = append(out, sentence{"ParseQuery", "SELECT CAST(a AS " + t + ") FROM t"})
		}
		if strings.HasPrefix(t, "STRUCT<") && !strings.Contains(t, "STRUCT<>") {
			out = append(out, sentence{"ParseExpr", t + "(1, 2)"})
		}
		if strings.HasPrefix(t, "ARRAY<") {
			out = append(out, sentence{"ParseExpr", t + "[]"})
		}
	}
	for _, n := range names {
		out = append(out,
			sentence{"ParseQuery", fmt.Sprintf("SELECT %s FROM t", n)},
			sentence{"ParseQuery", fmt.Sprintf("SELECT t.%s FROM t", n)},
			sentence{"ParseQuery", fmt.Sprintf("SELECT a AS %s FROM t", n)},
			sentence{"ParseQuery", fmt.Sprintf("SELECT a FROM %s", n)},
			sentence{"ParseQuery", fmt.Sprintf("SELECT a FROM t AS %s", n)},
			sentence{"ParseQuery", fmt.Sprintf("SELECT a FROM t WHERE %s = 1 ORDER BY %s", n, n)},
			sentence{"ParseExpr", fmt.Sprintf("%s + 1", n)},
			sentence{"ParseExpr", fmt.Sprintf("a.%s.b", n)},
			sentence{"ParseExpr", fmt.Sprintf("STRUCT(1 AS %s)", n)},
			sentence{"ParseExpr", fmt.Sprintf("@%s", n)},
			sentence{"ParseDDL", fmt.Sprintf("CREATE TABLE t (%s INT64) PRIMARY KEY (%s)", n, n)},
			sentence{"ParseDDL", fmt.Sprintf("CREATE INDEX i ON t (%s)", n)},
			sentence{"ParseDML", fmt.Sprintf("INSERT INTO t (%s) VALUES (1)", n)},
			sentence{"ParseDML", fmt.Sprintf("UPDATE t SET %s = 1 WHERE true", n)},
			sentence{"ParseDML", fmt.Sprintf("DELETE FROM t WHERE true THEN RETURN %s, t.%s", n, n)},
			sentence{"ParseDML", fmt.Sprintf("DELETE FROM t WHERE true THEN RETURN WITH ACTION %s", n)},
			sentence{"ParseDML", fmt.Sprintf("UPDATE t SET a = 1 WHERE true THEN RETURN WITH ACTION AS %s *, %s AS b", n, n)},
			sentence{"ParseDML", fmt.Sprintf("INSERT INTO t (a) VALUES (1) THEN RETURN WITH ACTION t.*, %s", n)},
		)
	}
	// parentheses and subqueries: every nesting, up to depth 3 (4 in the thorough tier), of "( e )", "( query )", "e + 2", "2 + e"
	// and "( e , 3 )" (a tuple) around an atom or a scalar subquery, alone, as the value list of IN, as a select item, as a WHERE
	// condition and as a call argument — the look-ahead that tells a parenthesised expression from a subquery sees every shape
	pd := 3
	if tier == "thorough" {
		pd = 4
	}
	for _, e := range parenShapes(pd) {
		out = append(out,
			sentence{"ParseExpr", e},
			sentence{"ParseExpr", "x IN (" + e + ")"},
			sentence{"ParseExpr", "x NOT IN (" + e + ", 3)"},
			sentence{"ParseExpr", "f(" + e + ", 4)"},
			sentence{"ParseQuery", "SELECT " + e},
			sentence{"ParseQuery", "SELECT a FROM t WHERE " + e + " > 0"},
		)
	}
	return out
}

// parenShapes enumerates expression texts built from an atom and a scalar subquery by parentheses, binary operators and tuples.
func parenShapes(depth int) []string {
	cur := []string{"1", "(SELECT 1)", "(SELECT a FROM t LIMIT 1)"}
	all := append([]string{}, cur...)
	for d := 0; d < depth; d++ {
		var next []string
		for i, e := range cur {
			next = append(next, "("+e+")", e+" + 2")
			if i%2 == 0 {
				next = append(next, "2 * "+e, "("+e+", 3)")
			} else {
				next = append(next, "(SELECT "+e+")")
			}
		}
		all = append(all, next...)
		cur = next
	}
	return all
}
