package main

// HANDLER channel (C10): the four recovery handlers of parser.go, run through the hook memefish.VerifRecover, against
// the Lean model MF/Model/Handlers.lean.
//
//	request:  HANDLER <statement|query|expr|type> <simple 0|1> <skip> <hex input>
//	response: <NodePos> <NodeEnd> <n> <tok>*n CUR <tok> SQL <hex of BadNode.SQL()>      (tok as in the LEX channel)
//	          CRASH when the hook ends in a Go runtime panic

import (
	"bufio"
	"fmt"
	"strconv"
	"strings"

	"github.com/cloudspannerecosystem/memefish"
)

func handlerServe(f []string) string {
	if len(f) != 5 {
		return "BADREQ"
	}
	skip, err := strconv.Atoi(f[3])
	b, ok := unhex(f[4])
	if err != nil || !ok || skip < 0 {
		return "BADREQ"
	}
	switch f[1] {
	case "statement", "query", "expr", "type":
	default:
		return "BADREQ"
	}
	return handlerRun(f[1], f[2] == "1", string(b), skip)
}

func handlerRun(kind string, simple bool, s string, skip int) (out string) {
	defer func() {
		if r := recover(); r != nil {
			out = "CRASH"
		}
	}()
	bad, cur := memefish.VerifRecover(kind, simple, s, skip)
	acc := []string{strconv.Itoa(int(bad.NodePos)), strconv.Itoa(int(bad.NodeEnd)), strconv.Itoa(len(bad.Tokens))}
	for _, t := range bad.Tokens {
		acc = append(acc, fmtTok(t))
	}
	acc = append(acc, "CUR", fmtTok(&cur), "SQL", hx(bad.SQL()))
	return strings.Join(acc, " ")
}

// per-handler alphabets for the exhaustive part: the stop / nesting tokens of the handler, a neutral token, lexically bad
// tokens (closed and unclosed), a comment
var handlerAlpha = map[string][]string{
	"statement": {";", "(", ")", ",", "a", ".b", ">>", "1a", "'\\q'", "'abc", "/*c*/", "--c\n", "/*", "\x00"},
	"query":     {";", "(", ")", "UNION", "INTERSECT", "EXCEPT", "a", ",", "1a", "'\\q'", "'abc", "/*c*/", "/*", "\x00"},
	"expr":      {";", "(", "[", "CASE", "WHEN", ")", "]", "}", "END", "THEN", ",", "AT", "a", "1a", "/*"},
	"expr2":     {";", "(", ")", "AS", "FROM", "GROUP", "HAVING", "ORDER", "LIMIT", "OFFSET", "UNION", "INTERSECT", "EXCEPT", "'abc", "/*c*/"},
	"type":      {";", ")", "<", ">", ">>", ",", "(", "a", ">>>", "1a", "'abc", "/*c*/", "/*", "\x00"},
}

// every token the four switches mention, for the random soups
var handlerStops = []string{";", "(", ")", "[", "]", "{", "}", ",", "<", ">", ">>", "CASE", "WHEN", "END", "THEN", "AS", "FROM", "GROUP",
	"HAVING", "ORDER", "LIMIT", "OFFSET", "AT", "UNION", "INTERSECT", "EXCEPT", "union", "End"}
var handlerBad = []string{"'abc", "1a", "/*", "\x00", "``", "'\\q'", "\"x\ny\"", "'''a", "0x", "1e+", "\xff", "`a", "b'\\u0041'", "@"}
var handlerJoin = []string{" ", " ", " ", "", "", "\n", "\t", "/*c*/", " /*c*/ ", "--c\n", "#c\n", " -- c\n ", "/**/"}

type handlerVariant struct {
	kind   string
	simple bool
}

var handlerVariants = []handlerVariant{{"statement", false}, {"query", false}, {"query", true}, {"expr", false}, {"type", false}}

func genHandler(w *bufio.Writer, tier string, r *rng) {
	emit := func(v handlerVariant, s string, skip int) {
		sim := 0
		if v.simple {
			sim = 1
		}
		fmt.Fprintf(w, "HANDLER %s %d %d %s\n", v.kind, sim, skip, hx(s))
	}
	// every skip offset: pieces can lex to two tokens ("1a", ".b", ">>>"), hence 2n+1, plus one step past <eof>
	allSkips := func(v handlerVariant, s string, npieces int) {
		for k := 0; k <= 2*npieces+2; k++ {
			emit(v, s, k)
		}
	}
	maxLen, maxLenAllSkips, nrand := 3, 3, 20000
	if tier == "thorough" {
		maxLen, maxLenAllSkips, nrand = 5, 4, 400000
	}
	for _, v := range handlerVariants {
		alphas := [][]string{handlerAlpha[v.kind]}
		if v.kind == "expr" {
			alphas = append(alphas, handlerAlpha["expr2"])
		}
		for _, alpha := range alphas {
			var rec func(cur []string, n int)
			rec = func(cur []string, n int) {
				if len(cur) == n {
					s := strings.Join(cur, " ")
					if n <= maxLenAllSkips {
						allSkips(v, s, n)
						if n >= 2 {
							// the same pieces glued together (">" ">" becomes ">>", "1a" "a" one identifier tail, ...)
							emit(v, strings.Join(cur, ""), 1)
						}
					} else {
						// the longest strings: recovery started at the first token
						emit(v, s, 1)
					}
					return
				}
				for _, p := range alpha {
					rec(append(cur, p), n)
				}
			}
			for n := 0; n <= maxLen; n++ {
				rec(make([]string, 0, n), n)
			}
		}
	}
	// random soups over everything the switches mention, bad tokens, lexical fragments, raw bytes; random joiners
	for i := 0; i < nrand; i++ {
		n := 1 + r.intn(12)
		var sb strings.Builder
		for j := 0; j < n; j++ {
			switch x := r.intn(20); {
			case x < 11:
				sb.WriteString(handlerStops[r.intn(len(handlerStops))])
			case x < 14:
				sb.WriteString(handlerBad[r.intn(len(handlerBad))])
			case x < 16:
				sb.WriteString("a")
			case x < 19:
				sb.WriteString(lexFrags[r.intn(len(lexFrags))])
			default:
				sb.WriteByte(byte(r.intn(256)))
			}
			sb.WriteString(handlerJoin[r.intn(len(handlerJoin))])
		}
		s := sb.String()
		v := handlerVariants[r.intn(len(handlerVariants))]
		if r.intn(4) == 0 {
			allSkips(v, s, n)
		} else {
			emit(v, s, r.intn(n+2))
		}
	}
	// the golden inputs of the suite, recovery started at the first tokens
	for _, s := range corpusStrings() {
		for _, v := range handlerVariants {
			emit(v, s, 1)
			emit(v, s, 1+r.intn(6))
		}
	}
}
