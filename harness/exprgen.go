package main

// Abstract expression trees over the operator language of C07, their two printings (minimally parenthesised by
// the GoogleSQL precedence table, and fully parenthesised) and the request stream of the EXPR channel.
//
// The table below is written from the property text (GoogleSQL operator precedence), NOT from ast/sql.go:
//
//	level 1  postfix  .field  [expr]  [OFFSET(expr)]
//	level 2  unary    + - ~
//	level 3  * / ||           left-associative
//	level 4  + -              left-associative
//	level 5  << >>            left-associative
//	level 6  &                left-associative
//	level 7  ^                left-associative
//	level 8  |                left-associative
//	level 9  = != <> < <= > >= [NOT] LIKE, [NOT] IN, [NOT] BETWEEN, IS [NOT] NULL/TRUE/FALSE   non-associative
//	level 10 NOT
//	level 11 AND              left-associative
//	level 12 OR               left-associative

import (
	"bufio"
	"fmt"
	"strings"
)

type xform int

const (
	xfAtom xform = iota
	xfUnary
	xfBinary
	xfIs       // kids[0] IS <text>
	xfBetween  // kids[0] [NOT] BETWEEN kids[1] AND kids[2]
	xfInList   // kids[0] [NOT] IN ( kids[1], ... )
	xfInUnnest // kids[0] [NOT] IN UNNEST ( kids[1] )
	xfSel      // kids[0] . f
	xfIndex    // kids[0] [ kids[1] ]   or   kids[0] [ KW ( kids[1] ) ]
	xfCase     // CASE [kid] (WHEN kid THEN kid)+ [ELSE kid] END; toks: "o" operand, "w" one WHEN clause, "e" ELSE — an atom (level 0)
	xfIf       // IF ( kids[0] , kids[1] , kids[2] ) — an atom (level 0)
	xfArray    // [ kids[0] , ... ] — an atom (level 0)
	xfCast     // CAST ( kids[0] AS <toks> ) — an atom (level 0); toks = the tokens of the type
)

// xop describes one operator of the language.
type xop struct {
	id    string // unique name, also the label in canonical dumps
	form  xform
	level int
	toks  []string // operator tokens (binary/unary/IS: the operator; BETWEEN/IN: with NOT or not; index: keyword or "")
	arity int
	rep   bool // member of the representative set used for the deepest enumeration level
}

func binop(tok string, level int, rep bool) xop {
	return xop{id: "bin:" + strings.ReplaceAll(tok, " ", "_"), form: xfBinary, level: level, toks: strings.Split(tok, " "), arity: 2, rep: rep}
}

var xops = []xop{
	binop("*", 3, true), binop("/", 3, false), binop("||", 3, false),
	binop("+", 4, true), binop("-", 4, false),
	binop("<<", 5, true), binop(">>", 5, false),
	binop("&", 6, true), binop("^", 7, true), binop("|", 8, true),
	binop("=", 9, true), binop("!=", 9, false), binop("<>", 9, false), binop("<", 9, false), binop("<=", 9, false),
	binop(">", 9, false), binop(">=", 9, false), binop("LIKE", 9, false), binop("NOT LIKE", 9, false),
	binop("AND", 11, true), binop("OR", 12, true),
	{id: "un:+", form: xfUnary, level: 2, toks: []string{"+"}, arity: 1},
	{id: "un:-", form: xfUnary, level: 2, toks: []string{"-"}, arity: 1, rep: true},
	{id: "un:~", form: xfUnary, level: 2, toks: []string{"~"}, arity: 1},
	{id: "un:NOT", form: xfUnary, level: 10, toks: []string{"NOT"}, arity: 1, rep: true},
	{id: "is:NULL", form: xfIs, level: 9, toks: []string{"IS", "NULL"}, arity: 1, rep: true},
	{id: "is:NOT_NULL", form: xfIs, level: 9, toks: []string{"IS", "NOT", "NULL"}, arity: 1},
	{id: "is:TRUE", form: xfIs, level: 9, toks: []string{"IS", "TRUE"}, arity: 1},
	{id: "is:NOT_FALSE", form: xfIs, level: 9, toks: []string{"IS", "NOT", "FALSE"}, arity: 1},
	{id: "between", form: xfBetween, level: 9, toks: []string{"BETWEEN"}, arity: 3, rep: true},
	{id: "notbetween", form: xfBetween, level: 9, toks: []string{"NOT", "BETWEEN"}, arity: 3},
	{id: "in1", form: xfInList, level: 9, toks: []string{"IN"}, arity: 2, rep: true},
	{id: "notin2", form: xfInList, level: 9, toks: []string{"NOT", "IN"}, arity: 3},
	{id: "inunnest", form: xfInUnnest, level: 9, toks: []string{"IN"}, arity: 2},
	{id: "notinunnest", form: xfInUnnest, level: 9, toks: []string{"NOT", "IN"}, arity: 2},
	{id: "sel", form: xfSel, level: 1, arity: 1, rep: true},
	{id: "idx", form: xfIndex, level: 1, arity: 2, rep: true},
	{id: "idx:OFFSET", form: xfIndex, level: 1, toks: []string{"OFFSET"}, arity: 2},
	{id: "idx:SAFE_ORDINAL", form: xfIndex, level: 1, toks: []string{"SAFE_ORDINAL"}, arity: 2},
	{id: "case:w", form: xfCase, level: 0, toks: []string{"w"}, arity: 2},
	{id: "case:ow", form: xfCase, level: 0, toks: []string{"o", "w"}, arity: 3, rep: true},
	{id: "case:we", form: xfCase, level: 0, toks: []string{"w", "e"}, arity: 3},
	{id: "case:owwe", form: xfCase, level: 0, toks: []string{"o", "w", "w", "e"}, arity: 6},
	{id: "if", form: xfIf, level: 0, arity: 3, rep: true},
	{id: "arr1", form: xfArray, level: 0, arity: 1},
	{id: "arr2", form: xfArray, level: 0, arity: 2, rep: true},
	{id: "arr3", form: xfArray, level: 0, arity: 3},
	{id: "cast:T", form: xfCast, level: 0, toks: []string{"T"}, arity: 1, rep: true},
	{id: "cast:int64.x", form: xfCast, level: 0, toks: []string{"int64", ".", "x"}, arity: 1},
	{id: "cast:a.b", form: xfCast, level: 0, toks: []string{"a", ".", "b"}, arity: 1},
	{id: "cast:`p q`.Date.T", form: xfCast, level: 0, toks: []string{"`p q`", ".", "Date", ".", "T"}, arity: 1},
}

// xnode is an abstract tree: no parentheses, no folded signs, no merged paths.
type xnode struct {
	op   *xop   // nil for an atom
	atom string // token text of the atom
	kids []*xnode
}

func (n *xnode) level() int {
	if n.op == nil {
		return 0
	}
	return n.op.level
}

// needParen: does child `c` in operand position `i` of operator `op` need parentheses according to the table?
func needParen(op *xop, i int, c *xnode) bool {
	l := c.level()
	switch op.form {
	case xfBinary:
		if op.level == 9 { // non-associative
			return l >= 9
		}
		if i == 0 {
			return l > op.level
		}
		return l >= op.level
	case xfUnary:
		return l > op.level
	case xfIs:
		return l >= 9
	case xfBetween:
		return l >= 9
	case xfInList, xfInUnnest:
		return i == 0 && l >= 9
	case xfSel:
		return l > 1
	case xfIndex:
		return i == 0 && l > 1
	}
	return false
}

// toks prints the tree as a token sequence; full=true wraps every compound operand.
func (n *xnode) toks(full bool) []string {
	if n.op == nil {
		return []string{n.atom}
	}
	kid := func(i int) []string {
		c := n.kids[i]
		t := c.toks(full)
		wrap := needParen(n.op, i, c)
		if full && c.op != nil {
			wrap = true
		}
		if wrap {
			return append(append([]string{"("}, t...), ")")
		}
		return t
	}
	var out []string
	op := n.op
	switch op.form {
	case xfUnary:
		out = append(append(out, op.toks...), kid(0)...)
	case xfBinary:
		out = append(append(append(out, kid(0)...), op.toks...), kid(1)...)
	case xfIs:
		out = append(append(out, kid(0)...), op.toks...)
	case xfBetween:
		out = append(append(out, kid(0)...), op.toks...)
		out = append(append(append(out, kid(1)...), "AND"), kid(2)...)
	case xfInList:
		out = append(append(append(out, kid(0)...), op.toks...), "(")
		for i := 1; i < len(n.kids); i++ {
			if i > 1 {
				out = append(out, ",")
			}
			out = append(out, kid(i)...)
		}
		out = append(out, ")")
	case xfInUnnest:
		out = append(append(append(out, kid(0)...), op.toks...), "UNNEST", "(")
		out = append(append(out, kid(1)...), ")")
	case xfSel:
		out = append(append(out, kid(0)...), ".", "f")
	case xfIndex:
		out = append(append(out, kid(0)...), "[")
		if len(op.toks) > 0 {
			out = append(append(append(out, op.toks[0], "("), kid(1)...), ")")
		} else {
			out = append(out, kid(1)...)
		}
		out = append(out, "]")
	case xfCase:
		out = append(out, "CASE")
		i := 0
		for _, part := range op.toks {
			switch part {
			case "o":
				out = append(out, kid(i)...)
				i++
			case "w":
				out = append(append(append(append(out, "WHEN"), kid(i)...), "THEN"), kid(i+1)...)
				i += 2
			case "e":
				out = append(append(out, "ELSE"), kid(i)...)
				i++
			}
		}
		out = append(out, "END")
	case xfIf:
		out = append(out, "IF", "(")
		out = append(append(out, kid(0)...), ",")
		out = append(append(out, kid(1)...), ",")
		out = append(append(out, kid(2)...), ")")
	case xfCast:
		out = append(out, "CAST", "(")
		out = append(append(out, kid(0)...), "AS")
		out = append(append(out, op.toks...), ")")
	case xfArray:
		out = append(out, "[")
		for i := range n.kids {
			if i > 0 {
				out = append(out, ",")
			}
			out = append(out, kid(i)...)
		}
		out = append(out, "]")
	}
	return out
}

func (n *xnode) text(full bool) string { return strings.Join(n.toks(full), " ") }

// canon: canonical dump of an abstract tree after the parser's two normalisations (a sign in front of an
// unsigned numeric literal is part of the literal; selector chains are kept as chains).
func (n *xnode) canon() string {
	if n.op == nil {
		return n.atom
	}
	if n.op.form == xfUnary && (n.op.toks[0] == "+" || n.op.toks[0] == "-") {
		c := n.kids[0].canon()
		if len(c) > 0 && c[0] >= '0' && c[0] <= '9' {
			return n.op.toks[0] + c
		}
	}
	var sb strings.Builder
	id := n.op.id
	switch id { // spelling variants denote the same operator
	case "bin:<>":
		id = "bin:!="
	}
	sb.WriteString("(" + id)
	for _, k := range n.kids {
		sb.WriteString(" " + k.canon())
	}
	sb.WriteString(")")
	return sb.String()
}

func (n *xnode) nops() int {
	if n.op == nil {
		return 0
	}
	c := 1
	for _, k := range n.kids {
		c += k.nops()
	}
	return c
}

var xatoms = []string{"a", "1", "'x'"}

// enumTrees calls emit for every tree with exactly n operator occurrences over `ops`; leaves are numbered left to
// right and leaf i gets atom (i+rot) mod 3.
func enumTrees(ops []*xop, n int, rot int, emit func(*xnode)) {
	// shapes first (atoms assigned afterwards)
	var build func(n int) []*xnode
	memo := map[int][]*xnode{}
	build = func(n int) []*xnode {
		if v, ok := memo[n]; ok {
			return v
		}
		var out []*xnode
		if n == 0 {
			out = []*xnode{{}}
		} else {
			for _, op := range ops {
				// distribute n-1 occurrences over op.arity children
				var rec func(i, left int, kids []*xnode)
				rec = func(i, left int, kids []*xnode) {
					if i == op.arity-1 {
						for _, k := range build(left) {
							ks := append(append([]*xnode{}, kids...), k)
							out = append(out, &xnode{op: op, kids: ks})
						}
						return
					}
					for m := 0; m <= left; m++ {
						for _, k := range build(m) {
							rec(i+1, left-m, append(append([]*xnode{}, kids...), k))
						}
					}
				}
				rec(0, n-1, nil)
			}
		}
		memo[n] = out
		return out
	}
	for _, shape := range build(n) {
		leaf := rot
		var inst func(s *xnode) *xnode
		inst = func(s *xnode) *xnode {
			if s.op == nil {
				a := xatoms[leaf%len(xatoms)]
				leaf++
				return &xnode{atom: a}
			}
			c := &xnode{op: s.op}
			for _, k := range s.kids {
				c.kids = append(c.kids, inst(k))
			}
			return c
		}
		emit(inst(shape))
	}
}

func xopSet(repOnly bool, forms ...xform) []*xop {
	var out []*xop
	for i := range xops {
		op := &xops[i]
		if repOnly && !op.rep {
			continue
		}
		if len(forms) > 0 {
			ok := false
			for _, f := range forms {
				ok = ok || op.form == f
			}
			if !ok {
				continue
			}
		}
		out = append(out, op)
	}
	return out
}

// exprTrees is the tree distribution of C07: every tree over the full operator set with up to 2 (quick) / 3
// (thorough) operator occurrences (three atom rotations), every tree over the representative set (one operator per
// precedence level and form) with 3 / 4 occurrences, and every tree over the binary/unary skeleton with 4
// occurrences in the thorough tier.
func exprTrees(tier string, emit func(*xnode)) {
	full, rep := 2, 3
	if tier == "thorough" {
		full, rep = 3, 4
	}
	emit(&xnode{atom: "a"})
	emit(&xnode{atom: "1"})
	emit(&xnode{atom: "'x'"})
	all := xopSet(false)
	for n := 1; n <= full; n++ {
		for rot := 0; rot < 3; rot++ {
			if n == 3 && rot > 0 {
				break
			}
			enumTrees(all, n, rot, emit)
		}
	}
	reps := xopSet(true)
	if tier == "thorough" {
		reps = xopSet(true, xfBinary, xfUnary, xfSel, xfIs)
	}
	for n := full + 1; n <= rep; n++ {
		enumTrees(reps, n, n%3, emit)
	}
	subscriptWordTrees(tier, emit)
}

// xposWords: columns spelled like the position keywords of a subscript (the words are not reserved).
var xposWords = []string{"offset", "ORDINAL", "safe_offset", "Safe_Ordinal"}

// subscriptWordTrees: plain subscripts x[t] whose expression t starts with (more precisely: whose leftmost leaf is) a
// column spelled offset / ordinal / safe_offset / safe_ordinal — `a [ offset ]`, `a [ ORDINAL * 1 ]`, `a [ offset . f ]`,
// `a [ offset [ OFFSET ( 1 ) ] ]`, …  parseIndexSpecifier must take the word for the position keyword only in front of "(".
// Every tree with up to 1 (quick) / 2 (thorough) operator occurrences over the full operator set with each of the four
// words, and every tree with 2 / 3 occurrences over the representative set with the words in rotation.
func subscriptWordTrees(tier string, emit func(*xnode)) {
	var idx *xop
	for i := range xops {
		if xops[i].id == "idx" {
			idx = &xops[i]
		}
	}
	wrap := func(t *xnode, w string) {
		var sub func(n *xnode) *xnode
		sub = func(n *xnode) *xnode {
			if n.op == nil {
				return &xnode{atom: w}
			}
			c := &xnode{op: n.op, kids: append([]*xnode{}, n.kids...)}
			c.kids[0] = sub(n.kids[0])
			return c
		}
		emit(&xnode{op: idx, kids: []*xnode{{atom: "a"}, sub(t)}})
	}
	full := 1
	if tier == "thorough" {
		full = 2
	}
	all := xopSet(false)
	for n := 0; n <= full; n++ {
		enumTrees(all, n, 1, func(t *xnode) {
			for _, w := range xposWords {
				wrap(t, w)
			}
		})
	}
	cnt := 0
	enumTrees(xopSet(true), full+1, 2, func(t *xnode) {
		wrap(t, xposWords[cnt%len(xposWords)])
		cnt++
	})
}

var soupVocab = []string{
	"a", "b", "c", "1", "2", "2.5", "'x'", "b'y'", "@p", "NULL", "TRUE", "FALSE", "(", ")", "(", ")", "[", "]", ",", ".",
	"+", "-", "~", "*", "/", "||", "<<", ">>", "&", "^", "|", "=", "!=", "<>", "<", "<=", ">", ">=", "LIKE", "NOT", "IN",
	"BETWEEN", "AND", "OR", "IS", "UNNEST", "OFFSET", "`f`", "ordinal",
	"CASE", "WHEN", "THEN", "ELSE", "END", "IF", "WHEN", "THEN", "END",
	"CAST", "AS", "INT64", "CAST", "AS", "T",
}

var exprCases = []string{
	"- 1", "- -1", "-+1", "+ 1.5", "- - 1", "- - - 1", "-1", "+1", "~1", "~ -1", "- ~1", "-a", "- -a", "-(1)", "-(-1)", "- 0x1F", "-.5", "- 1e3",
	"a.b.c", "a.b[1].c", "(a).b", "a . b", "1 .b", "1.b", "a.b.c.d", "a.`b`.c", "`a`.b", "a.1", "a.select", "a[1].b.c", "(a.b).c", "a.b.*", "a.*",
	"@p.x", "'x'.f", "NULL.f", "a[OFFSET(1)]", "a[offset(1)]", "a[ORDINAL(1)]", "a[safe_offset(1)][SAFE_ORDINAL(2)]", "a[`offset`(1)]",
	"a[offset]", "a[ORDINAL * 2]", "a[offset.f]", "a[offset (1)]", "a[safe_offset]", "a[SAFE_ORDINAL]", "a[offset][ordinal]", "a[offset IS NULL]",
	"a[ordinal IN (1)]", "a[ordinal IN UNNEST(safe_offset)]", "a[offset(1) + 1]", "a[offset(1).f]", "a[offset[1]]", "a[offset[offset(offset)]]", "a[`offset`]",
	"a[offset .f]", "a[ordinal . f [ safe_offset ] ]", "a[- offset]", "a[NOT offset]", "a[offset", "a[offset(]", "a[offset(1]", "a[offset ()]", "a[offset 1]",
	"a[offset 'x']", "a[offset BETWEEN ordinal AND safe_ordinal]", "a[offset.f(1)]", "a[offset AND (1)]", "a[offset.*]", "a[offset -- c\n]", "a[offset /* c */ (1)]",
	"a[offset + 1]", "a[(offset)]", "a[b.c]", "a[1][2]", "a[b[c]]", "a[1 + 2]", "a[1, 2]", "a[]", "a[1", "a]",
	"a = b = c", "a = b < c", "a < b IS NULL", "a IS NULL IS NULL", "a IN (1) IN (2)", "a BETWEEN 1 AND 2 BETWEEN 3 AND 4", "a LIKE b LIKE c",
	"a NOT LIKE b", "a NOT b", "a NOT", "a IS", "a IS NOT", "a IS NOT NULL", "a IS NOT b", "NOT NOT a", "NOT a = b", "a = NOT b", "- NOT a",
	"a BETWEEN b AND c AND d", "a BETWEEN b | c AND d", "a BETWEEN b AND c OR d", "a BETWEEN b OR c AND d", "a BETWEEN b = c AND d",
	"a NOT BETWEEN 1 AND 2", "a BETWEEN 1", "a BETWEEN 1 AND", "a IN (1, 2, 3)", "a IN ()", "a IN (1,)", "a IN (1 2)", "a IN UNNEST(b)",
	"a IN UNNEST(b, c)", "a NOT IN UNNEST(b)", "a IN b", "a IN (b = c, d OR e)", "a IN ((1))", "a IN (1", "a || b * c", "a * b || c", "a - b - c",
	"a - (b - c)", "a + b * c", "(a + b) * c", "a * (b + c)", "((a))", "(((a)))", "()", "(", ")", "(a", "a)", "(a))", "((a)", "a + ", "+", "a b",
	"a OR b AND c", "a AND b OR c", "NOT a AND b", "NOT a OR b", "NOT (a AND b)", "a | b ^ c & d << e + f * -g", "a * b + c << d & e ^ f | g",
	"a << b >> c", "a >> b << c", "a & b | c ^ d", "a < b AND c > d OR e = f", "a <> b", "a != b", "~a.b", "- a.b[1]", "-a * b", "- a || b",
	"a IS TRUE", "a IS NOT FALSE", "a IS NOT TRUE AND b", "a = b IS NULL", "'x' 'y'", "1 2", "", " ", "a -- c", "a /* c */ + b", "a + /* c */ b",
	"TRUE AND FALSE", "NULL IS NULL", "@p + @q", "b'y' || b\"z\"", "r'x'", "'x''y'", "1.5e3 * .5", "0x10 + 1", "a.b IS NULL", "(a, b)", "(a, b).c",
	"f(x)", "a.f(x)", "COUNT(*)", "CASE WHEN a THEN b END", "IF(a, b, c)", "CAST(a AS INT64)", "[1, 2]", "ARRAY[1]", "(SELECT 1)", "((SELECT 1))",
	"a IN (SELECT 1)", "EXISTS(SELECT 1)", "DATE '2020-01-01'", "date + 1", "DATE", "`DATE` 'x'", "safe_cast + 1", "a.safe_cast", "NEW T()", "{a: 1}",
	"INTERVAL 1 DAY", "a ? b", "a ; b", "a => b", "$x", "\"unterminated", "a + 'x", "a IN UNNEST b", "UNNEST(a)", "a UNNEST", "OFFSET", "offset(1)",
	"CASE a WHEN 1 THEN -x ELSE b END + 1", "CASE WHEN a THEN b WHEN c THEN d ELSE e END", "CASE END", "CASE WHEN END", "CASE WHEN a END",
	"CASE WHEN a THEN END", "CASE WHEN a THEN b", "CASE WHEN a THEN b ELSE END", "CASE WHEN a THEN b ELSE c", "CASE a END", "CASE a ELSE b END",
	"CASE WHEN a THEN b ELSE c ELSE d END", "CASE WHEN a THEN b END END", "CASE CASE WHEN a THEN b END WHEN c THEN d END",
	"CASE WHEN CASE WHEN a THEN b END THEN c END", "CASE WHEN a THEN b END . f", "CASE WHEN a THEN b END [ 1 ]", "CASE WHEN a THEN b END IS NULL",
	"- CASE WHEN a THEN 1 END", "NOT CASE WHEN a THEN b END", "a + CASE WHEN a THEN b END * c", "CASE WHEN a OR b THEN c AND d ELSE NOT e END",
	"CASE a = b WHEN c THEN d END", "CASE WHEN a THEN b, c END", "case when a then b else c end", "CASE WHEN a THEN b WHEN END", "WHEN", "THEN a",
	"a ELSE b", "END", "a END", "CASE (a) WHEN (b) THEN (c) ELSE (d) END", "(CASE WHEN a THEN b END)", "x IN (CASE WHEN a THEN b END, 2)",
	"x IN UNNEST(CASE WHEN a THEN b END)", "a BETWEEN CASE WHEN a THEN b END AND IF(a,b,c)", "a[CASE WHEN a THEN 1 END]", "a[OFFSET(IF(a, 1, 2))]",
	"CASE a WHEN b THEN c WHEN d THEN e WHEN f THEN g END", "CASE - 1 WHEN - 1 THEN - 1 ELSE - 1 END", "CASE a.b WHEN c.d THEN e.f ELSE g.h END",
	"CASE WHEN a THEN b ELSE c END.f[1]", "CASE WHEN a THEN b /* c */ END", "CASE\nWHEN a\nTHEN b\nEND", "CASE WHEN a THEN b ELSE CASE WHEN c THEN d END END",
	"CASE a WHEN offset THEN b END", "a[CASE offset WHEN 1 THEN 2 END]", "CASE WHEN a THEN b END = CASE WHEN c THEN d END", "CASE WHEN a IS NULL THEN b END",
	"CASE WHEN a THEN b END WHEN", "CASE WHEN WHEN a THEN b END", "CASE THEN a END", "CASE ELSE a END", "CASE a WHEN b ELSE c END",
	"IF(a, b)", "IF(a, b, c, d)", "IF (a, b, c)", "IF(a b, c)", "IF a", "IF", "IF()", "IF(,,)", "IF(a, b, c", "IF(a, b, c).f", "IF(a, b, c)[0]",
	"IF(a, b, c) + 1", "- IF(a, 1, 2)", "IF(IF(a, b, c), IF(d, e, f), g)", "IF((a, b), c, d)", "IF(a, (b, c), d)", "if(a, b, c)", "`IF`(a, b, c)",
	"`if`", "a.IF", "a.case", "a.end", "IF(a IN (1, 2), b, c)", "IF(a, b, c) IN (IF(a, b, c))", "x[IF(a, b, c)]", "CASE IF(a, b, c) WHEN 1 THEN 2 END",
	"IF(CASE WHEN a THEN b END, c, d)", "IF(a, b, CASE WHEN a THEN b END)", "IF(a,b,c) IF(a,b,c)", "CASE WHEN a THEN b END CASE WHEN a THEN b END",
	"f(CASE WHEN a THEN b END)", "IF(f(a), b, c)", "IF(a, b, c)(1)", "IF(a OR b, c AND d, NOT e)", "IF(a, b, c) IS NOT NULL", "NOT IF(a, b, c)",
	"IF(a, b, c) BETWEEN IF(a, b, c) AND IF(a, b, c)", "IF(-1, +2, ~3)", "IF(a, b,)", "IF(a,, c)", "IF(a; b; c)", "IF[a, b, c]", "(IF)(a, b, c)",
	"[]", "[ ]", "[1]", "[1, 2, 3]", "[a, 'x', NULL]", "[[1], [2, 3], []]", "[1,]", "[,1]", "[1 2]", "[1", "[", "]", "[1, 2", "[1, 2)", "[1][0]",
	"[1, 2][OFFSET(0)]", "[a].f", "[a] . f", "- [1]", "NOT [a]", "[a] + [b]", "[a] || [b, c]", "a IN ([1], [2])", "a IN UNNEST([1, 2, 3])",
	"a[[1][0]]", "a [ [ 1 ] ]", "[a[1]]", "[a][b][c]", "[a OR b, NOT c, d = e]", "[(a, b)]", "[(a), (b)]", "[IF(a, b, c), CASE WHEN a THEN [b] END]",
	"CASE [1] WHEN [2] THEN [3] ELSE [4] END", "IF([a], [b], [c])", "[a] IS NULL", "[a] BETWEEN [b] AND [c]", "[1]. f", "[-1, - 1, +.5]",
	"a + [", "[ a + ]", "[a] [", "ARRAY[1]", "ARRAY<INT64>[1]", "[1] [2] [3]", "a.b[1]", "a . [1]", "a = [1]", "[f(1)]", "[DATE '2020-01-01']", "[a, b].c.d[0]",
	"CAST(a AS INT64)", "CAST(a AS int64)", "cast(a as Int64)", "CAST(a AS `INT64`)", "CAST(a AS STRING)", "CAST(a AS date)", "CAST(a AS TOKENLIST)",
	"CAST(a AS b)", "CAST(a AS b.c)", "CAST(a AS `b c`.d)", "CAST(a AS date.T)", "CAST(a AS int64.x.y)", "CAST(a AS `INT64`.x)", "CAST(a AS b.`INT64`)",
	"CAST(a AS ARRAY<INT64>)", "CAST(a AS STRUCT<x INT64>)", "CAST(a AS ARRAY<ARRAY<INT64>>)", "CAST(a AS)", "CAST(a AS 1)", "CAST(a AS INT64", "CAST(a INT64)",
	"CAST a AS INT64", "CAST(a, INT64)", "CAST(AS INT64)", "CAST()", "CAST", "CAST(a AS INT64 STRING)", "CAST(a AS b.)", "CAST(a AS .b)", "CAST(a AS b..c)",
	"CAST(a AS b.1)", "CAST(a AS b.select)", "CAST(a AS safe_cast)", "CAST(a AS offset(1))", "CAST(a AS DATE 'x')", "CAST(CAST(a AS INT64) AS STRING)",
	"CAST(a + b AS INT64) * 2", "- CAST(a AS INT64)", "CAST(a AS INT64).f", "CAST(a AS INT64)[0]", "CAST(a AS INT64) IS NULL", "CAST(a OR b AS BOOL)",
	"CAST(a AS b) AS c", "a AS b", "AS", "CAST([1, 2] AS x.y)", "[CAST(a AS INT64), CAST(b AS t)]", "IF(CAST(a AS BOOL), CAST(b AS INT64), c)",
	"CASE CAST(a AS INT64) WHEN 1 THEN CAST(b AS STRING) END", "CAST(a AS INT64) BETWEEN CAST(b AS INT64) AND CAST(c AS INT64)", "x IN (CAST(a AS INT64))",
	"SAFE_CAST(a AS INT64)", "safe_cast(a AS INT64)", "`CAST`(a AS INT64)", "CAST(a AS /* c */ INT64)", "CAST(a AS\nb . c)", "CAST(a AS b) . c", "CAST(a AS (b))",
	"x[offset](1)", "a . * b", "a + b . *", "a.", ".a", "a..b", "a [ 1 ] . f", "a . f [ 1 ]", "- a . f", "( - 1 ) . f", "-1 .f",
}

func genExpr(w *bufio.Writer, tier string, r *rng) {
	emit := func(s string) { fmt.Fprintf(w, "EXPR %s\n", hx(s)) }
	for _, s := range exprCases {
		emit(s)
	}
	exprTrees(tier, func(t *xnode) {
		emit(t.text(false))
		emit(t.text(true))
	})
	nsoup, nmut := 4000, 4000
	if tier == "thorough" {
		nsoup, nmut = 100000, 100000
	}
	for i := 0; i < nsoup; i++ {
		n := 1 + r.intn(9)
		parts := make([]string, n)
		for j := range parts {
			parts[j] = soupVocab[r.intn(len(soupVocab))]
		}
		emit(strings.Join(parts, " "))
	}
	// near-valid inputs: one token of a valid printing deleted, duplicated, replaced or swapped
	var pool [][]string
	exprTrees("quick", func(t *xnode) {
		if t.nops() >= 2 && len(pool) < 20000 {
			pool = append(pool, t.toks(false))
		}
	})
	for i := 0; i < nmut; i++ {
		src := pool[r.intn(len(pool))]
		ts := append([]string{}, src...)
		j := r.intn(len(ts))
		switch r.intn(4) {
		case 0:
			ts = append(ts[:j], ts[j+1:]...)
		case 1:
			ts = append(ts[:j+1], ts[j:]...)
		case 2:
			ts[j] = soupVocab[r.intn(len(soupVocab))]
		case 3:
			k := r.intn(len(ts))
			ts[j], ts[k] = ts[k], ts[j]
		}
		emit(strings.Join(ts, " "))
	}
}
