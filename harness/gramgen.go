package main

import (
	"strconv"
	"strings"
)

// The sentence enumerator over G (grammar.go).
//
// Systematic part, for every non-terminal A and every alternative a of A:
//   - the minimal sentence of a (every Opt absent, every List at its minimum, every non-terminal by its shortest
//     derivation), embedded in the cheapest sentence of a root that reaches A; for expression/type roots also embedded
//     in the cheapest STATEMENT (so that ParseStatement is compared too); and the same with all keywords in lower case;
//   - every Opt of a present alone (minimal context), and - when a has several - all present (maximal context) and all
//     present but this one;
//   - every List of a at lengths min, min+1, min+2;
//   - every position of a that takes an identifier filled from the identifier pool (quoted names, keyword-like names in
//     lower and upper case): a seed-dependent window of the pool in the quick tier, the whole pool in the thorough tier;
//   - thorough tier: every position of a filled with every alternative of the referenced non-terminal (pairs).
// Random part: seeded random derivations from the roots with a token budget.
// Everything is a function of (tier, seed).

type gSentence struct {
	entry string   // entry point of the root the sentence is derived from
	text  string   // the sentence
	prod  string   // non-terminal/alternative it exercises ("random/<root>" for the random stream)
	toks  []string // the significant tokens the generator put into the text, in order (independent of the lexer)
}

type gTok struct {
	text, sig    string
	kw           bool
	glueL, glueR bool
}

// gPlan fixes choices inside ONE alternative; everything not mentioned is derived minimally (or maximally with max).
type gPlan struct {
	opt  map[int]bool     // Opt slot -> present?
	llen map[int]int      // List slot -> length
	alt  map[int]int      // reference slot -> alternative of the referenced non-terminal
	sub  map[int]*gChoice // reference slot -> a fully planned derivation
	last map[int]int      // reference slot inside a List -> alternative used for the LAST element (of a list with >= 2 elements)
	max  bool             // unmentioned Opts present, unmentioned Lists one longer than their minimum
}

type gChoice struct {
	alt  *gAlt
	plan *gPlan
}

type gDeriv struct {
	g      *grammar
	out    []gTok
	cyc    map[*gRule]int
	rnd    *rng
	budget int
	avoid  map[string]bool // random stream: alternatives ("rule/alt") and identifiers not to pick
	inLast bool            // deriving the last element of a list with >= 2 elements (gPlan.last applies)
}

func (d *gDeriv) rule(r *gRule, depth int) {
	// random stream: half of the choices are the default derivation; identifiers are mostly plain names
	if d.rnd != nil && depth < 48 && len(d.out) < d.budget && d.rnd.intn(2) == 0 && (!r.every || d.rnd.intn(4) == 0) {
		for try := 0; try < 4; try++ {
			a := r.alts[d.rnd.intn(len(r.alts))]
			if d.avoid[r.name+"/"+a.name] {
				continue
			}
			d.alt(a, nil, depth)
			return
		}
	}
	k := r.minAlt
	if r.cycle > 0 {
		k = d.cyc[r] % r.cycle
		d.cyc[r]++
	}
	d.alt(r.alts[k], nil, depth)
}

func (d *gDeriv) alt(a *gAlt, p *gPlan, depth int) { d.seq(a.seq, p, depth, true) }

func (d *gDeriv) seq(seq []gSym, p *gPlan, depth int, first bool) {
	random := d.rnd != nil && p == nil && depth < 48 && len(d.out) < d.budget
	for i := range seq {
		s := &seq[i]
		switch s.kind {
		case gTerm:
			d.out = append(d.out, gTok{s.text, s.sig, s.kw, s.glueL, s.glueR})
		case gRef:
			r := d.g.rules[s.text]
			if p != nil && d.inLast {
				if k, ok := p.last[s.slot]; ok {
					d.alt(r.alts[k], nil, depth+1)
					continue
				}
			}
			if p != nil && first {
				if c := p.sub[s.slot]; c != nil {
					d.alt(c.alt, c.plan, depth+1)
					continue
				}
				if k, ok := p.alt[s.slot]; ok {
					d.alt(r.alts[k], nil, depth+1)
					continue
				}
			}
			d.rule(r, depth+1)
		case gOpt:
			present := false
			if p != nil {
				if v, ok := p.opt[s.slot]; ok {
					present = v
				} else {
					present = p.max
				}
			} else if random {
				present = d.rnd.intn(3) == 0
			}
			if present {
				d.seq(s.body, p, depth, first)
			}
		case gList:
			n := s.min
			if p != nil {
				if v, ok := p.llen[s.slot]; ok {
					n = v
				} else if p.max {
					n = s.min + 1
				}
			} else if random {
				switch d.rnd.intn(8) {
				case 0, 1:
					n++
				case 2:
					n += 2
				}
			}
			for j := 0; j < n; j++ {
				if j > 0 {
					d.seq(s.sep, p, depth, false)
				}
				saved := d.inLast
				d.inLast = j > 0 && j == n-1
				d.seq(s.body, p, depth, first && j == 0)
				d.inLast = saved
			}
		}
	}
}

// gRender lays the tokens out: one blank between tokens except where the grammar says the usual spelling has none;
// never glues two tokens whose spellings would merge into a comment opener or another token ("- -1", not "--1").
func gRender(toks []gTok, lower bool) string {
	var sb strings.Builder
	for i, t := range toks {
		text := t.text
		if lower && t.kw {
			text = strings.ToLower(text)
		}
		if i > 0 {
			prev := toks[i-1]
			glue := prev.glueR || t.glueL
			if glue && len(prev.text) > 0 && len(text) > 0 {
				a, b := prev.text[len(prev.text)-1], text[0]
				if (a == '-' && b == '-') || (a == '+' && b == '+') || (a == '/' && (b == '*' || b == '/')) || (a == '.' && strings.HasPrefix(t.sig, "num:")) || (strings.HasPrefix(prev.sig, "num:") && b == '.') || (a == '<' && b == '<') {
					glue = false
				}
			}
			if !glue {
				sb.WriteByte(' ')
			}
		}
		sb.WriteString(text)
	}
	return sb.String()
}

// ---------------------------------------------------------------------------------------------
// contexts: the cheapest embedding of every non-terminal in a sentence of a root

type gCtx struct {
	parent *gAlt // nil: the non-terminal is itself a root
	slot   int
	cost   int
}

func (g *grammar) forcedCost(a *gAlt, slot int) int {
	forced := map[int]bool{}
	for p := a.slots[slot].parent; p >= 0; p = a.slots[p].parent {
		forced[p] = true
	}
	var sc func(seq []gSym) int
	sc = func(seq []gSym) int {
		c := 0
		for i := range seq {
			s := &seq[i]
			switch s.kind {
			case gTerm:
				c++
			case gRef:
				c += g.rules[s.text].cost
			case gOpt:
				if forced[s.slot] {
					c += sc(s.body)
				}
			case gList:
				n := s.min
				if forced[s.slot] && n < 1 {
					n = 1
				}
				if n > 0 {
					c += n*sc(s.body) + (n-1)*sc(s.sep)
				}
			}
		}
		return c
	}
	return sc(a.seq)
}

func (g *grammar) contexts(isRoot func(*gRule) bool) map[*gRule]*gCtx {
	ctx := map[*gRule]*gCtx{}
	for _, r := range g.order {
		if r.entry != "" && isRoot(r) {
			ctx[r] = &gCtx{}
		}
	}
	for changed := true; changed; {
		changed = false
		for _, b := range g.order {
			cb := ctx[b]
			if cb == nil {
				continue
			}
			for _, a := range b.alts {
				if g.avoid[b.name+"/"+a.name] {
					continue
				}
				for si, sl := range a.slots {
					if sl.sym.kind != gRef {
						continue
					}
					child := g.rules[sl.sym.text]
					c := cb.cost + g.forcedCost(a, si) - child.cost
					if old := ctx[child]; old == nil || c < old.cost {
						ctx[child] = &gCtx{parent: a, slot: si, cost: c}
						changed = true
					}
				}
			}
		}
	}
	return ctx
}

// force makes slot (and the Opts / Lists around it) present in plan p of alternative a.
// gEnclosingList: the innermost List slot that contains the slot, or -1.
func gEnclosingList(a *gAlt, slot int) int {
	for s := a.slots[slot].parent; s >= 0; s = a.slots[s].parent {
		if a.slots[s].sym.kind == gList {
			return s
		}
	}
	return -1
}

func gForce(a *gAlt, p *gPlan, slot int) {
	for s := slot; s >= 0; s = a.slots[s].parent {
		sym := a.slots[s].sym
		switch sym.kind {
		case gOpt:
			if p.opt == nil {
				p.opt = map[int]bool{}
			}
			p.opt[s] = true
		case gList:
			if p.llen == nil {
				p.llen = map[int]int{}
			}
			if p.llen[s] < max(sym.min, 1) {
				p.llen[s] = max(sym.min, 1)
			}
		}
	}
}

// embed wraps a planned derivation of some non-terminal into the cheapest sentence of a root.
func gEmbed(ctx map[*gRule]*gCtx, c *gChoice) (*gChoice, bool) {
	for {
		cx := ctx[c.alt.rule]
		if cx == nil {
			return nil, false
		}
		if cx.parent == nil {
			return c, true
		}
		p := &gPlan{sub: map[int]*gChoice{cx.slot: c}}
		gForce(cx.parent, p, cx.slot)
		c = &gChoice{cx.parent, p}
	}
}

// ---------------------------------------------------------------------------------------------

type gEnum struct {
	g       *grammar
	all     map[*gRule]*gCtx
	stmt    map[*gRule]*gCtx
	out     []gSentence
	seen    map[string]bool
	perProd map[string]int
}

func (e *gEnum) add(root *gChoice, prod string, lower bool) {
	d := &gDeriv{g: e.g, cyc: map[*gRule]int{}}
	d.alt(root.alt, root.plan, 0)
	e.push(root.alt.rule.entry, d.out, prod, lower)
}

func (e *gEnum) push(entry string, toks []gTok, prod string, lower bool) {
	text := gRender(toks, lower)
	for _, x := range gExcluded {
		if x.re.MatchString(text) {
			return
		}
	}
	if gExcludedToks(toks) {
		return
	}
	key := entry + "|" + text
	e.perProd[prod]++ // coverage counts derivations, also those whose text another production already produced
	if e.seen[key] {
		return
	}
	e.seen[key] = true
	sig := make([]string, len(toks))
	for i, t := range toks {
		sig[i] = t.sig
	}
	e.out = append(e.out, gSentence{entry: entry, text: text, prod: prod, toks: sig})
}

// emit derives the planned alternative inside its cheapest root sentence.
func (e *gEnum) emit(a *gAlt, p *gPlan, prod string) {
	if c, ok := gEmbed(e.all, &gChoice{a, p}); ok {
		e.add(c, prod, false)
	}
}

func gStmtRoot(r *gRule) bool { return r.entry != "ParseExpr" && r.entry != "ParseType" }

func gSentencesOf(g *grammar, tier string, seed uint64) ([]gSentence, map[string]int) {
	e := &gEnum{g: g, seen: map[string]bool{}, perProd: map[string]int{}}
	e.all = g.contexts(func(*gRule) bool { return true })
	e.stmt = g.contexts(gStmtRoot)
	thorough := tier == "thorough"
	var pool *gRule
	for _, r := range g.order {
		if r.every {
			pool = r
		}
	}
	slotNo := 0
	for _, r := range g.order {
		for _, a := range r.alts {
			prod := r.name + "/" + a.name
			// 1. the minimal sentence, in the cheapest root and in the cheapest statement, and in lower case
			min := &gChoice{a, &gPlan{}}
			if c, ok := gEmbed(e.all, min); ok {
				e.add(c, prod, false)
				e.add(c, prod, true)
				if !gStmtRoot(c.alt.rule) {
					if c2, ok := gEmbed(e.stmt, min); ok {
						e.add(c2, prod, false)
					}
				}
			}
			if r.lexical {
				continue
			}
			var opts, lists, refs []int
			for si, sl := range a.slots {
				switch sl.sym.kind {
				case gOpt:
					opts = append(opts, si)
				case gList:
					lists = append(lists, si)
				case gRef:
					refs = append(refs, si)
				}
			}
			// 2. optionals: each alone; all; all but each
			for _, o := range opts {
				p := &gPlan{}
				gForce(a, p, o)
				e.emit(a, p, prod)
			}
			if len(opts)+len(lists) > 0 {
				e.emit(a, &gPlan{max: true}, prod)
			}
			if len(opts) >= 2 {
				for _, o := range opts {
					e.emit(a, &gPlan{max: true, opt: map[int]bool{o: false}}, prod)
				}
			}
			// 3. lists: min, min+1, min+2
			for _, l := range lists {
				for n := a.slots[l].sym.min; n <= a.slots[l].sym.min+2; n++ {
					p := &gPlan{}
					gForce(a, p, l)
					p.llen[l] = n
					e.emit(a, p, prod)
				}
			}
			// 4. identifier positions x identifier pool; 5. (thorough) positions x alternatives of the referenced non-terminal
			for _, s := range refs {
				child := g.rules[a.slots[s].sym.text]
				slotNo++
				switch {
				case child == pool:
					special := len(child.alts) - child.cycle
					n := 6
					if thorough {
						n = special
					}
					start := (slotNo*7 + int(seed%1000)*n) % special
					for j := 0; j < n; j++ {
						p := &gPlan{alt: map[int]int{s: child.cycle + (start+j)%special}}
						gForce(a, p, s)
						e.emit(a, p, prod)
					}
					// a name inside a LIST of names: every back-quoted keyword-like word as the last of two elements (a word that ends
					// the list when it is read as a keyword must not do so when it is a quoted name, nor after SQL() printed it)
					if l := gEnclosingList(a, s); l >= 0 {
						for k, ca := range child.alts {
							// (round 3, seed C08h: also the UNQUOTED keyword-like words — a look-ahead that decides on the spelling of one
							// token behind a comma must not cut a list in front of a column that merely is called like the next clause)
							if len(ca.seq) == 1 && gIsKeywordLike(strings.Trim(ca.seq[0].text, "`")) {
								slotNo++
								if !thorough && slotNo%2 != int(seed%2) {
									continue
								}
								p := &gPlan{last: map[int]int{s: k}}
								gForce(a, p, s)
								p.llen[l] = max(a.slots[l].sym.min, 2)
								e.emit(a, p, prod)
							}
						}
					}
				// (round 3, seed C08j: every spelling of an integer literal at every integer position, in the quick tier too)
				case (thorough || child.name == "int_lit") && len(child.alts) > 1:
					for k, ca := range child.alts {
						if g.avoid[child.name+"/"+ca.name] {
							continue // a listed finding: derived under its own production only
						}
						p := &gPlan{alt: map[int]int{s: k}}
						gForce(a, p, s)
						e.emit(a, p, prod)
					}
				}
			}
		}
	}
	// random derivations
	n := 13000
	if thorough {
		n = 170000
	}
	var roots []*gRule
	for _, r := range g.order {
		if r.entry != "" {
			roots = append(roots, r)
		}
	}
	weights := map[string]int{"ParseQuery": 7, "ParseExpr": 4, "ParseType": 1, "ParseDML": 3, "ParseDDL": 6, "ParseStatement": 1}
	var wheel []*gRule
	for _, r := range roots {
		for i := 0; i < weights[r.entry]; i++ {
			wheel = append(wheel, r)
		}
	}
	rnd := &rng{s: seed*0x9e3779b9 + 0x47}
	for i := 0; i < n; i++ {
		r := wheel[rnd.intn(len(wheel))]
		d := &gDeriv{g: g, cyc: map[*gRule]int{}, rnd: rnd, budget: 6 + rnd.intn(50), avoid: g.avoid}
		d.cyc[pool] = rnd.intn(pool.cycle)
		d.rule(r, 0)
		e.push(r.entry, d.out, "random/"+r.name, rnd.intn(8) == 0)
	}
	return e.out, e.perProd
}

var gSentCache = map[string][]gSentence{}
var gCoverCache = map[string]map[string]int{}

// gSentences: the sentences of G for a tier and seed (deterministic).
func gSentences(tier string, seed uint64) []gSentence {
	key := tier + "/" + strconv.FormatUint(seed, 10)
	if s, ok := gSentCache[key]; ok {
		return s
	}
	s, cov := gSentencesOf(G(), tier, seed)
	gSentCache[key], gCoverCache[key] = s, cov
	return s
}

// gCoverage: derivations per production ("non-terminal/alternative") of the same enumeration.
func gCoverage(tier string, seed uint64) map[string]int {
	gSentences(tier, seed)
	return gCoverCache[tier+"/"+strconv.FormatUint(seed, 10)]
}

// gNonTerminal: the coverage group of a production name.
func gNonTerminal(prod string) string {
	if i := strings.IndexByte(prod, '/'); i >= 0 {
		return prod[:i]
	}
	return prod
}
