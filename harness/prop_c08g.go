package main

import (
	"fmt"
	"strings"

	"github.com/cloudspannerecosystem/memefish/token"
)

// gTokenSig: the significant token of one lexed token, in the vocabulary of gSentence.toks (no canonicalisation at all:
// the generator knows exactly which tokens it wrote).
func gTokenSig(t token.Token) string {
	switch t.Kind {
	case token.TokenIdent:
		return "id:" + strings.ToUpper(t.AsString)
	case token.TokenParam:
		return "param:" + strings.ToUpper(t.AsString)
	case token.TokenString:
		return "str:" + t.AsString
	case token.TokenBytes:
		return "bytes:" + t.AsString
	case token.TokenInt, token.TokenFloat:
		return "num:" + strings.ToUpper(t.Raw)
	}
	return string(t.Kind)
}

// gCheck: a sentence of G is accepted by its entry point and by ParseStatement with equal trees (c08Check), and the
// lexer sees exactly the tokens the generator wrote.
func gCheck(s gSentence) string {
	if d := c08Check(entryByName(s.entry), s.text); d != "" {
		return d
	}
	toks, ok := tokenSpans(s.text)
	if !ok {
		return "the sentence does not lex"
	}
	// ">>" closing two type brackets is one token for the lexer (the parser splits it): compare with both sides split
	split := func(in []string) (out []string) {
		for _, x := range in {
			if x == ">>" {
				out = append(out, ">", ">")
			} else {
				out = append(out, x)
			}
		}
		return
	}
	var got []string
	for _, t := range toks {
		if t.Kind != token.TokenEOF {
			got = append(got, gTokenSig(t))
		}
	}
	got = split(got)
	want := split(s.toks)
	if a, b := strings.Join(got, "\x00"), strings.Join(want, "\x00"); a != b {
		i := 0
		for i < len(got) && i < len(want) && got[i] == want[i] {
			i++
		}
		g, w := "<end>", "<end>"
		if i < len(got) {
			g = got[i]
		}
		if i < len(want) {
			w = want[i]
		}
		return fmt.Sprintf("token %d: the lexer gives %q where the generator wrote %q", i, g, w)
	}
	return ""
}

// c08Grammar runs the sentences of G (grammar.go) for propC08 and returns the accepted statements for the list stage.
func c08Grammar(o *propOpts, res *propResult) (stmts, ddls, dmls []string) {
	for _, s := range gSentences(o.tier, o.seed) {
		res.eval(s.entry+"|"+s.text, len(s.toks) >= 4, func() any { return map[string]any{"entry": s.entry, "sentence": s.text, "production": s.prod} })
		res.count("G:" + gNonTerminal(s.prod))
		if d := gCheck(s); d != "" {
			if key, why, ok := gKnown(s, d); ok {
				res.count("G-known")
				res.fail("G-known:"+key, s.text, s.entry, d+" [known: "+why+"; production "+s.prod+"]")
			} else {
				res.fail("g:"+s.entry+":"+s.text, s.text, s.entry, d+" [production "+s.prod+"]")
			}
			continue
		}
		switch s.entry {
		case "ParseDDL":
			ddls = append(ddls, s.text)
			stmts = append(stmts, s.text)
		case "ParseDML":
			dmls = append(dmls, s.text)
			stmts = append(stmts, s.text)
		case "ParseQuery", "ParseStatement":
			stmts = append(stmts, s.text)
		}
	}
	return
}
