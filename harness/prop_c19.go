package main

import (
	"bytes"
	"fmt"
	"os"
	"os/exec"
	"path/filepath"

	"github.com/cloudspannerecosystem/memefish/ast"
	"github.com/cloudspannerecosystem/memefish/token"
	"github.com/cloudspannerecosystem/memefish/tools/util/astcatalog"
	"github.com/cloudspannerecosystem/memefish/tools/util/poslang"
)

func init() { propTable["C19"] = propC19 }

// runGenerator runs one of the repository's own generators from the working tree into a scratch file.
func runGenerator(tool, out string) (string, error) {
	root := repoRoot()
	cmd := exec.Command("go", "run", "./tools/"+tool+"/main.go", "-astfile", "ast/ast.go", "-constfile", "ast/ast_const.go", "-outfile", out)
	cmd.Dir = root
	cmd.Env = append(os.Environ(), "GOFLAGS=-mod=mod", "GOPROXY=off", "GOSUMDB=off", "GOTOOLCHAIN=local")
	b, err := cmd.CombinedOutput()
	return string(b), err
}

type posExprs struct{ pos, end poslang.PosExpr }

func loadPosExprs() (map[string]posExprs, error) {
	root := repoRoot()
	cat, err := astcatalog.Load(filepath.Join(root, "ast", "ast.go"), filepath.Join(root, "ast", "ast_const.go"))
	if err != nil {
		return nil, err
	}
	out := map[string]posExprs{}
	for _, sd := range cat.Structs {
		p, err := poslang.Parse(sd.Pos)
		if err != nil {
			return nil, fmt.Errorf("%s pos: %v", sd.Name, err)
		}
		e, err := poslang.Parse(sd.End)
		if err != nil {
			return nil, fmt.Errorf("%s end: %v", sd.Name, err)
		}
		out[sd.Name] = posExprs{p, e}
	}
	return out, nil
}

func propC19(o *propOpts) *propResult {
	res := newResult("cases: (1) the two generators of the repository run on the working tree and compared byte for byte with ast/pos.go and ast/walk_internal.go; (2) for every node of every parsed corpus input and token-level mutation: poslang.EvalPos of the documented pos/end expression vs the compiled Pos()/End(); non-trivial = node whose documented expression has a choice, an addition or a slice access (value differs from a plain field read); (3) for every returned tree: the events of the generated Walk vs the exported node-typed fields in declaration order, by reflection; distinct by (kind, pos, end, input)")
	// (1) byte-for-byte
	scratch := filepath.Join(os.TempDir(), fmt.Sprintf("mf-gen-%d", os.Getpid()))
	os.MkdirAll(scratch, 0o755)
	defer os.RemoveAll(scratch)
	for _, g := range []struct{ tool, file string }{{"gen-ast-pos", "pos.go"}, {"gen-ast-walk", "walk_internal.go"}} {
		out := filepath.Join(scratch, g.file)
		if msg, err := runGenerator(g.tool, out); err != nil {
			res.fail("generator:"+g.tool, g.tool, "tools/"+g.tool, "generator failed: "+msg)
			continue
		}
		got, _ := os.ReadFile(out)
		want, _ := os.ReadFile(filepath.Join(repoRoot(), "ast", g.file))
		res.Evaluations++
		res.count("generator_runs")
		if !bytes.Equal(got, want) {
			line := 1
			for i := 0; i < len(got) && i < len(want) && got[i] == want[i]; i++ {
				if got[i] == '\n' {
					line++
				}
			}
			res.fail("generated:"+g.file, g.file, "tools/"+g.tool, fmt.Sprintf("ast/%s differs from the generator's output (first difference at line %d)", g.file, line))
		}
	}
	// (2) interpreter vs compiled methods
	exprs, err := loadPosExprs()
	if err != nil {
		res.fail("catalog", "", "astcatalog.Load", err.Error())
		return res
	}
	checkNode := func(input string, n ast.Node) {
		k := kindName(n)
		ex, ok := exprs[k]
		if !ok {
			res.fail("nokind:"+k, input, k, "node kind has no documented pos/end expression")
			return
		}
		var gp, ge, ip, ie token.Pos
		if p := safely(func() { gp, ge = n.Pos(), n.End() }); p != nil {
			return // C04's subject
		}
		if p := safely(func() { ip, ie = ex.pos.EvalPos(n), ex.end.EvalPos(n) }); p != nil {
			res.fail("evalpanic:"+k, input, k, fmt.Sprint("poslang.EvalPos panicked: ", p))
			return
		}
		_, plainP := ex.pos.(*poslang.Var)
		_, plainE := ex.end.(*poslang.Var)
		res.eval(fmt.Sprintf("%s/%d/%d/%s", k, gp, ge, input), !(plainP && plainE), func() any {
			return map[string]any{"kind": k, "pos": ex.pos.Unparse(), "end": ex.end.Unparse(), "Pos()": gp, "End()": ge}
		})
		res.count("kind_" + k)
		if ip != gp || ie != ge {
			res.fail("mismatch:"+k, input, k, fmt.Sprintf("documented pos=%q end=%q evaluate to (%d,%d) but Pos()/End() return (%d,%d)", ex.pos.Unparse(), ex.end.Unparse(), ip, ie, gp, ge))
		}
	}
	run := func(e *entry, s string) {
		r := safeParse(e, s)
		if r.hung || r.panicked != nil {
			return
		}
		for _, root := range r.nodes {
			for _, n := range allNodes(root) {
				checkNode(s, n)
			}
			// (3) the traversal clause of C19 on a concrete tree: Walk enumerates exactly the exported node-typed fields in declaration
			// order (expectation by reflection, independent of walk_internal.go) — the replay for a generator that drops a field
			if isNilNode(root) {
				continue
			}
			if _, d := c17Check(root, 0); d != "" {
				res.fail("walk:"+kindName(root), s, e.name, "generated traversal differs from the node-typed fields in declaration order: "+d)
			}
		}
	}
	if o.single != nil {
		b, _ := unhex(o.single.Input)
		for i := range entries {
			run(&entries[i], string(b))
		}
		return res
	}
	treeInputs(o.tier, &rng{s: o.seed}, run)
	// keep the histogram readable: kinds seen, not one key per kind
	kinds := 0
	for k := range res.Hist {
		if len(k) > 5 && k[:5] == "kind_" {
			kinds++
			delete(res.Hist, k)
		}
	}
	res.Hist["node_kinds_seen"] = kinds
	res.Hist["node_kinds_documented"] = len(exprs)
	return res
}
