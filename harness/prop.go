package main

import (
	"bufio"
	"encoding/json"
	"fmt"
	"os"
	"sort"
	"strconv"
	"strings"
)

// failure is one concrete input on which the property's predicate is false on the real code.
type failure struct {
	Key    string `json:"key"`    // stable identity used by known-findings.txt
	Input  string `json:"input"`  // hex
	Text   string `json:"text"`   // the same, quoted, for humans
	Entry  string `json:"entry"`  // entry point / function
	Detail string `json:"detail"` // observed vs required
}

type propResult struct {
	Evaluations        int            `json:"evaluations"`
	DistinctNontrivial int            `json:"distinct_nontrivial"`
	Rule               string         `json:"rule"`
	Samples            []any          `json:"samples"`
	Hist               map[string]int `json:"hist"`
	Failures           []failure      `json:"failures"`

	seen map[string]bool
}

func newResult(rule string) *propResult {
	return &propResult{Rule: rule, Hist: map[string]int{}, seen: map[string]bool{}}
}

func (r *propResult) count(k string) { r.Hist[k]++ }

// eval records one evaluated case; nontrivial says whether it counts as non-trivial by the rule.
func (r *propResult) eval(id string, nontrivial bool, sample func() any) {
	r.Evaluations++
	if nontrivial && !r.seen[id] {
		r.seen[id] = true
		r.DistinctNontrivial++
		if len(r.Samples) < 8 && (r.DistinctNontrivial%97 == 1 || len(r.Samples) == 0) {
			r.Samples = append(r.Samples, sample())
		}
	}
}

func (r *propResult) fail(key, input, entry, detail string) {
	if len(r.Failures) >= 50 {
		return
	}
	for _, f := range r.Failures {
		if f.Key == key {
			return
		}
	}
	r.Failures = append(r.Failures, failure{Key: key, Input: hx(input), Text: strconv.Quote(input), Entry: entry, Detail: detail})
}

type propOpts struct {
	prop   string
	tier   string
	seed   uint64
	hints  []string // request lines on which a correspondence channel disagreed: searched first
	single *failure // replay mode
}

var propTable = map[string]func(o *propOpts) *propResult{}

func propMain(args []string) {
	if len(args) < 3 {
		fmt.Fprintln(os.Stderr, "usage: mfh prop <Cxx> <tier> <seed> [--hints file] [--input json]")
		os.Exit(2)
	}
	o := &propOpts{prop: args[0], tier: args[1]}
	o.seed, _ = strconv.ParseUint(args[2], 10, 64)
	for i := 3; i+1 < len(args); i += 2 {
		switch args[i] {
		case "--hints":
			if f, err := os.Open(args[i+1]); err == nil {
				sc := bufio.NewScanner(f)
				sc.Buffer(make([]byte, 1<<20), 1<<24)
				for sc.Scan() {
					o.hints = append(o.hints, sc.Text())
				}
				f.Close()
			}
		case "--input":
			var fl failure
			if err := json.Unmarshal([]byte(args[i+1]), &fl); err == nil {
				o.single = &fl
			}
		}
	}
	fn, ok := propTable[args[0]]
	if !ok {
		fmt.Fprintln(os.Stderr, "no predicate for", args[0])
		os.Exit(2)
	}
	res := fn(o)
	if res.Failures == nil {
		res.Failures = []failure{}
	}
	if res.Samples == nil {
		res.Samples = []any{}
	}
	sort.Slice(res.Failures, func(i, j int) bool { return len(res.Failures[i].Input) < len(res.Failures[j].Input) })
	b, _ := json.Marshal(res)
	fmt.Println(string(b))
}

// hintInputs extracts the byte-string argument (last hex field) of hinted request lines.
func hintInputs(o *propOpts) []string {
	var out []string
	for _, h := range o.hints {
		f := strings.Split(h, " ")
		if b, ok := unhex(f[len(f)-1]); ok {
			out = append(out, string(b))
		}
	}
	return out
}

// lexInputs is the input distribution shared by the lexer-level predicates: replay input or hints
// first, then the same streams as the LEX channel.
func lexInputs(o *propOpts, each func(s string)) {
	if o.single != nil {
		b, _ := unhex(o.single.Input)
		each(string(b))
		return
	}
	for _, s := range hintInputs(o) {
		each(s)
	}
	n24, n12, nrand := 3, 4, 5000
	if o.tier == "thorough" {
		n24, n12, nrand = 4, 6, 200000
	}
	enumStrings(alpha24, n24, func(b []byte) { each(string(b)) })
	enumStrings(alpha12, n12, func(b []byte) { each(string(b)) })
	focusedStrings(o.tier, func(b []byte) { each(string(b)) })
	byteMarkCases(each)
	for _, s := range corpusStrings() {
		each(s)
	}
	r := &rng{s: o.seed}
	for i := 0; i < nrand; i++ {
		each(string(randomLexInput(r)))
	}
}
