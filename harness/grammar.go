package main

import (
	"fmt"
	"strings"
)

// The reference grammar G of Spanner GoogleSQL, as data.
//
// G is a set of non-terminals; each has alternatives; each alternative is a sequence of symbols; a symbol is a terminal
// (T), a reference to a non-terminal (N), an optional sub-sequence (Opt) or a repetition (List: element sequence,
// separator sequence, minimal length).  The productions are written from the Spanner documentation (query syntax,
// operators and their precedence table, function-call syntax, data types, lexical structure, DML syntax, DDL
// reference, graph schema statements, procedural CALL) in the bracket notation the documentation itself uses;
// gCompile turns that notation into the gSym structure.  Nothing here is transcribed from parser.go: the only
// thing taken from memefish is WHICH documented statements it has entry points / AST nodes for at all (the property
// restricts G to those); see TASK_L_REPORT.md for the forms left out because memefish has no node for them.
//
// Notation of one alternative (blank-separated):
//
//	UPPER , ( = ...   a terminal: keyword or punctuation, spelled as written
//	'x'               a terminal that collides with the notation ( '[' ']' '{' '}' '/' '~' )
//	lower_name        a reference to the non-terminal of that name
//	[ ... ]           Opt(...)
//	{n elem... / sep... }   List(elem, sep, n); without "/ sep" the elements are juxtaposed
//	~X  X~            layout only: no blank before / after this terminal (f(x), a.b, t@{...}); has no syntactic meaning
//	name: ...         names the alternative (otherwise it is numbered)

type gKind uint8

const (
	gTerm gKind = iota // terminal
	gRef               // non-terminal reference
	gOpt               // optional sequence
	gList              // repetition
)

type gSym struct {
	kind         gKind
	text         string // gTerm: spelling; gRef: name of the non-terminal
	sig          string // gTerm: the significant token the generator expects the lexer to produce
	kw           bool   // gTerm: a keyword (a word of the language, case-insensitive; may be re-cased)
	glueL, glueR bool   // gTerm: layout
	body         []gSym // gOpt: the sequence; gList: one element
	sep          []gSym // gList: separator sequence (may be empty)
	min          int    // gList: minimal number of elements
	slot         int    // gOpt, gList, gRef: number of this occurrence inside its alternative (pre-order)
}

// T, N, Opt and List are the four constructors of the data structure.
func T(text string) gSym   { return gSym{kind: gTerm, text: text, sig: gSigOf(text), kw: gIsWord(text)} }
func N(name string) gSym   { return gSym{kind: gRef, text: name} }
func Opt(seq ...gSym) gSym { return gSym{kind: gOpt, body: seq} }
func List(elem []gSym, sep []gSym, min int) gSym {
	return gSym{kind: gList, body: elem, sep: sep, min: min}
}

type gSlot struct {
	sym    *gSym
	parent int // enclosing Opt/List slot, -1 at top level
}

type gAlt struct {
	name  string
	seq   []gSym
	slots []gSlot
	rule  *gRule
	index int
	cost  int // terminals of the minimal derivation
}

type gRule struct {
	name    string
	entry   string // entry point, for the roots
	alts    []*gAlt
	lexical bool // alternatives are single lexical terminals (literal spellings, identifier pool)
	cycle   int  // default derivations rotate through the first `cycle` alternatives (distinct names / numbers)
	every   bool // every alternative is tried at every referencing position (the identifier pool)
	cost    int
	minAlt  int
}

type grammar struct {
	rules map[string]*gRule
	order []*gRule
	avoid map[string]bool // alternatives ("non-terminal/alternative") never used as the default derivation or as context
}

// gReserved is the documentation's list of reserved keywords (lexical structure page); every other word of the
// language is an ordinary identifier for the lexer. GRAPH_TABLE is reserved in Spanner.
var gReserved = map[string]bool{}

func init() {
	for _, w := range strings.Fields(`ALL AND ANY ARRAY AS ASC ASSERT_ROWS_MODIFIED AT BETWEEN BY CASE CAST COLLATE CONTAINS CREATE CROSS CUBE CURRENT
		DEFAULT DEFINE DESC DISTINCT ELSE END ENUM ESCAPE EXCEPT EXCLUDE EXISTS EXTRACT FALSE FETCH FOLLOWING FOR FROM FULL GRAPH_TABLE GROUP GROUPING GROUPS
		HASH HAVING IF IGNORE IN INNER INTERSECT INTERVAL INTO IS JOIN LATERAL LEFT LIKE LIMIT LOOKUP MERGE NATURAL NEW NO NOT NULL NULLS OF ON OR ORDER
		OUTER OVER PARTITION PRECEDING PROTO RANGE RECURSIVE RESPECT RIGHT ROLLUP ROWS SELECT SET SOME STRUCT TABLESAMPLE THEN TO TREAT TRUE UNBOUNDED
		UNION UNNEST USING WHEN WHERE WINDOW WITH WITHIN`) {
		gReserved[w] = true
	}
}

func gIsWord(s string) bool {
	if s == "" {
		return false
	}
	c := s[0]
	return c == '_' || (c >= 'A' && c <= 'Z') || (c >= 'a' && c <= 'z')
}

// gSigOf: the significant token of a keyword / punctuation terminal.
func gSigOf(text string) string {
	if !gIsWord(text) {
		return text
	}
	u := strings.ToUpper(text)
	if gReserved[u] {
		return u
	}
	return "id:" + u
}

// ---------------------------------------------------------------------------------------------
// notation -> structure

type gSrc struct {
	name, entry string
	alts        []string
}

func rule(name string, alts ...string) gSrc        { return gSrc{name: name, alts: alts} }
func root(name, entry string, alts ...string) gSrc { return gSrc{name: name, entry: entry, alts: alts} }

type gLexAlt struct{ text, sig string }

type gLexSrc struct {
	name  string
	cycle int
	every bool
	alts  []gLexAlt
}

var defaultGlueL = map[string]bool{")": true, ",": true, ".": true, "]": true, ";": true, "}": true, ":": true}
var defaultGlueR = map[string]bool{"(": true, ".": true, "[": true, "{": true}

func gTermOf(tok string) gSym {
	gl, gr := false, false
	quoted := func(s string) bool { return len(s) >= 3 && s[0] == '\'' && s[len(s)-1] == '\'' }
	if !quoted(tok) {
		if len(tok) > 1 && tok[0] == '~' {
			gl, tok = true, tok[1:]
		}
		if len(tok) > 1 && tok[len(tok)-1] == '~' {
			gr, tok = true, tok[:len(tok)-1]
		}
	}
	if quoted(tok) {
		tok = tok[1 : len(tok)-1]
	}
	s := T(tok)
	s.glueL = gl || defaultGlueL[tok]
	s.glueR = gr || defaultGlueR[tok]
	return s
}

func gIsRefTok(tok string) bool {
	t := strings.Trim(tok, "~")
	return t != "" && t[0] >= 'a' && t[0] <= 'z'
}

// gCompileSeq parses toks[*i:] up to one of the closers.
func gCompileSeq(toks []string, i *int, closers ...string) []gSym {
	var out []gSym
	for *i < len(toks) {
		tok := toks[*i]
		for _, c := range closers {
			if tok == c {
				return out
			}
		}
		*i++
		switch {
		case tok == "[":
			body := gCompileSeq(toks, i, "]")
			*i++
			out = append(out, Opt(body...))
		case len(tok) == 2 && tok[0] == '{' && tok[1] >= '0' && tok[1] <= '9':
			elem := gCompileSeq(toks, i, "/", "}")
			var sep []gSym
			if toks[*i] == "/" {
				*i++
				sep = gCompileSeq(toks, i, "}")
			}
			*i++
			out = append(out, List(elem, sep, int(tok[1]-'0')))
		case gIsRefTok(tok):
			out = append(out, N(tok))
		default:
			out = append(out, gTermOf(tok))
		}
	}
	if len(closers) > 0 {
		panic("grammar: unclosed bracket in " + strings.Join(toks, " "))
	}
	return out
}

func gNumberSlots(a *gAlt, seq []gSym, parent int) {
	for i := range seq {
		s := &seq[i]
		switch s.kind {
		case gRef:
			s.slot = len(a.slots)
			a.slots = append(a.slots, gSlot{s, parent})
		case gOpt:
			s.slot = len(a.slots)
			a.slots = append(a.slots, gSlot{s, parent})
			gNumberSlots(a, s.body, s.slot)
		case gList:
			s.slot = len(a.slots)
			a.slots = append(a.slots, gSlot{s, parent})
			gNumberSlots(a, s.body, s.slot)
			gNumberSlots(a, s.sep, s.slot)
		}
	}
}

func gCompile(srcs []gSrc, lex []gLexSrc, avoid map[string]bool) *grammar {
	g := &grammar{rules: map[string]*gRule{}, avoid: avoid}
	add := func(r *gRule) {
		if g.rules[r.name] != nil {
			panic("grammar: duplicate non-terminal " + r.name)
		}
		g.rules[r.name] = r
		g.order = append(g.order, r)
	}
	for _, s := range srcs {
		r := &gRule{name: s.name, entry: s.entry}
		for k, a := range s.alts {
			toks := strings.Fields(a)
			name := fmt.Sprint(k + 1)
			if len(toks) > 0 && strings.HasSuffix(toks[0], ":") && len(toks[0]) > 1 && gIsRefTok(toks[0]) {
				name = strings.TrimSuffix(toks[0], ":")
				toks = toks[1:]
			}
			i := 0
			alt := &gAlt{name: name, rule: r, index: k}
			alt.seq = gCompileSeq(toks, &i)
			gNumberSlots(alt, alt.seq, -1)
			r.alts = append(r.alts, alt)
		}
		add(r)
	}
	for _, l := range lex {
		r := &gRule{name: l.name, lexical: true, cycle: l.cycle, every: l.every}
		for k, a := range l.alts {
			alt := &gAlt{name: a.text, rule: r, index: k, seq: []gSym{{kind: gTerm, text: a.text, sig: a.sig}}}
			r.alts = append(r.alts, alt)
		}
		add(r)
	}
	// every reference resolves
	for _, r := range g.order {
		for _, a := range r.alts {
			for _, sl := range a.slots {
				if sl.sym.kind == gRef && g.rules[sl.sym.text] == nil {
					panic("grammar: " + r.name + " refers to undefined non-terminal " + sl.sym.text)
				}
			}
		}
	}
	g.computeCosts()
	return g
}

// computeCosts: cost(rule) = number of terminals of its shortest sentence (Opts absent, Lists at their minimum).
func (g *grammar) computeCosts() {
	const inf = 1 << 30
	for _, r := range g.order {
		r.cost = inf
		for _, a := range r.alts {
			a.cost = inf
		}
	}
	var seqCost func(seq []gSym) int
	seqCost = func(seq []gSym) int {
		c := 0
		for i := range seq {
			s := &seq[i]
			switch s.kind {
			case gTerm:
				c++
			case gRef:
				rc := g.rules[s.text].cost
				if rc >= inf {
					return inf
				}
				c += rc
			case gList:
				if s.min > 0 {
					e, p := seqCost(s.body), seqCost(s.sep)
					if e >= inf || p >= inf {
						return inf
					}
					c += s.min*e + (s.min-1)*p
				}
			}
		}
		return c
	}
	for changed := true; changed; {
		changed = false
		for _, r := range g.order {
			for k, a := range r.alts {
				if c := seqCost(a.seq); c < a.cost {
					a.cost = c
					changed = true
				}
				if a.cost < r.cost && !g.avoid[r.name+"/"+a.name] {
					r.cost, r.minAlt = a.cost, k
					changed = true
				}
			}
		}
	}
	for _, r := range g.order {
		if r.cost >= inf {
			panic("grammar: non-terminal " + r.name + " derives no sentence")
		}
		// among equally short alternatives the first one written is the default
		for k, a := range r.alts {
			if a.cost == r.cost && !g.avoid[r.name+"/"+a.name] {
				r.minAlt = k
				break
			}
		}
	}
}

// gStats: the size of G for the report.
func (g *grammar) stats() (nts, alts, opts, lists, refs, lexAlts int) {
	for _, r := range g.order {
		nts++
		for _, a := range r.alts {
			if r.lexical {
				lexAlts++
				continue
			}
			alts++
			for _, sl := range a.slots {
				switch sl.sym.kind {
				case gOpt:
					opts++
				case gList:
					lists++
				case gRef:
					refs++
				}
			}
		}
	}
	return
}

var gCache *grammar

// G returns the compiled reference grammar.
func G() *grammar {
	if gCache == nil {
		avoid := map[string]bool{}
		for k := range gKnownAlts {
			avoid[k] = true
		}
		gCache = gCompile(gRules, gLexRules, avoid)
	}
	return gCache
}
