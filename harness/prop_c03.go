package main

import (
	"fmt"

	"github.com/cloudspannerecosystem/memefish"
)

func init() { propTable["C03"] = propC03 }

// c03Check calls every entry point on s under recover and a deadline and checks the typed-error contract.
func c03Check(s string) (errs int, detail, where string) {
	for i := range entries {
		e := &entries[i]
		r := safeParse(e, s)
		switch {
		case r.hung:
			return errs, fmt.Sprintf("did not return within %v", callTimeout), e.name
		case r.panicked != nil:
			return errs, fmt.Sprintf("panicked: %v", r.panicked), e.name
		}
		if r.err != nil {
			errs++
			me, ok := r.err.(memefish.MultiError)
			if !ok {
				return errs, fmt.Sprintf("error is %T, not MultiError", r.err), e.name
			}
			if len(me) == 0 {
				return errs, "empty MultiError", e.name
			}
			for _, x := range me {
				if x == nil || x.Position == nil || x.Message == "" {
					return errs, "MultiError element without message/position", e.name
				}
			}
		}
		if !e.list {
			if len(r.nodes) != 1 || isNilNode(r.nodes[0]) {
				return errs, "single-node entry point returned a nil node", e.name
			}
		} else {
			for _, n := range r.nodes {
				if isNilNode(n) {
					return errs, "list entry point returned a nil element", e.name
				}
			}
		}
	}
	// splitter and lexer
	if p := safely(func() {
		if _, err := memefish.SplitRawStatements("", s); err != nil {
			if _, ok := err.(*memefish.Error); !ok {
				panic(fmt.Sprintf("splitter error is %T, not *Error", err))
			}
		}
	}); p != nil {
		return errs, fmt.Sprint("panicked: ", p), "SplitRawStatements"
	}
	if _, _, crashed := lexAllGo(s); crashed != nil {
		return errs, fmt.Sprint(crashed), "Lexer.NextToken"
	}
	return errs, "", ""
}

func propC03(o *propOpts) *propResult {
	res := newResult("inputs: every 1- and 2-byte string over 68 representative bytes (one per lexer class), 3-byte strings over 24 (quick) / all 68 (thorough), lexical fragment soups, the golden corpus, token-level mutations of it incl. a malformed first token and a malformed token after ';'; each through all 9 Parse* entry points + SplitRawStatements + Lexer; non-trivial = at least one entry point reports an error; distinct by input")
	each := func(s string) {
		errs, d, where := c03Check(s)
		res.eval(s, errs > 0, func() any { return s })
		res.count(fmt.Sprintf("entrypoints_with_error_%d", errs))
		if d != "" {
			res.fail("input:"+hx(s), s, where, d)
		}
	}
	if o.single != nil {
		b, _ := unhex(o.single.Input)
		each(string(b))
		return res
	}
	for _, s := range hintInputs(o) {
		each(s)
	}
	enumStrings(repBytes, 2, func(b []byte) { each(string(b)) })
	three := alpha24
	if o.tier == "thorough" {
		three = repBytes
	}
	enumStrings(three, 3, func(b []byte) {
		if len(b) == 3 {
			each(string(b))
		}
	})
	// the structured inputs of the parser-level predicates (probes, reference grammar G, grafts, single-token edits, keyword
	// substitutions, soups), each through the entry point it was generated for and through ParseStatements
	checkEntry := func(e *entry, s string) {
		r := safeParse(e, s)
		d := ""
		switch {
		case r.hung:
			d = fmt.Sprintf("did not return within %v", callTimeout)
		case r.panicked != nil:
			d = fmt.Sprintf("panicked: %v", r.panicked)
		case r.err != nil:
			if me, ok := r.err.(memefish.MultiError); !ok {
				d = fmt.Sprintf("error is %T, not MultiError", r.err)
			} else if len(me) == 0 {
				d = "empty MultiError"
			}
		}
		if d == "" && !e.list && (len(r.nodes) != 1 || isNilNode(r.nodes[0])) {
			d = "single-node entry point returned a nil node"
		}
		res.eval(e.name+"|"+s, r.err != nil, func() any { return s })
		if d != "" {
			res.fail("input:"+hx(s), s, e.name, d)
		}
	}
	stmts := entryByName("ParseStatements")
	parserInputs(o, func(e *entry, s string, origin string) {
		checkEntry(e, s)
		if e.name != "ParseExpr" && e.name != "ParseType" && e != stmts {
			checkEntry(stmts, s)
		}
		res.count(origin)
	})
	r := &rng{s: o.seed}
	nrand, nmut := 3000, 6000
	if o.tier == "thorough" {
		nrand, nmut = 60000, 120000
	}
	for i := 0; i < nrand; i++ {
		each(string(randomLexInput(r)))
	}
	texts := corpusStrings()
	for _, s := range texts {
		each(s)
	}
	for i := 0; i < nmut; i++ {
		s := texts[r.intn(len(texts))]
		k := 1 + r.intn(3)
		for j := 0; j < k; j++ {
			s = mutate(r, s)
		}
		each(s)
	}
	return res
}
