package main

import (
	"bufio"
	"fmt"

	"github.com/cloudspannerecosystem/memefish"
	"github.com/cloudspannerecosystem/memefish/token"
)

func posRun(s string, pos, end int) (out string) {
	defer func() {
		if r := recover(); r != nil {
			out = "CRASH"
		}
	}()
	f := &token.File{FilePath: "f.sql", Buffer: s}
	p := f.Position(token.Pos(pos), token.Pos(end))
	e := &memefish.Error{Message: "m", Position: p}
	return fmt.Sprintf("%d %d %d %d %s %s", p.Line, p.Column, p.EndLine, p.EndColumn, hx(p.Source), hx(e.Error()))
}

var posAlpha = []string{"a", "\xc3\xa9", "\n", "\r"}

func posTexts(maxSyms int, emit func(string)) {
	var rec func(cur string, n int)
	rec = func(cur string, n int) {
		emit(cur)
		if n == maxSyms {
			return
		}
		for _, a := range posAlpha {
			rec(cur+a, n+1)
		}
	}
	rec("", 0)
}

func genPos(w *bufio.Writer, tier string, r *rng) {
	maxSyms := 4
	nrand := 300
	if tier == "thorough" {
		maxSyms = 6
		nrand = 5000
	}
	posTexts(maxSyms, func(s string) {
		for pos := -1; pos <= len(s)+1; pos++ {
			for end := pos; end <= len(s)+1; end++ {
				fmt.Fprintf(w, "POS %s %d %d\n", hx(s), pos, end)
			}
			if pos > 0 {
				fmt.Fprintf(w, "POS %s %d %d\n", hx(s), pos, pos-1)
			}
		}
	})
	manyLines(tier, func(s string, starts []int) {
		for i, st := range starts {
			fmt.Fprintf(w, "POS %s %d %d\n", hx(s), st, st)
			if i+1 < len(starts) {
				fmt.Fprintf(w, "POS %s %d %d\n", hx(s), st, starts[i+1])
			}
			if st > 0 {
				fmt.Fprintf(w, "POS %s %d %d\n", hx(s), st-1, st)
			}
		}
	})
	texts := corpusStrings()
	for i := 0; i < nrand; i++ {
		var s string
		if r.intn(2) == 0 {
			s = texts[r.intn(len(texts))]
		} else {
			n := r.intn(40)
			b := make([]byte, n)
			for j := range b {
				switch r.intn(5) {
				case 0:
					b[j] = '\n'
				case 1:
					b[j] = byte(r.intn(256))
				default:
					b[j] = byte('a' + r.intn(26))
				}
			}
			s = string(b)
		}
		pos := r.intn(len(s) + 1)
		end := pos + r.intn(len(s)-pos+1)
		fmt.Fprintf(w, "POS %s %d %d\n", hx(s), pos, end)
	}
}
