package main

import (
	"fmt"
	"regexp"
	"strings"

	"github.com/cloudspannerecosystem/memefish"
	"github.com/cloudspannerecosystem/memefish/token"
)

func init() { propTable["C20"] = propC20 }

func specLineCol(s string, pos int) (int, int) {
	line := strings.Count(s[:pos], "\n")
	col := pos - (strings.LastIndex(s[:pos], "\n") + 1)
	return line, col
}

var srcLineRe = regexp.MustCompile(`^ *(\d+)\|  (.*)$`)

// c20Position checks ResolvePos/Position on (s, pos, end) with 0 <= pos <= end <= len.
func c20Position(s string, pos, end int) (detail string) {
	defer func() {
		if r := recover(); r != nil {
			detail = fmt.Sprintf("File.Position(%d,%d) panicked: %v", pos, end, r)
		}
	}()
	f := &token.File{FilePath: "p.sql", Buffer: s}
	l, c := f.ResolvePos(token.Pos(pos))
	wl, wc := specLineCol(s, pos)
	if l != wl || c != wc {
		return fmt.Sprintf("ResolvePos(%d) = (%d,%d), newline counting gives (%d,%d)", pos, l, c, wl, wc)
	}
	p := f.Position(token.Pos(pos), token.Pos(end))
	el, ec := specLineCol(s, end)
	if p.Line != wl || p.Column != wc || p.EndLine != el || p.EndColumn != ec {
		return fmt.Sprintf("Position(%d,%d) lines/columns (%d,%d)-(%d,%d), want (%d,%d)-(%d,%d)", pos, end, p.Line, p.Column, p.EndLine, p.EndColumn, wl, wc, el, ec)
	}
	// the excerpt quotes exactly lines wl..el
	lines := strings.Split(s, "\n")
	var got []string
	var nums []int
	for _, sl := range strings.Split(p.Source, "\n") {
		if m := srcLineRe.FindStringSubmatch(sl); m != nil && !strings.HasPrefix(sl, "   |") {
			var n int
			fmt.Sscanf(m[1], "%d", &n)
			nums = append(nums, n)
			got = append(got, m[2])
		}
	}
	// a quoted line that itself contains "\n" cannot occur; lines containing "|  " are matched greedily from the left
	if len(got) != el-wl+1 {
		return fmt.Sprintf("excerpt quotes %d lines, want lines %d..%d; source=%q", len(got), wl, el, p.Source)
	}
	for i := range got {
		if nums[i] != wl+i+1 || got[i] != lines[wl+i] {
			return fmt.Sprintf("excerpt line %d is %d:%q, want %d:%q", i, nums[i], got[i], wl+i+1, lines[wl+i])
		}
	}
	if want := fmt.Sprintf("p.sql:%d:%d", wl+1, wc+1); p.String() != want {
		return fmt.Sprintf("Position.String() = %q, want %q", p.String(), want)
	}
	return ""
}

// c20Errors checks the message prefix of every error some entry point reports for s.
func c20Errors(s string) (n int, detail string) {
	check := func(e *memefish.Error) string {
		if e == nil || e.Position == nil {
			return "error without position"
		}
		pos := int(e.Position.Pos)
		if pos < 0 || pos > len(s) {
			return fmt.Sprintf("error position %d outside the input", pos)
		}
		l, c := specLineCol(s, pos)
		want := fmt.Sprintf("syntax error: e.sql:%d:%d: ", l+1, c+1)
		if !strings.HasPrefix(e.Error(), want) {
			return fmt.Sprintf("error text %q does not start with %q", e.Error(), want)
		}
		return ""
	}
	errs, crashed := collectErrors(s)
	if crashed != "" {
		return 0, "" // totality is C03's subject
	}
	for _, e := range errs {
		n++
		if d := check(e); d != "" {
			return n, d
		}
	}
	return n, ""
}

// collectErrors gathers the *Error values reported for s by the lexer, the splitter and ParseStatements.
func collectErrors(s string) (errs []*memefish.Error, crashed string) {
	defer func() {
		if r := recover(); r != nil {
			crashed = fmt.Sprint(r)
		}
	}()
	l := &memefish.Lexer{File: &token.File{FilePath: "e.sql", Buffer: s}}
	for i := 0; i < len(s)+2; i++ {
		if err := l.NextToken(); err != nil {
			if e, ok := err.(*memefish.Error); ok {
				errs = append(errs, e)
			}
			break
		}
		if l.Token.Kind == token.TokenEOF {
			break
		}
	}
	if _, err := memefish.ParseStatements("e.sql", s); err != nil {
		if me, ok := err.(memefish.MultiError); ok {
			errs = append(errs, me...)
		}
	}
	if _, err := memefish.ParseExpr("e.sql", s); err != nil {
		if me, ok := err.(memefish.MultiError); ok {
			errs = append(errs, me...)
		}
	}
	return errs, ""
}

func propC20(o *propOpts) *propResult {
	res := newResult("cases: (text,pos,end) for every text of <=4 (quick) / <=6 (thorough) symbols over {a, é, LF, CR} with every 0<=pos<=end<=len, corpus and random texts with random ranges; plus every error reported by Lexer/ParseStatements/ParseExpr on the lexical input stream; non-trivial = text with at least one newline and pos<end, or an input producing an error; distinct by (text,pos,end) / input")
	if o.single != nil {
		b, _ := unhex(o.single.Input)
		s := string(b)
		var pos, end int
		if n, _ := fmt.Sscanf(o.single.Entry, "Position(%d,%d)", &pos, &end); n == 2 {
			if d := c20Position(s, pos, end); d != "" {
				res.fail(o.single.Key, s, o.single.Entry, d)
			}
		} else if _, d := c20Errors(s); d != "" {
			res.fail(o.single.Key, s, "errors", d)
		}
		res.Evaluations = 1
		return res
	}
	maxSyms, nrand := 4, 300
	if o.tier == "thorough" {
		maxSyms, nrand = 6, 5000
	}
	try := func(s string, pos, end int) {
		id := fmt.Sprintf("%s/%d/%d", s, pos, end)
		res.eval(id, strings.Contains(s, "\n") && pos < end, func() any { return map[string]any{"text": s, "pos": pos, "end": end} })
		if d := c20Position(s, pos, end); d != "" {
			res.fail(fmt.Sprintf("pos:%s:%d:%d", hx(s), pos, end), s, fmt.Sprintf("Position(%d,%d)", pos, end), d)
		}
	}
	posTexts(maxSyms, func(s string) {
		res.count(fmt.Sprintf("enum_len_%d", len(s)))
		for pos := 0; pos <= len(s); pos++ {
			for end := pos; end <= len(s); end++ {
				try(s, pos, end)
			}
		}
	})
	r := &rng{s: o.seed}
	texts := corpusStrings()
	for i := 0; i < nrand; i++ {
		s := texts[r.intn(len(texts))]
		pos := r.intn(len(s) + 1)
		end := pos + r.intn(len(s)-pos+1)
		res.count("corpus_range")
		try(s, pos, end)
	}
	nerr := 0
	lexInputs(&propOpts{tier: "quick", seed: o.seed, hints: o.hints}, func(s string) {
		n, d := c20Errors(s)
		nerr += n
		res.eval("err:"+s, n > 0, func() any { return map[string]any{"input": s, "errors": n} })
		if d != "" {
			res.fail("err:"+hx(s), s, "errors", d)
		}
	})
	res.Hist["errors_checked"] = nerr
	return res
}
