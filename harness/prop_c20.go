package main

import (
	"fmt"
	"regexp"
	"strings"

	"github.com/cloudspannerecosystem/memefish"
	"github.com/cloudspannerecosystem/memefish/token"
)

func init() { propTable["C20"] = propC20 }

func specLineCol(s string, pos int) (int, int) {
	line := strings.Count(s[:pos], "\n")
	col := pos - (strings.LastIndex(s[:pos], "\n") + 1)
	return line, col
}

var srcLineRe = regexp.MustCompile(`^ *(\d+)\|  (.*)$`)

// c20Position checks ResolvePos/Position on (s, pos, end) with 0 <= pos <= end <= len.
// c20Position: the raw call under the deadline of safely (a lexer or splitter that loops is reported, not waited for).
func c20Position(s string, pos, end int) (detail string) {
	if p := safely(func() { detail = c20PositionRaw(s, pos, end) }); p != nil {
		detail = fmt.Sprint("File.Position: ", p)
	}
	return
}

func c20PositionRaw(s string, pos, end int) (detail string) {
	defer func() {
		if r := recover(); r != nil {
			detail = fmt.Sprintf("File.Position(%d,%d) panicked: %v", pos, end, r)
		}
	}()
	f := &token.File{FilePath: "p.sql", Buffer: s}
	l, c := f.ResolvePos(token.Pos(pos))
	wl, wc := specLineCol(s, pos)
	if l != wl || c != wc {
		return fmt.Sprintf("ResolvePos(%d) = (%d,%d), newline counting gives (%d,%d)", pos, l, c, wl, wc)
	}
	p := f.Position(token.Pos(pos), token.Pos(end))
	el, ec := specLineCol(s, end)
	if p.Line != wl || p.Column != wc || p.EndLine != el || p.EndColumn != ec {
		return fmt.Sprintf("Position(%d,%d) lines/columns (%d,%d)-(%d,%d), want (%d,%d)-(%d,%d)", pos, end, p.Line, p.Column, p.EndLine, p.EndColumn, wl, wc, el, ec)
	}
	// the excerpt quotes exactly lines wl..el
	lines := strings.Split(s, "\n")
	var got []string
	var nums []int
	for _, sl := range strings.Split(p.Source, "\n") {
		if m := srcLineRe.FindStringSubmatch(sl); m != nil && !strings.HasPrefix(sl, "   |") {
			var n int
			fmt.Sscanf(m[1], "%d", &n)
			nums = append(nums, n)
			got = append(got, m[2])
		}
	}
	// a quoted line that itself contains "\n" cannot occur; lines containing "|  " are matched greedily from the left
	if len(got) != el-wl+1 {
		return fmt.Sprintf("excerpt quotes %d lines, want lines %d..%d; source=%q", len(got), wl, el, p.Source)
	}
	for i := range got {
		if nums[i] != wl+i+1 || got[i] != lines[wl+i] {
			return fmt.Sprintf("excerpt line %d is %d:%q, want %d:%q", i, nums[i], got[i], wl+i+1, lines[wl+i])
		}
	}
	if want := fmt.Sprintf("p.sql:%d:%d", wl+1, wc+1); p.String() != want {
		return fmt.Sprintf("Position.String() = %q, want %q", p.String(), want)
	}
	return ""
}

// c20Errors checks the message prefix of every error some entry point reports for s.
func c20Errors(s string) (n int, detail string) {
	check := func(e *memefish.Error) string {
		if e == nil || e.Position == nil {
			return "error without position"
		}
		pos := int(e.Position.Pos)
		if pos < 0 || pos > len(s) {
			return fmt.Sprintf("error position %d outside the input", pos)
		}
		l, c := specLineCol(s, pos)
		want := fmt.Sprintf("syntax error: e.sql:%d:%d: ", l+1, c+1)
		if !strings.HasPrefix(e.Error(), want) {
			return fmt.Sprintf("error text %q does not start with %q", e.Error(), want)
		}
		return ""
	}
	errs, crashed := collectErrors(s)
	if crashed != "" {
		return 0, "" // totality is C03's subject
	}
	for _, e := range errs {
		n++
		if d := check(e); d != "" {
			return n, d
		}
	}
	return n, ""
}

// collectErrors gathers the *Error values reported for s by the lexer, the splitter and ParseStatements.
// collectErrors: the raw call under the deadline of safely (a lexer or splitter that loops is reported, not waited for).
func collectErrors(s string) (errs []*memefish.Error, crashed string) {
	if p := safely(func() { errs, crashed = collectErrorsRaw(s) }); p != nil {
		crashed = fmt.Sprint(p)
	}
	return
}

func collectErrorsRaw(s string) (errs []*memefish.Error, crashed string) {
	defer func() {
		if r := recover(); r != nil {
			crashed = fmt.Sprint(r)
		}
	}()
	l := &memefish.Lexer{File: &token.File{FilePath: "e.sql", Buffer: s}}
	for i := 0; i < len(s)+2; i++ {
		if err := l.NextToken(); err != nil {
			if e, ok := err.(*memefish.Error); ok {
				errs = append(errs, e)
			}
			break
		}
		if l.Token.Kind == token.TokenEOF {
			break
		}
	}
	if _, err := memefish.ParseStatements("e.sql", s); err != nil {
		if me, ok := err.(memefish.MultiError); ok {
			errs = append(errs, me...)
		}
	}
	if _, err := memefish.ParseExpr("e.sql", s); err != nil {
		if me, ok := err.(memefish.MultiError); ok {
			errs = append(errs, me...)
		}
	}
	return errs, ""
}

func propC20(o *propOpts) *propResult {
	res := newResult("cases: (text,pos,end) for every text of <=4 (quick) / <=6 (thorough) symbols over {a, é, LF, CR} with every 0<=pos<=end<=len, corpus and random texts with random ranges; plus every error reported by Lexer/ParseStatements/ParseExpr on the lexical input stream; non-trivial = text with at least one newline and pos<end, or an input producing an error; distinct by (text,pos,end) / input")
	if o.single != nil {
		b, _ := unhex(o.single.Input)
		s := string(b)
		var pos, end int
		if n, _ := fmt.Sscanf(o.single.Entry, "Position(%d,%d)", &pos, &end); n == 2 {
			if d := c20Position(s, pos, end); d != "" {
				res.fail(o.single.Key, s, o.single.Entry, d)
			}
		} else if _, d := c20Errors(s); d != "" {
			res.fail(o.single.Key, s, "errors", d)
		}
		res.Evaluations = 1
		return res
	}
	maxSyms, nrand := 4, 300
	if o.tier == "thorough" {
		maxSyms, nrand = 6, 5000
	}
	try := func(s string, pos, end int) {
		id := fmt.Sprintf("%s/%d/%d", s, pos, end)
		res.eval(id, strings.Contains(s, "\n") && pos < end, func() any { return map[string]any{"text": s, "pos": pos, "end": end} })
		if d := c20Position(s, pos, end); d != "" {
			res.fail(fmt.Sprintf("pos:%s:%d:%d", hx(s), pos, end), s, fmt.Sprintf("Position(%d,%d)", pos, end), d)
		}
	}
	// positions on which the POS channel disagreed are searched first
	for _, h := range o.hints {
		var hx1 string
		var pos, end int
		if n, _ := fmt.Sscanf(h, "POS %s %d %d", &hx1, &pos, &end); n == 3 {
			if b, ok := unhex(hx1); ok && 0 <= pos && pos <= end && end <= len(b) {
				try(string(b), pos, end)
			}
		}
	}
	// texts with many lines: every line start, line end and one interior offset as pos, ends up to 3 lines later
	manyLines(o.tier, func(s string, starts []int) {
		res.count("many_lines_text")
		for i, st := range starts {
			for _, pos := range []int{st, st + 1, st - 1} {
				if pos < 0 || pos > len(s) {
					continue
				}
				for j := i; j < len(starts) && j <= i+3; j++ {
					for _, end := range []int{starts[j], starts[j] + 2} {
						if end >= pos && end <= len(s) {
							try(s, pos, end)
						}
					}
				}
			}
		}
	})
	posTexts(maxSyms, func(s string) {
		res.count(fmt.Sprintf("enum_len_%d", len(s)))
		for pos := 0; pos <= len(s); pos++ {
			for end := pos; end <= len(s); end++ {
				try(s, pos, end)
			}
		}
	})
	r := &rng{s: o.seed}
	texts := corpusStrings()
	for i := 0; i < nrand; i++ {
		s := texts[r.intn(len(texts))]
		pos := r.intn(len(s) + 1)
		end := pos + r.intn(len(s)-pos+1)
		res.count("corpus_range")
		try(s, pos, end)
	}
	nerr := 0
	lexInputs(&propOpts{tier: "quick", seed: o.seed, hints: o.hints}, func(s string) {
		n, d := c20Errors(s)
		nerr += n
		res.eval("err:"+s, n > 0, func() any { return map[string]any{"input": s, "errors": n} })
		if d != "" {
			res.fail("err:"+hx(s), s, "errors", d)
		}
	})
	res.Hist["errors_checked"] = nerr
	return res
}

// manyLines produces texts with 2..N lines of varied lengths (incl. empty lines, with and without a trailing newline)
// together with the offsets at which their lines start.
func manyLines(tier string, emit func(s string, starts []int)) {
	maxN := 40
	if tier == "thorough" {
		maxN = 300
	}
	for n := 2; n <= maxN; n++ {
		for variant := 0; variant < 3; variant++ {
			var sb []byte
			starts := []int{0}
			for i := 0; i < n; i++ {
				l := (i*7 + variant*3 + n) % 5
				if variant == 2 {
					l = i % 2
				}
				for k := 0; k < l; k++ {
					sb = append(sb, byte('a'+(i+k)%26))
				}
				if i+1 < n || variant == 1 {
					sb = append(sb, 10)
					starts = append(starts, len(sb))
				}
			}
			emit(string(sb), starts)
		}
	}
}
