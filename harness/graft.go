package main

import (
	"reflect"
	"strings"
	"sync"

	"github.com/cloudspannerecosystem/memefish/ast"
)

// Structure-aware recombination of the golden inputs ("grafting"): sub-trees are harvested from the corpus by the STATIC TYPE of
// the field they occupy; a new input is made from a corpus input by replacing a child with another text of the same slot type,
// inserting a text for an absent optional child right after its preceding sibling, deleting an optional child, or duplicating a
// list element.  Grafted inputs are not guaranteed to be grammatical — every property that uses them is conditional on
// acceptance — but those that parse combine clauses that no golden file combines (WITH … FOR UPDATE, TABLESAMPLE after a TVF, …).

type graftBank struct {
	once  sync.Once
	texts map[reflect.Type][]string
	seen  map[reflect.Type]map[string]bool
}

var bank graftBank

func (b *graftBank) add(t reflect.Type, s string) {
	if len(s) == 0 || len(s) > 200 {
		return
	}
	if b.seen[t] == nil {
		b.seen[t] = map[string]bool{}
	}
	if b.seen[t][s] {
		return
	}
	b.seen[t][s] = true
	b.texts[t] = append(b.texts[t], s)
}

func (b *graftBank) build() {
	b.texts = map[reflect.Type][]string{}
	b.seen = map[reflect.Type]map[string]bool{}
	for _, cf := range corpusFiles() {
		if cf.Bad {
			continue
		}
		r := safeParse(entryByName(entryForDir(cf.Dir)), cf.Text)
		if r.hung || r.panicked != nil || r.err != nil {
			continue
		}
		for _, root := range r.nodes {
			for _, n := range allNodes(root) {
				forEachSlot(n, func(sl slot) {
					for _, c := range sl.nodes {
						p, e := int(c.Pos()), int(c.End())
						if 0 <= p && p < e && e <= len(cf.Text) {
							b.add(sl.typ, cf.Text[p:e])
						}
					}
				})
			}
		}
	}
}

type slot struct {
	name     string
	typ      reflect.Type // static type of the field (element type for slices)
	many     bool
	optional bool // pointer-typed single field: may be nil
	nodes    []ast.Node
}

func forEachSlot(n ast.Node, f func(slot)) {
	v := reflect.ValueOf(n)
	if v.Kind() == reflect.Ptr {
		v = v.Elem()
	}
	if v.Kind() != reflect.Struct {
		return
	}
	t := v.Type()
	for i := 0; i < t.NumField(); i++ {
		fd := t.Field(i)
		if !fd.IsExported() {
			continue
		}
		fv := v.Field(i)
		switch {
		case fd.Type.Implements(nodeIface):
			sl := slot{name: fd.Name, typ: fd.Type, optional: fd.Type.Kind() == reflect.Ptr || fd.Type.Kind() == reflect.Interface}
			if !((fv.Kind() == reflect.Interface || fv.Kind() == reflect.Ptr) && fv.IsNil()) {
				if c := fv.Interface().(ast.Node); !isNilNode(c) {
					sl.nodes = []ast.Node{c}
				}
			}
			f(sl)
		case fd.Type.Kind() == reflect.Slice && fd.Type.Elem().Implements(nodeIface):
			sl := slot{name: fd.Name, typ: fd.Type.Elem(), many: true}
			for j := 0; j < fv.Len(); j++ {
				if c := fv.Index(j).Interface().(ast.Node); !isNilNode(c) {
					sl.nodes = append(sl.nodes, c)
				}
			}
			f(sl)
		}
	}
}

// graft returns a structural recombination of s (parsed by e), or "" when nothing applicable was found.
func graft(r *rng, e *entry, s string) string {
	bank.once.Do(bank.build)
	res := safeParse(e, s)
	if res.hung || res.panicked != nil || res.err != nil || len(res.nodes) == 0 {
		return ""
	}
	var nodes []ast.Node
	for _, root := range res.nodes {
		nodes = append(nodes, allNodes(root)...)
	}
	inRange := func(p, q int) bool { return 0 <= p && p <= q && q <= len(s) }
	for try := 0; try < 12; try++ {
		n := nodes[r.intn(len(nodes))]
		var slots []slot
		forEachSlot(n, func(sl slot) { slots = append(slots, sl) })
		if len(slots) == 0 {
			continue
		}
		i := r.intn(len(slots))
		sl := slots[i]
		texts := bank.texts[sl.typ]
		switch op := r.intn(4); {
		case op == 0 && len(sl.nodes) > 0 && len(texts) > 0: // replace a child by another text of the same slot type
			c := sl.nodes[r.intn(len(sl.nodes))]
			p, q := int(c.Pos()), int(c.End())
			if inRange(p, q) {
				return s[:p] + texts[r.intn(len(texts))] + s[q:]
			}
		case op == 1 && !sl.many && len(sl.nodes) == 0 && len(texts) > 0: // insert an absent optional child after its preceding sibling
			at := -1
			for j := i - 1; j >= 0 && at < 0; j-- {
				if k := len(slots[j].nodes); k > 0 {
					at = int(slots[j].nodes[k-1].End())
				}
			}
			// sometimes at the very end of the node instead: a clause accepted in a place the node layout does not expect
			if e := int(n.End()); r.intn(3) == 0 && e >= 0 && e <= len(s) {
				at = e
			}
			if at >= 0 && at <= len(s) {
				return s[:at] + " " + texts[r.intn(len(texts))] + " " + s[at:]
			}
		case op == 2 && !sl.many && len(sl.nodes) == 1 && sl.typ.Kind() == reflect.Ptr: // delete an optional child
			p, q := int(sl.nodes[0].Pos()), int(sl.nodes[0].End())
			if inRange(p, q) && p > 0 {
				return s[:p] + s[q:]
			}
		case op == 3 && sl.many && len(sl.nodes) > 0: // duplicate / extend a list
			last := sl.nodes[len(sl.nodes)-1]
			q := int(last.End())
			sep := ", "
			if len(sl.nodes) >= 2 {
				a, b := int(sl.nodes[len(sl.nodes)-2].End()), int(last.Pos())
				if inRange(a, b) && b-a <= 6 {
					sep = s[a:b]
				}
			}
			txt := ""
			if p := int(last.Pos()); inRange(p, q) {
				txt = s[p:q]
			}
			if len(texts) > 0 && r.intn(2) == 0 {
				txt = texts[r.intn(len(texts))]
			}
			if q <= len(s) && q >= 0 && txt != "" && strings.TrimSpace(sep) != "" || sep == " " {
				return s[:q] + sep + txt + s[q:]
			}
		}
	}
	return ""
}

// graftSystematic enumerates, for every golden input, every node and every absent optional single child, the two insertions.
func graftSystematic(r *rng, emit func(e *entry, s string)) {
	bank.once.Do(bank.build)
	for _, cf := range corpusFiles() {
		if cf.Bad {
			continue
		}
		e := entryByName(entryForDir(cf.Dir))
		res := safeParse(e, cf.Text)
		if res.hung || res.panicked != nil || res.err != nil {
			continue
		}
		s := cf.Text
		for _, root := range res.nodes {
			for _, n := range allNodes(root) {
				var slots []slot
				forEachSlot(n, func(sl slot) { slots = append(slots, sl) })
				for i, sl := range slots {
					texts := bank.texts[sl.typ]
					if sl.many || len(sl.nodes) != 0 || len(texts) == 0 {
						continue
					}
					txt := texts[r.intn(len(texts))]
					at := -1
					for j := i - 1; j >= 0 && at < 0; j-- {
						if k := len(slots[j].nodes); k > 0 {
							at = int(slots[j].nodes[k-1].End())
						}
					}
					if at >= 0 && at <= len(s) {
						emit(e, s[:at]+" "+txt+" "+s[at:])
					}
					if end := int(n.End()); end >= 0 && end <= len(s) && end != at {
						emit(e, s[:end]+" "+txt+" "+s[end:])
					}
				}
			}
		}
	}
}
