package main

// DML channel, Go side: the answer of memefish.ParseDML / ParseDMLs / ParseStatement / ParseStatements on one input, in
// the vocabulary of the Lean model MF/Model/Stmt2.lean (`dmlRun`):
//
//	request   DML <ep> <hex text>     ep = D (ParseDML) | Ds (ParseDMLs) | S (ParseStatement) | Ss (ParseStatements)
//	ERR                               the input does not lex, or the entry point returns a non-nil error
//	OUTSIDE                           the token-level rule says the input may leave the fragment M2 (not compared further)
//	OK <stmt>                         D, S:   <stmt> = <s-expr with every field and position, @Pos():End() behind every node> <hex SQL()> <Pos()> <End()>
//	OK <n> <stmt> … <stmt>            Ds, Ss
//
// An expression slot is dumped as [<shape as on EXPR> <all nodes with positions as on EXPRPOS>].
// The token-level OUTSIDE rule (`dmlTokenOutside`) is the same function as `MF.DML.dmlTokenOutside`.

import (
	"bufio"
	"fmt"
	"strings"

	"github.com/cloudspannerecosystem/memefish"
	"github.com/cloudspannerecosystem/memefish/ast"
	"github.com/cloudspannerecosystem/memefish/token"
)

const (
	dmStart = iota
	dmInsHead
	dmInsInput
	dmHead
	dmLhs
	dmRows
	dmRhs
	dmWhere
	dmDead
)

func dmlVocab(t *token.Token) bool {
	switch t.Kind {
	case ";", "WHERE", "SET", "INTO", "DEFAULT", "IGNORE": // not FROM: "(FROM ..." is a sub-query (lookaheadQueryStart)
		return true
	}
	return false
}

func dmlOtherStatementAhead(t *token.Token) bool {
	switch t.Kind {
	case "SELECT", "WITH", "(", "FROM", "CREATE":
		return true
	}
	for _, s := range []string{"ALTER", "DROP", "RENAME", "GRANT", "REVOKE", "ANALYZE", "CALL"} {
		if t.IsKeywordLike(s) {
			return true
		}
	}
	return false
}

// dmlTokenOutside mirrors MF.DML.dmlScan.
func dmlTokenOutside(stmtEntry bool, toks []token.Token) bool {
	mode := dmStart
	prev := xkEOF
	var stack []bool
	reset := func(m int) {
		mode = m
		prev = xkEOF
		stack = stack[:0]
	}
	for i := range toks {
		t := &toks[i]
		k := xkOf(t)
		next := xkEOF
		var nt *token.Token
		if i+1 < len(toks) {
			nt = &toks[i+1]
			next = xkOf(nt)
		}
		if t.Kind == "@" {
			return true
		}
		if t.Kind == "THEN" && nt != nil && nt.IsKeywordLike("RETURN") {
			return true
		}
		if t.Kind == ";" {
			reset(dmStart)
			continue
		}
		if k == xkEOF {
			return false
		}
		switch mode {
		case dmStart:
			switch {
			case t.IsKeywordLike("INSERT"):
				reset(dmInsHead)
			case t.IsKeywordLike("DELETE") || t.IsKeywordLike("UPDATE"):
				reset(dmHead)
			case stmtEntry && dmlOtherStatementAhead(t):
				return true
			default:
				reset(dmDead)
			}
		case dmDead:
			reset(dmDead)
		case dmInsHead:
			if k == xkRparen {
				reset(dmInsInput)
			} else {
				reset(dmInsHead)
			}
		case dmInsInput:
			if t.IsKeywordLike("VALUES") {
				reset(dmRows)
			} else if t.Kind == "WITH" || t.Kind == "SELECT" || t.Kind == "FROM" || t.Kind == "(" {
				return true
			} else {
				reset(dmDead)
			}
		case dmHead:
			switch t.Kind {
			case "SET":
				reset(dmLhs)
			case "WHERE":
				reset(dmWhere)
			default:
				reset(dmHead)
			}
		case dmLhs:
			switch t.Kind {
			case "=":
				reset(dmRhs)
			case "WHERE":
				reset(dmWhere)
			default:
				reset(dmLhs)
			}
		default: // an expression slot
			top := len(stack) > 0 && stack[len(stack)-1]
			if t.Kind == "WHERE" && len(stack) == 0 {
				reset(dmWhere)
				continue
			}
			if (k == xkOther && !dmlVocab(t)) || k == xkLitStart || k == xkSelect {
				return true
			}
			if k == xkIdent {
				if t.IsKeywordLike("SAFE_CAST") || t.IsKeywordLike("REPLACE_FIELDS") {
					return true
				}
				if next == xkLparen && !(prev == xkLbrack && len(stack) > 0 && !top && xIsPosKw(t)) {
					return true
				}
				if next == xkString && (t.IsKeywordLike("DATE") || t.IsKeywordLike("TIMESTAMP") || t.IsKeywordLike("NUMERIC") || t.IsKeywordLike("JSON")) {
					return true
				}
				if prev == xkAs && xIsSimpleTypeName(t) && next != xkDot {
					return true
				}
			}
			if k == xkComma && len(stack) == 0 {
				if mode == dmRows {
					reset(dmRows)
					continue
				} else if mode == dmRhs {
					reset(dmLhs)
					continue
				}
				return true
			}
			if k == xkComma && !top {
				return true
			}
			switch k {
			case xkLparen:
				stack = append(stack, prev == xkIn || prev == xkIf || (mode == dmRows && len(stack) == 0))
			case xkLbrack:
				stack = append(stack, !xOperandEnd(prev))
			case xkRparen, xkRbrack:
				if len(stack) > 0 {
					stack = stack[:len(stack)-1]
				}
			}
			prev = k
		}
	}
	return false
}

// ---- dump ----

type dmlDumper struct{ ok bool }

func dmlAt(n ast.Node) string { return fmt.Sprintf("@%d:%d", n.Pos(), n.End()) }

func dmlIdent(i *ast.Ident) string {
	return fmt.Sprintf("(id %d %d %s)", i.NamePos, i.NameEnd, hx(i.Name))
}

func dmlIdents(ids []*ast.Ident) string {
	parts := make([]string, len(ids))
	for i, id := range ids {
		parts[i] = dmlIdent(id)
	}
	return strings.Join(parts, " ")
}

func (d *dmlDumper) path(p *ast.Path) string {
	if p == nil {
		d.ok = false
		return "(nilpath)"
	}
	s := "(path"
	for _, id := range p.Idents {
		s += " " + dmlIdent(id)
	}
	return s + ")" + dmlAt(p)
}

func (d *dmlDumper) expr(e ast.Expr) string {
	if isNilNode(e) {
		d.ok = false
		return "[nil]"
	}
	sx, ok := exprSexp(e)
	if !ok {
		d.ok = false
	}
	return "[" + sx + " " + exprPosNodes(e) + "]"
}

func (d *dmlDumper) deflt(x *ast.DefaultExpr) string {
	if x == nil {
		d.ok = false
		return "(nildefault)"
	}
	e := "-"
	if !isNilNode(x.Expr) {
		e = d.expr(x.Expr)
	}
	return fmt.Sprintf("(default %d %s %s)", x.DefaultPos, xbool(x.Default), e) + dmlAt(x)
}

func (d *dmlDumper) where(w *ast.Where) string {
	if w == nil {
		d.ok = false
		return "(nilwhere)"
	}
	return fmt.Sprintf("(where %d %s)", w.Where, d.expr(w.Expr)) + dmlAt(w)
}

func (d *dmlDumper) alias(a *ast.AsAlias) string {
	if a == nil {
		return "-"
	}
	return fmt.Sprintf("(as %d %s)", a.As, dmlIdent(a.Alias)) + dmlAt(a)
}

func (d *dmlDumper) stmt(n ast.Node) string {
	switch n := n.(type) {
	case *ast.Insert:
		if n.Hint != nil || n.TableHint != nil || n.ThenReturn != nil {
			d.ok = false
			return "(insert-outside)"
		}
		v, isValues := n.Input.(*ast.ValuesInput)
		if !isValues || v == nil {
			d.ok = false
			return "(insert-subquery)"
		}
		ot := "-"
		if n.InsertOrType != "" {
			ot = string(n.InsertOrType)
		}
		in := fmt.Sprintf("(values %d", v.Values)
		for _, r := range v.Rows {
			in += fmt.Sprintf(" (row %d %d", r.Lparen, r.Rparen)
			for _, x := range r.Exprs {
				in += " " + d.deflt(x)
			}
			in += ")" + dmlAt(r)
		}
		in += ")" + dmlAt(v)
		return fmt.Sprintf("(insert %d %s %s (%s) %s)", n.Insert, ot, d.path(n.TableName), dmlIdents(n.Columns), in) + dmlAt(n)
	case *ast.Delete:
		if n.Hint != nil || n.TableHint != nil || n.ThenReturn != nil {
			d.ok = false
			return "(delete-outside)"
		}
		return fmt.Sprintf("(delete %d %s %s %s)", n.Delete, d.path(n.TableName), d.alias(n.As), d.where(n.Where)) + dmlAt(n)
	case *ast.Update:
		if n.Hint != nil || n.TableHint != nil || n.ThenReturn != nil {
			d.ok = false
			return "(update-outside)"
		}
		items := make([]string, len(n.Updates))
		for i, u := range n.Updates {
			items[i] = "(item (" + dmlIdents(u.Path) + ") " + d.deflt(u.DefaultExpr) + ")" + dmlAt(u)
		}
		return fmt.Sprintf("(update %d %s %s (%s) %s)", n.Update, d.path(n.TableName), d.alias(n.As), strings.Join(items, " "), d.where(n.Where)) + dmlAt(n)
	}
	d.ok = false
	return fmt.Sprintf("(?%T)", n)
}

func dmlStmtLine(n ast.Node) (string, bool) {
	if isNilNode(n) {
		return "(nil)", false
	}
	d := &dmlDumper{ok: true}
	s := d.stmt(n)
	if !d.ok {
		return s, false
	}
	return fmt.Sprintf("%s %s %d %d", s, hx(n.SQL()), n.Pos(), n.End()), true
}

func dmlRun(ep, s string) (out string) {
	defer func() {
		if r := recover(); r != nil {
			out = fmt.Sprintf("CRASH %v", r)
		}
	}()
	toks, err, crashed := exprLexAll(s)
	if crashed != nil {
		return "CRASH"
	}
	if err != nil {
		return "ERR"
	}
	if dmlTokenOutside(ep == "S" || ep == "Ss", toks) {
		return "OUTSIDE"
	}
	var nodes []ast.Node
	switch ep {
	case "D":
		n, e := memefish.ParseDML("", s)
		err = e
		nodes = []ast.Node{n}
	case "S":
		n, e := memefish.ParseStatement("", s)
		err = e
		nodes = []ast.Node{n}
	case "Ds":
		ns, e := memefish.ParseDMLs("", s)
		err = e
		for _, n := range ns {
			nodes = append(nodes, n)
		}
	case "Ss":
		ns, e := memefish.ParseStatements("", s)
		err = e
		for _, n := range ns {
			nodes = append(nodes, n)
		}
	default:
		return "BADREQ"
	}
	if err != nil {
		return "ERR"
	}
	var sb strings.Builder
	sb.WriteString("OK")
	if ep == "Ds" || ep == "Ss" {
		fmt.Fprintf(&sb, " %d", len(nodes))
	}
	for _, n := range nodes {
		line, ok := dmlStmtLine(n)
		if !ok {
			return "OUTSIDE-AST " + line
		}
		sb.WriteString(" " + line)
	}
	return sb.String()
}

// ---- generator ----

// names at table / column / alias positions: plain, keyword-like words that are NOT reserved, quoted reserved words,
// and a few reserved words unquoted (malformed)
var dmlNames = []string{
	"t", "T1", "tbl", "a", "b", "c", "x", "col_1",
	"values", "VALUES", "insert", "update", "UPDATE", "delete", "return", "action", "offset", "ordinal", "key", "replace", "date",
	"`select`", "`a b`", "`set`", "`where`", "`default`", "`values`", "`INSERT`",
	"set", "where", "default", "ignore", "into", "from", "as", "or", "then", "select",
}

var dmlGoodNames = 28 // the names before the unquoted reserved words

// expression texts of the fragment M1 (and a few outside it / malformed), as token lists
var dmlExprs = []string{
	"1", "a", "x . y", "a + 1", "a = 1", "a = b AND c < 2", "NOT a", "- 1", "( a )", "( ( a + 1 ) * 2 )", "a IN ( 1 , 2 )", "a IS NOT NULL",
	"a BETWEEN 1 AND 2", "'s'", "b'x'", "@p", "NULL", "TRUE", "1.5", "a [ 0 ]", "a [ OFFSET ( 1 ) ]", "[ 1 , 2 ]", "[ ]",
	"CASE WHEN a THEN 1 ELSE 2 END", "IF ( a , 1 , 2 )", "CAST ( a AS my . T )", "a OR b", "a || b", "x . values", "values", "t . set_",
	"a LIKE 'x%'", "a NOT IN UNNEST ( b )", "- - 1", "~ a", "a . b . c", "`where`", "a = b = c", "a +", "( a", "a )", "1 2",
	"f ( x )", "( SELECT 1 )", "( a , b )", "ARRAY [ 1 ]", "DATE '2020-01-01'", "CAST ( a AS INT64 )", "EXISTS ( SELECT 1 )", "a [ 1 ] . f",
	"CASE a WHEN 1 THEN return END", "DEFAULT", "a = DEFAULT", "WHERE", "SET", "x . default", "( FROM a )", "( WITH a )", "a INTO", "IGNORE",
}

type dmlGen struct {
	r *rng
}

func (g *dmlGen) pick(xs []string) string { return xs[g.r.intn(len(xs))] }
func (g *dmlGen) coin(n int) bool         { return g.r.intn(n) == 0 }

func (g *dmlGen) name() []string {
	if g.coin(12) {
		return []string{g.pick(dmlNames)}
	}
	return []string{dmlNames[g.r.intn(dmlGoodNames)]}
}

func (g *dmlGen) path() []string {
	out := g.name()
	for g.coin(4) {
		out = append(out, ".")
		out = append(out, g.name()...)
	}
	return out
}

func (g *dmlGen) expr() []string {
	if g.coin(4) {
		return strings.Fields(g.pick(dmlExprs))
	}
	return strings.Fields(dmlExprs[g.r.intn(37)])
}

func (g *dmlGen) deflt() []string {
	if g.coin(4) {
		return []string{"DEFAULT"}
	}
	e := g.expr()
	for g.coin(8) {
		e = append(append([]string{"("}, e...), ")")
	}
	return e
}

func (g *dmlGen) alias() []string {
	switch g.r.intn(4) {
	case 0:
		return append([]string{"AS"}, g.name()...)
	case 1:
		return g.name()
	}
	return nil
}

func (g *dmlGen) where() []string { return append([]string{"WHERE"}, g.expr()...) }

func (g *dmlGen) kw(s string) string {
	switch g.r.intn(6) {
	case 0:
		return strings.ToLower(s)
	case 1:
		return strings.ToUpper(s[:1]) + strings.ToLower(s[1:])
	}
	return s
}

func (g *dmlGen) insert() []string {
	out := []string{g.kw("INSERT")}
	switch g.r.intn(5) {
	case 0:
		out = append(out, g.kw("OR"), g.kw("UPDATE"))
	case 1:
		out = append(out, g.kw("OR"), g.kw("IGNORE"))
	}
	if !g.coin(3) {
		out = append(out, g.kw("INTO"))
	}
	out = append(out, g.path()...)
	out = append(out, "(")
	nc := g.r.intn(4)
	for i := 0; i < nc; i++ {
		if i > 0 {
			out = append(out, ",")
		}
		out = append(out, g.name()...)
	}
	if nc > 0 && g.coin(15) {
		out = append(out, ",") // trailing comma: malformed
	}
	out = append(out, ")")
	if g.coin(25) {
		out = append(out, g.pick([]string{"SELECT 1", "( SELECT 1 )", "WITH", "FROM t", "x", ""}))
		return strings.Fields(strings.Join(out, " "))
	}
	out = append(out, g.kw("VALUES"))
	nr := 1 + g.r.intn(3)
	for i := 0; i < nr; i++ {
		if i > 0 {
			out = append(out, ",")
		}
		out = append(out, "(")
		ne := g.r.intn(4)
		for j := 0; j < ne; j++ {
			if j > 0 {
				out = append(out, ",")
			}
			out = append(out, g.deflt()...)
		}
		if ne > 0 && g.coin(15) {
			out = append(out, ",")
		}
		out = append(out, ")")
	}
	if g.coin(15) {
		out = append(out, ",")
	}
	return out
}

func (g *dmlGen) delete() []string {
	out := []string{g.kw("DELETE")}
	if !g.coin(3) {
		out = append(out, g.kw("FROM"))
	}
	out = append(out, g.path()...)
	out = append(out, g.alias()...)
	out = append(out, g.where()...)
	return out
}

func (g *dmlGen) update() []string {
	out := []string{g.kw("UPDATE")}
	out = append(out, g.path()...)
	out = append(out, g.alias()...)
	out = append(out, g.kw("SET"))
	n := 1 + g.r.intn(3)
	for i := 0; i < n; i++ {
		if i > 0 {
			out = append(out, ",")
		}
		out = append(out, g.path()...)
		out = append(out, "=")
		out = append(out, g.deflt()...)
	}
	if g.coin(15) {
		out = append(out, ",")
	}
	out = append(out, g.where()...)
	return out
}

func (g *dmlGen) stmt() []string {
	var out []string
	switch g.r.intn(3) {
	case 0:
		out = g.insert()
	case 1:
		out = g.delete()
	default:
		out = g.update()
	}
	if g.coin(30) {
		out = append(out, strings.Fields(g.pick([]string{"THEN RETURN a", "THEN RETURN WITH ACTION AS x a", "THEN a", "THEN", "x", ") "}))...)
	}
	if g.coin(40) {
		out = append([]string{"@", "{", "a", "=", "1", "}"}, out...)
	}
	return out
}

func (g *dmlGen) mutate(ts []string) []string {
	ts = append([]string{}, ts...)
	if len(ts) == 0 {
		return ts
	}
	j := g.r.intn(len(ts))
	switch g.r.intn(4) {
	case 0:
		ts = append(ts[:j], ts[j+1:]...)
	case 1:
		ts = append(ts[:j+1], ts[j:]...)
	case 2:
		k := g.r.intn(len(ts))
		ts[j], ts[k] = ts[k], ts[j]
	case 3:
		ts[j] = g.pick([]string{",", "(", ")", ".", "=", ";", "WHERE", "SET", "VALUES", "DEFAULT", "AS", "FROM", "INTO", "OR", "x", "1", "INSERT", "DELETE", "UPDATE", "IGNORE", "THEN"})
	}
	return ts
}

var dmlCases = []string{
	"", ";", ";;", "x", "INSERT", "DELETE", "UPDATE", "SELECT 1", "CREATE TABLE t (a INT64) PRIMARY KEY (a)", "CALL f()", "DROP TABLE t", "( SELECT 1 )", "FROM t",
	"DELETE FROM t WHERE TRUE", "DELETE t WHERE a", "delete from t where a", "DELETE FROM t x WHERE a", "DELETE FROM t AS x WHERE a", "DELETE FROM values WHERE values",
	"DELETE FROM t", "DELETE FROM t WHERE", "DELETE FROM WHERE a", "DELETE FROM t AS WHERE a", "DELETE FROM t a b WHERE c", "`DELETE` FROM t WHERE a",
	"DELETE FROM t WHERE a THEN RETURN a", "DELETE FROM t WHERE a THEN x", "DELETE FROM t@{a=1} WHERE a", "@{a=1} DELETE FROM t WHERE a",
	"INSERT INTO t (a) VALUES (1)", "INSERT t (a, b) VALUES (1, 2), (3, DEFAULT)", "INSERT INTO t () VALUES ()", "INSERT OR UPDATE INTO t (a) VALUES (1)",
	"INSERT OR IGNORE t (a) VALUES (1)", "INSERT OR REPLACE t (a) VALUES (1)", "INSERT OR `UPDATE` t (a) VALUES (1)", "INSERT INTO values (values) VALUES (values)",
	"INSERT INTO t (a,) VALUES (1)", "INSERT INTO t (a) VALUES (1,)", "INSERT INTO t (a) VALUES (1),", "INSERT INTO t (a) VALUES", "INSERT INTO t (a) `VALUES` (1)",
	"INSERT INTO t (a) SELECT 1", "INSERT INTO t (a) (SELECT 1)", "INSERT INTO t (a) x", "INSERT INTO t (a)", "INSERT INTO t a VALUES (1)", "INSERT INTO t.u.v (a) VALUES ((1))",
	"INSERT INTO t (a) VALUES (DEFAULT + 1)", "INSERT INTO t (a) VALUES ((DEFAULT))", "INSERT INTO t (a) VALUES (1) THEN RETURN a", "INSERT INTO INTO t (a) VALUES (1)",
	"UPDATE t SET a = 1 WHERE b", "UPDATE t SET a = 1, b.c = DEFAULT WHERE TRUE", "UPDATE t AS u SET u.a = 1 WHERE b", "UPDATE t u SET a = 1 WHERE b", "update t set a = 1 where b",
	"UPDATE t SET a = 1", "UPDATE t SET a = 1, WHERE b", "UPDATE t SET WHERE b", "UPDATE t SET a WHERE b", "UPDATE t a = 1 WHERE b", "UPDATE t SET a = b = c WHERE d",
	"UPDATE t SET a = (1, 2) WHERE d", "UPDATE t SET a = [1, 2], b = 3 WHERE d", "UPDATE set SET a = 1 WHERE b", "UPDATE t SET set = 1 WHERE b", "UPDATE t SET a = 1 WHERE b THEN RETURN a",
	"DELETE t WHERE a; DELETE u WHERE b", "DELETE t WHERE a;", ";DELETE t WHERE a", "DELETE t WHERE a;;UPDATE t SET a = 1 WHERE b;", "DELETE t WHERE a DELETE u WHERE b",
	"DELETE t WHERE a; SELECT 1", "DELETE t WHERE a; x", "DELETE t WHERE (a;b)", "INSERT t (a) VALUES (1); INSERT t (a) VALUES (2)", "DELETE t WHERE a ; ; ;",
	"DELETE t WHERE f(x)", "DELETE t WHERE a IN (SELECT 1)", "DELETE t WHERE \"unterminated", "DELETE t WHERE a /* c */ ; -- x\n DELETE u WHERE b",
	"DELETE t WHERE CASE WHEN a THEN return END", "DELETE t WHERE a, b", "DELETE t WHERE ( FROM a )", "INSERT t (a) VALUES ((FROM a))", "UPDATE t SET a = (FROM b) WHERE c", "DELETE t WHERE a FROM", "UPDATE t SET a = 1, b = 2, c = 3 WHERE a IN (1, 2)",
}

func genDML(w *bufio.Writer, tier string, r *rng) {
	g := &dmlGen{r: r}
	emit := func(eps []string, s string) {
		for _, ep := range eps {
			fmt.Fprintf(w, "DML %s %s\n", ep, hx(s))
		}
	}
	all := []string{"D", "Ds", "S", "Ss"}
	for _, s := range dmlCases {
		emit(all, s)
	}
	nvalid, nmut, nlist := 22000, 19000, 10000
	if tier == "thorough" {
		nvalid, nmut, nlist = 250000, 250000, 120000
	}
	join := func(ts []string) string { return joinTrivia(ts, r, r.intn(3)) }
	for i := 0; i < nvalid; i++ {
		emit(all, join(g.stmt()))
	}
	for i := 0; i < nmut; i++ {
		ts := g.mutate(g.stmt())
		if g.coin(4) {
			ts = g.mutate(ts)
		}
		emit(all, join(ts))
	}
	for i := 0; i < nlist; i++ {
		var ts []string
		n := 1 + r.intn(3)
		for g.coin(4) {
			ts = append(ts, ";")
		}
		for j := 0; j < n; j++ {
			st := g.stmt()
			if g.coin(10) {
				st = g.mutate(st)
			}
			ts = append(ts, st...)
			if j+1 < n || g.coin(2) {
				ts = append(ts, ";")
				for g.coin(5) {
					ts = append(ts, ";")
				}
			}
		}
		emit(all, join(ts))
	}
}
