package main

import (
	"os"
	"path/filepath"
	"sort"
	"strings"
)

// repoRoot is the tree under test; checks always run against /repo's working tree.
func repoRoot() string {
	if r := os.Getenv("MF_REPO"); r != "" {
		return r
	}
	return "/repo"
}

type corpusFile struct {
	Dir, Name, Text string
	Bad             bool
}

var corpusCache []corpusFile

// corpusFiles loads testdata/input/<dir>/*.sql (the golden inputs of the suite).
func corpusFiles() []corpusFile {
	if corpusCache != nil {
		return corpusCache
	}
	root := filepath.Join(repoRoot(), "testdata", "input")
	for _, dir := range []string{"ddl", "dml", "expr", "query", "statement"} {
		ents, err := os.ReadDir(filepath.Join(root, dir))
		if err != nil {
			continue
		}
		var names []string
		for _, e := range ents {
			if strings.HasSuffix(e.Name(), ".sql") {
				names = append(names, e.Name())
			}
		}
		sort.Strings(names)
		for _, n := range names {
			b, err := os.ReadFile(filepath.Join(root, dir, n))
			if err != nil {
				continue
			}
			corpusCache = append(corpusCache, corpusFile{Dir: dir, Name: n, Text: string(b), Bad: strings.HasPrefix(n, "!bad_")})
		}
	}
	return corpusCache
}

func corpusStrings() []string {
	var out []string
	for _, f := range corpusFiles() {
		out = append(out, f.Text)
	}
	return out
}

// lexical fragments used by the random generators
var lexFrags = []string{
	"a", "_b1", "SELECT", "select", "From", "1", "0", "0x1F", "0X", "0x", "1.5", ".5", "1.", "1e10", "1E-3", "1e", "1e+", "1.e5",
	"'", "\"", "`", "'''", "\"\"\"", "r'", "b\"", "rb'", "Br\"", "bb'", "rr'", "\\", "\\n", "\\x41", "\\x4", "\\101", "\\18", "\\u00e9", "\\U0001F600",
	"\\ud800", "\\U00110000", "\\q", "\\'", "\\\"", "\\`", "\n", " ", "\t", "\r", " ", "　", "\u0085", "#", "--", "//", "/*", "*/", "/", "*", "-",
	".", ",", ";", "(", ")", "[", "]", "{", "}", "<", ">", "<<", ">>", "<=", ">=", "<>", "!=", "!", "=", "=>", "->", "+=", "-=", "|", "||", "|>",
	"@", "@@", "@p", "@1", "?", "$", "~", "^", "&", "%", ":", "+", "é", "\xff", "\xc3", "\xe2\x80", "\x00", "\x7f",
}

func randomLexInput(r *rng) []byte {
	n := 1 + r.intn(8)
	var b []byte
	for i := 0; i < n; i++ {
		switch r.intn(10) {
		case 0:
			b = append(b, byte(r.intn(256)))
		default:
			b = append(b, lexFrags[r.intn(len(lexFrags))]...)
		}
	}
	return b
}
