package main

import (
	"os"
	"path/filepath"
	"regexp"
	"sort"
	"strings"

	"github.com/cloudspannerecosystem/memefish/token"
)

// parserInputs is the input distribution shared by the parser-level predicates:
// replay / hints first, then every golden input with the entry point its test uses, then token-level mutations
// (the malformed stream), then small hand-written probes of constructs the corpus under-represents.
// withPrinted wraps a consumer of parserInputs: after every accepted input whose SQL() text has a DIFFERENT sequence of token kinds
// (SQL() moved, dropped or added a token: a clause printed in another order, an optional word, a parenthesis), the printed text is
// passed on as an input of its own — it is an accepted input like any other, and the position properties must hold on it too
func withPrinted(each func(e *entry, s string, origin string)) func(e *entry, s string, origin string) {
	kinds := func(s string) string {
		toks, ok := tokenSpans(s)
		if !ok {
			return "!"
		}
		var sb strings.Builder
		for _, t := range toks {
			sb.WriteString(string(t.Kind))
			sb.WriteByte(0)
		}
		return sb.String()
	}
	return func(e *entry, s string, origin string) {
		each(e, s, origin)
		if origin == "printed" {
			return
		}
		r := safeParse(e, s)
		if r.hung || r.panicked != nil || r.err != nil {
			return
		}
		sql, p := sqlAll(r.nodes)
		if p != nil || sql == s {
			return
		}
		if k := kinds(sql); k != "!" && k != kinds(s) {
			each(e, sql, "printed")
		}
	}
}

func parserInputs(o *propOpts, each func(e *entry, s string, origin string)) {
	if o.single != nil {
		b, _ := unhex(o.single.Input)
		if e := entryByName(o.single.Entry); e != nil {
			each(e, string(b), "replay")
			return
		}
		for i := range entries {
			each(&entries[i], string(b), "replay")
		}
		return
	}
	for _, h := range hintInputs(o) {
		for _, n := range []string{"ParseStatement", "ParseExpr", "ParseType"} {
			each(entryByName(n), h, "hint")
		}
	}
	for _, cf := range corpusFiles() {
		each(entryByName(entryForDir(cf.Dir)), cf.Text, "corpus")
	}
	for _, p := range probes {
		each(entryByName(p.entry), p.text, "probe")
	}
	for _, st := range g0Sentences(o.tier) {
		each(entryByName(st.entry), st.text, "G0")
	}
	// the sentences of the reference grammar G (a seed-dependent half in the quick tier)
	for i, st := range gSentences(o.tier, o.seed) {
		if o.tier == "thorough" || i%2 == int(o.seed%2) {
			each(entryByName(st.entry), st.text, "G")
		}
	}
	// near misses of the words the parser compares identifiers with (IsKeywordLike / IsIdent / expectKeywordLike arguments and
	// the scalar type names, read from parser.go): a name differing from such a word in its first or last letter, or one letter
	// longer, is an ordinary identifier and must stay one through SQL()
	for _, w := range parserWords() {
		for _, v := range []string{"X" + w[1:], w[:len(w)-1] + "X", w + "X", strings.ToLower("x" + w[1:])} {
			if v == w || token.IsKeyword(v) {
				continue
			}
			each(entryByName("ParseType"), v, "nearmiss")
			each(entryByName("ParseExpr"), "CAST(a AS "+v+")", "nearmiss")
			each(entryByName("ParseExpr"), v+" + a."+v, "nearmiss")
			each(entryByName("ParseExpr"), "a["+v+"]", "nearmiss")
			each(entryByName("ParseQuery"), "SELECT "+v+", t."+v+" AS "+v+" FROM "+v+" AS "+v, "nearmiss")
			each(entryByName("ParseDDL"), "CREATE TABLE "+v+" ("+v+" INT64, b "+v+") PRIMARY KEY ("+v+")", "nearmiss")
		}
	}
	// systematic grafts: for every golden input, every node and every ABSENT optional single child, one text of the slot's type
	// inserted after the preceding sibling and one at the end of the node
	sys := 0
	graftSystematic(r0(o.seed), func(e *entry, s string) {
		sys++
		if o.tier == "thorough" || sys%3 == int(o.seed%3) {
			each(e, s, "graft-systematic")
		}
	})
	// systematic single-token edits of the golden inputs: at every token position delete the token, or insert a number, a comma,
	// an identifier or a closing parenthesis before it (the error stream with exactly one fault, at every place of every construct)
	files := corpusFiles()
	edits := 0
	for _, cf := range files {
		if cf.Bad {
			continue
		}
		toks, ok := tokenSpans(cf.Text)
		if !ok {
			continue
		}
		e := entryByName(entryForDir(cf.Dir))
		for i := 0; i+1 < len(toks); i++ {
			t := toks[i]
			for k, ins := range singleEdits {
				edits++
				if o.tier != "thorough" && edits%4 != int(o.seed%4) {
					continue
				}
				if k == 0 {
					each(e, cf.Text[:t.Pos]+cf.Text[t.End:], "edit-delete")
				} else {
					each(e, cf.Text[:t.Pos]+ins+" "+cf.Text[t.Pos:], "edit-insert")
				}
			}
		}
	}
	// systematic keyword substitutions: an identifier replaced by each of the reserved words, at up to two positions of every
	// distinct token context (previous token, next token kind) of the golden inputs — "a name that happens to be a keyword" at
	// every kind of identifier position (hint keys, option names, aliases, column names, field names, ...)
	kwCtx := map[string]int{}
	for _, cf := range files {
		if cf.Bad {
			continue
		}
		toks, ok := tokenSpans(cf.Text)
		if !ok {
			continue
		}
		e := entryByName(entryForDir(cf.Dir))
		for i := 0; i+1 < len(toks); i++ {
			t := toks[i]
			if t.Kind != token.TokenIdent {
				continue
			}
			prev := "^"
			if i > 0 {
				prev = strings.ToUpper(toks[i-1].Raw)
				if toks[i-1].Kind == token.TokenIdent && !gIsKeywordLike(prev) {
					prev = "<ident>"
				}
			}
			key := prev + "\x00" + string(toks[i+1].Kind)
			if kwCtx[key] >= 2 {
				continue
			}
			kwCtx[key]++
			for _, kw := range token.Keywords {
				edits++
				if o.tier != "thorough" && edits%4 != int(o.seed%4) {
					continue
				}
				each(e, cf.Text[:t.Pos]+string(kw)+cf.Text[t.End:], "edit-keyword")
			}
		}
	}
	// systematic PSEUDO-KEYWORD substitutions (round 3, seed C02h): a word the parser compares identifiers with (TABLE, VIEW, ROLE,
	// STREAM, INTERLEAVE, …; not reserved) replaced, where the golden inputs use it in keyword position, by every OTHER such word, at
	// one position of every distinct (previous token, word, next token kind) context — "the sibling clause spelled with the wrong
	// pseudo keyword": whatever a merged or generalised dispatch now accepts is checked like any other accepted input
	{
		pkCtx := map[string]bool{}
		words := parserWords()
		isWord := map[string]bool{}
		for _, w := range words {
			isWord[strings.ToUpper(w)] = true
		}
		for _, cf := range files {
			if cf.Bad {
				continue
			}
			toks, ok := tokenSpans(cf.Text)
			if !ok {
				continue
			}
			e := entryByName(entryForDir(cf.Dir))
			for i := 0; i+1 < len(toks); i++ {
				t := toks[i]
				up := strings.ToUpper(t.Raw)
				if t.Kind != token.TokenIdent || !isWord[up] {
					continue
				}
				prev := "^"
				if i > 0 {
					prev = strings.ToUpper(toks[i-1].Raw)
					if toks[i-1].Kind == token.TokenIdent && !isWord[prev] {
						prev = "<ident>"
					}
				}
				key := prev + "\x00" + up + "\x00" + string(toks[i+1].Kind)
				if pkCtx[key] {
					continue
				}
				pkCtx[key] = true
				for _, w := range words {
					if strings.ToUpper(w) == up {
						continue
					}
					edits++
					if o.tier != "thorough" && edits%4 != int(o.seed%4) {
						continue
					}
					each(e, cf.Text[:t.Pos]+strings.ToUpper(w)+cf.Text[t.End:], "edit-pseudokw")
				}
			}
		}
	}
	// … and the same substitutions in the MINIMAL sentence of every production of G (no context de-duplication: the minimal sentence
	// is where a clause stands alone — `GRANT SELECT(a) ON TABLE t TO ROLE r` with TABLE turned into VIEW, seed C02h — while the
	// golden inputs combine it with siblings that keep the generalised dispatch from firing)
	{
		words := parserWords()
		isWord := map[string]bool{}
		for _, w := range words {
			isWord[strings.ToUpper(w)] = true
		}
		seenProd := map[string]bool{}
		for _, st := range gSentences(o.tier, o.seed) {
			if strings.HasPrefix(st.prod, "random/") || seenProd[st.prod] {
				continue
			}
			seenProd[st.prod] = true
			toks, ok := tokenSpans(st.text)
			if !ok {
				continue
			}
			e := entryByName(st.entry)
			for i := 0; i+1 < len(toks); i++ {
				t := toks[i]
				up := strings.ToUpper(t.Raw)
				if t.Kind != token.TokenIdent || !isWord[up] {
					continue
				}
				for _, w := range words {
					if strings.ToUpper(w) == up {
						continue
					}
					edits++
					if o.tier != "thorough" && edits%4 != int(o.seed%4) {
						continue
					}
					each(e, st.text[:t.Pos]+strings.ToUpper(w)+st.text[t.End:], "edit-pseudokw-G")
				}
			}
		}
	}
	// systematic INTEGER-SPELLING substitutions (round 3, seed C03h): every integer literal of the golden inputs, at one position of every
	// distinct (previous token, next token kind) context, replaced by the unusual spellings the lexer accepts as <int> (leading zeros
	// with 8 / 9, hexadecimal in both cases, values beyond int64 / uint64) — code that converts the text of a literal meets them here
	{
		intCtx := map[string]bool{}
		for _, cf := range files {
			if cf.Bad {
				continue
			}
			toks, ok := tokenSpans(cf.Text)
			if !ok {
				continue
			}
			e := entryByName(entryForDir(cf.Dir))
			for i := 1; i+1 < len(toks); i++ {
				t := toks[i]
				if t.Kind != token.TokenInt {
					continue
				}
				key := strings.ToUpper(toks[i-1].Raw) + "\x00" + string(toks[i+1].Kind)
				if toks[i-1].Kind == token.TokenIdent && !gIsKeywordLike(toks[i-1].Raw) {
					key = "<ident>\x00" + string(toks[i+1].Kind)
				}
				if intCtx[key] {
					continue
				}
				intCtx[key] = true
				for _, v := range []string{"08", "0190", "007", "00", "0x1F", "0XaB", "0x0", "9223372036854775807", "9223372036854775808", "18446744073709551616", "99999999999999999999999999"} {
					each(e, cf.Text[:t.Pos]+v+cf.Text[t.End:], "edit-intlit")
				}
			}
		}
	}
	// systematic QUOTED-word substitutions (the round-trip and losslessness predicates only: they are about what SQL() prints): an
	// identifier replaced by a back-quoted word that parser.go compares identifiers with (INSERT, OPTIONS, INTERLEAVE, VALUE, type
	// names, ...) at one position of every distinct (statement head, previous token, next token kind) context of the golden inputs and of a
	// sample of G: written with back quotes such a word is an ordinary name, and it must still be one after SQL() printed it bare
	if o.prop == "C01" || o.prop == "C02" {
		qwCtx := map[string]bool{}
		words := parserWords()
		quoteAt := func(e *entry, text string) {
			toks, ok := tokenSpans(text)
			if !ok || len(toks) < 2 {
				return
			}
			head := ""
			switch strings.ToUpper(toks[0].Raw) {
			case "CREATE", "ALTER", "DROP":
				head = strings.ToUpper(toks[0].Raw)
				if len(toks) > 2 && (toks[1].Kind != token.TokenIdent || gIsKeywordLike(toks[1].Raw)) {
					head += " " + strings.ToUpper(toks[1].Raw)
				}
			}
			for i := 1; i+1 < len(toks); i++ {
				t := toks[i]
				if t.Kind != token.TokenIdent || strings.HasPrefix(t.Raw, "`") || gIsKeywordLike(t.Raw) {
					continue
				}
				prev := string(toks[i-1].Kind)
				if toks[i-1].Kind == token.TokenIdent {
					if prev = strings.ToUpper(toks[i-1].Raw); !gIsKeywordLike(prev) {
						prev = "<ident>"
					}
				}
				next := string(toks[i+1].Kind)
				if toks[i+1].Kind == token.TokenIdent && gIsKeywordLike(toks[i+1].Raw) {
					next = strings.ToUpper(toks[i+1].Raw)
				}
				key := head + "\x00" + prev + "\x00" + next
				if qwCtx[key] {
					continue
				}
				qwCtx[key] = true
				for _, w := range words {
					edits++
					if o.tier != "thorough" && edits%4 != int(o.seed%4) {
						continue
					}
					each(e, text[:t.Pos]+"`"+strings.ToLower(w)+"`"+text[t.End:], "edit-quotedword")
				}
			}
		}
		for _, cf := range files {
			if !cf.Bad {
				quoteAt(entryByName(entryForDir(cf.Dir)), cf.Text)
			}
		}
		for i, st := range gSentences(o.tier, o.seed) {
			if i%16 == 0 || o.tier == "thorough" {
				quoteAt(entryByName(st.entry), st.text)
			}
		}
	}
	nmut := 15000
	if o.tier == "thorough" {
		nmut = 120000
	}
	r := &rng{s: o.seed}
	for i := 0; i < nmut; i++ {
		cf := files[r.intn(len(files))]
		s := cf.Text
		for j := 0; j < 1+r.intn(2); j++ {
			s = mutate(r, s)
		}
		each(entryByName(entryForDir(cf.Dir)), s, "mutation")
	}
	// structural recombinations of the golden inputs (see graft.go), up to two steps deep
	ngraft := 12000
	if o.tier == "thorough" {
		ngraft = 120000
	}
	for i := 0; i < ngraft; i++ {
		cf := files[r.intn(len(files))]
		if cf.Bad {
			continue
		}
		e := entryByName(entryForDir(cf.Dir))
		s := graft(r, e, cf.Text)
		if s == "" {
			continue
		}
		if r.intn(3) == 0 {
			if s2 := graft(r, e, s); s2 != "" {
				s = s2
			}
		}
		each(e, s, "graft")
		if r.intn(4) == 0 { // the malformed stream of the recombined inputs
			each(e, mutate(r, s), "graft+mutation")
		}
	}
	// expression soups: operators and atoms glued with blanks (valid and invalid)
	nexpr := 6000
	if o.tier == "thorough" {
		nexpr = 30000
	}
	for i := 0; i < nexpr; i++ {
		n := 1 + r.intn(9)
		parts := make([]string, n)
		for j := range parts {
			parts[j] = exprFrags[r.intn(len(exprFrags))]
		}
		each(entryByName("ParseExpr"), strings.Join(parts, " "), "exprsoup")
	}
	// trivia soups: operators, atoms and COMMENTS glued or separated at random (mostly invalid: they exercise what a Bad node
	// records and prints when comments sit directly against tokens)
	for i := 0; i < nexpr/2; i++ {
		n := 2 + r.intn(7)
		var sb strings.Builder
		for j := 0; j < n; j++ {
			sb.WriteString(triviaFrags[r.intn(len(triviaFrags))])
			sb.WriteString([]string{"", "", " ", "\n"}[r.intn(4)])
		}
		each(entryByName([]string{"ParseExpr", "ParseQuery", "ParseStatement"}[i%3]), sb.String(), "triviasoup")
	}
}

var exprFrags = []string{"a", "b.c", "1", "-1", "1.5", "'s'", "b'x'", "@p", "NULL", "TRUE", "+", "-", "~", "*", "/", "||", "<<", ">>", "&", "^", "|", "=", "!=", "<>", "<", "<=", ">", ">=",
	"LIKE", "NOT LIKE", "IN (1, 2)", "NOT IN (1)", "IN UNNEST(a)", "BETWEEN 1 AND 2", "NOT BETWEEN a AND b", "IS NULL", "IS NOT NULL", "IS TRUE", "IS NOT FALSE", "NOT", "AND", "OR",
	"(", ")", "[1]", "[OFFSET(1)]", ".f", "f(1)", "f(a, b)", "CASE WHEN a THEN b END", "IF(a, b, c)", "CAST(a AS INT64)", "ARRAY[1]", "STRUCT(1)", "(SELECT 1)", "EXISTS(SELECT 1)",
	"[1, 2]", "NEW T(1)", "{a: 1}", "STRUCT<INT64, ARRAY<INT64>>(1, [2])", "NEW T {b: 1}", "NEW T {b: 1, c {d: 2}}", "ARRAY<STRUCT<a INT64>>[(1)]", "STRUCT<a INT64, b STRING>(1, 'x')",
	"CAST(a AS ARRAY<STRUCT<x INT64>>)", "f(a => 1)", "(SELECT a FROM t WHERE b)", "ARRAY(SELECT 1)", "WITH(a AS 1, a)", "[", "]", "{", "}", "<", ">", "DATE '2020-01-01'", "INTERVAL 1 DAY", "x.*", ",", "AS",
	".`select`", ".`all`", ".select", ".1", "CASE a WHEN 1 THEN b ELSE c END", "JSON '{}'", "`from`", "a.`b c`", "@p.f", "f(1).g", "a[0].all"}

// probes: constructs quoted in the property texts and in DESIGN §5 (each must hold after the recorded fixes)
var probes = []struct{ entry, text string }{
	{"ParseExpr", "`SAFE_CAST`"}, {"ParseExpr", "`safe_cast` + 1"}, {"ParseExpr", "`replace_fields` IS NULL"}, {"ParseExpr", "a.`SAFE_CAST`"}, {"ParseExpr", "`DATE` + 1"}, {"ParseExpr", "`IF`"},
	{"ParseExpr", "- -1"}, {"ParseExpr", "+ +1"}, {"ParseExpr", "- - a"}, {"ParseExpr", "-(-1)"}, {"ParseExpr", "NEW T(1) + 1"}, {"ParseExpr", "REPLACE_FIELDS(a, 1 AS b) + 1"},
	{"ParseExpr", "{a: 1}.b"}, {"ParseExpr", "NEW T {a: 1}"}, {"ParseExpr", "NEW T {a}"}, {"ParseExpr", "WITH(a AS 1, a)"}, {"ParseExpr", "WITH(1)"}, {"ParseExpr", "\"\\xff\""},
	{"ParseExpr", "a.1"}, {"ParseExpr", "a.select"}, {"ParseExpr", "a[OFFSET(1)].b"}, {"ParseExpr", "a || b * c"}, {"ParseExpr", "a = b = c"}, {"ParseExpr", "NOT a = b"},
	{"ParseExpr", "a BETWEEN b | c AND d"}, {"ParseExpr", "(a)"}, {"ParseExpr", "((a))"}, {"ParseExpr", "a IS NOT NULL AND b"}, {"ParseExpr", "[1 +, 2] + x"},
	{"ParseQuery", "SELECT * EXCEPT (a, b) FROM t"}, {"ParseQuery", "SELECT * REPLACE (1 AS a) FROM t"}, {"ParseQuery", "SELECT 1,"}, {"ParseQuery", "SELECT 1, FROM t"},
	{"ParseQuery", "SELECT * FROM a HASH JOIN b ON true"}, {"ParseQuery", "SELECT * FROM a LOOKUP JOIN b ON true"}, {"ParseQuery", "SELECT * FROM f(1) TABLESAMPLE BERNOULLI (1 PERCENT)"},
	{"ParseQuery", "SELECT * FROM t TABLESAMPLE RESERVOIR (1 ROWS)"}, {"ParseQuery", "SELECT 1 FOR UPDATE"}, {"ParseQuery", "(SELECT 1) UNION ALL (SELECT 2)"},
	{"ParseQuery", "SELECT a.* EXCEPT (b) FROM t"}, {"ParseQuery", "SELECT 1 .* FROM t"}, {"ParseQuery", "SELECT a + 1 .* FROM t"}, {"ParseQuery", "SELECT -1 .* FROM t"},
	{"ParseQuery", "SELECT t1.*, a.1.*, 0x1 .*, 1e-5 .*, 1.5 .*, .5 .* FROM t"}, {"ParseQuery", "SELECT 1 .f, -1 .f, a - 1 .f FROM t"}, {"ParseQuery", "FROM t |> SELECT a |> WHERE a"}, {"ParseQuery", "SELECT 1 FROM ((SELECT 1)"},
	{"ParseType", "`INT64`"}, {"ParseType", "ARRAY<STRUCT<a INT64, b ARRAY<STRING>>>"}, {"ParseType", "ARRAY<"}, {"ParseType", "STRUCT<a ARRAY<INT64>>"}, {"ParseType", "a.b.c"},
	{"ParseDDL", "CREATE CHANGE STREAM s FOR ALL"}, {"ParseDDL", "CREATE CHANGE STREAM s FOR t(a, b), u"}, {"ParseDDL", "ALTER CHANGE STREAM s SET x"}, {"ParseDDL", "ALTER SEQUENCE s"},
	{"ParseDDL", "CREATE SEQUENCE s BIT_REVERSED_POSITIVE SKIP RANGE 1, 2 START COUNTER WITH 3"}, {"ParseDDL", "CREATE SEQUENCE s BIT_REVERSED_POSITIVE SKIP RANGE 1, 2 START COUNTER WITH 3 OPTIONS (a = 1)"}, {"ParseDDL", "CREATE TABLE t (a INT64 DEFAULT (1)) PRIMARY KEY (a)"},
	{"ParseDDL", "CREATE TABLE t (a INT64, CONSTRAINT c CHECK (a > 0), b STRING(MAX)) PRIMARY KEY (a), ROW DELETION POLICY (OLDER_THAN(b, INTERVAL 1 DAY))"},
	{"ParseDDL", "CREATE PROPERTY GRAPH g NODE TABLES (t PROPERTIES (a + 1 AS b, c))"}, {"ParseDML", "INSERT INTO t (a) VALUES (DEFAULT)"}, {"ParseDML", "DELETE t WHERE true"},
	{"ParseDML", "DELETE FROM t WHERE true"}, {"ParseDML", "UPDATE t SET a = 1, b = DEFAULT WHERE true THEN RETURN WITH ACTION AS x *"},
	{"ParseStatement", "CALL p(1, TABLE t, MODEL m)"}, {"ParseStatements", "SELECT 1,; SELECT 2"}, {"ParseStatements", ";;SELECT 1;; SELECT 2;"},
	{"ParseStatements", "SELECT 1; /*c*/"}, {"ParseStatements", "SELECT 1; \x00; SELECT 2"}, {"ParseStatement", "a/*c*/b +"}, {"ParseStatement", "@{a=1} CREATE TABLE t (a INT64) PRIMARY KEY (a)"},
}

var triviaFrags = []string{"-", "/", "*", "+", "a", "1", "(", ")", ",", "--c\n", "/*c*/", "//c\n", "#c\n", "/**/", "SELECT", "FROM", ".", "'s'", "<", ">", "[", "]"}

var singleEdits = []string{"", "3", ",", "x", ")"}

var parserWordsCache []string

var parserWordRe = regexp.MustCompile(`(?:IsKeywordLike|IsIdent|expectKeywordLike|expectIdent|lookaheadKeywordLikeArg)\("([A-Za-z_0-9]+)"\)`)

// parserWords: the words parser.go compares identifier tokens with, plus the scalar type names (the simpleTypes slice).
func parserWords() []string {
	if parserWordsCache != nil {
		return parserWordsCache
	}
	b, err := os.ReadFile(filepath.Join(repoRoot(), "parser.go"))
	seen := map[string]bool{}
	if err == nil {
		for _, m := range parserWordRe.FindAllStringSubmatch(string(b), -1) {
			seen[strings.ToUpper(m[1])] = true
		}
		if i := strings.Index(string(b), "var simpleTypes = []string{"); i >= 0 {
			rest := string(b)[i:]
			if j := strings.Index(rest, "}"); j >= 0 {
				for _, m := range regexp.MustCompile(`"([A-Z0-9_]+)"`).FindAllStringSubmatch(rest[:j], -1) {
					seen[m[1]] = true
				}
			}
		}
	}
	for w := range seen {
		if len(w) >= 2 {
			parserWordsCache = append(parserWordsCache, w)
		}
	}
	sort.Strings(parserWordsCache)
	if parserWordsCache == nil {
		parserWordsCache = []string{}
	}
	return parserWordsCache
}

func r0(seed uint64) *rng { return &rng{s: seed ^ 0x5bd1e995} }
