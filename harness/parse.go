package main

import (
	"fmt"
	"reflect"
	"strings"
	"sync/atomic"
	"time"

	"github.com/cloudspannerecosystem/memefish"
	"github.com/cloudspannerecosystem/memefish/ast"
	"github.com/cloudspannerecosystem/memefish/token"
)

// entry is one public Parse* function, normalised to "list of nodes + error".
type entry struct {
	name   string
	list   bool
	single string // for list entry points: the matching single-statement entry point
	run    func(path, s string) ([]ast.Node, error)
}

func one[T ast.Node](f func(string, string) (T, error)) func(string, string) ([]ast.Node, error) {
	return func(p, s string) ([]ast.Node, error) {
		n, err := f(p, s)
		return []ast.Node{n}, err
	}
}

func many[T ast.Node](f func(string, string) ([]T, error)) func(string, string) ([]ast.Node, error) {
	return func(p, s string) ([]ast.Node, error) {
		ns, err := f(p, s)
		out := make([]ast.Node, len(ns))
		for i, n := range ns {
			out[i] = n
		}
		return out, err
	}
}

var entries = []entry{
	{"ParseStatement", false, "", one(memefish.ParseStatement)},
	{"ParseStatements", true, "ParseStatement", many(memefish.ParseStatements)},
	{"ParseQuery", false, "", one(memefish.ParseQuery)},
	{"ParseExpr", false, "", one(memefish.ParseExpr)},
	{"ParseType", false, "", one(memefish.ParseType)},
	{"ParseDDL", false, "", one(memefish.ParseDDL)},
	{"ParseDDLs", true, "ParseDDL", many(memefish.ParseDDLs)},
	{"ParseDML", false, "", one(memefish.ParseDML)},
	{"ParseDMLs", true, "ParseDML", many(memefish.ParseDMLs)},
}

func entryByName(n string) *entry {
	for i := range entries {
		if entries[i].name == n {
			return &entries[i]
		}
	}
	return nil
}

// entryForDir maps a testdata directory to the entry point its golden test uses.
func entryForDir(dir string) string {
	switch dir {
	case "ddl":
		return "ParseDDL"
	case "dml":
		return "ParseDML"
	case "expr":
		return "ParseExpr"
	case "query":
		return "ParseQuery"
	}
	return "ParseStatement"
}

type callResult struct {
	nodes    []ast.Node
	err      error
	panicked any
	hung     bool
}

var callTimeout = 5 * time.Second

// safeParse runs an entry point under recover and a wall-clock deadline.
// safeParse runs one entry point under recover and a deadline. A call that misses the deadline is run once more, alone, with
// a deadline twelve times as long before it is called hung: on a loaded machine (or under the race detector) a slow call is not
// a looping call, and "returns in bounded time" must not depend on the load.
func safeParse(e *entry, s string) callResult {
	if atomic.LoadInt32(&overruns) >= maxOverruns {
		return callResult{hung: true}
	}
	r := safeParseWithin(e, s, callTimeout)
	if r.hung {
		r = safeParseWithin(e, s, 12*callTimeout)
		if r.hung {
			atomic.AddInt32(&overruns, 1)
		}
	}
	return r
}

func safeParseWithin(e *entry, s string, limit time.Duration) callResult {
	ch := make(chan callResult, 1)
	go func() {
		var r callResult
		defer func() {
			if p := recover(); p != nil {
				r.panicked = p
			}
			ch <- r
		}()
		r.nodes, r.err = e.run("", s)
	}()
	select {
	case r := <-ch:
		return r
	case <-time.After(limit):
		return callResult{hung: true}
	}
}

// safely runs f under recover and a deadline; returns the panic value, if any, or a description of the overrun when f does
// not return (SQL(), Pos(), End(), Walk on a returned tree must terminate just as the parse itself: a looping printer is a
// violation to report, not a reason for the check to hang).
func safely(f func()) (p any) {
	if atomic.LoadInt32(&overruns) >= maxOverruns {
		return "not run: earlier calls did not return (their goroutines are still spinning)"
	}
	done := make(chan any, 1)
	go func() {
		defer func() { done <- recover() }()
		f()
	}()
	limit := 4 * callTimeout // calls on a finished tree take microseconds; 20 s is ample even on a loaded machine
	t := time.NewTimer(limit)
	defer t.Stop()
	select {
	case p = <-done:
		return p
	case <-t.C:
		atomic.AddInt32(&overruns, 1)
		return fmt.Sprintf("did not return within %v", limit)
	}
}

// overruns counts calls that missed their (long) deadline in this process. Each leaves a goroutine spinning, so after a few of
// them the process stops starting new guarded calls and reports what it has: the finding is made, more of it only burns CPU.
var overruns int32

const maxOverruns = 3

func isNilNode(n ast.Node) bool {
	if n == nil {
		return true
	}
	v := reflect.ValueOf(n)
	return v.Kind() == reflect.Ptr && v.IsNil()
}

var (
	nodeIface = reflect.TypeOf((*ast.Node)(nil)).Elem()
	posType   = reflect.TypeOf(token.Pos(0))
	tokPtr    = reflect.TypeOf((*token.Token)(nil))
)

type child struct {
	field string
	index int // -1 for a single child
	node  ast.Node
}

// children enumerates the node-typed exported fields of n by reflection, in declaration order
// (independent of ast.Walk and of walk_internal.go).
func children(n ast.Node) []child {
	var out []child
	if isNilNode(n) {
		return nil
	}
	v := reflect.ValueOf(n)
	if v.Kind() == reflect.Ptr {
		v = v.Elem()
	}
	if v.Kind() != reflect.Struct {
		return nil
	}
	t := v.Type()
	for i := 0; i < t.NumField(); i++ {
		f := t.Field(i)
		if !f.IsExported() {
			continue
		}
		fv := v.Field(i)
		switch {
		case f.Type.Implements(nodeIface):
			if fv.Kind() == reflect.Interface && fv.IsNil() {
				continue
			}
			if fv.Kind() == reflect.Ptr && fv.IsNil() {
				continue
			}
			c := fv.Interface().(ast.Node)
			if isNilNode(c) {
				continue
			}
			out = append(out, child{f.Name, -1, c})
		case f.Type.Kind() == reflect.Slice && f.Type.Elem().Implements(nodeIface):
			for j := 0; j < fv.Len(); j++ {
				ev := fv.Index(j)
				if (ev.Kind() == reflect.Interface || ev.Kind() == reflect.Ptr) && ev.IsNil() {
					continue
				}
				c := ev.Interface().(ast.Node)
				if isNilNode(c) {
					continue
				}
				out = append(out, child{f.Name, j, c})
			}
		}
	}
	return out
}

// allNodes lists n and its descendants in pre-order.
func allNodes(n ast.Node) []ast.Node {
	var out []ast.Node
	var rec func(ast.Node, int)
	rec = func(x ast.Node, depth int) {
		if isNilNode(x) || depth > 5000 {
			return
		}
		out = append(out, x)
		for _, c := range children(x) {
			rec(c.node, depth+1)
		}
	}
	rec(n, 0)
	return out
}

func kindName(n ast.Node) string {
	t := reflect.TypeOf(n)
	if t.Kind() == reflect.Ptr {
		t = t.Elem()
	}
	return t.Name()
}

func isBad(n ast.Node) bool {
	switch n.(type) {
	case *ast.BadNode, *ast.BadStatement, *ast.BadQueryExpr, *ast.BadExpr, *ast.BadType, *ast.BadDDL, *ast.BadDML:
		return true
	}
	return false
}

// dump renders a tree as an s-expression over exported fields. Positions are rendered as their value
// (withPos) or only as valid/invalid ("equal up to position values, presence must agree").
func dump(n ast.Node, withPos bool) string {
	var sb strings.Builder
	dumpValue(&sb, reflect.ValueOf(n), withPos, 0)
	return sb.String()
}

func dumpValue(sb *strings.Builder, v reflect.Value, withPos bool, depth int) {
	if depth > 5000 {
		sb.WriteString("<deep>")
		return
	}
	switch v.Kind() {
	case reflect.Invalid:
		sb.WriteString("nil")
	case reflect.Interface, reflect.Ptr:
		if v.IsNil() {
			sb.WriteString("nil")
			return
		}
		if v.Type() == tokPtr {
			t := v.Interface().(*token.Token)
			fmt.Fprintf(sb, "(tok %q %q", string(t.Kind), t.Raw)
			if withPos {
				fmt.Fprintf(sb, " %d %d", t.Pos, t.End)
			}
			sb.WriteString(")")
			return
		}
		dumpValue(sb, v.Elem(), withPos, depth+1)
	case reflect.Struct:
		t := v.Type()
		sb.WriteString("(")
		sb.WriteString(t.Name())
		for i := 0; i < t.NumField(); i++ {
			f := t.Field(i)
			if !f.IsExported() {
				continue
			}
			sb.WriteString(" ")
			sb.WriteString(f.Name)
			sb.WriteString("=")
			dumpValue(sb, v.Field(i), withPos, depth+1)
		}
		sb.WriteString(")")
	case reflect.Slice:
		if v.Type().Elem().Kind() == reflect.Uint8 {
			fmt.Fprintf(sb, "%q", v.Bytes())
			return
		}
		sb.WriteString("[")
		for i := 0; i < v.Len(); i++ {
			if i > 0 {
				sb.WriteString(" ")
			}
			dumpValue(sb, v.Index(i), withPos, depth+1)
		}
		sb.WriteString("]")
	case reflect.String:
		fmt.Fprintf(sb, "%q", v.String())
	case reflect.Bool:
		fmt.Fprintf(sb, "%v", v.Bool())
	case reflect.Int, reflect.Int64, reflect.Int32:
		if v.Type() == posType && !withPos {
			if v.Int() < 0 {
				sb.WriteString("nopos")
			} else {
				sb.WriteString("pos")
			}
			return
		}
		fmt.Fprintf(sb, "%d", v.Int())
	default:
		fmt.Fprintf(sb, "%v", v.Interface())
	}
}

type nodeField struct {
	name  string
	many  bool
	one   ast.Node
	elems []ast.Node
}

// nodeFields lists the exported node-typed fields of n in declaration order (single: possibly nil; slices: elements).
func nodeFields(n ast.Node) []nodeField {
	var out []nodeField
	v := reflect.ValueOf(n)
	if v.Kind() == reflect.Ptr {
		v = v.Elem()
	}
	if v.Kind() != reflect.Struct {
		return nil
	}
	t := v.Type()
	for i := 0; i < t.NumField(); i++ {
		f := t.Field(i)
		if !f.IsExported() {
			continue
		}
		fv := v.Field(i)
		switch {
		case f.Type.Implements(nodeIface):
			var c ast.Node
			if !((fv.Kind() == reflect.Interface || fv.Kind() == reflect.Ptr) && fv.IsNil()) {
				c = fv.Interface().(ast.Node)
				if isNilNode(c) {
					c = nil
				}
			}
			out = append(out, nodeField{name: f.Name, one: c})
		case f.Type.Kind() == reflect.Slice && f.Type.Elem().Implements(nodeIface):
			nf := nodeField{name: f.Name, many: true}
			for j := 0; j < fv.Len(); j++ {
				nf.elems = append(nf.elems, fv.Index(j).Interface().(ast.Node))
			}
			out = append(out, nf)
		}
	}
	return out
}
