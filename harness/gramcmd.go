package main

import (
	"bufio"
	"fmt"
	"os"
	"strconv"
	"strings"
	"time"
)

// gramMain: `mfh gram stats` prints the size of G; `mfh gram list <tier> <seed>` prints the sentences
// (entry, production, text); `mfh gram check <tier> <seed>` runs every sentence through c08Check and the token
// comparison and prints the ones that fail, grouped for triage; `mfh gram cover <tier> <seed>` prints the coverage table.
func gramMain(args []string) {
	if len(args) == 0 {
		fmt.Fprintln(os.Stderr, "usage: mfh gram stats | list|check|cover <tier> <seed>")
		os.Exit(2)
	}
	g := G()
	if args[0] == "try" { // mfh gram try <entry> <text>...: the C08 check on given texts
		for _, t := range args[2:] {
			d := c08Check(entryByName(args[1]), t)
			if d == "" {
				d = "ok"
			}
			fmt.Printf("%-14s %-70s %s\n", args[1], t, d)
		}
		return
	}
	if args[0] == "stats" {
		nts, alts, opts, lists, refs, lex := g.stats()
		fmt.Printf("non-terminals %d (of which lexical %d), alternatives %d, lexical alternatives %d, optionals %d, lists %d, non-terminal references %d\n",
			nts, len(gLexRules), alts, lex, opts, lists, refs)
		return
	}
	tier, seed := "quick", uint64(1)
	if len(args) > 1 {
		tier = args[1]
	}
	if len(args) > 2 {
		seed, _ = strconv.ParseUint(args[2], 10, 64)
	}
	t0 := time.Now()
	ss := gSentences(tier, seed)
	el := time.Since(t0)
	w := bufio.NewWriter(os.Stdout)
	defer w.Flush()
	switch args[0] {
	case "list":
		for _, s := range ss {
			fmt.Fprintf(w, "%s\t%s\t%s\n", s.entry, s.prod, strings.ReplaceAll(s.text, "\n", "\\n"))
		}
	case "cover":
		cov := gCoverage(tier, seed)
		per := map[string]int{}
		for _, s := range ss {
			per[gNonTerminal(s.prod)]++
		}
		fmt.Fprintf(w, "%d sentences, generated in %v\n", len(ss), el)
		fmt.Fprintf(w, "%-28s %-14s %-12s %s\n", "non-terminal", "alternatives", "derivations", "distinct sentences attributed")
		missing := 0
		for _, r := range g.order {
			covered, derivs := 0, 0
			for _, a := range r.alts {
				if n := cov[r.name+"/"+a.name]; n > 0 {
					covered++
					derivs += n
				} else {
					missing++
					fmt.Fprintf(w, "  NOT COVERED: %s/%s\n", r.name, a.name)
				}
			}
			fmt.Fprintf(w, "%-28s %3d/%-10d %-12d %d\n", r.name, covered, len(r.alts), derivs, per[r.name])
		}
		fmt.Fprintf(w, "%-28s %-14s %-12d %d\n", "random/*", "", cov["random/query_statement"]+cov["random/expr"]+cov["random/type"]+cov["random/dml"]+cov["random/ddl"]+cov["random/call_statement"], per["random"])
		fmt.Fprintf(w, "alternatives without a derivation: %d\n", missing)
	case "check":
		type bad struct {
			s gSentence
			d string
		}
		var bads []bad
		for _, s := range ss {
			if d := gCheck(s); d != "" {
				if key, why, ok := gKnown(s, d); ok {
					if len(args) > 3 && args[3] == "new" {
						continue
					}
					d += " [known " + key + ": " + why + "]"
				}
				bads = append(bads, bad{s, d})
			}
		}
		fmt.Fprintf(w, "%d sentences, %d failing, generated in %v\n", len(ss), len(bads), el)
		for _, b := range bads {
			fmt.Fprintf(w, "%s\t%s\t%s\t%s\n", b.s.entry, b.s.prod, strings.ReplaceAll(b.s.text, "\n", "\\n"), b.d)
		}
	}
}
