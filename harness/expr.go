package main

// EXPR channel, Go side: the answer of memefish.ParseExpr on one input, in the vocabulary of the Lean model
// MF/Model/Expr.lean (`exprRun`):
//
//	ERR                       the input does not lex, or ParseExpr returns an error
//	OUTSIDE                   the token-level rule says the input may leave the fragment M1 (not compared further)
//	OK <sexpr> <hex SQL()>    shape of the returned AST (positions omitted) and its SQL() text
//
// The token-level OUTSIDE rule (`exprTokenOutside`) is the same function as `tokenOutside` of the Lean model.

import (
	"fmt"
	"strings"

	"github.com/cloudspannerecosystem/memefish"
	"github.com/cloudspannerecosystem/memefish/ast"
	"github.com/cloudspannerecosystem/memefish/token"
)

// token classes (TK of the Lean model)
const (
	xkOther = iota
	xkEOF
	xkIdent
	xkParam
	xkInt
	xkFloat
	xkString
	xkBytes
	xkNull
	xkTrue
	xkFalse
	xkLparen
	xkRparen
	xkLbrack
	xkRbrack
	xkComma
	xkDot
	xkOp // every operator / keyword of the fragment that needs no individual treatment by the OUTSIDE rule
	xkIn // IN
	xkSelect
	xkLitStart
	xkIf  // IF
	xkEnd // END
	xkAs  // AS
)

var xkSym = map[string]int{
	"NULL": xkNull, "TRUE": xkTrue, "FALSE": xkFalse,
	"(": xkLparen, ")": xkRparen, "[": xkLbrack, "]": xkRbrack, ",": xkComma, ".": xkDot,
	"+": xkOp, "-": xkOp, "~": xkOp, "*": xkOp, "/": xkOp, "||": xkOp, "<<": xkOp, ">>": xkOp, "&": xkOp, "^": xkOp, "|": xkOp,
	"=": xkOp, "!=": xkOp, "<>": xkOp, "<": xkOp, "<=": xkOp, ">": xkOp, ">=": xkOp,
	"LIKE": xkOp, "IN": xkIn, "BETWEEN": xkOp, "IS": xkOp, "NOT": xkOp, "AND": xkOp, "OR": xkOp, "UNNEST": xkOp,
	"SELECT": xkSelect,
	"CASE": xkOp, "WHEN": xkOp, "THEN": xkOp, "ELSE": xkOp, "END": xkEnd, "IF": xkIf,
	"CAST": xkOp, "AS": xkAs, "EXISTS": xkLitStart, "EXTRACT": xkLitStart, "WITH": xkLitStart,
	"ARRAY": xkLitStart, "STRUCT": xkLitStart, "NEW": xkLitStart, "{": xkLitStart,
}

func xkOf(t *token.Token) int {
	switch t.Kind {
	case token.TokenEOF:
		return xkEOF
	case token.TokenIdent:
		return xkIdent
	case token.TokenParam:
		return xkParam
	case token.TokenInt:
		return xkInt
	case token.TokenFloat:
		return xkFloat
	case token.TokenString:
		return xkString
	case token.TokenBytes:
		return xkBytes
	case token.TokenBad:
		return xkOther
	}
	if k, ok := xkSym[string(t.Kind)]; ok {
		return k
	}
	return xkOther
}

func xOperandEnd(k int) bool {
	switch k {
	case xkIdent, xkParam, xkInt, xkFloat, xkString, xkBytes, xkNull, xkTrue, xkFalse, xkRparen, xkRbrack, xkEnd:
		return true
	}
	return false
}

func xIsPosKw(t *token.Token) bool {
	return t.IsIdent("OFFSET") || t.IsIdent("ORDINAL") || t.IsIdent("SAFE_OFFSET") || t.IsIdent("SAFE_ORDINAL")
}

// exprTokenOutside mirrors MF.Expr.tokenOutside / outsideScan.
func exprTokenOutside(toks []token.Token) bool {
	prev := xkEOF
	var stack []bool
	for i := range toks {
		t := &toks[i]
		k := xkOf(t)
		next := xkEOF
		if i+1 < len(toks) {
			next = xkOf(&toks[i+1])
		}
		if k == xkOther || k == xkLitStart || k == xkSelect {
			return true
		}
		if k == xkIdent {
			if t.IsKeywordLike("SAFE_CAST") || t.IsKeywordLike("REPLACE_FIELDS") {
				return true
			}
			if next == xkLparen && !(prev == xkLbrack && len(stack) > 0 && !stack[len(stack)-1] && xIsPosKw(t)) {
				return true
			}
			if next == xkString && (t.IsKeywordLike("DATE") || t.IsKeywordLike("TIMESTAMP") || t.IsKeywordLike("NUMERIC") || t.IsKeywordLike("JSON")) {
				return true
			}
		}
		if k == xkIdent && prev == xkAs && xIsSimpleTypeName(t) && next != xkDot {
			return true // CAST(… AS <scalar type name>): SimpleType is outside the fragment
		}
		if k == xkComma && !(len(stack) > 0 && stack[len(stack)-1]) {
			return true
		}
		switch k {
		case xkLparen:
			stack = append(stack, prev == xkIn || prev == xkIf)
		case xkLbrack:
			stack = append(stack, !xOperandEnd(prev))
		case xkRparen, xkRbrack:
			if len(stack) > 0 {
				stack = stack[:len(stack)-1]
			}
		}
		prev = k
	}
	return false
}

var xSimpleTypes = []string{"BOOL", "INT64", "FLOAT32", "FLOAT64", "DATE", "TIMESTAMP", "NUMERIC", "STRING", "BYTES", "JSON", "TOKENLIST"}

func xIsSimpleTypeName(t *token.Token) bool {
	for _, n := range xSimpleTypes {
		if t.IsIdent(n) {
			return true
		}
	}
	return false
}

func xbool(b bool) string {
	if b {
		return "true"
	}
	return "false"
}

// exprSexp dumps an AST of the fragment; ok=false when a node kind outside the fragment is met.
func exprSexp(e ast.Node) (s string, ok bool) {
	ok = true
	var d func(n ast.Node) string
	d = func(n ast.Node) string {
		switch n := n.(type) {
		case *ast.NullLiteral:
			return "null"
		case *ast.BoolLiteral:
			return xbool(n.Value)
		case *ast.IntLiteral:
			return "(int " + hx(n.Value) + ")"
		case *ast.FloatLiteral:
			return "(float " + hx(n.Value) + ")"
		case *ast.StringLiteral:
			return "(str " + hx(n.Value) + ")"
		case *ast.BytesLiteral:
			return "(bytes " + hx(string(n.Value)) + ")"
		case *ast.Param:
			return "(param " + hx(n.Name) + ")"
		case *ast.Ident:
			return "(ident " + hx(n.Name) + ")"
		case *ast.Path:
			var sb strings.Builder
			sb.WriteString("(path")
			for _, id := range n.Idents {
				sb.WriteString(" " + hx(id.Name))
			}
			sb.WriteString(")")
			return sb.String()
		case *ast.ParenExpr:
			return "(paren " + d(n.Expr) + ")"
		case *ast.UnaryExpr:
			return "(unary " + string(n.Op) + " " + d(n.Expr) + ")"
		case *ast.BinaryExpr:
			return "(bin " + strings.ReplaceAll(string(n.Op), " ", "_") + " " + d(n.Left) + " " + d(n.Right) + ")"
		case *ast.IsNullExpr:
			return "(isnull " + xbool(n.Not) + " " + d(n.Left) + ")"
		case *ast.IsBoolExpr:
			return "(isbool " + xbool(n.Not) + " " + xbool(n.Right) + " " + d(n.Left) + ")"
		case *ast.BetweenExpr:
			return "(between " + xbool(n.Not) + " " + d(n.Left) + " " + d(n.RightStart) + " " + d(n.RightEnd) + ")"
		case *ast.InExpr:
			switch c := n.Right.(type) {
			case *ast.ValuesInCondition:
				var sb strings.Builder
				sb.WriteString("(in " + xbool(n.Not) + " " + d(n.Left) + " (values")
				for _, x := range c.Exprs {
					sb.WriteString(" " + d(x))
				}
				sb.WriteString("))")
				return sb.String()
			case *ast.UnnestInCondition:
				return "(in " + xbool(n.Not) + " " + d(n.Left) + " (unnest " + d(c.Expr) + "))"
			}
			ok = false
			return "?"
		case *ast.SelectorExpr:
			return "(sel " + d(n.Expr) + " " + hx(n.Ident.Name) + ")"
		case *ast.IndexExpr:
			switch ix := n.Index.(type) {
			case *ast.ExprArg:
				return "(index " + d(n.Expr) + " (expr " + d(ix.Expr) + "))"
			case *ast.SubscriptSpecifierKeyword:
				return "(index " + d(n.Expr) + " (" + string(ix.Keyword) + " " + d(ix.Expr) + "))"
			}
			ok = false
			return "?"
		case *ast.CaseExpr:
			opt := func(x ast.Expr) string {
				if x == nil {
					return "-"
				}
				return d(x)
			}
			var sb strings.Builder
			sb.WriteString("(case " + opt(n.Expr))
			for _, w := range n.Whens {
				sb.WriteString(" (when " + d(w.Cond) + " " + d(w.Then) + ")")
			}
			if n.Else == nil {
				sb.WriteString(" -)")
			} else {
				sb.WriteString(" " + d(n.Else.Expr) + ")")
			}
			if len(n.Whens) == 0 {
				ok = false
			}
			return sb.String()
		case *ast.IfExpr:
			return "(if " + d(n.Expr) + " " + d(n.TrueResult) + " " + d(n.ElseResult) + ")"
		case *ast.CastExpr:
			if n.Safe {
				ok = false
			}
			switch t := n.Type.(type) {
			case *ast.NamedType:
				var sb strings.Builder
				sb.WriteString("(cast " + d(n.Expr) + " (named")
				for _, id := range t.Path {
					sb.WriteString(" " + hx(id.Name))
				}
				sb.WriteString("))")
				return sb.String()
			}
			ok = false
			return "?"
		case *ast.ArrayLiteral:
			if !n.Array.Invalid() || n.Type != nil {
				ok = false
			}
			var sb strings.Builder
			sb.WriteString("(array")
			for _, x := range n.Values {
				sb.WriteString(" " + d(x))
			}
			sb.WriteString(")")
			return sb.String()
		}
		ok = false
		return "?"
	}
	s = d(e)
	return s, ok
}

// exprLexAll: all tokens up to <eof> with the public lexer
func exprLexAll(s string) (toks []token.Token, err error, crashed any) {
	defer func() {
		if r := recover(); r != nil {
			crashed = r
		}
	}()
	l := &memefish.Lexer{File: &token.File{Buffer: s}}
	for i := 0; i < len(s)+2; i++ {
		if e := l.NextToken(); e != nil {
			return toks, e, nil
		}
		toks = append(toks, l.Token)
		if l.Token.Kind == token.TokenEOF {
			return toks, nil, nil
		}
	}
	return toks, nil, "no <eof>"
}

func exprParse(s string) (e ast.Expr, err error, crashed any) {
	defer func() {
		if r := recover(); r != nil {
			crashed = r
		}
	}()
	e, err = memefish.ParseExpr("", s)
	return e, err, nil
}

func exprRun(s string) string {
	toks, err, crashed := exprLexAll(s)
	if crashed != nil {
		return "CRASH"
	}
	if err != nil {
		return "ERR"
	}
	if exprTokenOutside(toks) {
		return "OUTSIDE"
	}
	e, err, crashed := exprParse(s)
	if crashed != nil {
		return "CRASH"
	}
	if err != nil {
		return "ERR"
	}
	sx, ok := exprSexp(e)
	if !ok {
		return "OUTSIDE-AST " + sx
	}
	sql, crashed := func() (out string, c any) {
		defer func() {
			if r := recover(); r != nil {
				c = r
			}
		}()
		return e.SQL(), nil
	}()
	if crashed != nil {
		return fmt.Sprintf("OK %s SQLCRASH", sx)
	}
	rt := " rt=0"
	if got, ok := exprLexYield(sql); ok && got == strings.Join(exprYield(e), " ")+" <eof>:-" {
		rt = " rt=1"
	}
	return "OK " + sx + " " + hx(sql) + rt
}

// exprTokKey: a token as the grammar sees it (kind and, for literals and names, value); "<>" is "!=".
func exprTokKey(t *token.Token) string {
	k := string(t.Kind)
	if k == "<>" {
		k = "!="
	}
	v := ""
	switch t.Kind {
	case token.TokenIdent, token.TokenParam, token.TokenString, token.TokenBytes:
		v = t.AsString
	case token.TokenInt, token.TokenFloat:
		v = t.Raw
	}
	return k + ":" + hx(v)
}

// exprLexYield lexes s and returns the token sequence (with <eof>) in the notation of exprYield.
func exprLexYield(s string) (string, bool) {
	toks, err, crashed := exprLexAll(s)
	if err != nil || crashed != nil {
		return "", false
	}
	parts := make([]string, len(toks))
	for i := range toks {
		parts[i] = exprTokKey(&toks[i])
	}
	return strings.Join(parts, " "), true
}

// exprYield: the token sequence of an AST of the fragment (`yield` of MF/Spec/Precedence.lean with canonical
// position keywords): operators and keywords by their kind, literals and names with their value; a ParenExpr is
// "(" operand ")"; a numeric literal with a folded sign is the sign followed by the unsigned literal.
func exprYield(n ast.Node) []string {
	kw := func(ks ...string) []string {
		out := make([]string, len(ks))
		for i, k := range ks {
			out[i] = k + ":-"
		}
		return out
	}
	cat := func(parts ...[]string) []string {
		var out []string
		for _, p := range parts {
			out = append(out, p...)
		}
		return out
	}
	num := func(kind, v string) []string {
		if len(v) > 0 && (v[0] == '+' || v[0] == '-') {
			return []string{v[:1] + ":-", kind + ":" + hx(v[1:])}
		}
		return []string{kind + ":" + hx(v)}
	}
	not := func(b bool) []string {
		if b {
			return kw("NOT")
		}
		return nil
	}
	switch n := n.(type) {
	case *ast.NullLiteral:
		return kw("NULL")
	case *ast.BoolLiteral:
		if n.Value {
			return kw("TRUE")
		}
		return kw("FALSE")
	case *ast.IntLiteral:
		return num("<int>", n.Value)
	case *ast.FloatLiteral:
		return num("<float>", n.Value)
	case *ast.StringLiteral:
		return []string{"<string>:" + hx(n.Value)}
	case *ast.BytesLiteral:
		return []string{"<bytes>:" + hx(string(n.Value))}
	case *ast.Param:
		return []string{"<param>:" + hx(n.Name)}
	case *ast.Ident:
		return []string{"<ident>:" + hx(n.Name)}
	case *ast.Path:
		var out []string
		for i, id := range n.Idents {
			if i > 0 {
				out = append(out, ".:-")
			}
			out = append(out, "<ident>:"+hx(id.Name))
		}
		return out
	case *ast.ParenExpr:
		return cat(kw("("), exprYield(n.Expr), kw(")"))
	case *ast.UnaryExpr:
		return cat(kw(string(n.Op)), exprYield(n.Expr))
	case *ast.BinaryExpr:
		return cat(exprYield(n.Left), kw(strings.Split(string(n.Op), " ")...), exprYield(n.Right))
	case *ast.IsNullExpr:
		return cat(exprYield(n.Left), kw("IS"), not(n.Not), kw("NULL"))
	case *ast.IsBoolExpr:
		b := "FALSE"
		if n.Right {
			b = "TRUE"
		}
		return cat(exprYield(n.Left), kw("IS"), not(n.Not), kw(b))
	case *ast.BetweenExpr:
		return cat(exprYield(n.Left), not(n.Not), kw("BETWEEN"), exprYield(n.RightStart), kw("AND"), exprYield(n.RightEnd))
	case *ast.InExpr:
		switch c := n.Right.(type) {
		case *ast.ValuesInCondition:
			out := cat(exprYield(n.Left), not(n.Not), kw("IN", "("))
			for i, x := range c.Exprs {
				if i > 0 {
					out = append(out, ",:-")
				}
				out = append(out, exprYield(x)...)
			}
			return append(out, "):-")
		case *ast.UnnestInCondition:
			return cat(exprYield(n.Left), not(n.Not), kw("IN", "UNNEST", "("), exprYield(c.Expr), kw(")"))
		}
	case *ast.SelectorExpr:
		return cat(exprYield(n.Expr), kw("."), []string{"<ident>:" + hx(n.Ident.Name)})
	case *ast.IndexExpr:
		switch ix := n.Index.(type) {
		case *ast.ExprArg:
			return cat(exprYield(n.Expr), kw("["), exprYield(ix.Expr), kw("]"))
		case *ast.SubscriptSpecifierKeyword:
			return cat(exprYield(n.Expr), kw("["), []string{"<ident>:" + hx(string(ix.Keyword))}, kw("("), exprYield(ix.Expr), kw(")", "]"))
		}
	case *ast.CaseExpr:
		out := kw("CASE")
		if n.Expr != nil {
			out = append(out, exprYield(n.Expr)...)
		}
		for _, w := range n.Whens {
			out = cat(out, kw("WHEN"), exprYield(w.Cond), kw("THEN"), exprYield(w.Then))
		}
		if n.Else != nil {
			out = cat(out, kw("ELSE"), exprYield(n.Else.Expr))
		}
		return append(out, "END:-")
	case *ast.IfExpr:
		return cat(kw("IF", "("), exprYield(n.Expr), kw(","), exprYield(n.TrueResult), kw(","), exprYield(n.ElseResult), kw(")"))
	case *ast.CastExpr:
		var ty []string
		switch t := n.Type.(type) {
		case *ast.NamedType:
			for i, id := range t.Path {
				if i > 0 {
					ty = append(ty, ".:-")
				}
				ty = append(ty, "<ident>:"+hx(id.Name))
			}
		default:
			ty = []string{"?"}
		}
		return cat(kw("CAST", "("), exprYield(n.Expr), kw("AS"), ty, kw(")"))
	case *ast.ArrayLiteral:
		out := kw("[")
		for i, x := range n.Values {
			if i > 0 {
				out = append(out, ",:-")
			}
			out = append(out, exprYield(x)...)
		}
		return append(out, "]:-")
	}
	return []string{"?"}
}
