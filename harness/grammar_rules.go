package main

import (
	"strings"

	"github.com/cloudspannerecosystem/memefish/token"
)

// The productions of G (see grammar.go for the notation).  Each block names the documentation page it is written from.

// query_expr, split by its first clause (WITH / FROM-first / neither) and by what follows the body (FOR UPDATE / pipe operators)
var gQueryAlts = []string{
	"plain: query_body [ order_by ] [ limit_clause ] [ for_update ]",
	"piped: query_body [ order_by ] [ limit_clause ] {1 pipe_op }",
	"from_first: FROM table_expr {0 pipe_op }",
	"with: with_clause query_body [ order_by ] [ limit_clause ] [ for_update ]",
	"with_piped: with_clause query_body [ order_by ] [ limit_clause ] {1 pipe_op }",
	"with_from_first: with_clause FROM table_expr {0 pipe_op }",
}

func gRuleFrom(name string, alts []string) gSrc { return gSrc{name: name, alts: alts} }

var gRules = []gSrc{
	// ------------------------------------------------------------------------------------------
	// Statement level: "query_statement: [statement_hint_expr] query_expr" (query syntax); DML statements may carry a
	// statement hint (DML syntax); CALL procedure_name(args) (procedural language).
	root("query_statement", "ParseQuery", "[ hint ] query"),
	root("dml", "ParseDML", "[ hint ] insert", "[ hint ] update", "[ hint ] delete"),
	root("call_statement", "ParseStatement", "CALL path ~( {0 expr / , } )"),

	// hints: @{ key = value [, ...] } ; keys may be qualified (spanner_emulator.x); values are names, numbers, booleans, strings
	rule("hint", "~@~ '{' {1 hint_record / , } '}'"),
	rule("hint_record", "hint_key = hint_value"),
	rule("hint_key", "ident", "qualified: ident ~.~ ident"),
	rule("hint_value", "ident", "int_lit", "TRUE", "FALSE", "string_lit"),

	// ------------------------------------------------------------------------------------------
	// Query syntax.
	// query_expr: [WITH cte[, ...]] { select | ( query_expr ) | set_operation } [ORDER BY ...] [LIMIT count [OFFSET skip_rows]] [FOR UPDATE]
	// pipe syntax: query_expr |> pipe_operator ..., and FROM-first queries.
	gRuleFrom("query", gQueryAlts),
	// the query_expr of an expression subquery, an IN subquery and a table subquery: the same language as `query` (same
	// alternatives); a non-terminal of its own only so that findings about these three contexts can be named
	gRuleFrom("nested_query", gQueryAlts),
	rule("with_clause", "WITH {1 cte / , }"),
	rule("cte", "ident AS ( query )"),
	rule("query_body", "select", "paren_query", "set_operation"),
	rule("paren_query", "( query )"),
	rule("query_term", "select", "paren_query"),
	// set_operation: query_expr set_operator query_expr; a chain uses one operator (different operators need parentheses)
	rule("set_operation",
		"union_all: {2 query_term / UNION ALL }",
		"union_distinct: {2 query_term / UNION DISTINCT }",
		"intersect_all: {2 query_term / INTERSECT ALL }",
		"intersect_distinct: {2 query_term / INTERSECT DISTINCT }",
		"except_all: {2 query_term / EXCEPT ALL }",
		"except_distinct: {2 query_term / EXCEPT DISTINCT }"),
	// select: SELECT [{ALL|DISTINCT}] [AS {typename|STRUCT|VALUE}] select_list [FROM ...] [WHERE ...] [GROUP BY ...] [HAVING ...]
	rule("select", "SELECT [ all_distinct ] [ select_as ] {1 select_item / , } [ from_clause [ where_clause ] [ group_by ] [ having ] ]"),
	rule("all_distinct", "ALL", "DISTINCT"),
	rule("select_as", "struct: AS STRUCT", "value: AS VALUE", "typename: AS path"),
	// select_list item: expression [[AS] alias] | [expression.]* [EXCEPT (...)] [REPLACE (expression [AS] column_name, ...)]
	rule("select_item",
		"expr: expr",
		"aliased: expr AS ident",
		"implicit_alias: expr ident",
		"star: * [ star_except ] [ star_replace ]",
		"dot_star: accessible ~.~ * [ star_except ] [ star_replace ]"),
	rule("star_except", "EXCEPT ( {1 ident / , } )"),
	rule("star_replace", "REPLACE ( {1 replace_item / , } )"),
	rule("replace_item", "expr AS ident"),
	rule("from_clause", "FROM table_expr"),
	// from_item: table | join_operation | ( join_operation ) | ( query_expr ) | field_path | unnest_operator | table function.
	// "Join operations in a sequence": joins associate left to right; a comma cross join cannot be written inside parentheses
	// ("FROM a CROSS JOIN (b, c)" is invalid) and no RIGHT or FULL join may follow a comma cross join ("FROM a, b RIGHT JOIN c" is invalid).
	rule("table_expr", "joins", "after_comma"),
	rule("joins", "table_primary", "join_operation"),
	rule("join_operation",
		"cross: joins CROSS JOIN [ hint ] table_primary",
		"cond: joins cond_join [ hint ] table_primary join_cond"),
	rule("after_comma",
		"comma: table_expr , table_primary",
		"cross: after_comma CROSS JOIN [ hint ] table_primary",
		"cond: after_comma inner_left_join [ hint ] table_primary join_cond"),
	rule("inner_left_join", "JOIN", "INNER JOIN", "HASH JOIN", "LEFT JOIN", "LEFT OUTER JOIN"),
	rule("cond_join", "JOIN", "INNER JOIN", "HASH JOIN", "FULL JOIN", "FULL OUTER JOIN", "LEFT JOIN", "LEFT OUTER JOIN", "RIGHT JOIN", "RIGHT OUTER JOIN"),
	rule("join_cond", "on: ON expr", "using: USING ( {1 ident / , } )"),
	rule("table_primary",
		"table: path [ hint ] [ as_alias ] [ tablesample ]",
		"unnest: UNNEST ~( expr ) [ as_alias ] [ with_offset ]",
		"array_path_offset: ident ~.~ path [ as_alias ] with_offset",
		"subquery: ( nested_query ) [ as_alias ] [ tablesample ]",
		"paren_join: ( join_operation ) [ tablesample ]",
		"tvf: path ~( tvf_args ) [ hint ]"),
	rule("as_alias", "as: AS ident", "implicit: ident"),
	rule("with_offset", "WITH OFFSET [ as_alias ]"),
	// tablesample_operator: TABLESAMPLE { BERNOULLI | RESERVOIR } ( sample_size { PERCENT | ROWS } )
	rule("tablesample", "TABLESAMPLE sample_method ( sample_size sample_unit )"),
	rule("sample_method", "BERNOULLI", "RESERVOIR"),
	rule("sample_size", "int_lit", "float_lit", "param"),
	rule("sample_unit", "PERCENT", "ROWS"),
	// table-valued functions: change stream read functions (named arguments) and ML.PREDICT(MODEL m, {TABLE t | (query)} [, STRUCT(...)])
	rule("tvf_args", "positional: {0 tvf_arg / , }", "named: {1 named_arg / , }", "mixed: {1 tvf_arg / , } , {1 named_arg / , }"),
	rule("tvf_arg", "expr", "table: TABLE path", "model: MODEL path"),
	rule("named_arg", "ident => expr"),
	rule("where_clause", "WHERE expr"),
	rule("group_by", "GROUP BY {1 expr / , }"),
	rule("having", "HAVING expr"),
	// ORDER BY expression [COLLATE collation_specification] [{ASC|DESC}] [, ...]
	rule("order_by", "ORDER BY {1 order_item / , }"),
	rule("order_item", "expr [ collate ] [ asc_desc ]"),
	rule("collate", "COLLATE string_lit", "COLLATE param"),
	rule("asc_desc", "ASC", "DESC"),
	rule("limit_clause", "LIMIT int_value [ OFFSET int_value ]"),
	rule("int_value", "int_lit", "param"),
	rule("for_update", "FOR UPDATE"),
	rule("pipe_op",
		"select: |> SELECT [ all_distinct ] [ select_as ] {1 select_item / , }",
		"where: |> WHERE expr"),

	// ------------------------------------------------------------------------------------------
	// Expressions: operators page; one non-terminal per row of the precedence table (highest binds tightest):
	// 1 field access, subscript; 2 unary + - ~; 3 * / ||; 4 + -; 5 << >>; 6 &; 7 ^; 8 |; 9 comparison (= < > <= >= != <>,
	// [NOT] LIKE, [NOT] BETWEEN, [NOT] IN, IS [NOT] NULL/TRUE/FALSE; not associative); 10 NOT; 11 AND; 12 OR.
	root("expr", "ParseExpr", "or_expr"),
	rule("or_expr", "and_expr", "or: or_expr OR and_expr"),
	rule("and_expr", "not_expr", "and: and_expr AND not_expr"),
	rule("not_expr", "cmp_expr", "not: NOT not_expr"),
	rule("cmp_expr",
		"bit_or",
		"eq: bit_or = bit_or",
		"ne: bit_or != bit_or",
		"ne2: bit_or <> bit_or",
		"lt: bit_or < bit_or",
		"le: bit_or <= bit_or",
		"gt: bit_or > bit_or",
		"ge: bit_or >= bit_or",
		"like: bit_or [ NOT ] LIKE bit_or",
		"between: bit_or [ NOT ] BETWEEN bit_or AND bit_or",
		"in_list: bit_or [ NOT ] IN ( {1 expr / , } )",
		"in_unnest: bit_or [ NOT ] IN UNNEST ~( expr )",
		"in_subquery: bit_or [ NOT ] IN ( nested_query )",
		"is_null: bit_or IS [ NOT ] NULL",
		"is_true: bit_or IS [ NOT ] TRUE",
		"is_false: bit_or IS [ NOT ] FALSE"),
	rule("bit_or", "bit_xor", "or: bit_or | bit_xor"),
	rule("bit_xor", "bit_and", "xor: bit_xor ^ bit_and"),
	rule("bit_and", "shift", "and: bit_and & shift"),
	rule("shift", "additive", "left: shift << additive", "right: shift >> additive"),
	rule("additive", "multiplicative", "add: additive + multiplicative", "sub: additive - multiplicative"),
	rule("multiplicative", "unary", "mul: multiplicative * unary", "div: multiplicative '/' unary", "concat: multiplicative || unary"),
	rule("unary", "postfix", "neg: -~ unary", "pos: +~ unary", "bitnot: '~' unary"),
	rule("postfix", "accessible", "primary"),
	// expressions on which the field access and subscript operators are written in the documentation's examples
	rule("accessible",
		"name: ident",
		"param: param",
		"paren: ( expr )",
		"field: accessible ~.~ ident",
		"kwfield: dotable ~.~ dot_ident",
		"subscript: accessible ~'[' subscript ']'",
		"call: call",
		"scalar_subquery: ( nested_query )",
		"array: array_lit",
		"struct: typeless_struct",
		"cast: cast"),
	// operands after which the lexical rule for path expressions applies (they end in a name, a parameter, ")" or "]"): the field name may be spelled like a reserved keyword
	rule("dotable", "name: ident", "param: param", "paren: ( expr )", "field: dotable ~.~ dot_ident", "subscript: dotable ~'[' subscript ']'", "call: func_name ~( call_args )"),
	// array subscript operator: array[{ index | OFFSET(i) | SAFE_OFFSET(i) | ORDINAL(i) | SAFE_ORDINAL(i) }]; JSON subscript json[key]
	rule("subscript", "index: expr", "offset: OFFSET ~( expr )", "safe_offset: SAFE_OFFSET ~( expr )", "ordinal: ORDINAL ~( expr )", "safe_ordinal: SAFE_ORDINAL ~( expr )"),
	rule("primary",
		"int: int_lit", "float: float_lit", "string: string_lit", "bytes: bytes_lit",
		"null: NULL", "true: TRUE", "false: FALSE",
		"date: DATE string_lit", "timestamp: TIMESTAMP string_lit", "numeric: NUMERIC string_lit", "json: JSON string_lit",
		"tuple_struct: ( expr , {1 expr / , } )",
		"typed_struct: struct_type ~( {0 expr / , } )",
		"case_value: CASE expr {1 when_clause } [ else_clause ] END",
		"case_searched: CASE {1 when_clause } [ else_clause ] END",
		"if: IF ~( expr , expr , expr )",
		"extract: EXTRACT ~( date_part FROM expr [ AT TIME ZONE expr ] )",
		"array_subquery: ARRAY ~( query )",
		"exists: EXISTS ~( query )",
		"new: NEW path ~( {0 new_arg / , } )",
		"braced_new: NEW path braced",
		"with_expr: WITH ~( {1 with_var / , } , expr )",
		"replace_fields: REPLACE_FIELDS ~( expr , {1 replace_fields_arg / , } )"),
	// data types page, "array literals / struct literals": [..], ARRAY[..], ARRAY<T>[..]; (a, b), STRUCT(..), STRUCT<..>(..)
	rule("array_lit", "bare: '[' {0 expr / , } ']'", "array: ARRAY ~'[' {0 expr / , } ']'", "typed: ARRAY ~<~ type ~>~ ~'[' {0 expr / , } ']'"),
	rule("typeless_struct", "STRUCT ~( {0 struct_arg / , } )"),
	rule("struct_arg", "expr", "named: expr AS ident"),
	rule("when_clause", "WHEN expr THEN expr"),
	rule("else_clause", "ELSE expr"),
	rule("cast", "cast: CAST ~( expr AS type )", "safe_cast: SAFE_CAST ~( expr AS type )"),
	rule("date_part", "YEAR", "MONTH", "DAY", "DAYOFWEEK", "DAYOFYEAR", "QUARTER", "HOUR", "MINUTE", "SECOND", "MILLISECOND", "MICROSECOND", "NANOSECOND", "WEEK", "ISOWEEK", "ISOYEAR", "DATE"),
	// function calls: f([DISTINCT] args [{IGNORE|RESPECT} NULLS] [HAVING {MAX|MIN} e]) [hint]; SAFE. prefix; NET./ML.-style
	// qualified names; named arguments (name => value); lambda arguments; INTERVAL n part and SEQUENCE s arguments
	rule("call",
		"call: func_name ~( call_args ) [ hint ]",
		"count_star: COUNT ~( * )"),
	rule("func_name", "ident", "safe: SAFE ~.~ ident", "qualified: ident ~.~ ident"),
	rule("call_args",
		"empty:",
		"positional: [ DISTINCT ] {1 arg / , } [ null_handling ] [ having_modifier ]",
		"named: {1 named_arg / , }",
		"mixed: {1 arg / , } , {1 named_arg / , }"),
	rule("arg", "expr", "interval: INTERVAL expr date_part", "sequence: SEQUENCE path", "lambda"),
	rule("lambda", "one: ident -> expr", "paren: ( {1 ident / , } ) -> expr"),
	rule("null_handling", "IGNORE NULLS", "RESPECT NULLS"),
	rule("having_modifier", "HAVING MAX expr", "HAVING MIN expr"),
	// NEW operator: NEW proto (value [AS field], ...) and NEW proto { field: value  sub { ... } }
	rule("new_arg", "expr", "named: expr AS ident"),
	rule("braced", "juxtaposed: '{' {0 braced_field } '}'", "commas: '{' {2 braced_field / , } '}'"),
	rule("braced_field", "value: ident : expr", "message: ident braced", "message_colon: ident : braced"),
	rule("with_var", "ident AS expr"),
	rule("replace_fields_arg", "expr AS path"),

	// ------------------------------------------------------------------------------------------
	// Data types (as written in CAST, literals and constructors): scalar names, ARRAY<T>, STRUCT<[name] T, ...>, proto / enum names
	root("type", "ParseType", "scalar_type", "array_type", "struct_type", "named: path"),
	rule("scalar_type", "BOOL", "INT64", "FLOAT32", "FLOAT64", "NUMERIC", "STRING", "BYTES", "DATE", "TIMESTAMP", "JSON"),
	rule("array_type", "ARRAY ~<~ type ~>"),
	rule("struct_type", "STRUCT ~<~ {1 struct_field / , } ~>"),
	rule("struct_field", "unnamed: type", "named: ident type"),

	// ------------------------------------------------------------------------------------------
	// DML syntax.
	// INSERT [OR IGNORE | OR UPDATE] [INTO] table (columns) { VALUES (..)[, ..] | query } [THEN RETURN ...]
	rule("insert", "INSERT [ insert_or ] [ INTO ] table_name ( {1 ident / , } ) insert_input [ then_return ]"),
	rule("insert_or", "OR IGNORE", "OR UPDATE"),
	rule("insert_input", "values: VALUES {1 values_row / , }", "query: query"),
	rule("values_row", "( {1 value_or_default / , } )"),
	rule("value_or_default", "expr", "default: DEFAULT"),
	// UPDATE table [hint] [[AS] alias] SET item[, ...] WHERE cond [THEN RETURN ...]
	rule("update", "UPDATE table_name [ hint ] [ as_alias ] SET {1 update_item / , } WHERE expr [ then_return ]"),
	rule("update_item", "path = value_or_default"),
	// DELETE [FROM] table [hint] [[AS] alias] WHERE cond [THEN RETURN ...]
	rule("delete", "DELETE [ FROM ] table_name [ hint ] [ as_alias ] WHERE expr [ then_return ]"),
	// THEN RETURN [WITH ACTION [AS alias]] { select_all | expression [[AS] alias] }[, ...]
	rule("then_return", "THEN RETURN [ with_action ] {1 select_item / , }"),
	rule("with_action", "WITH ACTION [ AS ident ]"),

	// ------------------------------------------------------------------------------------------
	// DDL reference.
	root("ddl", "ParseDDL",
		"create_database", "alter_database", "create_schema", "drop_schema", "create_placement",
		"create_locality_group", "alter_locality_group", "drop_locality_group",
		"create_proto_bundle", "alter_proto_bundle", "drop_proto_bundle",
		"create_table", "alter_table", "drop_table", "rename_table",
		"create_index", "alter_index", "drop_index",
		"create_search_index", "alter_search_index", "drop_search_index",
		"create_vector_index", "drop_vector_index",
		"create_view", "drop_view",
		"create_change_stream", "alter_change_stream", "drop_change_stream",
		"create_sequence", "alter_sequence", "drop_sequence",
		"create_model", "alter_model", "drop_model",
		"create_role", "drop_role", "grant", "revoke",
		"alter_statistics", "analyze",
		"create_property_graph", "drop_property_graph"),
	rule("options", "OPTIONS ( {1 option_def / , } )"),
	rule("option_def", "ident = option_value"),
	rule("option_value", "string_lit", "int_lit", "TRUE", "FALSE", "NULL", "strings: '[' {1 string_lit / , } ']'"),
	rule("create_database", "CREATE DATABASE ident"),
	rule("alter_database", "ALTER DATABASE ident SET options"),
	rule("create_schema", "CREATE SCHEMA ident"),
	rule("drop_schema", "DROP SCHEMA ident"),
	rule("create_placement", "CREATE PLACEMENT ident options"),
	rule("create_locality_group", "CREATE LOCALITY GROUP ident [ options ]"),
	rule("alter_locality_group", "ALTER LOCALITY GROUP ident SET options"),
	rule("drop_locality_group", "DROP LOCALITY GROUP ident"),
	rule("create_proto_bundle", "CREATE PROTO BUNDLE ( {1 path / , } )"),
	rule("alter_proto_bundle", "ALTER PROTO BUNDLE [ INSERT ( {1 path / , } ) ] [ UPDATE ( {1 path / , } ) ] [ DELETE ( {1 path / , } ) ]"),
	rule("drop_proto_bundle", "DROP PROTO BUNDLE"),
	// CREATE TABLE [IF NOT EXISTS] name ( element[, ...] ) [PRIMARY KEY (key_part, ...)] [, INTERLEAVE IN [PARENT] t [ON DELETE ..]]
	//   [, ROW DELETION POLICY (OLDER_THAN(col, INTERVAL n DAY))] [, OPTIONS (...)]
	rule("create_table", "CREATE TABLE [ IF NOT EXISTS ] table_name ( {1 table_element / , } ) [ PRIMARY KEY ( {0 key_part / , } ) ] [ , interleave ] [ , row_deletion_policy ] [ , options ]"),
	rule("table_element", "column: column_def", "constraint: table_constraint", "synonym: SYNONYM ( ident )"),
	// (round 3, seed C06h) HIDDEN and PRIMARY KEY are independent attributes (the ColumnDef template of ast/ast.go prints both, in this order)
	rule("column_def", "ident column_type [ NOT NULL ] [ column_default ] [ HIDDEN ] [ PRIMARY KEY ] [ options ]"),
	rule("column_default",
		"default: DEFAULT ( expr )",
		"generated: AS ( expr ) [ STORED ]",
		"identity: GENERATED BY DEFAULT AS IDENTITY [ ( identity_options ) ]",
		"auto_increment: AUTO_INCREMENT"),
	rule("identity_options", "BIT_REVERSED_POSITIVE [ skip_range ] [ start_counter ]", "skip_range [ start_counter ]", "start_counter"),
	rule("skip_range", "SKIP RANGE int_lit , int_lit"),
	rule("start_counter", "START COUNTER WITH int_lit"),
	rule("table_constraint", "[ CONSTRAINT ident ] constraint_body"),
	rule("constraint_body",
		"check: CHECK ( expr )",
		"foreign_key: FOREIGN KEY ( {1 ident / , } ) REFERENCES table_name ( {1 ident / , } ) [ on_delete ] [ enforcement ]"),
	rule("on_delete", "ON DELETE CASCADE", "ON DELETE NO ACTION"),
	rule("enforcement", "ENFORCED", "NOT ENFORCED"),
	rule("key_part", "ident [ asc_desc ]"),
	rule("interleave", "parent: INTERLEAVE IN PARENT table_name [ on_delete ]", "in: INTERLEAVE IN table_name"),
	rule("row_deletion_policy", "ROW DELETION POLICY ( OLDER_THAN ~( ident , INTERVAL int_lit DAY ) )"),
	// column types of the DDL: scalar names, STRING(n|MAX), BYTES(n|MAX), ARRAY<T>[(vector_length=>n)], proto / enum names
	rule("column_type", "scalar_column_type", "sized_type", "array: ARRAY ~<~ element_type ~> [ ~( VECTOR_LENGTH => int_lit ) ]", "named: path"),
	rule("element_type", "scalar_column_type", "sized_type", "named: path"),
	rule("scalar_column_type", "BOOL", "INT64", "FLOAT32", "FLOAT64", "NUMERIC", "DATE", "TIMESTAMP", "JSON", "TOKENLIST"),
	rule("sized_type", "STRING ~( MAX )", "STRING ~( int_lit )", "BYTES ~( MAX )", "BYTES ~( int_lit )"),
	// ALTER TABLE
	rule("alter_table", "ALTER TABLE table_name table_alteration"),
	rule("table_alteration",
		"add_column: ADD COLUMN [ IF NOT EXISTS ] column_def",
		"add_column_short: ADD [ IF NOT EXISTS ] column_def",
		"drop_column: DROP COLUMN ident",
		"drop_column_short: DROP ident",
		"alter_column: ALTER COLUMN ident column_alteration",
		"alter_column_short: ALTER ident column_alteration",
		"add_constraint: ADD table_constraint",
		"drop_constraint: DROP CONSTRAINT ident",
		"set_on_delete: SET on_delete",
		"set_interleave: SET interleave",
		"add_synonym: ADD SYNONYM ident",
		"drop_synonym: DROP SYNONYM ident",
		"rename_to: RENAME TO ident [ , ADD SYNONYM ident ]",
		"add_row_deletion_policy: ADD row_deletion_policy",
		"replace_row_deletion_policy: REPLACE row_deletion_policy",
		"drop_row_deletion_policy: DROP ROW DELETION POLICY",
		"set_options: SET options"),
	rule("column_alteration",
		"type: column_type [ NOT NULL ] [ DEFAULT ( expr ) ]",
		"set_options: SET options",
		"set_default: SET DEFAULT ( expr )",
		"drop_default: DROP DEFAULT",
		"alter_identity: ALTER IDENTITY identity_alteration"),
	rule("identity_alteration", "SET skip_range", "SET NO SKIP RANGE", "RESTART COUNTER WITH int_lit"),
	rule("drop_table", "DROP TABLE [ IF EXISTS ] table_name"),
	rule("rename_table", "RENAME TABLE {1 rename_pair / , }"),
	rule("rename_pair", "ident TO ident"),
	// indexes
	rule("create_index", "CREATE [ UNIQUE ] [ NULL_FILTERED ] INDEX [ IF NOT EXISTS ] table_name ON table_name ( {1 key_part / , } ) [ storing ] [ , INTERLEAVE IN index_parent ] [ options ]"),
	rule("index_parent", "ident", "qualified: ident ~.~ ident"),
	rule("storing", "STORING ( {1 ident / , } )"),
	rule("alter_index", "ALTER INDEX table_name stored_column_alteration"),
	rule("stored_column_alteration", "ADD STORED COLUMN ident", "DROP STORED COLUMN ident"),
	rule("drop_index", "DROP INDEX [ IF EXISTS ] table_name"),
	rule("create_search_index", "CREATE SEARCH INDEX ident ON ident ( {1 ident / , } ) [ storing ] [ PARTITION BY {1 ident / , } ] [ ORDER BY {1 key_part / , } ] [ WHERE null_filter ] [ , INTERLEAVE IN ident ] [ options ]"),
	rule("null_filter", "{1 ident IS NOT NULL / AND }"),
	rule("alter_search_index", "ALTER SEARCH INDEX ident stored_column_alteration"),
	rule("drop_search_index", "DROP SEARCH INDEX [ IF EXISTS ] ident"),
	rule("create_vector_index", "CREATE VECTOR INDEX [ IF NOT EXISTS ] ident ON ident ( ident ) [ WHERE ident IS NOT NULL ] options"),
	rule("drop_vector_index", "DROP VECTOR INDEX [ IF EXISTS ] ident"),
	// views
	rule("create_view", "CREATE [ OR REPLACE ] VIEW table_name SQL SECURITY security_type AS query"),
	rule("security_type", "INVOKER", "DEFINER"),
	rule("drop_view", "DROP VIEW table_name"),
	// change streams
	rule("create_change_stream", "CREATE CHANGE STREAM ident [ change_stream_for ] [ options ]"),
	rule("change_stream_for", "all: FOR ALL", "tables: FOR {1 change_stream_table / , }"),
	// table_name [ ( [ column_name, ... ] ) ]: "t()" watches the key columns only
	rule("change_stream_table", "table: ident", "columns: ident ~( {1 ident / , } )", "no_columns: ident ~( )"),
	rule("alter_change_stream", "ALTER CHANGE STREAM ident change_stream_alteration"),
	rule("change_stream_alteration", "set_for: SET change_stream_for", "drop_for_all: DROP FOR ALL", "set_options: SET options"),
	rule("drop_change_stream", "DROP CHANGE STREAM ident"),
	// sequences
	// CREATE SEQUENCE [IF NOT EXISTS] name [BIT_REVERSED_POSITIVE] [SKIP RANGE a, b] [START COUNTER WITH n] [OPTIONS (...)]
	// (two alternatives, with and without the optional OPTIONS clause, so that the second can be listed as a known finding)
	rule("create_sequence",
		"with_options: CREATE SEQUENCE [ IF NOT EXISTS ] table_name [ BIT_REVERSED_POSITIVE ] [ skip_range ] [ start_counter ] options",
		"without_options: CREATE SEQUENCE [ IF NOT EXISTS ] table_name [ BIT_REVERSED_POSITIVE ] [ skip_range ] [ start_counter ]"),
	rule("alter_sequence", "ALTER SEQUENCE table_name sequence_alteration"),
	rule("sequence_alteration", "set_options: SET options", "skip_range: skip_range", "no_skip_range: NO SKIP RANGE", "restart: RESTART COUNTER WITH int_lit"),
	rule("drop_sequence", "DROP SEQUENCE [ IF EXISTS ] table_name"),
	// models: { CREATE MODEL | CREATE OR REPLACE MODEL | CREATE MODEL IF NOT EXISTS } name [INPUT (..) OUTPUT (..)] REMOTE [OPTIONS (..)]
	rule("create_model", "create: CREATE MODEL ident model_body", "or_replace: CREATE OR REPLACE MODEL ident model_body", "if_not_exists: CREATE MODEL IF NOT EXISTS ident model_body"),
	rule("model_body", "[ INPUT ( {1 model_column / , } ) OUTPUT ( {1 model_column / , } ) ] REMOTE [ options ]"),
	rule("model_column", "ident column_type [ options ]"),
	rule("alter_model", "ALTER MODEL [ IF EXISTS ] ident SET options"),
	rule("drop_model", "DROP MODEL [ IF EXISTS ] ident"),
	// roles and privileges
	rule("create_role", "CREATE ROLE ident"),
	rule("drop_role", "DROP ROLE ident"),
	rule("grant", "GRANT privilege TO ROLE {1 ident / , }"),
	rule("revoke", "REVOKE privilege FROM ROLE {1 ident / , }"),
	rule("privilege",
		"on_table: {1 table_privilege / , } ON TABLE {1 granted_table / , }",
		"on_view: SELECT ON VIEW {1 ident / , }",
		"on_change_stream: SELECT ON CHANGE STREAM {1 ident / , }",
		"on_table_function: EXECUTE ON TABLE FUNCTION {1 ident / , }",
		"role: ROLE {1 ident / , }"),
	rule("granted_table", "ident", "qualified: ident ~.~ ident"),
	rule("table_privilege", "select: SELECT [ ~( {1 ident / , } ) ]", "insert: INSERT [ ~( {1 ident / , } ) ]", "update: UPDATE [ ~( {1 ident / , } ) ]", "delete: DELETE"),
	rule("alter_statistics", "ALTER STATISTICS ident SET options"),
	rule("analyze", "ANALYZE"),
	// graph schema statements
	rule("create_property_graph", "CREATE [ OR REPLACE ] PROPERTY GRAPH [ IF NOT EXISTS ] ident NODE TABLES ( {1 node_element / , } ) [ EDGE TABLES ( {1 edge_element / , } ) ]"),
	rule("node_element", "ident [ AS ident ] [ element_key ] [ labels_or_properties ]"),
	rule("edge_element", "ident [ AS ident ] [ element_key ] source_key destination_key [ labels_or_properties ]"),
	rule("element_key", "KEY column_list"),
	rule("column_list", "( {1 ident / , } )"),
	rule("source_key", "SOURCE KEY column_list REFERENCES ident [ column_list ]"),
	rule("destination_key", "DESTINATION KEY column_list REFERENCES ident [ column_list ]"),
	rule("labels_or_properties", "labels: {1 label_and_properties }", "properties: element_properties"),
	rule("label_and_properties", "element_label [ element_properties ]"),
	rule("element_label", "label: LABEL ident", "default: DEFAULT LABEL"),
	rule("element_properties",
		"none: NO PROPERTIES",
		"all: PROPERTIES [ ARE ] ALL COLUMNS [ EXCEPT column_list ]",
		"derived: PROPERTIES ( {1 derived_property / , } )"),
	rule("derived_property", "expr [ AS ident ]"),
	rule("drop_property_graph", "DROP PROPERTY GRAPH [ IF EXISTS ] ident"),

	// a path is a dot-separated list of identifiers (table in a named schema, proto type, function in a namespace, field path)
	rule("path", "ident {0 ~.~ dot_ident }"),
	// object names of DDL and DML: name, or schema.name for an object in a named schema
	rule("table_name", "ident", "qualified: ident ~.~ ident"),
}

// Lexical structure page: literal spellings and identifiers, each with the token value the generator expects.
var gLexRules = []gLexSrc{
	{name: "int_lit", cycle: 4, alts: []gLexAlt{{"1", "num:1"}, {"2", "num:2"}, {"3", "num:3"}, {"4", "num:4"}, {"0", "num:0"}, {"123", "num:123"},
		{"0x1F", "num:0X1F"}, {"0Xabc", "num:0XABC"}, {"9223372036854775807", "num:9223372036854775807"},
		// a decimal integer literal is a sequence of decimal digits: leading zeros do not make it octal
		{"08", "num:08"}, {"0190", "num:0190"}, {"007", "num:007"}}},
	{name: "float_lit", cycle: 1, alts: []gLexAlt{{"1.5", "num:1.5"}, {".5", "num:.5"}, {"1.", "num:1."}, {"1e10", "num:1E10"}, {"1E-3", "num:1E-3"}, {"1.5e+3", "num:1.5E+3"}, {".5E2", "num:.5E2"}}},
	{name: "string_lit", cycle: 2, alts: []gLexAlt{{"'abc'", "str:abc"}, {"'xyz'", "str:xyz"}, {`"abc"`, "str:abc"}, {"'''abc'''", "str:abc"}, {`"""a"b"""`, `str:a"b`},
		{`r'a\b'`, `str:a\b`}, {`R"a\n"`, `str:a\n`}, {`'a\nb'`, "str:a\nb"}, {`'\x41\101'`, "str:AA"}, {`'é'`, "str:é"}, {"'éあ'", "str:éあ"}, {"''", "str:"},
		{`'it\'s'`, "str:it's"}, {`r'''a'b'''`, "str:a'b"}, {"'''a\nb'''", "str:a\nb"}}},
	{name: "bytes_lit", cycle: 1, alts: []gLexAlt{{"b'abc'", "bytes:abc"}, {`B"abc"`, "bytes:abc"}, {`rb'a\b'`, `bytes:a\b`}, {`br"x"`, "bytes:x"}, {`RB'x'`, "bytes:x"}, {"b'''abc'''", "bytes:abc"},
		{`b'\x00\xff'`, "bytes:\x00\xff"}}},
	{name: "param", cycle: 2, alts: []gLexAlt{{"@p", "param:P"}, {"@q", "param:Q"}, {"@P1", "param:P1"}, {"@_x", "param:_X"}, {"@date", "param:DATE"}, {"@value", "param:VALUE"}}},
	gIdentRule(),
	// lexical structure page, "path expressions": after a dot an identifier may be spelled like a reserved keyword without back quotes
	{name: "dot_ident", cycle: 3, alts: []gLexAlt{{"f", "id:F"}, {"g", "id:G"}, {"h", "id:H"}, {"group", "id:GROUP"}, {"order", "id:ORDER"}, {"select", "id:SELECT"},
		{"hash", "id:HASH"}, {"SET", "id:SET"}, {"default", "id:DEFAULT"}, {"new", "id:NEW"}, {"range", "id:RANGE"}, {"enum", "id:ENUM"}, {"proto", "id:PROTO"},
		{"By", "id:BY"}, {"from", "id:FROM"}, {"null", "id:NULL"}, {"in", "id:IN"}, {"all", "id:ALL"}, {"`x y`", "id:X Y"}, {"date", "id:DATE"}, {"offset", "id:OFFSET"}}},
}

// ordinary names first (the default derivation rotates through them so that the positions of a sentence get distinct names),
// then quoted identifiers, then the keyword-like identifiers: words of the language that are NOT reserved (type names,
// clause words of DDL/DML, function-like words), each in lower and in upper case.
var gPlainIdents = []string{"a", "b", "c", "t", "u", "k", "x1", "_y"}
var gQuotedIdents = []gLexAlt{{"`a b`", "id:A B"}, {"`select`", "id:SELECT"}, {"`from`", "id:FROM"}, {"`Singers`", "id:SINGERS"}, {"`1a`", "id:1A"}}
var gKeywordLikeIdents = strings.Fields(`date string bytes json int64 float64 bool numeric timestamp tokenlist
	offset ordinal key value values action options stored hidden max min sequence role model language graph label
	table index view insert update delete replace first last input output percent row schema database policy parent cascade
	security invoker safe time zone year day month properties node edge source destination references stream change search vector
	bundle locality statistics generated identity counter skip start restart grant revoke function execute call rename analyze
	drop alter add remote return definer unique null_filtered storing interleave tables columns placement are count interval_x`)

func gIdentRule() gLexSrc {
	r := gLexSrc{name: "ident", cycle: len(gPlainIdents), every: true}
	for _, n := range gPlainIdents {
		r.alts = append(r.alts, gLexAlt{n, "id:" + strings.ToUpper(n)})
	}
	r.alts = append(r.alts, gQuotedIdents...)
	// a back-quoted name spelled like a keyword-like word is an ordinary name wherever a name may stand (and must stay one
	// through SQL(), which prints it without the back quotes)
	for _, n := range gKeywordLikeIdents {
		r.alts = append(r.alts, gLexAlt{"`" + n + "`", "id:" + strings.ToUpper(n)})
	}
	for _, n := range gKeywordLikeIdents {
		r.alts = append(r.alts, gLexAlt{n, "id:" + strings.ToUpper(n)}, gLexAlt{strings.ToUpper(n), "id:" + strings.ToUpper(n)})
	}
	// near misses: a name that differs from a keyword-like word in its first or its last letter is an ordinary name (a comparison
	// that skips a byte would read it as the word)
	for _, n := range gKeywordLikeIdents {
		for _, v := range []string{"x" + n[1:], n[:len(n)-1] + "x"} {
			if v != n && !token.IsKeyword(v) && !gIsKeywordLike(v) {
				r.alts = append(r.alts, gLexAlt{v, "id:" + strings.ToUpper(v)})
			}
		}
	}
	return r
}

func gIsKeywordLike(s string) bool {
	for _, n := range gKeywordLikeIdents {
		if strings.EqualFold(n, s) {
			return true
		}
	}
	return false
}
